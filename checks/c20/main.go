// C20: bound BydbQL parameters are data, never syntax.
//
// Translation validation by bounded exhaustive enumeration: every statement template (query form x legal placeholder
// position, 1..3 placeholders) x every tuple over a hostile parameter alphabet is pushed through the REAL
// parser/binder/transformer on four paths
//
//	L1  ParseQuery(literal)  + BindParams(nil)    + Transform          (value written as a properly quoted literal)
//	L2  Prepare(literal)     + Bind(nil)          + TransformBound
//	B1  ParseQuery(template) + BindParams(params) + Transform          (one-shot binder)
//	B2  Prepare(template) ONCE per template, Bind(params) + TransformBound   (production path, statement shared)
//
// and the requests are compared with proto.Equal. See NOTES.md for alphabet, bounds and oracle.
package main

import (
	"context"
	"crypto/sha256"
	"encoding/json"
	"fmt"
	"math"
	"os"
	"reflect"
	"regexp"
	"runtime"
	"runtime/debug"
	"runtime/pprof"
	"sort"
	"strconv"
	"strings"
	"sync"
	"syscall"
	"time"
	"unicode/utf8"

	"google.golang.org/protobuf/proto"
	"google.golang.org/protobuf/reflect/protoreflect"
	"google.golang.org/protobuf/types/known/structpb"
	"google.golang.org/protobuf/types/known/timestamppb"

	commonv1 "github.com/apache/skywalking-banyandb/api/proto/banyandb/common/v1"
	databasev1 "github.com/apache/skywalking-banyandb/api/proto/banyandb/database/v1"
	modelv1 "github.com/apache/skywalking-banyandb/api/proto/banyandb/model/v1"
	lgrpc "github.com/apache/skywalking-banyandb/banyand/liaison/grpc"
	"github.com/apache/skywalking-banyandb/banyand/metadata"
	"github.com/apache/skywalking-banyandb/banyand/metadata/schema"
	"github.com/apache/skywalking-banyandb/pkg/bydbql"
	"github.com/apache/skywalking-banyandb/pkg/logger"
	"github.com/apache/skywalking-banyandb/pkg/verif/ev"
)

// ---------------------------------------------------------------------------------------------------------------
// fake schema registry: one stream, one measure, one trace, one property, one top-N aggregation
// ---------------------------------------------------------------------------------------------------------------

func tag(name string, t databasev1.TagType) *databasev1.TagSpec {
	return &databasev1.TagSpec{Name: name, Type: t}
}

var (
	streamSchema = &databasev1.Stream{
		Metadata: &commonv1.Metadata{Name: "sw", Group: "default"},
		TagFamilies: []*databasev1.TagFamilySpec{{Name: "searchable", Tags: []*databasev1.TagSpec{
			tag("service_id", databasev1.TagType_TAG_TYPE_STRING), tag("message", databasev1.TagType_TAG_TYPE_STRING),
			tag("tags", databasev1.TagType_TAG_TYPE_STRING_ARRAY), tag("duration", databasev1.TagType_TAG_TYPE_INT),
			tag("codes", databasev1.TagType_TAG_TYPE_INT_ARRAY), tag("created_at", databasev1.TagType_TAG_TYPE_TIMESTAMP),
		}}},
	}
	measureSchema = &databasev1.Measure{
		Metadata: &commonv1.Metadata{Name: "cpm", Group: "default"},
		TagFamilies: []*databasev1.TagFamilySpec{{Name: "default", Tags: []*databasev1.TagSpec{
			tag("entity_id", databasev1.TagType_TAG_TYPE_STRING), tag("svc", databasev1.TagType_TAG_TYPE_STRING),
			tag("layer", databasev1.TagType_TAG_TYPE_INT),
		}}},
		Fields: []*databasev1.FieldSpec{
			{Name: "total", FieldType: databasev1.FieldType_FIELD_TYPE_INT},
			{Name: "value", FieldType: databasev1.FieldType_FIELD_TYPE_INT},
		},
	}
	traceSchema = &databasev1.Trace{
		Metadata: &commonv1.Metadata{Name: "seg", Group: "default"},
		Tags: []*databasev1.TraceTagSpec{
			{Name: "trace_id", Type: databasev1.TagType_TAG_TYPE_STRING}, {Name: "service_id", Type: databasev1.TagType_TAG_TYPE_STRING},
			{Name: "duration", Type: databasev1.TagType_TAG_TYPE_INT}, {Name: "span_tags", Type: databasev1.TagType_TAG_TYPE_STRING_ARRAY},
		},
	}
	propertySchema = &databasev1.Property{
		Metadata: &commonv1.Metadata{Name: "ui", Group: "default"},
		Tags:     []*databasev1.TagSpec{tag("name", databasev1.TagType_TAG_TYPE_STRING), tag("ver", databasev1.TagType_TAG_TYPE_INT)},
	}
	topnSchema = &databasev1.TopNAggregation{
		Metadata:      &commonv1.Metadata{Name: "top_cpm", Group: "default"},
		SourceMeasure: &commonv1.Metadata{Name: "cpm", Group: "default"},
		FieldName:     "total",
	}
)

type fakeRepo struct{ metadata.Repo }

type (
	streamReg   struct{ schema.Stream }
	measureReg  struct{ schema.Measure }
	traceReg    struct{ schema.Trace }
	propertyReg struct{ schema.Property }
	topnReg     struct{ schema.TopNAggregation }
)

func (fakeRepo) StreamRegistry() schema.Stream                   { return streamReg{} }
func (fakeRepo) MeasureRegistry() schema.Measure                 { return measureReg{} }
func (fakeRepo) TraceRegistry() schema.Trace                     { return traceReg{} }
func (fakeRepo) PropertyRegistry() schema.Property               { return propertyReg{} }
func (fakeRepo) TopNAggregationRegistry() schema.TopNAggregation { return topnReg{} }

func notFound(kind string, md *commonv1.Metadata) error {
	return fmt.Errorf("%s %s/%s not found", kind, md.GetGroup(), md.GetName())
}

func (streamReg) GetStream(_ context.Context, md *commonv1.Metadata) (*databasev1.Stream, error) {
	if md.GetName() != "sw" {
		return nil, notFound("stream", md)
	}
	return streamSchema, nil
}

func (measureReg) GetMeasure(_ context.Context, md *commonv1.Metadata) (*databasev1.Measure, error) {
	if md.GetName() != "cpm" {
		return nil, notFound("measure", md)
	}
	return measureSchema, nil
}

func (traceReg) GetTrace(_ context.Context, md *commonv1.Metadata) (*databasev1.Trace, error) {
	if md.GetName() != "seg" {
		return nil, notFound("trace", md)
	}
	return traceSchema, nil
}

func (propertyReg) GetProperty(_ context.Context, md *commonv1.Metadata) (*databasev1.Property, error) {
	if md.GetName() != "ui" {
		return nil, notFound("property", md)
	}
	return propertySchema, nil
}

func (topnReg) GetTopNAggregation(_ context.Context, md *commonv1.Metadata) (*databasev1.TopNAggregation, error) {
	if md.GetName() != "top_cpm" {
		return nil, notFound("topn", md)
	}
	return topnSchema, nil
}

var transformer = bydbql.NewTransformer(fakeRepo{})

// ---------------------------------------------------------------------------------------------------------------
// slot kinds and templates
// ---------------------------------------------------------------------------------------------------------------

const (
	kScalar = iota // comparison right-hand side: str, int, null
	kList          // element of a parenthesised value list (IN, MATCH((..)), HAVING (..)): scalar or non-empty array
	kSingle        // un-parenthesised MATCH(?) / HAVING ? container: scalar or non-empty array
	kTime          // TIME value: str or valid timestamp
	kTopN          // TOP N count: int in [0, MaxInt32]
	kCount         // LIMIT / OFFSET: int in [0, MaxUint32]
)

var kindNames = []string{"scalar", "list", "single", "time", "topn", "count"}

type slot struct {
	kind int
	role byte // time slots: 'v' comparison value, 'b' BETWEEN begin, 'e' BETWEEN end
}

type tmpl struct {
	form   string
	spec   string // text with {s} {l} {g} {t} {tb} {te} {n} {u} markers
	text   string // text with ? placeholders
	parts  []string
	slots  []slot
	tshape string // "", "=", ">", "<", "between"
	ref    *bydbql.PreparedStatement
	mayErr bool // the statement is expected to be rejected by the transformer even with benign values
}

var (
	markerRe = regexp.MustCompile(`\{(s|l|g|t|tb|te|n|u)\}`)
	tshapeRe = regexp.MustCompile(`(?i)\bTIME\s*(>=|<=|=|>|<|BETWEEN)`)
)

func parseSpec(form, spec string, mayErr bool) *tmpl {
	t := &tmpl{form: form, spec: spec, mayErr: mayErr}
	idx := markerRe.FindAllStringSubmatchIndex(spec, -1)
	last := 0
	for _, m := range idx {
		t.parts = append(t.parts, spec[last:m[0]])
		last = m[1]
		switch spec[m[2]:m[3]] {
		case "s":
			t.slots = append(t.slots, slot{kind: kScalar})
		case "l":
			t.slots = append(t.slots, slot{kind: kList})
		case "g":
			t.slots = append(t.slots, slot{kind: kSingle})
		case "t":
			t.slots = append(t.slots, slot{kind: kTime, role: 'v'})
		case "tb":
			t.slots = append(t.slots, slot{kind: kTime, role: 'b'})
		case "te":
			t.slots = append(t.slots, slot{kind: kTime, role: 'e'})
		case "n":
			t.slots = append(t.slots, slot{kind: kTopN})
		case "u":
			t.slots = append(t.slots, slot{kind: kCount})
		}
	}
	t.parts = append(t.parts, spec[last:])
	t.text = strings.Join(t.parts, "?")
	if m := tshapeRe.FindStringSubmatch(spec); m != nil {
		switch strings.ToUpper(m[1]) {
		case "=":
			t.tshape = "="
		case ">", ">=":
			t.tshape = ">"
		case "<", "<=":
			t.tshape = "<"
		default:
			t.tshape = "between"
		}
	}
	return t
}

func (t *tmpl) kinds() string {
	s := make([]string, len(t.slots))
	for i, sl := range t.slots {
		s[i] = kindNames[sl.kind]
	}
	return strings.Join(s, ",")
}

type atom struct {
	text   string
	core   bool // used in cross-clause combinations
	mayErr bool
}

func nslots(s string) int { return len(markerRe.FindAllString(s, -1)) }

const (
	absA = "2026-07-06T10:00:00Z"
	absB = "2026-07-06T11:00:00Z"
	litT = "TIME BETWEEN '" + absA + "' AND '" + absB + "'"
)

var timeAtoms = []atom{
	{text: "TIME = {t}", core: true}, {text: "TIME > {t}", core: true}, {text: "TIME >= {t}"}, {text: "TIME < {t}"}, {text: "time <= {t}"},
	{text: "TIME BETWEEN {tb} AND {te}", core: true}, {text: "TIME BETWEEN {tb} AND '" + absB + "'"}, {text: "TIME BETWEEN '" + absA + "' AND {te}"},
}

var tailAtoms = []atom{
	{text: "LIMIT {u}", core: true}, {text: "OFFSET {u}"}, {text: "LIMIT {u} OFFSET {u}", core: true}, {text: "LIMIT 5 OFFSET {u}"}, {text: "limit {u} offset 7"},
}

type form struct {
	name     string
	head     string // literal head (no slots)
	fullHead string // literal head with more structure (several groups, stages, other case)
	heads    []atom // heads carrying slots
	times    []atom
	wheres   []atom
	litWhere string // literal WHERE used by the "full" variant (contains ? and quotes inside string literals)
	mid      string // literal clauses between WHERE and LIMIT used by the "full" variant
	tails    []atom
}

var forms = []form{
	{
		name: "stream", head: "SELECT service_id, duration FROM STREAM sw IN default",
		fullHead: "select service_id, duration, tags from stream sw in (default, other) ON (hot, warm) STAGES",
		times:    timeAtoms,
		wheres: []atom{
			{text: "service_id = {s}", core: true}, {text: "service_id != {s}"}, {text: "duration > {s}", core: true}, {text: "duration >= {s}"},
			{text: "duration < {s}"}, {text: "duration <= {s}"}, {text: "duration = {s}"}, {text: "tags = {s}"}, {text: "codes != {s}"},
			{text: "created_at = {s}", mayErr: true},
			{text: "service_id IN ({l})", core: true}, {text: "service_id IN ({l}, {l})", core: true}, {text: "service_id IN ('a', {l})"},
			{text: "service_id IN ({l}, 'b')"}, {text: "service_id IN ('a', {l}, 'b')"}, {text: "service_id NOT IN ({l})"},
			{text: "duration IN ({l})", core: true}, {text: "duration IN (1, {l})"}, {text: "duration NOT IN ({l}, 2)"}, {text: "service_id IN ({l}, {l}, {l})"},
			{text: "message MATCH({g})", core: true}, {text: "message MATCH(({l}))"}, {text: "message MATCH(({l}, {l}))"}, {text: "message MATCH({g}, 'simple')"},
			{text: "message MATCH({g}, 'simple', 'AND')"}, {text: "message MATCH(('x', {l}), 'simple', 'OR')"},
			{text: "tags HAVING {g}", core: true}, {text: "tags HAVING ({l})"}, {text: "tags HAVING ({l}, {l})"}, {text: "tags NOT HAVING ('a', {l})"},
			{text: "tags NOT HAVING {g}"}, {text: "codes HAVING {g}"}, {text: "codes HAVING ({l})", core: true}, {text: "codes HAVING (1, {l})"},
			{text: "service_id = {s} AND message = 'why?'"}, {text: "message = 'a?b\\'?' OR service_id = {s}"},
			{text: "(service_id = {s} OR message = \"q?\") AND duration > 1"}, {text: "service_id = {s} AND duration > {s}", core: true},
			{text: "service_id = {s} OR service_id = {s} OR service_id = {s}"}, {text: "(service_id IN ({l}) OR duration < {s}) AND tags HAVING {g}"},
			{text: "service_id=\n{s}\nAND\tduration<{s}"},
		},
		litWhere: "message = 'why? it\\'s ?' AND service_id != \"?\"",
		mid:      "ORDER BY duration DESC WITH QUERY_TRACE", tails: tailAtoms,
	},
	{
		name: "measure", head: "SELECT svc, total FROM MEASURE cpm IN default",
		fullHead: "SELECT svc, layer, total::field, value FROM MEASURE cpm IN default, other ON hot STAGES",
		heads: []atom{
			{text: "SELECT TOP {n} total DESC, svc FROM MEASURE cpm IN default", core: true},
			{text: "SELECT TOP {n} value, svc, layer FROM MEASURE cpm IN default"},
		},
		times: timeAtoms,
		wheres: []atom{
			{text: "svc = {s}", core: true}, {text: "layer >= {s}"}, {text: "svc IN ({l})", core: true}, {text: "layer NOT IN ({l})"},
			{text: "entity_id IN ('a', {l})"}, {text: "svc = {s} OR layer = {s}"}, {text: "svc MATCH({g})"},
		},
		litWhere: "entity_id != '?' AND svc != 'x\\'y'",
		mid:      "ORDER BY TIME DESC", tails: tailAtoms,
	},
	{
		name: "measure-agg", head: "SELECT svc, total, SUM(total) FROM MEASURE cpm IN default",
		fullHead: "SELECT svc, total, MAX(total) FROM MEASURE cpm IN (default)",
		times:    []atom{timeAtoms[1], timeAtoms[5]},
		wheres:   []atom{{text: "svc = {s}", core: true}, {text: "layer IN ({l})", core: true}},
		litWhere: "entity_id != '?'",
		mid:      "GROUP BY svc, total", tails: []atom{tailAtoms[0], tailAtoms[2]},
	},
	{
		name: "trace", head: "SELECT trace_id, duration FROM TRACE seg IN default",
		fullHead: "SELECT trace_id, service_id FROM TRACE seg IN (default, other) ON hot STAGES",
		times:    timeAtoms,
		wheres: []atom{
			{text: "trace_id = {s}", core: true}, {text: "trace_id IN ({l})", core: true}, {text: "duration > {s}"}, {text: "span_tags HAVING {g}"},
			{text: "service_id = {s} AND duration <= {s}"}, {text: "trace_id IN ({l}, {l})"},
		},
		litWhere: "service_id != 'x?'",
		mid:      "ORDER BY duration ASC WITH QUERY_TRACE", tails: tailAtoms,
	},
	{
		name: "property", head: "SELECT name, ver FROM PROPERTY ui IN default",
		fullHead: "SELECT name FROM PROPERTY ui IN (default, other)",
		times:    []atom{{text: "TIME > {t}"}},
		wheres: []atom{
			{text: "ID = {s}", core: true}, {text: "ID IN ({l})", core: true}, {text: "ID IN ({l}, {l})"}, {text: "ID IN ('a', {l})"}, {text: "id = {s}"},
			{text: "name = {s}", core: true}, {text: "ver > {s}"}, {text: "name IN ({l})"}, {text: "ID = {s} AND name = {s}"}, {text: "ID = {s} OR ID = {s}"},
			{text: "ID IN ({l}) AND ver = {s}"}, {text: "ID != {s}", mayErr: true}, {text: "ID NOT IN ({l})", mayErr: true},
			{text: "(ID = {s} OR ID IN ({l}, 'z')) AND name != {s}"},
		},
		litWhere: "name != '?'",
		mid:      "ORDER BY ver DESC WITH QUERY_TRACE", tails: []atom{tailAtoms[0], tailAtoms[2]},
	},
	{
		name: "topn", head: "SHOW TOP 10 FROM MEASURE top_cpm IN default",
		fullHead: "show top 10 from measure top_cpm in (default, other) ON hot STAGES",
		heads: []atom{
			{text: "SHOW TOP {n} FROM MEASURE top_cpm IN default", core: true},
			{text: "show top {n} from measure top_cpm in (default, other) ON hot STAGES"},
		},
		times: timeAtoms,
		wheres: []atom{
			{text: "svc = {s}", core: true}, {text: "svc = {s} AND layer = {s}"}, {text: "svc IN ({l})", core: true}, {text: "layer > {s}"},
			{text: "entity_id != '?' AND svc = {s}"},
		},
		litWhere: "entity_id = 'w?'",
		mid:      "AGGREGATE BY SUM ORDER BY DESC WITH QUERY_TRACE",
	},
}

func join(parts ...string) string {
	var out []string
	for _, p := range parts {
		if p != "" {
			out = append(out, p)
		}
	}
	return strings.Join(out, " ")
}

func where(s string) string {
	if s == "" {
		return ""
	}
	return "WHERE " + s
}

// genTemplates enumerates, per form: (A) every slot-carrying atom alone, once in a bare statement and once in a
// "full" statement whose other clauses are literals (incl. string literals containing ? and quotes); (B)/(C) every
// combination of core atoms from 2 or 3 different clauses with at most 3 placeholders in total.
func genTemplates() []*tmpl {
	var out []*tmpl
	seen := map[string]bool{}
	add := func(f *form, spec string, mayErr bool) {
		n := nslots(spec)
		if n < 1 || n > 3 || seen[spec] {
			return
		}
		seen[spec] = true
		out = append(out, parseSpec(f.name, spec, mayErr))
	}
	for fi := range forms {
		f := &forms[fi]
		none := atom{}
		// the property form has no LIMIT/OFFSET-less restriction; topn has no tails and puts mid after WHERE
		build := func(h, t, w, tl atom, full bool) {
			head, tm, wh, mid, tail := h.text, t.text, w.text, "", tl.text
			if head == "" {
				head = f.head
				if full {
					head = f.fullHead
				}
			}
			if full {
				if tm == "" && f.name != "property" {
					tm = litT
				}
				if wh == "" {
					wh = f.litWhere
				}
				mid = f.mid
				if tail == "" && len(f.tails) > 0 {
					tail = "LIMIT 20 OFFSET 40"
				}
			} else if f.name == "measure-agg" {
				mid = f.mid
			}
			add(f, join(head, tm, where(wh), mid, tail), h.mayErr || t.mayErr || w.mayErr || tl.mayErr)
		}
		for _, full := range []bool{false, true} {
			for _, a := range f.heads {
				build(a, none, none, none, full)
			}
			for _, a := range f.times {
				build(none, a, none, none, full)
			}
			for _, a := range f.wheres {
				build(none, none, a, none, full)
			}
			for _, a := range f.tails {
				build(none, none, none, a, full)
			}
		}
		core := func(as []atom) []atom {
			r := []atom{none}
			for _, a := range as {
				if a.core {
					r = append(r, a)
				}
			}
			return r
		}
		for _, h := range core(f.heads) {
			for _, t := range core(f.times) {
				for _, w := range core(f.wheres) {
					for _, tl := range core(f.tails) {
						clauses := 0
						for _, a := range []atom{h, t, w, tl} {
							if a.text != "" {
								clauses++
							}
						}
						if clauses >= 2 {
							build(h, t, w, tl, false)
						}
					}
				}
			}
		}
	}
	return out
}

// ---------------------------------------------------------------------------------------------------------------
// parameter alphabet
// ---------------------------------------------------------------------------------------------------------------

type aval struct {
	name string
	tv   *modelv1.TagValue
	q    bool // member of the quick sub-alphabet
	k3   bool // member of the (tier-independent) alphabet used for 3-placeholder templates in quick
	t3   bool // member of the alphabet used for 3-placeholder templates in thorough
}

func vStr(s string) *modelv1.TagValue {
	return &modelv1.TagValue{Value: &modelv1.TagValue_Str{Str: &modelv1.Str{Value: s}}}
}

func vInt(i int64) *modelv1.TagValue {
	return &modelv1.TagValue{Value: &modelv1.TagValue_Int{Int: &modelv1.Int{Value: i}}}
}

func vStrs(s ...string) *modelv1.TagValue {
	return &modelv1.TagValue{Value: &modelv1.TagValue_StrArray{StrArray: &modelv1.StrArray{Value: s}}}
}

func vInts(i ...int64) *modelv1.TagValue {
	return &modelv1.TagValue{Value: &modelv1.TagValue_IntArray{IntArray: &modelv1.IntArray{Value: i}}}
}

func vTS(sec int64, nanos int32) *modelv1.TagValue {
	return &modelv1.TagValue{Value: &modelv1.TagValue_Timestamp{Timestamp: &timestamppb.Timestamp{Seconds: sec, Nanos: nanos}}}
}

const tsA = 1783332000 // 2026-07-06T10:00:00Z

func alphabet() []*aval {
	var out []*aval
	add := func(flags string, name string, tv *modelv1.TagValue) {
		out = append(out, &aval{name: name, tv: tv, q: strings.Contains(flags, "q"), k3: strings.Contains(flags, "3"), t3: strings.Contains(flags, "t") || strings.Contains(flags, "3")})
	}
	str := func(flags, s string) { add(flags, fmt.Sprintf("str(%q)", s), vStr(s)) }
	num := func(flags string, i int64) { add(flags, fmt.Sprintf("int(%d)", i), vInt(i)) }
	// flags: q = quick alphabet for 2-placeholder templates, 3 = quick alphabet for 3-placeholder templates,
	// t = added to the thorough alphabet for 3-placeholder templates. 1-placeholder templates and thorough
	// 2-placeholder templates always use the full alphabet.
	// hostile strings (DESIGN §3 C20) + escape character, comma list, numeric and time spellings
	str("t", "")
	str("", "a")
	str("qt", "'")
	str("", "\"")
	str("q3", "a' OR 'b'='b")
	str("", "--")
	str("", "/*")
	str("", "*/")
	str("", ";")
	str("", ")")
	str("qt", "('x','y')")
	str("qt", "?")
	str("", "SELECT")
	str("", "LIMIT 1")
	str("t", "\n")
	str("", "\x00")
	str("t", "héllo世界\U0001F600")
	str("qt", "\\")
	str("", "\\'")
	str("q3", "x,y")
	str("qt", "12")
	str("", "NULL")
	str("", "a' LIMIT 1 OFFSET 2 --")
	str("q3", absA)
	str("t", "-30m")
	str("", "now")
	str("t", "\xff\xfe") // not valid UTF-8: has no literal spelling
	// ints
	num("t", 0)
	num("q3", 1)
	num("qt", -1)
	num("", math.MaxInt64)
	num("", math.MinInt64)
	num("qt", math.MaxInt32)
	num("qt", 1<<31)
	num("qt", math.MaxUint32)
	num("q3", 1<<32)
	num("", 1<<32+5)
	// arrays
	add("q", "strs()", vStrs())
	add("t", "strs(a)", vStrs("a"))
	add("qt", "strs(a,b)", vStrs("a", "b"))
	add("q3", "strs(x,y|z)", vStrs("x,y", "z"))
	add("", "strs(',?,12)", vStrs("'", "?", "12"))
	add("", "ints()", vInts())
	add("", "ints(1)", vInts(1))
	add("qt", "ints(1,2)", vInts(1, 2))
	add("", "ints(min,max)", vInts(math.MinInt64, math.MaxInt64))
	// null
	add("q3", "null", &modelv1.TagValue{Value: &modelv1.TagValue_Null{Null: structpb.NullValue_NULL_VALUE}})
	// timestamps
	add("q3", "ts(A)", vTS(tsA+3600, 0))
	add("", "ts(A.nanos)", vTS(tsA, 123456789))
	add("", "ts(0)", vTS(0, 0))
	add("", "ts(max)", vTS(253402300799, 999999999))
	add("", "ts(max+1)", vTS(253402300800, 0))
	add("", "ts(nanos=1e9)", vTS(tsA, 1000000000))
	add("", "ts(nanos=-1)", vTS(tsA, -1))
	add("qt", "ts(nil)", &modelv1.TagValue{Value: &modelv1.TagValue_Timestamp{}})
	// wrong-typed / malformed
	add("qt", "bin(ab)", &modelv1.TagValue{Value: &modelv1.TagValue_BinaryData{BinaryData: []byte("ab")}})
	add("qt", "novalue", &modelv1.TagValue{})
	add("", "nilparam", nil)
	add("", "str(nil)", &modelv1.TagValue{Value: &modelv1.TagValue_Str{}})
	add("", "int(nil)", &modelv1.TagValue{Value: &modelv1.TagValue_Int{}})
	add("", "strs(nil)", &modelv1.TagValue{Value: &modelv1.TagValue_StrArray{}})
	return out
}

// ---------------------------------------------------------------------------------------------------------------
// the documented contract: which parameter types a position accepts, and how the value is spelled as a literal
// (docs/interacting/bydbql.md §2.6.1/§2.6.3; string literal syntax = lexer rule String + participle.Unquote, i.e.
// '...' with \\ and \' escapes, every other byte verbatim)
// ---------------------------------------------------------------------------------------------------------------

func quote(s string) string {
	var b strings.Builder
	b.WriteByte('\'')
	for i := 0; i < len(s); i++ {
		if s[i] == '\\' || s[i] == '\'' {
			b.WriteByte('\\')
		}
		b.WriteByte(s[i])
	}
	b.WriteByte('\'')
	return b.String()
}

type spelled struct {
	legal   bool
	text    string
	standin string // non-empty: the value has no literal spelling; text is the quoted stand-in
	actual  string
	relTime bool // legal TIME string that is not RFC3339 (relative to now)
	range_  bool // int in a count position but outside the position's range
}

func strSpelling(s string, idx int) spelled {
	if !utf8.ValidString(s) {
		st := fmt.Sprintf("Zq9StandIn%d", idx)
		return spelled{legal: true, text: quote(st), standin: st, actual: s}
	}
	return spelled{legal: true, text: quote(s)}
}

func spell(kind int, tv *modelv1.TagValue, idx int) spelled {
	if tv == nil || tv.Value == nil {
		return spelled{}
	}
	scalar := func() (spelled, bool) {
		switch v := tv.Value.(type) {
		case *modelv1.TagValue_Str:
			return strSpelling(v.Str.GetValue(), idx), true
		case *modelv1.TagValue_Int:
			return spelled{legal: true, text: strconv.FormatInt(v.Int.GetValue(), 10)}, true
		case *modelv1.TagValue_Null:
			return spelled{legal: true, text: "NULL"}, true
		}
		return spelled{}, false
	}
	elems := func() ([]string, bool) {
		switch v := tv.Value.(type) {
		case *modelv1.TagValue_StrArray:
			var e []string
			for _, s := range v.StrArray.GetValue() {
				if !utf8.ValidString(s) {
					return nil, false
				}
				e = append(e, quote(s))
			}
			return e, len(e) > 0
		case *modelv1.TagValue_IntArray:
			var e []string
			for _, i := range v.IntArray.GetValue() {
				e = append(e, strconv.FormatInt(i, 10))
			}
			return e, len(e) > 0
		}
		return nil, false
	}
	switch kind {
	case kScalar:
		s, _ := scalar()
		return s
	case kList:
		if s, ok := scalar(); ok {
			return s
		}
		if e, ok := elems(); ok {
			return spelled{legal: true, text: strings.Join(e, ", ")}
		}
	case kSingle:
		if s, ok := scalar(); ok {
			return s
		}
		if e, ok := elems(); ok {
			if len(e) == 1 {
				return spelled{legal: true, text: e[0]}
			}
			return spelled{legal: true, text: "(" + strings.Join(e, ", ") + ")"}
		}
	case kTime:
		switch v := tv.Value.(type) {
		case *modelv1.TagValue_Str:
			s := strSpelling(v.Str.GetValue(), idx)
			if _, err := time.Parse(time.RFC3339, v.Str.GetValue()); err != nil {
				s.relTime = true
			}
			return s
		case *modelv1.TagValue_Timestamp:
			ts := v.Timestamp
			if ts == nil || ts.Seconds < -62135596800 || ts.Seconds > 253402300799 || ts.Nanos < 0 || ts.Nanos >= 1000000000 {
				return spelled{}
			}
			return spelled{legal: true, text: quote(time.Unix(ts.Seconds, int64(ts.Nanos)).UTC().Format(time.RFC3339Nano))}
		}
	case kTopN, kCount:
		if v, ok := tv.Value.(*modelv1.TagValue_Int); ok {
			i := v.Int.GetValue()
			maxV := int64(math.MaxUint32)
			if kind == kTopN {
				maxV = math.MaxInt32
			}
			if i < 0 || i > maxV {
				return spelled{range_: true, text: strconv.FormatInt(i, 10)}
			}
			return spelled{legal: true, text: strconv.FormatInt(i, 10)}
		}
	}
	return spelled{}
}

// ---------------------------------------------------------------------------------------------------------------
// the four evaluation paths
// ---------------------------------------------------------------------------------------------------------------

type outcome struct {
	t0, t1 time.Time
	req    proto.Message
	err    string
	stage  string
	typ    bydbql.QueryType
	failed bool
	leak   bool // a result was returned together with an error
	panic_ bool
}

func guard(o *outcome) {
	if p := recover(); p != nil {
		o.failed, o.panic_, o.err = true, true, fmt.Sprintf("PANIC at %s: %v", o.stage, p)
	}
	o.t1 = time.Now()
}

func (o *outcome) fail(stage string, err error) {
	o.failed, o.stage, o.err = true, stage, err.Error()
}

func (o *outcome) take(res *bydbql.TransformResult, err error) {
	if err != nil {
		o.fail("transform", err)
		o.leak = res != nil
		return
	}
	if res == nil || res.QueryRequest == nil {
		o.failed, o.stage, o.err = true, "transform", "nil result without error"
		o.leak = true
		return
	}
	o.req, o.typ = res.QueryRequest, res.Type
}

func evalOneShot(text string, params []*modelv1.TagValue) (o outcome) {
	o.t0 = time.Now()
	o.stage = "parse"
	defer guard(&o)
	g, err := bydbql.ParseQuery(text)
	if err != nil {
		o.fail("parse", err)
		return
	}
	o.stage = "bind"
	if err = bydbql.BindParams(g, params); err != nil {
		o.fail("bind", err)
		return
	}
	o.stage = "transform"
	o.take(transformer.Transform(context.Background(), g))
	return
}

func evalBound(ps *bydbql.PreparedStatement, params []*modelv1.TagValue) (o outcome, bq *bydbql.BoundQuery) {
	o.t0 = time.Now()
	o.stage = "bind"
	defer guard(&o)
	var err error
	bq, err = ps.Bind(params)
	if err != nil {
		o.fail("bind", err)
		o.leak = bq != nil
		return
	}
	o.stage = "transform"
	o.take(transformer.TransformBound(context.Background(), bq))
	return
}

func evalTransformBound(bq *bydbql.BoundQuery) (o outcome) {
	o.t0 = time.Now()
	o.stage = "transform"
	defer guard(&o)
	o.take(transformer.TransformBound(context.Background(), bq))
	return
}

func evalPreparedFresh(text string, params []*modelv1.TagValue) (o outcome) {
	var ps *bydbql.PreparedStatement
	func() {
		o.t0 = time.Now()
		o.stage = "parse"
		defer guard(&o)
		var err error
		ps, err = bydbql.Prepare(text)
		if err != nil {
			o.fail("parse", err)
		}
	}()
	if o.failed {
		return
	}
	t0 := o.t0
	o, _ = evalBound(ps, params)
	o.t0 = t0
	return
}

// sharedCache is the liaison's real prepared-statement cache (banyand/liaison/grpc/bydbql_cache.go), shared by all
// workers and smaller than the number of templates, so hits, misses, evictions and re-parses all occur.
var sharedCache = lgrpc.VerifNewPreparedCache(8, 0)

// evalCached is the production path: cache.getOrPrepare + Bind + TransformBound.
func evalCached(st *stats, t *tmpl, params []*modelv1.TagValue, vn string) outcome {
	ps, res, err := sharedCache.GetOrPrepare(t.text)
	if err != nil {
		return outcome{failed: true, stage: "parse", err: err.Error()}
	}
	st.cacheResults[res]++
	if ok, why := templateUnchanged(ps, t); !ok {
		st.report("cached-statement-differs", t, map[string]any{"phase": "tuple", "values": strings.Split(vn, ";")}, why+" (cache result "+res+")", vn)
	}
	o, _ := evalBound(ps, params)
	return o
}

// ---------------------------------------------------------------------------------------------------------------
// request comparison
// ---------------------------------------------------------------------------------------------------------------

func splitTimeRange(m proto.Message) (proto.Message, *modelv1.TimeRange) {
	fd := m.ProtoReflect().Descriptor().Fields().ByName("time_range")
	if fd == nil || !m.ProtoReflect().Has(fd) {
		return m, nil
	}
	c := proto.Clone(m)
	tr, _ := c.ProtoReflect().Get(fd).Message().Interface().(*modelv1.TimeRange)
	c.ProtoReflect().Clear(fd)
	return c, tr
}

const clockSlack = 5 * time.Millisecond

// cmp compares outcome b with reference outcome a. nowBegin/nowEnd say that the begin/end leaf of the time range is
// computed from time.Now() inside the transformer; such a leaf must differ by exactly the time elapsed between the
// two evaluations (window mode) or is ignored (window=false). soft=true means only a now-dependent leaf disagreed.
func cmp(a, b *outcome, nowBegin, nowEnd, window bool) (why string, soft bool) {
	if a.failed != b.failed {
		return fmt.Sprintf("error-presence (%s: %q vs %s: %q)", a.stage, a.err, b.stage, b.err), false
	}
	if a.failed {
		return "", false
	}
	if a.typ != b.typ {
		return fmt.Sprintf("type %v vs %v", a.typ, b.typ), false
	}
	ra, ta := splitTimeRange(a.req)
	rb, tb := splitTimeRange(b.req)
	if !proto.Equal(ra, rb) {
		return "request-differs", false
	}
	if (ta == nil) != (tb == nil) {
		return "time-range-presence", false
	}
	if ta == nil {
		return "", false
	}
	leaf := func(name string, la, lb *timestamppb.Timestamp, nowDep bool) (string, bool) {
		if proto.Equal(la, lb) {
			return "", false
		}
		if !nowDep {
			return "time-range-" + name + "-differs", false
		}
		if !window {
			return "", false
		}
		if la == nil || lb == nil {
			return "time-range-" + name + "-presence", false
		}
		d := lb.AsTime().Sub(la.AsTime())
		lo, hi := b.t0.Sub(a.t1)-clockSlack, b.t1.Sub(a.t0)+clockSlack
		if d < lo || d > hi {
			return fmt.Sprintf("time-range-%s-now-offset", name), true
		}
		return "", false
	}
	if w, s := leaf("begin", ta.Begin, tb.Begin, nowBegin); w != "" {
		return w, s
	}
	return leaf("end", ta.End, tb.End, nowEnd)
}

// substitute replaces string leaves equal to a stand-in by the actual (unspellable) value.
func substitute(m protoreflect.Message, sub map[string]string) {
	m.Range(func(fd protoreflect.FieldDescriptor, v protoreflect.Value) bool {
		switch {
		case fd.IsMap():
		case fd.IsList():
			l := v.List()
			for i := 0; i < l.Len(); i++ {
				switch fd.Kind() {
				case protoreflect.StringKind:
					if r, ok := sub[l.Get(i).String()]; ok {
						l.Set(i, protoreflect.ValueOfString(r))
					}
				case protoreflect.MessageKind:
					substitute(l.Get(i).Message(), sub)
				}
			}
		case fd.Kind() == protoreflect.StringKind:
			if r, ok := sub[v.String()]; ok {
				m.Set(fd, protoreflect.ValueOfString(r))
			}
		case fd.Kind() == protoreflect.MessageKind:
			substitute(v.Message(), sub)
		}
		return true
	})
}

func canon(m proto.Message) string {
	b, err := proto.MarshalOptions{Deterministic: true}.Marshal(m)
	if err != nil {
		return fmt.Sprintf("%T|%v", m, m)
	}
	return fmt.Sprintf("%T|%s", m, b)
}

var (
	quotedRe = regexp.MustCompile(`'[^']*'|"[^"]*"|\d+`)
)

func squeeze(s string) string { return strings.Join(strings.Fields(s), " ") }

func errClass(o *outcome) string {
	s := squeeze(o.err)
	if len(s) > 160 {
		s = s[:160]
	}
	return o.stage + ": " + quotedRe.ReplaceAllString(s, "_")
}

// ---------------------------------------------------------------------------------------------------------------
// the checks
// ---------------------------------------------------------------------------------------------------------------

type viol struct {
	key string
	art map[string]any
}

type stats struct {
	tuples, pathEvals, legalTuples, illegalTuples, compared, bothErr, unspellable, nowChecked, nowRetries int
	sameErr, litParseFail                                                                                 int
	cacheGets                                                                                             int
	seqs, seqBinds, countCases, templateEq                                                                int
	distinctReq                                                                                           map[[32]byte]struct{}
	errClasses                                                                                            map[string]int
	perForm                                                                                               map[string]int
	cacheResults                                                                                          map[string]int
	viols                                                                                                 []viol
}

func newStats() *stats {
	return &stats{distinctReq: map[[32]byte]struct{}{}, errClasses: map[string]int{}, perForm: map[string]int{}, cacheResults: map[string]int{}}
}

func (s *stats) merge(o *stats) {
	s.tuples += o.tuples
	s.pathEvals += o.pathEvals
	s.legalTuples += o.legalTuples
	s.illegalTuples += o.illegalTuples
	s.compared += o.compared
	s.bothErr += o.bothErr
	s.unspellable += o.unspellable
	s.nowChecked += o.nowChecked
	s.nowRetries += o.nowRetries
	s.sameErr += o.sameErr
	s.cacheGets += o.cacheGets
	s.litParseFail += o.litParseFail
	s.seqs += o.seqs
	s.seqBinds += o.seqBinds
	s.countCases += o.countCases
	s.templateEq += o.templateEq
	for k := range o.distinctReq {
		s.distinctReq[k] = struct{}{}
	}
	for k, v := range o.errClasses {
		s.errClasses[k] += v
	}
	for k, v := range o.perForm {
		s.perForm[k] += v
	}
	for k, v := range o.cacheResults {
		s.cacheResults[k] += v
	}
	s.viols = append(s.viols, o.viols...)
}

func names(vs []*aval) []string {
	n := make([]string, len(vs))
	for i, v := range vs {
		n[i] = v.name
	}
	return n
}

func params(vs []*aval) []*modelv1.TagValue {
	p := make([]*modelv1.TagValue, len(vs))
	for i, v := range vs {
		p[i] = v.tv
	}
	return p
}

func (s *stats) report(what string, t *tmpl, art map[string]any, detail string, extra ...string) {
	art["form"], art["spec"], art["template"], art["detail"] = t.form, t.spec, t.text, detail
	key := fmt.Sprintf("%s|%s|%s|%s", what, t.form, t.spec, strings.Join(extra, ";"))
	s.viols = append(s.viols, viol{key: key, art: art})
}

// templateUnchanged: the shared prepared statement must stay deep-equal to a fresh Prepare of the same text.
func templateUnchanged(ps *bydbql.PreparedStatement, t *tmpl) (bool, string) {
	if t.ref == nil {
		fresh, err := bydbql.Prepare(t.text)
		if err != nil {
			return false, "fresh Prepare failed: " + err.Error()
		}
		t.ref = fresh // never bound, never transformed: stays a fresh parse
	}
	fresh := t.ref
	if reflect.DeepEqual(ps, fresh) {
		return true, ""
	}
	return false, "template differs from a fresh parse"
}

// checkTuple is the core oracle for one (template, value tuple). ps is the template's shared prepared statement.
func checkTuple(st *stats, t *tmpl, ps *bydbql.PreparedStatement, vs []*aval) {
	st.tuples++
	st.perForm[t.form]++
	ps0 := params(vs)
	sp := make([]spelled, len(vs))
	legal := true
	for i, v := range vs {
		sp[i] = spell(t.slots[i].kind, v.tv, i)
		legal = legal && sp[i].legal
	}
	art := func(phase string) map[string]any { return map[string]any{"phase": phase, "values": names(vs)} }
	vn := strings.Join(names(vs), ";")
	b1 := evalOneShot(t.text, ps0)
	b2, bq := evalBound(ps, ps0)
	b3 := evalCached(st, t, ps0, vn)
	st.pathEvals += 3
	for _, o := range []struct {
		o    *outcome
		path string
	}{{&b1, "one-shot"}, {&b2, "prepared"}, {&b3, "cached"}} {
		if o.o.panic_ {
			st.report("panic/"+o.path, t, art("tuple"), o.o.err, vn)
		}
		if o.o.leak {
			st.report("result-with-error/"+o.path, t, art("tuple"), o.o.err, vn)
		}
	}
	if b2.failed && b2.stage == "bind" && bq != nil {
		st.report("bound-query-with-error/prepared", t, art("tuple"), b2.err, vn)
	}
	if ok, why := templateUnchanged(ps, t); !ok {
		st.report("template-mutated", t, art("tuple"), why, vn)
	}
	st.templateEq++

	if !legal {
		st.illegalTuples++
		// ill-typed / missing / out-of-range: rejected at bind time, on both paths, nothing produced
		if !b1.failed {
			st.report("illegal-accepted/one-shot", t, art("tuple"), "request produced: "+canonShort(b1.req), vn)
		}
		if !b2.failed {
			st.report("illegal-accepted/prepared", t, art("tuple"), "request produced: "+canonShort(b2.req), vn)
		}
		if !b3.failed {
			st.report("illegal-accepted/cached", t, art("tuple"), "request produced: "+canonShort(b3.req), vn)
		}
		if b1.failed {
			st.errClasses[errClass(&b1)]++
		}
		// literal counts are held to the same bounds (docs §2.6.3): the out-of-range literal must fail too
		allSpellable := true
		for _, s := range sp {
			if !s.legal && !s.range_ {
				allSpellable = false
			}
		}
		if allSpellable {
			l1 := evalOneShot(literalText(t, sp), nil)
			st.pathEvals++
			if !l1.failed {
				st.report("literal-count-out-of-range-accepted", t, art("tuple"), literalText(t, sp), vn)
			}
		}
		return
	}
	st.legalTuples++
	lit := literalText(t, sp)
	var sub map[string]string
	for _, s := range sp {
		if s.standin != "" {
			if sub == nil {
				sub = map[string]string{}
			}
			sub[s.standin] = s.actual
		}
	}
	if sub != nil {
		st.unspellable++
	}
	nowBegin, nowEnd := nowDependence(t, sp)

	for attempt := 0; ; attempt++ {
		l1 := evalOneShot(lit, nil)
		l2 := evalPreparedFresh(lit, nil)
		st.pathEvals += 2
		if attempt > 0 {
			b1 = evalOneShot(t.text, ps0)
			b2, _ = evalBound(ps, ps0)
			b3 = evalCached(st, t, ps0, vn)
			st.pathEvals += 3
		}
		if sub != nil {
			for _, l := range []*outcome{&l1, &l2} {
				if !l.failed {
					l.req = proto.Clone(l.req)
					substitute(l.req.ProtoReflect(), sub)
				}
			}
		}
		type pr struct {
			what string
			a, b *outcome
		}
		var hard []string
		softOnly := false
		for _, p := range []pr{
			{"bound-vs-literal/one-shot", &l1, &b1}, {"bound-vs-literal/prepared", &l1, &b2},
			{"bound-vs-literal/cached", &l1, &b3},
			{"one-shot-vs-prepared/bound", &b1, &b2}, {"one-shot-vs-prepared/literal", &l1, &l2},
		} {
			why, soft := cmp(p.a, p.b, nowBegin, nowEnd, true)
			if why == "" {
				continue
			}
			if soft {
				softOnly = true
				continue
			}
			hard = append(hard, p.what+": "+why)
		}
		if len(hard) == 0 && softOnly && attempt < 3 {
			st.nowRetries++
			continue
		}
		if len(hard) > 0 || softOnly {
			what := "now-offset"
			if len(hard) > 0 {
				what = strings.SplitN(hard[0], ":", 2)[0]
			}
			a := art("tuple")
			a["literal"] = lit
			a["literal_request"], a["one_shot_request"], a["prepared_request"] = canonShort(l1.req), canonShort(b1.req), canonShort(b2.req)
			a["literal_error"], a["one_shot_error"], a["prepared_error"], a["cached_error"] = l1.err, b1.err, b2.err, b3.err
			a["cached_request"] = canonShort(b3.req)
			st.report(what, t, a, strings.Join(hard, " | "), vn)
			return
		}
		if l1.failed {
			st.bothErr++
			st.errClasses[errClass(&l1)]++
			if l1.stage == "parse" {
				st.litParseFail++
			}
			if e := squeeze(l1.err); sub != nil || (e == squeeze(b1.err) && e == squeeze(b2.err) && e == squeeze(l2.err) && e == squeeze(b3.err)) {
				st.sameErr++
			} else {
				a := art("tuple")
				a["literal"] = lit
				a["literal_error"], a["literal_prepared_error"], a["one_shot_error"], a["prepared_error"], a["cached_error"] = l1.err, l2.err, b1.err, b2.err, b3.err
				st.report("error-message-differs", t, a, "all paths reject the statement but not with the same message", vn)
			}
		} else {
			st.compared++
			if nowBegin || nowEnd {
				st.nowChecked++
			}
			r, _ := splitTimeRange(b2.req)
			st.distinctReq[sha256.Sum256([]byte(canon(r)))] = struct{}{}
		}
		return
	}
}

func canonShort(m proto.Message) string {
	if m == nil {
		return ""
	}
	s := squeeze(fmt.Sprintf("%v", m)) // prototext output deliberately varies its blanks between runs
	if len(s) > 600 {
		s = s[:600] + "..."
	}
	return s
}

func literalText(t *tmpl, sp []spelled) string {
	var b strings.Builder
	for i, p := range t.parts {
		b.WriteString(p)
		if i < len(sp) {
			b.WriteString(sp[i].text)
		}
	}
	return b.String()
}

func nowDependence(t *tmpl, sp []spelled) (nowBegin, nowEnd bool) {
	if t.tshape == ">" {
		nowEnd = true
	}
	for i, sl := range t.slots {
		if sl.kind != kTime || !sp[i].relTime {
			continue
		}
		switch {
		case sl.role == 'b':
			nowBegin = true
		case sl.role == 'e':
			nowEnd = true
		case t.tshape == "=":
			nowBegin, nowEnd = true, true
		case t.tshape == ">":
			nowBegin = true
		case t.tshape == "<":
			nowEnd = true
		}
	}
	return
}

// natural benign value per slot kind
func natural(kind int) *aval {
	switch kind {
	case kTime:
		return &aval{name: "str(" + strconv.Quote(absA) + ")", tv: vStr(absA)}
	case kTopN, kCount:
		return &aval{name: "int(1)", tv: vInt(1)}
	}
	return &aval{name: `str("12")`, tv: vStr("12")}
}

// checkCounts: missing / surplus parameters are rejected on both paths; NumPlaceholders equals the slot count.
func checkCounts(st *stats, t *tmpl) {
	ps, err := bydbql.Prepare(t.text)
	if err != nil {
		st.report("template-does-not-parse", t, map[string]any{"phase": "count"}, err.Error())
		return
	}
	k := len(t.slots)
	if ps.NumPlaceholders() != k {
		st.report("placeholder-count", t, map[string]any{"phase": "count", "n": k}, fmt.Sprintf("NumPlaceholders=%d want %d", ps.NumPlaceholders(), k))
	}
	nat := make([]*aval, 0, k+2)
	for _, sl := range t.slots {
		nat = append(nat, natural(sl.kind))
	}
	// the exact count with benign values must be accepted unless the statement is expected to be rejected
	okRun := evalOneShot(t.text, params(nat))
	okRun2, _ := evalBound(ps, params(nat))
	if !t.mayErr && (okRun.failed || okRun2.failed) {
		st.report("benign-values-rejected", t, map[string]any{"phase": "count", "n": k}, okRun.err+" | "+okRun2.err)
	}
	if t.mayErr && (!okRun.failed || !okRun2.failed) {
		st.report("harness/expected-error-template-accepted", t, map[string]any{"phase": "count", "n": k}, "")
	}
	extra := []*aval{natural(t.slots[k-1].kind), natural(kScalar)}
	for n := 0; n <= k+2; n++ {
		if n == k {
			continue
		}
		st.countCases++
		var vs []*aval
		if n < k {
			vs = nat[:n]
		} else {
			vs = append(append([]*aval{}, nat...), extra[:n-k]...)
		}
		a := evalOneShot(t.text, params(vs))
		b, bq := evalBound(ps, params(vs))
		st.pathEvals += 2
		art := map[string]any{"phase": "count", "n": n}
		if !a.failed || a.leak {
			st.report("wrong-count-accepted/one-shot", t, art, fmt.Sprintf("%d params for %d placeholders", n, k), strconv.Itoa(n))
		}
		if !b.failed || b.leak || bq != nil {
			st.report("wrong-count-accepted/prepared", t, art, fmt.Sprintf("%d params for %d placeholders", n, k), strconv.Itoa(n))
		}
	}
	// the fully literal statement takes no parameter at all
	sp := make([]spelled, k)
	for i, v := range nat {
		sp[i] = spell(t.slots[i].kind, v.tv, i)
	}
	lit := literalText(t, sp)
	lps, err := bydbql.Prepare(lit)
	if err != nil {
		st.report("literal-does-not-parse", t, map[string]any{"phase": "count"}, err.Error())
		return
	}
	st.countCases++
	if lps.NumPlaceholders() != 0 {
		st.report("placeholder-count/literal", t, map[string]any{"phase": "count", "n": -1}, fmt.Sprintf("literal %q reports %d placeholders", lit, lps.NumPlaceholders()))
	}
	a := evalOneShot(lit, params(nat[:1]))
	b, _ := evalBound(lps, params(nat[:1]))
	st.pathEvals += 2
	if !a.failed || !b.failed {
		st.report("surplus-on-literal-accepted", t, map[string]any{"phase": "count", "n": -1}, lit)
	}
	if ok, why := templateUnchanged(ps, t); !ok {
		st.report("template-mutated/count", t, map[string]any{"phase": "count"}, why)
	}
}

// seqValues: four values per slot kind (three accepted, one rejected) for the bind-sequence check.
func seqValues(kind int) []*aval {
	mk := func(name string, tv *modelv1.TagValue) *aval { return &aval{name: name, tv: tv} }
	switch kind {
	case kScalar:
		return []*aval{mk(`str("a' OR 'b'='b")`, vStr("a' OR 'b'='b")), mk("int(7)", vInt(7)), mk("null", &modelv1.TagValue{Value: &modelv1.TagValue_Null{}}), mk("bin(ab)", &modelv1.TagValue{Value: &modelv1.TagValue_BinaryData{BinaryData: []byte("ab")}})}
	case kList, kSingle:
		return []*aval{mk(`str("12")`, vStr("12")), mk("ints(7,8)", vInts(7, 8)), mk("strs(x,y|z)", vStrs("x,y", "z")), mk("strs()", vStrs())}
	case kTime:
		return []*aval{mk("str(absA)", vStr(absA)), mk("ts(A.nanos)", vTS(tsA+60, 123456789)), mk("str(absB)", vStr(absB)), mk("int(7)", vInt(7))}
	case kTopN:
		return []*aval{mk("int(0)", vInt(0)), mk("int(5)", vInt(5)), mk("int(maxint32)", vInt(math.MaxInt32)), mk("int(2^31)", vInt(1<<31))}
	}
	return []*aval{mk("int(0)", vInt(0)), mk("int(5)", vInt(5)), mk("int(maxuint32)", vInt(math.MaxUint32)), mk("int(2^32)", vInt(1<<32))}
}

func seqTuple(t *tmpl, j int) []*aval {
	vs := make([]*aval, len(t.slots))
	for i, sl := range t.slots {
		vs[i] = seqValues(sl.kind)[(j+i)%4]
	}
	return vs
}

// checkSequences: every sequence of length <= 3 over 4 value tuples is bound on ONE prepared statement; each bind
// must give what a fresh statement gives, earlier BoundQuery objects must still give their own result after later
// binds, and the template must stay equal to a fresh parse.
func checkSequences(st *stats, t *tmpl, only []int) {
	ps, err := bydbql.Prepare(t.text)
	if err != nil {
		return // reported by checkCounts
	}
	nowEnd := t.tshape == ">"
	var want [4]outcome
	var tuples [4][]*aval
	for j := 0; j < 4; j++ {
		tuples[j] = seqTuple(t, j)
		want[j] = evalPreparedFresh(t.text, params(tuples[j]))
		st.pathEvals++
	}
	run := func(seq []int) {
		st.seqs++
		art := func() map[string]any {
			sn := make([][]string, len(seq))
			for i, j := range seq {
				sn[i] = names(tuples[j])
			}
			return map[string]any{"phase": "seq", "seq": seq, "seq_values": sn}
		}
		ss := fmt.Sprint(seq)
		bqs := make([]*bydbql.BoundQuery, len(seq))
		for i, j := range seq {
			var o outcome
			o, bqs[i] = evalBound(ps, params(tuples[j]))
			st.seqBinds++
			st.pathEvals++
			if why, _ := cmp(&want[j], &o, false, nowEnd, false); why != "" || o.panic_ || o.leak {
				st.report("bind-sequence/differs-from-fresh", t, art(), fmt.Sprintf("step %d: %s (fresh err=%q, got err=%q, got=%s)", i, why, want[j].err, o.err, canonShort(o.req)), ss)
				return
			}
		}
		for i := len(seq) - 1; i >= 0; i-- {
			if bqs[i] == nil {
				continue
			}
			o := evalTransformBound(bqs[i])
			st.pathEvals++
			if why, _ := cmp(&want[seq[i]], &o, false, nowEnd, false); why != "" || o.panic_ {
				st.report("bind-sequence/earlier-bound-query-changed", t, art(), fmt.Sprintf("bound query %d re-transformed after later binds: %s", i, why), ss)
				return
			}
		}
		if ok, why := templateUnchanged(ps, t); !ok {
			st.report("bind-sequence/template-mutated", t, art(), why, ss)
			ps, _ = bydbql.Prepare(t.text)
		}
		st.templateEq++
	}
	if only != nil {
		run(only)
		return
	}
	for a := 0; a < 4; a++ {
		run([]int{a})
		for b := 0; b < 4; b++ {
			run([]int{a, b})
			for c := 0; c < 4; c++ {
				run([]int{a, b, c})
			}
		}
	}
}

// cacheSpecs: statements that differ from a neighbour only in ways a careless cache key (case folding, whitespace
// squeezing, hashing of a prefix) would conflate, plus literal statements (never cached) and long ones.
var cacheSpecs = []string{
	"SELECT service_id, duration FROM STREAM sw IN default WHERE message = 'Why?' AND service_id = {s}",
	"SELECT service_id, duration FROM STREAM sw IN default WHERE message = 'why?' AND service_id = {s}",
	"SELECT service_id, duration FROM STREAM sw IN default WHERE message = 'a  b' AND service_id = {s}",
	"SELECT service_id, duration FROM STREAM sw IN default WHERE message = 'a b' AND service_id = {s}",
	"SELECT service_id, duration FROM STREAM sw IN default WHERE message = 'a b' AND service_id = {s} ",
	"select service_id, duration from stream sw in default where message = 'a b' and service_id = {s}",
	"SELECT service_id, duration FROM STREAM sw IN default WHERE service_id IN ('a', {l})",
	"SELECT service_id, duration FROM STREAM sw IN default WHERE service_id IN ({l}, 'a')",
	"SELECT service_id, duration FROM STREAM sw IN default WHERE service_id IN ({l},{l})",
	"SELECT service_id, duration FROM STREAM sw IN default WHERE service_id IN ({l}, {l})",
	"SELECT service_id, duration FROM STREAM sw IN default WHERE service_id IN ('?', {l})",
	"SELECT service_id, duration FROM STREAM sw IN default LIMIT {u}",
	"SELECT service_id, duration FROM STREAM sw IN default OFFSET {u}",
	"SELECT service_id, duration FROM STREAM sw IN default LIMIT {u} OFFSET 3",
	"SELECT service_id, duration FROM STREAM sw IN default LIMIT 3 OFFSET {u}",
	"SELECT service_id, duration FROM STREAM sw IN default TIME > {t}",
	"SELECT service_id, duration FROM STREAM sw IN default TIME < {t}",
	"SELECT trace_id, duration FROM TRACE seg IN default WHERE trace_id = {s}",
	"SELECT trace_id, duration FROM TRACE seg IN default WHERE service_id = {s}",
	"SELECT name, ver FROM PROPERTY ui IN default WHERE ID = {s}",
	"SELECT name, ver FROM PROPERTY ui IN default WHERE ID IN ({l})",
	"SHOW TOP {n} FROM MEASURE top_cpm IN default TIME > '" + absA + "' WHERE svc = 'a'",
	"SHOW TOP 3 FROM MEASURE top_cpm IN default TIME > '" + absA + "' WHERE svc = {s}",
	"SELECT service_id, duration FROM STREAM sw IN default WHERE service_id = 'lit'",
	"SELECT service_id, duration FROM STREAM sw IN default WHERE service_id = 'LIT'",
	"SELECT service_id, duration FROM STREAM sw IN default WHERE service_id = {s} AND message IN ('" + strings.Repeat("x", 700) + "', {l})",
	"SELECT service_id, duration FROM STREAM sw IN default WHERE service_id = {s} AND message IN ('" + strings.Repeat("x", 699) + "y', {l})",
}

// checkCache drives the liaison's real prepared-statement cache alone: for several cache configurations, every ordered
// pair (q1,q2) of cacheSpecs is requested as q1,q2,q1 on one long-lived cache; every returned statement must be
// deep-equal to a fresh Prepare of the requested text and must bind and transform to what the fresh one gives.
func checkCache(st *stats) {
	ts := make([]*tmpl, len(cacheSpecs))
	want := make([]outcome, len(cacheSpecs))
	nat := make([][]*modelv1.TagValue, len(cacheSpecs))
	for i, sp := range cacheSpecs {
		ts[i] = parseSpec("cache", sp, false)
		for j, sl := range ts[i].slots {
			v := natural(sl.kind)
			if sl.kind != kTime && sl.kind != kTopN && sl.kind != kCount {
				v = &aval{tv: vStr(fmt.Sprintf("p%d", j))}
			}
			nat[i] = append(nat[i], v.tv)
		}
		want[i] = evalPreparedFresh(ts[i].text, nat[i])
		if want[i].failed {
			st.report("harness/cache-spec-rejected", ts[i], map[string]any{"phase": "cache"}, want[i].err)
		}
	}
	for _, cfg := range [][2]int{{1, 0}, {2, 0}, {4, 0}, {64, 0}, {8, 1500}, {0, 0}} {
		c := lgrpc.VerifNewPreparedCache(cfg[0], cfg[1])
		get := func(i int, ctx string) {
			st.cacheGets++
			t := ts[i]
			ps, res, err := c.GetOrPrepare(t.text)
			art := map[string]any{"phase": "cache", "cache_size": cfg[0], "cache_max_bytes": cfg[1], "history": ctx, "cache_result": res}
			if err != nil {
				st.report("cache/parse-error", t, art, err.Error())
				return
			}
			st.cacheResults["solo-"+res]++
			if ok, why := templateUnchanged(ps, t); !ok {
				st.report("cache/statement-differs-from-fresh-prepare", t, art, why+" after "+ctx)
				return
			}
			o, _ := evalBound(ps, nat[i])
			st.pathEvals++
			nowEnd := t.tshape == ">"
			if why, _ := cmp(&want[i], &o, false, nowEnd, false); why != "" {
				st.report("cache/result-differs-from-fresh-prepare", t, art, why+" after "+ctx)
			}
		}
		for a := range ts {
			for b := range ts {
				ctx := fmt.Sprintf("q1=%q q2=%q", ts[a].text, ts[b].text)
				get(a, ctx+" [1st q1]")
				get(b, ctx+" [q2]")
				get(a, ctx+" [2nd q1]")
			}
		}
	}
}

// structuralPlaceholders: docs §2.6.2 — a placeholder in a position that determines the query structure is a
// syntax error; this is what keeps a parameter from ever becoming an identifier, operator or option.
var structuralPlaceholders = []string{
	"SELECT service_id FROM STREAM ? IN default", "SELECT service_id FROM STREAM sw IN ?", "SELECT service_id FROM STREAM sw IN (default, ?)",
	"SELECT service_id FROM STREAM sw IN default ON ? STAGES", "SELECT ? FROM STREAM sw IN default", "SELECT service_id, ? FROM STREAM sw IN default",
	"SELECT service_id FROM STREAM sw IN default WHERE ? = 'a'", "SELECT service_id FROM STREAM sw IN default WHERE service_id ? 'a'",
	"SELECT service_id FROM STREAM sw IN default ORDER BY ?", "SELECT service_id FROM STREAM sw IN default ORDER BY duration ?",
	"SELECT svc, SUM(?) FROM MEASURE cpm IN default", "SELECT svc, total FROM MEASURE cpm IN default GROUP BY ?",
	"SELECT TOP 3 ? DESC FROM MEASURE cpm IN default", "SELECT service_id FROM STREAM sw IN default WHERE message MATCH('x', ?)",
	"SELECT service_id FROM STREAM sw IN default WHERE message MATCH('x', 'simple', ?)", "SELECT service_id FROM STREAM sw IN default WHERE service_id = ??",
	"SELECT service_id FROM STREAM sw IN default LIMIT ? ?", "SELECT service_id FROM ? sw IN default", "SHOW TOP 3 FROM MEASURE ? IN default",
	"SHOW TOP 3 FROM MEASURE top_cpm IN default AGGREGATE BY ?", "SHOW TOP 3 FROM MEASURE top_cpm IN default ORDER BY ?", "? service_id FROM STREAM sw IN default",
	"SELECT service_id FROM STREAM sw IN default WHERE service_id = 'a' ? service_id = 'b'", "SELECT service_id FROM STREAM sw IN default WHERE service_id NOT ? ('a')",
}

func checkStructural(st *stats) {
	for _, q := range structuralPlaceholders {
		st.countCases++
		t := &tmpl{form: "structural", spec: q, text: q}
		if _, err := bydbql.ParseQuery(q); err == nil {
			st.report("structural-placeholder-accepted/ParseQuery", t, map[string]any{"phase": "structural"}, q)
		}
		if ps, err := bydbql.Prepare(q); err == nil || ps != nil {
			st.report("structural-placeholder-accepted/Prepare", t, map[string]any{"phase": "structural"}, q)
		}
	}
}

// ---------------------------------------------------------------------------------------------------------------
// driver
// ---------------------------------------------------------------------------------------------------------------

func tierAlphabet(all []*aval, k int, thorough bool) []*aval {
	var out []*aval
	for _, v := range all {
		switch {
		case thorough && k <= 2, thorough && v.t3, !thorough && k == 1, !thorough && k == 2 && v.q, !thorough && k == 3 && v.k3:
			out = append(out, v)
		}
	}
	return out
}

func runTemplate(t *tmpl, all []*aval, thorough bool) *stats {
	st := newStats()
	checkCounts(st, t)
	checkSequences(st, t, nil)
	ps, err := bydbql.Prepare(t.text)
	if err != nil {
		return st
	}
	k := len(t.slots)
	al := tierAlphabet(all, k, thorough)
	idx := make([]int, k)
	vs := make([]*aval, k)
	for {
		for i := range idx {
			vs[i] = al[idx[i]]
		}
		before := len(st.viols)
		checkTuple(st, t, ps, vs)
		if len(st.viols) > before {
			for _, v := range st.viols[before:] {
				if strings.HasPrefix(v.key, "template-mutated") {
					ps, _ = bydbql.Prepare(t.text) // continue with a clean statement
				}
			}
		}
		i := k - 1
		for ; i >= 0; i-- {
			idx[i]++
			if idx[i] < len(al) {
				break
			}
			idx[i] = 0
		}
		if i < 0 {
			break
		}
	}
	return st
}

func replay(path string) {
	b, err := os.ReadFile(path)
	if err != nil {
		fmt.Fprintln(os.Stderr, err)
		os.Exit(2)
	}
	var rec struct {
		Key      string `json:"key"`
		Artefact struct {
			Phase  string   `json:"phase"`
			Form   string   `json:"form"`
			Spec   string   `json:"spec"`
			Values []string `json:"values"`
			Seq    []int    `json:"seq"`
		} `json:"artefact"`
	}
	if err := json.Unmarshal(b, &rec); err != nil {
		fmt.Fprintln(os.Stderr, err)
		os.Exit(2)
	}
	a := rec.Artefact
	mayErr := false
	for _, t := range genTemplates() {
		if t.spec == a.Spec {
			mayErr = t.mayErr
		}
	}
	t := parseSpec(a.Form, a.Spec, mayErr)
	st := newStats()
	switch a.Phase {
	case "tuple":
		byName := map[string]*aval{}
		for _, v := range alphabet() {
			byName[v.name] = v
		}
		var vs []*aval
		for _, n := range a.Values {
			v, ok := byName[n]
			if !ok {
				fmt.Fprintln(os.Stderr, "unknown value", n)
				os.Exit(2)
			}
			vs = append(vs, v)
		}
		ps, err := bydbql.Prepare(t.text)
		if err != nil {
			fmt.Fprintln(os.Stderr, err)
			os.Exit(2)
		}
		checkTuple(st, t, ps, vs)
	case "seq":
		checkSequences(st, t, a.Seq)
	case "count":
		checkCounts(st, t)
	case "cache":
		checkCache(st)
	case "structural":
		checkStructural(st)
	default:
		fmt.Fprintln(os.Stderr, "unknown phase", a.Phase)
		os.Exit(2)
	}
	for _, v := range st.viols {
		fmt.Printf("replay: VIOLATION %s\n  %v\n", v.key, v.art["detail"])
	}
	if len(st.viols) > 0 {
		os.Exit(1)
	}
	fmt.Println("replay: case passes")
	os.Exit(0)
}

func main() {
	_ = logger.Init(logger.Logging{Env: "prod", Level: "fatal"})
	if p := ev.Arg("--replay"); p != "" {
		replay(p) // re-executes one recorded case; writes no evidence
		return
	}
	r := ev.New("C20", "translation_validation")
	thorough := ev.Thorough()
	debug.SetGCPercent(400)
	if p := ev.Arg("--cpuprofile"); p != "" {
		f, _ := os.Create(p)
		_ = pprof.StartCPUProfile(f)
		defer pprof.StopCPUProfile()
	}
	all := alphabet()
	tmpls := genTemplates()
	if ev.Arg("--list") != "" {
		for _, t := range tmpls {
			fmt.Printf("%-12s %d %s\n", t.form, len(t.slots), t.spec)
		}
	}

	results := make([]*stats, len(tmpls))
	jobs := make(chan int)
	var wg sync.WaitGroup
	workers := runtime.NumCPU()
	if workers > 16 {
		workers = 16
	}
	for w := 0; w < workers; w++ {
		wg.Add(1)
		go func() {
			defer wg.Done()
			for i := range jobs {
				results[i] = runTemplate(tmpls[i], all, thorough)
			}
		}()
	}
	// largest jobs first
	order := make([]int, len(tmpls))
	for i := range order {
		order[i] = i
	}
	sort.SliceStable(order, func(a, b int) bool { return len(tmpls[order[a]].slots) > len(tmpls[order[b]].slots) })
	for _, i := range order {
		jobs <- i
	}
	close(jobs)
	wg.Wait()

	tot := newStats()
	checkCache(tot)
	checkStructural(tot)
	byK := map[int]int{}
	byForm := map[string]int{}
	posKinds := map[string]int{}
	for i, s := range results {
		tot.merge(s)
		byK[len(tmpls[i].slots)]++
		byForm[tmpls[i].form]++
		for _, sl := range tmpls[i].slots {
			posKinds[tmpls[i].form+"/"+kindNames[sl.kind]]++
		}
	}
	for _, v := range tot.viols {
		r.Violation(v.key, v.art)
	}
	// samples: real cases (one hostile value per value slot)
	byName := map[string]*aval{}
	for _, v := range all {
		byName[v.name] = v
	}
	for n := 0; n < 7; n++ {
		t := tmpls[(n*len(tmpls)/7+n*3)%len(tmpls)]
		vs := make([]*aval, len(t.slots))
		sp := make([]spelled, len(t.slots))
		for j, sl := range t.slots {
			switch sl.kind {
			case kTime:
				vs[j] = byName["ts(A)"]
			case kTopN, kCount:
				vs[j] = byName["int(2147483647)"]
			case kScalar:
				vs[j] = byName[`str("a' OR 'b'='b")`]
			default:
				vs[j] = byName["strs(x,y|z)"]
			}
			sp[j] = spell(sl.kind, vs[j].tv, j)
		}
		o := evalOneShot(t.text, params(vs))
		r.Sample(map[string]any{"template": t.text, "params": names(vs), "literal": literalText(t, sp), "bound_request": canonShort(o.req), "bound_error": o.err})
	}
	r.Sample(map[string]any{"template": tmpls[0].text, "params": []string{"int(7)"}, "expected": "rejected at bind time (int in a TIME position)", "bound_error": evalOneShot(tmpls[0].text, []*modelv1.TagValue{vInt(7)}).err})
	k1, k2, k3 := len(tierAlphabet(all, 1, thorough)), len(tierAlphabet(all, 2, thorough)), len(tierAlphabet(all, 3, thorough))
	r.Set("programs", len(tmpls))
	r.Set("templates_by_placeholders", map[string]int{"1": byK[1], "2": byK[2], "3": byK[3]})
	r.Set("templates_by_form", byForm)
	r.Set("placeholder_positions_by_form_and_kind", posKinds)
	r.Set("alphabet_sizes", map[string]int{"k1": k1, "k2": k2, "k3": k3, "full": len(all)})
	r.Set("evaluations", tot.tuples+tot.seqs+tot.countCases+tot.cacheGets)
	r.Set("tuple_evaluations", tot.tuples)
	r.Set("tuples_by_form", tot.perForm)
	r.Set("path_evaluations", tot.pathEvals)
	r.Set("legal_tuples", tot.legalTuples)
	r.Set("illegal_tuples_rejected", tot.illegalTuples)
	r.Set("disagreements_checked", tot.compared+tot.bothErr)
	r.Set("requests_compared_equal", tot.compared)
	r.Set("both_sides_rejected", tot.bothErr)
	r.Set("both_sides_rejected_same_message", tot.sameErr)
	r.Set("literal_spelling_parse_failures", tot.litParseFail)
	r.Set("distinct_nontrivial", tot.compared)
	r.Set("distinct_requests", len(tot.distinctReq))
	r.Set("distinct_error_classes", len(tot.errClasses))
	r.Set("unspellable_value_tuples", tot.unspellable)
	r.Set("now_dependent_compared", tot.nowChecked)
	r.Set("now_dependent_retries", tot.nowRetries)
	r.Set("bind_sequences", tot.seqs)
	r.Set("bind_sequence_binds", tot.seqBinds)
	r.Set("count_mismatch_and_structural_cases", tot.countCases)
	r.Set("template_deep_equal_checks", tot.templateEq)
	r.Set("cache_results", tot.cacheResults)
	r.Set("cache_phase_requests", tot.cacheGets)
	var ru syscall.Rusage
	if syscall.Getrusage(syscall.RUSAGE_SELF, &ru) == nil {
		r.Set("cpu_s", float64(ru.Utime.Sec+ru.Stime.Sec)+float64(ru.Utime.Usec+ru.Stime.Usec)/1e6)
	}
	r.Set("rule", "one case = (statement template, tuple of parameter values), each enumerated exactly once (complete product of the tier alphabet "+
		"over the template's placeholders); non-trivial = every value is legal for its position AND the literal spelling of the statement "+
		"transforms successfully, so that complete native requests of literal, one-shot-bound and prepared-bound paths were compared with proto.Equal; "+
		"distinct_requests = distinct bound requests (time range removed) among them")
	ec := make([]string, 0, len(tot.errClasses))
	for k := range tot.errClasses {
		ec = append(ec, k)
	}
	sort.Strings(ec)
	if len(ec) > 40 {
		ec = ec[:40]
	}
	r.Set("error_classes_sample", ec)
	r.Assume("literal spelling = single-quoted string with \\\\ and \\' escapes (lexer rule String + participle.Unquote), decimal integers, NULL, comma-joined array elements; accepted types per position as documented in docs/interacting/bydbql.md §2.6")
	r.Assume("pbgen-generated message code and proto.Equal are trusted; the schema registry is a hand-written fake with one schema per catalog")
	r.Assume("leaves computed from time.Now() inside the transformer (open-ended TIME >, relative time strings) are compared up to the time elapsed between the two evaluations (monotonic clock window, 3 retries)")
	fmt.Printf("C20: templates=%d (k1=%d k2=%d k3=%d) alphabet k1=%d k2=%d k3=%d tuples=%d legal=%d compared_equal=%d both_rejected=%d illegal_rejected=%d distinct_requests=%d error_classes=%d seqs=%d count_cases=%d path_evals=%d\n",
		len(tmpls), byK[1], byK[2], byK[3], k1, k2, k3, tot.tuples, tot.legalTuples, tot.compared, tot.bothErr, tot.illegalTuples, len(tot.distinctReq), len(tot.errClasses), tot.seqs, tot.countCases, tot.pathEvals)
	pprof.StopCPUProfile()
	r.Finish()
}
