// C17 (part-transfer half): a part shipped between nodes arrives with exactly the sender's content for any chunk size
// and file layout; a corrupted / duplicated / reordered-beyond-the-window / truncated transfer is never installed; a
// failed transfer leaves the receiver unchanged and the sender's data intact for retry.
//
// Phases (separate counters, so that the cluster==standalone half can be added as a further phase later):
//
//	rx     open loop: the chunk sequence recorded from the real sender, with every single fault, is fed to the real
//	       receiver (sub.server.SyncPart + measure syncCallback/syncPartContext over a real tsTable)
//	pairs  open loop: every ordered pair of faults over a small chunking
//	loop   closed loop: real measure syncSnapshot -> real pub chunkedSyncClient -> gRPC (bufconn) -> fault-injecting
//	       stream interceptor -> real sub.server.SyncPart -> real measure handler; sender ownership is judged here
package main

import (
	"bytes"
	"context"
	"encoding/base64"
	"encoding/binary"
	"encoding/json"
	"errors"
	"fmt"
	"io"
	"net"
	"os"
	"path/filepath"
	"runtime/pprof"
	"sort"
	"strconv"
	"strings"
	"sync"
	"sync/atomic"
	"time"

	"google.golang.org/grpc"
	"google.golang.org/grpc/codes"
	"google.golang.org/grpc/connectivity"
	"google.golang.org/grpc/credentials/insecure"
	"google.golang.org/grpc/status"
	"google.golang.org/grpc/test/bufconn"
	"google.golang.org/protobuf/proto"

	"github.com/apache/skywalking-banyandb/api/data"
	clusterv1 "github.com/apache/skywalking-banyandb/api/proto/banyandb/cluster/v1"
	"github.com/apache/skywalking-banyandb/banyand/measure"
	"github.com/apache/skywalking-banyandb/banyand/queue"
	"github.com/apache/skywalking-banyandb/banyand/queue/pub"
	"github.com/apache/skywalking-banyandb/banyand/queue/sub"
	"github.com/apache/skywalking-banyandb/pkg/logger"
	"github.com/apache/skywalking-banyandb/pkg/verif/e2e"
	"github.com/apache/skywalking-banyandb/pkg/verif/ev"
	"github.com/apache/skywalking-banyandb/pkg/verif/par"
)

// ---------------------------------------------------------------------------------------------------------------
// data set

const tsBase = int64(1_790_000_000_000_000_000) // 2026-09, > 0 as CreatePartHandler demands

var allSeries = func() []uint64 {
	out := []uint64{1, 2, 3, 7, 8}
	for s := uint64(101); s <= 140; s++ {
		out = append(out, s)
	}
	return out
}()

// layT is a file layout of the part: number of tag families, and the small (6 rows, a few hundred bytes: every
// chunking down to 1 byte is affordable) or big (320 rows, > 2 chunks of 4 KiB) data set.
type layT struct {
	NF  int  `json:"nf"`
	Big bool `json:"big,omitempty"`
}

func (l layT) String() string {
	if l.Big {
		return fmt.Sprintf("nf%dL", l.NF)
	}
	return fmt.Sprintf("nf%d", l.NF)
}

var layouts = []layT{{NF: 1}, {NF: 3}, {NF: 3, Big: true}}

func senderRows(l layT) []measure.V17Row {
	var out []measure.V17Row
	if l.Big {
		x := uint64(88172645463325252)
		for s := uint64(101); s <= 140; s++ {
			for k := int64(0); k < 8; k++ {
				x ^= x << 13
				x ^= x >> 7
				x ^= x << 17
				out = append(out, measure.V17Row{Series: s, TS: tsBase + int64(x%1_000_000_000)*16 + int64(s)*8 + k, Version: 1, Val: int64(x >> 1)})
			}
		}
		return out
	}
	for s := uint64(1); s <= 3; s++ {
		for k := int64(0); k < 2; k++ {
			out = append(out, measure.V17Row{Series: s, TS: tsBase + int64(s)*1000 + k, Version: 1, Val: int64(s)*100 + k})
		}
	}
	return out
}

func receiverRows() []measure.V17Row {
	return []measure.V17Row{
		{Series: 7, TS: tsBase + 7000, Version: 1, Val: 700},
		{Series: 8, TS: tsBase + 8000, Version: 1, Val: 800},
		{Series: 8, TS: tsBase + 8001, Version: 1, Val: 801},
	}
}

// ---------------------------------------------------------------------------------------------------------------
// configuration, faults, scripts

type cfgT struct {
	Kind string `json:"kind,omitempty"` // engine: "" = measure (this file) | stream | trace (stream.go, tracesync.go)
	Mode string `json:"mode"`           // receiver: default (reordering, gap 5, buffer 10) | seq | w2 (gap 2, buffer 2) | b1 (gap 3, buffer 1)
	Lay  layT   `json:"lay"`            // file layout of the part
	CS   uint32 `json:"cs"`             // sender chunk size in bytes
}

func (c cfgT) String() string { return fmt.Sprintf("%s%s/cs%d/%s", c.Kind, c.Lay, c.CS, c.Mode) }

type fault struct {
	Kind string `json:"k"`
	Pos  string `json:"p,omitempty"`
	I    int    `json:"i"`
	J    int    `json:"j,omitempty"`
}

type item struct {
	Req *clusterv1.SyncPartRequest
	Bad string // "", flip, sid, partid
	ID  int    // index in the base sequence; n = the completion message
}

type script struct {
	End   string // eof | err | crash
	Items []item
}

func cloneReq(r *clusterv1.SyncPartRequest) *clusterv1.SyncPartRequest {
	return proto.Clone(r).(*clusterv1.SyncPartRequest)
}

func baseScript(base []*clusterv1.SyncPartRequest) *script {
	s := &script{End: "eof"}
	for i, r := range base {
		s.Items = append(s.Items, item{ID: i, Req: r})
	}
	return s
}

func (s *script) find(id int) int {
	for k := range s.Items {
		if s.Items[k].ID == id {
			return k
		}
	}
	return -1
}

func flipBit(b []byte, pos string) []byte {
	out := append([]byte(nil), b...)
	if len(out) == 0 {
		return out
	}
	switch pos {
	case "first":
		out[0] ^= 0x01
	case "mid":
		out[len(out)/2] ^= 0x08
	default:
		out[len(out)-1] ^= 0x80
	}
	return out
}

// apply edits the script; false when the fault's target is not (any more) in the script.
func (s *script) apply(f fault) bool {
	k := s.find(f.I)
	if k < 0 {
		return false
	}
	switch f.Kind {
	case "flip":
		if s.Items[k].Req.GetCompletion() != nil || s.Items[k].Bad != "" {
			return false
		}
		r := cloneReq(s.Items[k].Req)
		r.ChunkData = flipBit(r.ChunkData, f.Pos)
		s.Items[k].Req, s.Items[k].Bad = r, "flip"
	case "sid":
		if s.Items[k].Bad != "" {
			return false
		}
		r := cloneReq(s.Items[k].Req)
		r.SessionId += "-other"
		s.Items[k].Req, s.Items[k].Bad = r, "sid"
	case "partid":
		if s.Items[k].Bad != "" || len(s.Items[k].Req.PartsInfo) == 0 {
			return false
		}
		r := cloneReq(s.Items[k].Req)
		r.PartsInfo[0].Id += 1000
		s.Items[k].Req, s.Items[k].Bad = r, "partid"
	case "drop":
		s.Items = append(s.Items[:k:k], s.Items[k+1:]...)
	case "dup":
		cp := s.Items[k]
		rest := append([]item{cp}, s.Items[k+1:]...)
		s.Items = append(s.Items[:k+1:k+1], rest...)
	case "swap", "cswap":
		l := s.find(f.J)
		if l < 0 || l == k {
			return false
		}
		s.Items[k], s.Items[l] = s.Items[l], s.Items[k]
	case "eof", "err", "crash":
		s.Items = s.Items[: k+1 : k+1]
		s.End = f.Kind
	default:
		panic("unknown fault " + f.Kind)
	}
	return true
}

// window of a receiver mode: (reordering, max gap, max buffered).
func window(mode string) (bool, int, int) {
	winMu.Lock()
	defer winMu.Unlock()
	if w, ok := winCache[mode]; ok {
		return w.re, w.g, w.b
	}
	re, g, b := sub.V17NewServer(mode).Window()
	winCache[mode] = winT{re, int(g), int(b)}
	return re, int(g), int(b)
}

type winT struct {
	re   bool
	g, b int
}

var (
	winMu    sync.Mutex
	winCache = map[string]winT{}
)

// model is the reference reading of the protocol (flags --enable-chunk-reordering, --max-chunk-gap-size,
// --max-chunk-buffer-size; CRC per chunk; completion closes the session): it tells whether a script must end in the
// clean result ("clean": every chunk applied exactly once, in order, uncorrupted, before the completion message) or
// must leave the receiver unchanged ("reject"). A session-id deviation has no documented consequence ("either").
func model(s *script, n int, mode string) string {
	reorder, gap, bufMax := window(mode)
	expected := 0
	buf := map[int]item{}
	var applied []int
	either := false
	poisoned := false
	var curPart uint64
	havePart := false
	ok := func(it item) bool { // the chunk whose turn it is
		if it.Bad == "flip" {
			return false
		}
		for _, pi := range it.Req.PartsInfo { // trace: one chunk may carry several parts (core + index parts, same id)
			if havePart && pi.Id != curPart {
				poisoned = true // a different part id is a part boundary: the part before it was closed incomplete
			}
			curPart, havePart = pi.Id, true
		}
		applied = append(applied, it.ID)
		return true
	}
	verdict := func() string {
		if poisoned || len(applied) != n {
			return "reject"
		}
		for i, a := range applied {
			if a != i {
				return "reject"
			}
		}
		if either {
			return "either"
		}
		return "clean"
	}
	for pos, it := range s.Items {
		if it.Req.GetMetadata() != nil {
			// a message with session metadata opens a session; if one is open it is abandoned (nothing of it may be installed)
			expected, buf, applied, poisoned, havePart = 0, map[int]item{}, nil, false, false
		} else if pos == 0 {
			return "reject" // no session: the receiver answers SESSION_NOT_FOUND and ends the stream
		}
		if it.Bad == "sid" {
			either = true
		}
		if it.ID == n {
			return verdict()
		}
		idx := it.ID
		if !reorder {
			if idx == expected && ok(it) {
				expected++
			}
			continue
		}
		switch {
		case idx == expected:
			if !ok(it) {
				continue
			}
			expected++
			for {
				nx, has := buf[expected]
				if !has {
					break
				}
				delete(buf, expected)
				if !ok(nx) {
					break
				}
				expected++
			}
		case idx > expected:
			if idx-expected > gap || len(buf) >= bufMax {
				continue
			}
			buf[idx] = it
		}
	}
	return "reject"
}

// ---------------------------------------------------------------------------------------------------------------
// scratch space, templates, worlds

var scratch string // shared, made by the driver
var mydir string   // private to this process

var seq int64

func caseDir() string {
	d := filepath.Join(mydir, strconv.FormatInt(atomic.AddInt64(&seq, 1), 10))
	if err := os.MkdirAll(d, 0o755); err != nil {
		harnessErr("mkdir: %v", err)
	}
	return d
}

func harnessErr(f string, a ...any) {
	fmt.Printf("HARNESS-ERROR: "+f+"\n", a...)
	if _, _, ok := par.Worker(); !ok && scratch != "" {
		_ = os.RemoveAll(scratch)
	} else if mydir != "" {
		_ = os.RemoveAll(mydir)
	}
	os.Exit(2)
}

func copyDir(src, dst string) {
	err := filepath.Walk(src, func(p string, info os.FileInfo, err error) error {
		if err != nil {
			return err
		}
		rel, _ := filepath.Rel(src, p)
		t := filepath.Join(dst, rel)
		if info.IsDir() {
			return os.MkdirAll(t, 0o755)
		}
		b, err := os.ReadFile(p)
		if err != nil {
			if os.IsNotExist(err) {
				return nil
			}
			return err
		}
		return os.WriteFile(t, b, 0o644)
	})
	if err != nil {
		harnessErr("copy %s: %v", src, err)
	}
}

func tmplDir(kind string, l layT) string { return filepath.Join(scratch, "tmpl", kind+l.String()) }

// senderPartIDSkip: the sender's part-id counter before the template part is written. The part id alphabet over the
// layouts is {1, 26 = 0x1a, 16 = 0x10}: an id that reads the same in decimal and in the hex directory name, one whose
// hex name has a letter (not parseable as decimal), one whose hex name is the decimal notation of ANOTHER id (round 2,
// class of seeded C17-6: the part is named by id in FailedPart entries, part directories, failed-parts/<name>_core).
func senderPartIDSkip(l layT) uint64 {
	switch {
	case l.Big:
		return 15
	case l.NF > 1:
		return 25
	}
	return 0
}

func buildTemplates(l layT) {
	nf := l.NF
	s := measure.V17Open(tmplDir("snd", l), nf)
	s.SkipPartIDs(senderPartIDSkip(l))
	s.Write(senderRows(l))
	s.Flush()
	s.Close()
	r := measure.V17Open(tmplDir("rcv", l), nf)
	r.Write(receiverRows())
	r.Flush()
	r.Close()
}

// tableState is everything observable of a table that the property talks about.
type tableState struct {
	Files   map[string]string
	RowsErr string
	Parts   []uint64
	Rows    []measure.V17Row
	Epoch   uint64
}

func capture(t *measure.V17Table, read bool) *tableState {
	st := &tableState{}
	pp, e := t.Parts()
	st.Epoch = e
	for _, p := range pp {
		if p.Mem {
			harnessErr("memory part in a table that only receives file parts")
		}
		st.Parts = append(st.Parts, p.ID)
	}
	sort.Slice(st.Parts, func(i, j int) bool { return st.Parts[i] < st.Parts[j] })
	st.Files = measure.V17FileCopy(t.Dir)
	if read {
		rows, err := t.Read(allSeries)
		st.Rows = rows
		if err != nil {
			st.RowsErr = err.Error()
		}
	}
	return st
}

// senderPart is the reference: the sender's part as files and as rows.
type senderPart struct {
	Files map[string]string
	Rows  []measure.V17Row
	ID    uint64
}

var (
	senderMu    sync.Mutex
	senderCache = map[layT]*senderPart{}
)

func senderOf(l layT) *senderPart {
	senderMu.Lock()
	defer senderMu.Unlock()
	if sp := senderCache[l]; sp != nil {
		return sp
	}
	nf := l.NF
	d := caseDir()
	copyDir(tmplDir("snd", l), d)
	t := measure.V17Open(d, nf)
	pp, _ := t.Parts()
	if len(pp) != 1 || pp[0].Mem {
		harnessErr("sender template must hold exactly one file part, has %v", pp)
	}
	rows, err := t.Read(allSeries)
	if err != nil || len(rows) != len(senderRows(l)) {
		harnessErr("sender template rows: %v %v", rows, err)
	}
	sp := &senderPart{ID: pp[0].ID, Rows: rows, Files: measure.V17FileCopy(pp[0].Path)}
	t.Close()
	_ = os.RemoveAll(d)
	senderCache[l] = sp
	return sp
}

func pname(id uint64) string { return fmt.Sprintf("%016x", id) }

// relation of an installed file to the sender's file.
func relation(got, want string) string {
	switch {
	case got == want:
		return "eq"
	case len(got) < len(want) && strings.HasPrefix(want, got):
		return "prefix"
	case len(got) < len(want):
		return "hole"
	case len(got) == len(want):
		return "corrupt"
	case strings.HasPrefix(got, want):
		return "longer"
	default:
		return "longer-corrupt"
	}
}

// verdictT is what one execution did to the receiver.
type verdictT struct {
	Class   string `json:"class"`   // clean | unchanged | bad
	Detail  string `json:"detail"`  // class of badness (stable, no indices)
	Install string `json:"install"` // "", exact, inexact[...]
	Copies  int    `json:"copies"`
}

// judge compares the receiver before/after with the sender's part.
func judge(before, after *tableState, sp *senderPart, allowCopies int) verdictT {
	v := verdictT{}
	bad := func(d string) verdictT { v.Class, v.Detail = "bad", d; return v }
	inB := map[uint64]bool{}
	for _, p := range before.Parts {
		inB[p] = true
	}
	inA := map[uint64]bool{}
	var fresh []uint64
	for _, p := range after.Parts {
		inA[p] = true
		if !inB[p] {
			fresh = append(fresh, p)
		}
	}
	for _, p := range before.Parts {
		if !inA[p] {
			return bad("existing-part-left-the-snapshot")
		}
	}
	// directory: part dirs == snapshot parts; every earlier file untouched
	dirs := map[string]bool{}
	var manifests []string
	for name := range after.Files {
		if i := strings.IndexByte(name, '/'); i >= 0 {
			dirs[name[:i]] = true
		} else if strings.HasSuffix(name, ".snp") {
			manifests = append(manifests, name)
		} else {
			return bad("unexpected-file[" + filepath.Ext(name) + "]")
		}
	}
	for d := range dirs {
		id, err := strconv.ParseUint(d, 16, 64)
		if err != nil || !inA[id] {
			if d == "failed-parts" {
				continue
			}
			return bad("leftover-part-dir-not-in-snapshot")
		}
	}
	for _, p := range after.Parts {
		if !dirs[pname(p)] {
			return bad("snapshot-part-without-directory")
		}
	}
	for name, c := range before.Files {
		if !strings.Contains(name, "/") && len(fresh) > 0 {
			continue // an older manifest may be collected once a newer one is published (it is, when the table is reopened)
		}
		if c2, ok := after.Files[name]; !ok || c2 != c {
			if os.Getenv("C17_DEBUG") != "" {
				fmt.Printf("debug: earlier file %s present=%v; before=%v after=%v\n", name, ok, keys(before.Files), keys(after.Files))
			}
			return bad("earlier-file-changed-or-removed")
		}
	}
	if len(fresh) == 0 {
		if len(after.Files) != len(before.Files) {
			return bad("directory-grew-without-new-part")
		}
		if after.Epoch != before.Epoch {
			return bad("epoch-changed-without-new-part")
		}
		if after.RowsErr != "" || !rowsEq(after.Rows, before.Rows) {
			return bad("rows-changed-without-new-part")
		}
		v.Class = "unchanged"
		return v
	}
	// manifest: the newest manifest must list exactly the snapshot's parts
	sort.Strings(manifests)
	if len(manifests) == 0 {
		return bad("no-manifest")
	}
	var listed []string
	if err := json.Unmarshal([]byte(after.Files[manifests[len(manifests)-1]]), &listed); err != nil {
		return bad("manifest-unreadable")
	}
	var want []string
	for _, p := range after.Parts {
		want = append(want, pname(p))
	}
	sort.Strings(listed)
	if strings.Join(listed, ",") != strings.Join(want, ",") {
		return bad("manifest-differs-from-snapshot")
	}
	rels := map[string]bool{}
	for _, p := range fresh {
		pre := pname(p) + "/"
		got := map[string]string{}
		for name, c := range after.Files {
			if strings.HasPrefix(name, pre) {
				got[name[len(pre):]] = c
			}
		}
		for name, c := range sp.Files {
			g, ok := got[name]
			if !ok {
				rels["missing-file"] = true
				continue
			}
			if r := relation(g, c); r != "eq" {
				if name == "metadata.json" {
					r = "metadata-" + r
				}
				rels[r] = true
			}
		}
		for name := range got {
			if _, ok := sp.Files[name]; !ok {
				rels["extra-file"] = true
			}
		}
	}
	v.Copies = len(fresh)
	if len(rels) > 0 {
		var rr []string
		for r := range rels {
			rr = append(rr, r)
		}
		sort.Strings(rr)
		v.Install = "inexact[" + strings.Join(rr, ",") + "]"
		return bad("inexact-install[" + strings.Join(rr, ",") + "]")
	}
	v.Install = "exact"
	if v.Copies > allowCopies {
		return bad(fmt.Sprintf("part-installed-%d-times", v.Copies))
	}
	if after.RowsErr != "" {
		return bad("read-error-after-exact-install")
	}
	// logical content: earlier rows plus the part's rows; the read path keeps one row per (series, timestamp), the
	// highest version (a second identical copy of the part therefore adds nothing)
	byKey := map[[2]int64]measure.V17Row{}
	for _, r := range append(append([]measure.V17Row(nil), before.Rows...), sp.Rows...) {
		k := [2]int64{int64(r.Series), r.TS}
		if o, ok := byKey[k]; !ok || r.Version > o.Version {
			byKey[k] = r
		}
	}
	var wantRows []measure.V17Row
	for _, r := range byKey {
		wantRows = append(wantRows, r)
	}
	sort.Slice(wantRows, func(i, j int) bool {
		if wantRows[i].Series != wantRows[j].Series {
			return wantRows[i].Series < wantRows[j].Series
		}
		return wantRows[i].TS < wantRows[j].TS
	})
	if !rowsEq(after.Rows, wantRows) {
		if len(after.Rows) > len(wantRows) {
			return bad("duplicate-rows-after-install")
		}
		return bad("rows-differ-after-exact-install")
	}
	v.Class = "clean"
	return v
}

func keys(m map[string]string) []string {
	var out []string
	for k := range m {
		out = append(out, k)
	}
	sort.Strings(out)
	return out
}

func rowsEq(a, b []measure.V17Row) bool {
	if len(a) != len(b) {
		return false
	}
	for i := range a {
		if a[i] != b[i] {
			return false
		}
	}
	return true
}

// ---------------------------------------------------------------------------------------------------------------
// receiver instance

type receiver struct {
	tab *measure.V17Table
	h   *measure.V17Handler
	srv *sub.V17Server
}

func openReceiver(dir string, nf int, mode string) *receiver {
	return openReceiverBusy(dir, nf, mode, nil)
}

func openReceiverBusy(dir string, nf int, mode string, ctl *busyCtl) *receiver {
	t := measure.V17Open(dir, nf)
	h := t.Handler()
	s := sub.V17NewServer(mode)
	var cb queue.ChunkedSyncHandler = h.Callback()
	if ctl != nil {
		cb = &busyHandler{ChunkedSyncHandler: cb, ctl: ctl}
	}
	s.Register(data.TopicMeasurePartSync, cb)
	return &receiver{tab: t, h: h, srv: s}
}

// ---------------------------------------------------------------------------------------------------------------
// open loop

type memStream struct {
	grpc.ServerStream
	ctx     context.Context
	onCrash func()
	sc      *script
	resps   []*clusterv1.SyncPartResponse
	pos     int
}

func (m *memStream) Context() context.Context { return m.ctx }

func (m *memStream) Recv() (*clusterv1.SyncPartRequest, error) {
	if m.pos < len(m.sc.Items) {
		r := cloneReq(m.sc.Items[m.pos].Req)
		m.pos++
		return r, nil
	}
	m.pos++
	switch m.sc.End {
	case "err":
		return nil, status.Error(codes.Unavailable, "transport is closing")
	case "crash":
		if m.onCrash != nil {
			m.onCrash()
			m.onCrash = nil
		}
		return nil, io.EOF
	}
	return nil, io.EOF
}

func (m *memStream) Send(r *clusterv1.SyncPartResponse) error {
	m.resps = append(m.resps, proto.Clone(r).(*clusterv1.SyncPartResponse))
	return nil
}

func respLetter(r *clusterv1.SyncPartResponse) byte {
	switch r.Status {
	case clusterv1.SyncStatus_SYNC_STATUS_CHUNK_RECEIVED:
		switch {
		case strings.Contains(r.Error, "buffered"):
			return 'B'
		case strings.Contains(r.Error, "duplicate"):
			return 'D'
		}
		return 'R'
	case clusterv1.SyncStatus_SYNC_STATUS_CHUNK_CHECKSUM_MISMATCH:
		return 'M'
	case clusterv1.SyncStatus_SYNC_STATUS_CHUNK_OUT_OF_ORDER:
		return 'O'
	case clusterv1.SyncStatus_SYNC_STATUS_SESSION_NOT_FOUND:
		return 'N'
	case clusterv1.SyncStatus_SYNC_STATUS_SYNC_COMPLETE:
		if r.GetSyncResult().GetSuccess() {
			return 'C'
		}
		return 'c'
	case clusterv1.SyncStatus_SYNC_STATUS_SERVER_BUSY:
		return 'U'
	}
	return '?'
}

func respSet(rs []*clusterv1.SyncPartResponse) (string, bool) {
	seen := map[byte]bool{}
	success := false
	for _, r := range rs {
		l := respLetter(r)
		seen[l] = true
		if l == 'C' {
			success = true
		}
	}
	var ls []byte
	for l := range seen {
		ls = append(ls, l)
	}
	sort.Slice(ls, func(i, j int) bool { return ls[i] < ls[j] })
	return string(ls), success
}

func errClass(err error) string {
	if err == nil {
		return "nil"
	}
	m := err.Error()
	for _, k := range []string{"checksum", "out of order", "failed to complete part", "failed to create part handler", "failed to stream file chunk",
		"received more bytes", "transport is closing", "context canceled", "unknown sync topic", "no handler registered", "EOF"} {
		if strings.Contains(m, k) {
			return strings.ReplaceAll(k, " ", "-")
		}
	}
	return "other"
}

func panicSite(p any) string {
	m := fmt.Sprint(p)
	for _, k := range []string{"cannot read", "cannot unmarshal", "cannot open", "cannot decompress", "cannot parse", "cannot decode", "invalid", "index out of range",
		"slice bounds", "nil pointer", "close of closed", "directory is exist", "unexpected"} {
		if strings.Contains(m, k) {
			return strings.ReplaceAll(k, " ", "-")
		}
	}
	var sb strings.Builder
	for _, r := range m { // no paths, no numbers: keys must be stable
		if (r >= 'a' && r <= 'z') || (r >= 'A' && r <= 'Z') || r == ' ' {
			sb.WriteRune(r)
		}
		if sb.Len() >= 40 {
			break
		}
	}
	return strings.ReplaceAll(strings.TrimSpace(sb.String()), " ", "-")
}

type caseT struct {
	Phase  string  `json:"phase"`
	Cfg    cfgT    `json:"cfg"`
	Faults []fault `json:"faults"`
}

func (c caseT) kinds(n int) string {
	reorder, gap, bufMax := window(c.Cfg.Mode)
	var ks []string
	for _, f := range c.Faults {
		k := f.Kind
		switch k {
		case "swap":
			d := f.J - f.I
			if d < 0 {
				d = -d
			}
			switch {
			case f.I == 0 || f.J == 0:
				k = "swap-first" // the message that opens the session is displaced
			case reorder && d <= gap && d <= bufMax:
				k = "swap-in"
			default:
				k = "swap-out"
			}
		case "eof", "err", "crash", "drop", "dup":
			if f.I == n {
				k += "-completion"
			} else if f.I == 0 && (k == "drop" || k == "dup") {
				k += "-first"
			}
		}
		ks = append(ks, k)
	}
	if c.Phase != "pairs" {
		sort.Strings(ks)
	}
	return strings.Join(ks, "+")
}

// what turns a judge detail into the stable class used in violation keys.
func what(detail string) string {
	if !strings.HasPrefix(detail, "inexact-install[") {
		return detail
	}
	rels := strings.Split(strings.TrimSuffix(strings.TrimPrefix(detail, "inexact-install["), "]"), ",")
	var other []string
	for _, r := range rels {
		switch r {
		case "hole", "prefix", "missing-file":
		default:
			other = append(other, r)
		}
	}
	if len(other) == 0 {
		return "partial-install" // bytes of the part are missing, none is wrong
	}
	return "wrong-bytes-installed[" + strings.Join(other, ",") + "]"
}

type resultT struct {
	Invalid string `json:"invalid,omitempty"` // closed loop: the in-memory connection itself failed; the execution says nothing
	Key     string `json:"key,omitempty"`     // violation key, "" when fine
	Sig     string `json:"sig"`               // outcome signature (for distinct-outcome counting)
	Exp     string `json:"exp"`
	Class   string `json:"class"`
	Skipped bool   `json:"skipped,omitempty"`
	Nontriv bool   `json:"nontriv"`
}

// runOpen executes one open-loop case.
func runOpen(c caseT, base []*clusterv1.SyncPartRequest, scOverride *script) resultT {
	if c.Cfg.Kind != "" {
		return runOpenK(c, base, scOverride)
	}
	n := len(base) - 1
	sc := scOverride
	if sc == nil {
		sc = baseScript(base)
		for _, f := range c.Faults {
			if !sc.apply(f) {
				return resultT{Skipped: true}
			}
		}
	}
	exp := model(sc, n, c.Cfg.Mode)
	sp := senderOf(c.Cfg.Lay)
	dir := caseDir()
	defer os.RemoveAll(dir)
	rdir := filepath.Join(dir, "rcv")
	copyDir(tmplDir("rcv", c.Cfg.Lay), rdir)
	rc := openReceiver(rdir, c.Cfg.Lay.NF, c.Cfg.Mode)
	before := capture(rc.tab, true)
	crashDir := filepath.Join(dir, "crash")
	st := &memStream{ctx: context.Background(), sc: sc}
	crashed := false
	if sc.End == "crash" {
		st.onCrash = func() { copyDir(rdir, crashDir); crashed = true }
	}
	var syncErr error
	var pnc any
	func() {
		// the shipped server wraps handlers in a recovery interceptor: a panic ends the stream with an error
		defer func() { pnc = recover() }()
		syncErr = rc.srv.SyncPart(st)
	}()
	if sc.End == "crash" && !crashed {
		copyDir(rdir, crashDir) // the stream ended before the receiver asked for another message: it dies right after
	}
	if os.Getenv("C17_DEBUG") != "" && sc.End == "crash" {
		fmt.Printf("debug: crashed-in-recv=%v rdir=%v crashDir=%v\n", crashed, keys(measure.V17FileCopy(rdir)), keys(measure.V17FileCopy(crashDir)))
	}
	rs, success := respSet(st.resps)
	kinds := c.kinds(n)
	head := fmt.Sprintf("%s/%s/%s/exp=%s", c.Phase, c.Cfg.Mode, kinds, exp)
	res := resultT{Exp: exp, Nontriv: len(c.Faults) > 0}
	ec := errClass(syncErr)
	if pnc != nil {
		ec = "panic:" + panicSite(pnc)
	}
	finish := func(key, class, detail string) resultT {
		res.Class = class
		res.Sig = fmt.Sprintf("%s/%s/%s/resp[%s]/err=%s", head, class, detail, rs, ec)
		if key != "" {
			res.Key = head + "/" + key
		}
		return res
	}
	if refs := atomic.LoadInt64(&rc.h.SegRefs); refs != 0 {
		rc.tab.Close()
		return finish(fmt.Sprintf("segment-pin-leak[%d]", refs), "bad", "pin-leak")
	}
	target := rc
	if sc.End == "crash" {
		// the process died after the last delivered message: what is on disk at that instant is reopened by a new process
		rc.tab.Close()
		var rp any
		func() {
			defer func() { rp = recover() }()
			target = openReceiver(crashDir, c.Cfg.Lay.NF, c.Cfg.Mode)
		}()
		if rp != nil {
			return finish("reopen-panic["+panicSite(rp)+"]", "bad", "reopen-panic")
		}
	}
	after := capture(target.tab, true)
	if os.Getenv("C17_DEBUG") != "" && sc.End == "crash" {
		fmt.Printf("debug: after-reopen=%v\n", keys(after.Files))
	}
	v := judge(before, after, sp, 1)
	defer target.tab.Close()
	switch {
	case v.Class == "bad":
		return finish(what(v.Detail), "bad", v.Detail)
	case v.Class == "clean" && !success:
		return finish("installed-without-success-report", "bad", "installed-unreported")
	case sc.End == "crash":
		// restart: nothing half-installed may survive; then a clean retry of the whole transfer must add exactly one copy
		if v.Class == "clean" && exp == "reject" {
			return finish("oracle-mismatch-fault-expected-to-be-rejected-was-installed-exactly", "bad", "oracle-mismatch")
		}
		st2 := &memStream{ctx: context.Background(), sc: baseScript(base)}
		var err2 error
		var p2 any
		func() {
			defer func() { p2 = recover() }()
			err2 = target.srv.SyncPart(st2)
		}()
		if p2 != nil {
			return finish("retry-after-restart-panic["+panicSite(p2)+"]", "bad", "retry-panic")
		}
		_, ok2 := respSet(st2.resps)
		after2 := capture(target.tab, true)
		v2 := judge(after, after2, sp, 1)
		if v2.Class != "clean" || !ok2 || err2 != nil {
			return finish("retry-after-restart-not-clean["+v2.Class+":"+what(v2.Detail)+"]", "bad", "retry-not-clean")
		}
		return finish("", "restart:"+v.Class+"+retry:clean", "")
	case v.Class == "unchanged" && success:
		return finish("success-reported-but-nothing-installed", "bad", "success-without-install")
	case v.Class == "unchanged" && exp == "clean":
		return finish("harmless-fault-rejected", "unchanged", "")
	case v.Class == "clean" && exp == "reject":
		return finish("oracle-mismatch-fault-expected-to-be-rejected-was-installed-exactly", "clean", "")
	}
	return finish("", v.Class, "")
}

// ---------------------------------------------------------------------------------------------------------------
// closed loop

type loopFault struct {
	Kind       string `json:"k"` // none | corrupt | recv-err | recv-eof | send-err | crash | busy
	Pos        string `json:"p,omitempty"`
	K          int    `json:"i"`               // message / chunk index
	Times      int    `json:"times,omitempty"` // busy: how many deliveries of chunk K are answered "server busy" (0 with Persistent = all)
	Persistent bool   `json:"persistent,omitempty"`
}

// busyCtl couples the stream interceptor (which sees chunk indexes) with the part handler wrapper (which is where the
// real receiver learns about memory pressure: HandleFileChunk returning queue.ErrServerBusy).
type busyCtl struct {
	mu    sync.Mutex
	armed bool
	left  int
	hits  int
}

// busyHandler wraps the real measure chunked-sync handler: when armed, the next HandleFileChunk reports memory
// pressure instead of writing (exactly what the real handler does while protector.State() is High).
type busyHandler struct {
	queue.ChunkedSyncHandler
	ctl *busyCtl
}

func (b *busyHandler) HandleFileChunk(ctx *queue.ChunkedSyncPartContext, chunk []byte) error {
	b.ctl.mu.Lock()
	if b.ctl.armed {
		b.ctl.armed = false
		b.ctl.hits++
		b.ctl.mu.Unlock()
		return queue.ErrServerBusy
	}
	b.ctl.mu.Unlock()
	return b.ChunkedSyncHandler.HandleFileChunk(ctx, chunk)
}

type dispatcher struct {
	clusterv1.UnimplementedChunkedSyncServiceServer
	cur    atomic.Pointer[receiver]
	mu     sync.Mutex
	panics []string
}

func (d *dispatcher) SyncPart(st clusterv1.ChunkedSyncService_SyncPartServer) (err error) {
	defer func() {
		if p := recover(); p != nil {
			d.mu.Lock()
			d.panics = append(d.panics, panicSite(p))
			d.mu.Unlock()
			err = status.Error(codes.Internal, "receiver panicked")
		}
	}()
	return d.cur.Load().srv.SyncPart(st)
}

type loopNet struct {
	lis      *bufconn.Listener
	gs       *grpc.Server
	conn     *grpc.ClientConn
	disp     *dispatcher
	onCrash  func()
	rec      []*clusterv1.SyncPartRequest
	f        loopFault
	busy     *busyCtl
	wg       sync.WaitGroup
	mu       sync.Mutex
	streams  int
	fired    bool
	attempts int
}

type faultStream struct {
	grpc.ServerStream
	n         *loopNet
	no        int
	delivered int
	sent      int
}

func (fs *faultStream) RecvMsg(m any) error {
	n := fs.n
	// the message is taken off the wire first (so the sender's Send has completed: no race between the two ends), then
	// the fault decides what the handler sees instead of it
	if err := fs.ServerStream.RecvMsg(m); err != nil {
		return err
	}
	req := m.(*clusterv1.SyncPartRequest)
	n.mu.Lock()
	first := fs.no == 1
	f := n.f
	if first {
		n.rec = append(n.rec, cloneReq(req))
	}
	if first && !n.fired && f.K == fs.delivered {
		switch f.Kind {
		case "recv-err":
			n.fired = true
			n.mu.Unlock()
			return status.Error(codes.Unavailable, "transport is closing")
		case "recv-eof":
			n.fired = true
			n.mu.Unlock()
			return io.EOF
		case "crash":
			n.fired = true
			cb := n.onCrash
			n.mu.Unlock()
			cb()
			return status.Error(codes.Unavailable, "transport is closing")
		}
	}
	defer n.mu.Unlock()
	if f.Kind == "corrupt" && req.GetCompletion() == nil && int(req.ChunkIndex) == f.K && (f.Persistent || !n.fired) {
		n.fired = true
		req.ChunkData = flipBit(req.ChunkData, f.Pos)
	}
	if f.Kind == "busy" && req.GetCompletion() == nil && int(req.ChunkIndex) == f.K && n.busy != nil {
		n.busy.mu.Lock()
		if f.Persistent || n.busy.left > 0 {
			n.busy.left--
			n.busy.armed = true
		}
		n.busy.mu.Unlock()
	}
	fs.delivered++
	return nil
}

func (fs *faultStream) SendMsg(m any) error {
	n := fs.n
	n.mu.Lock()
	if fs.no == 1 && !n.fired && n.f.Kind == "send-err" && n.f.K == fs.sent {
		n.fired = true
		n.mu.Unlock()
		return status.Error(codes.Unavailable, "transport is closing")
	}
	n.mu.Unlock()
	fs.sent++
	return fs.ServerStream.SendMsg(m)
}

func newLoopNet(f loopFault) *loopNet {
	n := &loopNet{f: f, disp: &dispatcher{}}
	n.lis = bufconn.Listen(1 << 20)
	n.gs = grpc.NewServer(grpc.ConnectionTimeout(30*time.Minute), grpc.StreamInterceptor(func(srv any, ss grpc.ServerStream, _ *grpc.StreamServerInfo, h grpc.StreamHandler) error {
		n.wg.Add(1)
		defer n.wg.Done()
		n.mu.Lock()
		n.streams++
		no := n.streams
		n.mu.Unlock()
		return h(srv, &faultStream{ServerStream: ss, n: n, no: no})
	}))
	clusterv1.RegisterChunkedSyncServiceServer(n.gs, n.disp)
	go func() { _ = n.gs.Serve(n.lis) }()
	conn, err := grpc.NewClient("passthrough:///c17", grpc.WithTransportCredentials(insecure.NewCredentials()),
		grpc.WithConnectParams(grpc.ConnectParams{MinConnectTimeout: 30 * time.Minute}),
		grpc.WithContextDialer(func(ctx context.Context, _ string) (net.Conn, error) { return n.lis.DialContext(ctx) }))
	if err != nil {
		harnessErr("grpc client: %v", err)
	}
	n.conn = conn
	// the connection is part of the harness, not of the fault space: establish it before the sender starts (on a
	// saturated machine the HTTP/2 handshake can take many seconds)
	conn.Connect()
	ctx, cancel := context.WithTimeout(context.Background(), 30*time.Minute)
	defer cancel()
	for st := conn.GetState(); st != connectivity.Ready; st = conn.GetState() {
		if !conn.WaitForStateChange(ctx, st) {
			harnessErr("in-memory gRPC connection not ready after 30 min (state %s)", st)
		}
		if st == connectivity.TransientFailure || st == connectivity.Idle {
			conn.Connect()
		}
	}
	return n
}

func (n *loopNet) close() bool {
	_ = n.conn.Close()
	n.gs.Stop()
	done := make(chan struct{})
	go func() { n.wg.Wait(); close(done) }()
	select {
	case <-done:
		return true
	case <-time.After(10 * time.Minute):
		return false
	}
}

// dbgClient records how each attempt of the sender ended.
type dbgClient struct {
	queue.ChunkedSyncClient
	errs *[]string
	tag  string
}

func (d *dbgClient) SyncStreamingParts(ctx context.Context, parts []queue.StreamingPartData) (*queue.SyncResult, error) {
	r, err := d.ChunkedSyncClient.SyncStreamingParts(ctx, parts)
	if os.Getenv("C17_DEBUG") != "" {
		fmt.Printf("debug: %s SyncStreamingParts -> %+v err=%v\n", d.tag, r, err)
	}
	e := "ok"
	if err != nil {
		e = err.Error()
		if len(e) > 160 {
			e = e[len(e)-160:]
		}
	} else if r != nil && (!r.Success || len(r.FailedParts) > 0) {
		e = fmt.Sprintf("success=%v failed=%d", r.Success, len(r.FailedParts))
	}
	*d.errs = append(*d.errs, e)
	return r, err
}

type loopOut struct {
	res resultT
	rec []*clusterv1.SyncPartRequest
}

// runLoop executes one closed-loop case: the sender table runs its real syncSnapshot against the receiver.
// n = number of data chunks of the clean sequence (-1 while recording, when it is not known yet).
func runLoop(c caseT, f loopFault, nChunks int) loopOut {
	if c.Cfg.Kind != "" {
		return runLoopK(c, f, nChunks)
	}
	sp := senderOf(c.Cfg.Lay)
	dir := caseDir()
	defer os.RemoveAll(dir)
	sdir, rdir := filepath.Join(dir, "snd"), filepath.Join(dir, "rcv")
	copyDir(tmplDir("snd", c.Cfg.Lay), sdir)
	copyDir(tmplDir("rcv", c.Cfg.Lay), rdir)
	snd := measure.V17Open(sdir, c.Cfg.Lay.NF)
	defer snd.Close()
	var ctl *busyCtl
	if f.Kind == "busy" {
		ctl = &busyCtl{left: f.Times}
	}
	rc := openReceiverBusy(rdir, c.Cfg.Lay.NF, c.Cfg.Mode, ctl)
	before := capture(rc.tab, true)
	n := newLoopNet(f)
	n.busy = ctl
	n.disp.cur.Store(rc)
	var old []*receiver
	var reopenPanic any
	n.onCrash = func() {
		cd := filepath.Join(dir, "crash")
		copyDir(rdir, cd)
		func() {
			defer func() { reopenPanic = recover() }()
			nr := openReceiverBusy(cd, c.Cfg.Lay.NF, c.Cfg.Mode, ctl)
			old = append(old, n.disp.cur.Load())
			n.disp.cur.Store(nr)
		}()
	}
	var clients int32
	var attemptErrs []string // appended by the (single) syncer goroutine
	syncErr := snd.SyncSnapshot("n0", func(node string, _ uint32) (queue.ChunkedSyncClient, error) {
		atomic.AddInt32(&clients, 1)
		// the syncer asks for 512 KiB chunks; the chunk size is the enumerated dimension here
		return &dbgClient{ChunkedSyncClient: pub.V17NewClient(n.conn, node, c.Cfg.CS), errs: &attemptErrs,
			tag: fmt.Sprintf("%s %+v #%d", c.Cfg, f, atomic.LoadInt32(&clients))}, nil
	})
	if !n.close() {
		harnessErr("receiver handlers did not finish within 10 min (%s %+v)", c.Cfg, f)
	}
	cur := n.disp.cur.Load()
	defer cur.tab.Close()
	for _, o := range old {
		o.tab.Close()
	}
	kind := f.Kind
	if f.Kind == "busy" {
		kind = map[int]string{1: "busy-once", 2: "busy-twice"}[f.Times]
		if f.Persistent {
			kind = "busy-always"
		}
	} else if f.Persistent {
		kind += "-persistent"
	}
	for _, e := range attemptErrs {
		if strings.Contains(e, "to create sync stream") {
			return loopOut{res: resultT{Invalid: e}, rec: n.rec}
		}
	}
	lostAck := f.Kind == "send-err" && f.K == nChunks
	switch {
	case lostAck:
		kind += "-completion" // the receiver's answer to the completion message is lost
	case (f.Kind == "recv-err" || f.Kind == "recv-eof" || f.Kind == "crash") && f.K == nChunks:
		kind += "-before-completion" // every chunk delivered and acknowledged, the completion message never arrives
	}
	head := fmt.Sprintf("loop/%s/%s", c.Cfg.Mode, kind)
	res := resultT{Nontriv: f.Kind != "none"}
	finish := func(key, class, detail string) loopOut {
		res.Class = class
		res.Sig = fmt.Sprintf("%s/%s/%s/attempts=%d", head, class, detail, atomic.LoadInt32(&clients))
		if key != "" {
			res.Key = fmt.Sprintf("loop/%s/%s/%s", c.Cfg.Mode, kind, key)
		}
		return loopOut{res: res, rec: n.rec}
	}
	if reopenPanic != nil {
		return finish("reopen-panic["+panicSite(reopenPanic)+"]", "bad", "reopen-panic")
	}
	if len(n.disp.panics) > 0 {
		// not a verdict by itself: the shipped server's recovery interceptor turns it into a stream error
		head += "/receiver-panicked:" + n.disp.panics[0]
	}
	for _, r := range append(old, cur) {
		if refs := atomic.LoadInt64(&r.h.SegRefs); refs != 0 {
			return finish(fmt.Sprintf("segment-pin-leak[%d]", refs), "bad", "pin-leak")
		}
	}
	after := capture(cur.tab, true)
	allow := 1
	if lostAck {
		allow = 2 // the receiver had installed the part when the acknowledgement was lost: at-least-once delivery
	}
	v := judge(before, after, sp, allow)
	if v.Class == "bad" {
		return finish(what(v.Detail), "bad", v.Detail)
	}
	// sender side
	sparts, _ := snd.Parts()
	owned := false
	for _, p := range sparts {
		if p.ID == sp.ID {
			owned = true
		}
	}
	quarantined := false
	q := measure.V17FileCopy(filepath.Join(measure.V17FailedPartsDir(sdir), pname(sp.ID)+"_core"))
	if len(q) > 0 {
		quarantined = true
		for name, cnt := range sp.Files {
			if q[name] != cnt {
				return finish("failed-parts-copy-differs-from-part", "bad", "quarantine-differs")
			}
		}
	}
	if owned {
		for name, cnt := range measure.V17FileCopy(snd.PartDir(sp.ID)) {
			if sp.Files[name] != cnt {
				return finish("sender-part-changed", "bad", "sender-part-changed")
			}
		}
	}
	own := "sender:gone"
	switch {
	case owned:
		own = "sender:in-snapshot"
	case quarantined:
		own = "sender:failed-parts"
	}
	switch {
	case syncErr != nil:
		return finish("sync-snapshot-error["+errClass(syncErr)+"]", "bad", "sync-error")
	case v.Class == "unchanged" && !owned && !quarantined:
		return finish("part-lost-receiver-has-nothing-sender-dropped-it", "bad", "data-lost")
	case v.Class == "unchanged" && !f.Persistent:
		fmt.Printf("note: %s %+v attempts: %q\n", c.Cfg, f, attemptErrs)
		return finish("transient-fault-but-retries-never-delivered/"+own, "unchanged", own)
	}
	return finish("", v.Class, fmt.Sprintf("copies=%d/%s", v.Copies, own))
}

// ---------------------------------------------------------------------------------------------------------------
// base sequences (recorded from the real sender), shipped from the driver to the workers through files

func basePath(l layT, cs uint32) string {
	return filepath.Join(scratch, fmt.Sprintf("base_%s_%d.bin", l, cs))
}

func fileOrder(base []*clusterv1.SyncPartRequest) string {
	var names []string
	seen := map[string]bool{}
	for _, r := range base {
		for _, p := range r.PartsInfo {
			for _, f := range p.Files {
				if !seen[f.Name] {
					seen[f.Name] = true
					names = append(names, f.Name)
				}
			}
		}
	}
	return strings.Join(names, " ")
}

func saveBase(p string, base []*clusterv1.SyncPartRequest) {
	var buf bytes.Buffer
	for _, r := range base {
		b, err := proto.Marshal(r)
		if err != nil {
			harnessErr("marshal: %v", err)
		}
		var l [4]byte
		binary.LittleEndian.PutUint32(l[:], uint32(len(b)))
		buf.Write(l[:])
		buf.Write(b)
	}
	if err := os.WriteFile(p, buf.Bytes(), 0o644); err != nil {
		harnessErr("write base: %v", err)
	}
}

func decodeBase(b []byte) []*clusterv1.SyncPartRequest {
	var out []*clusterv1.SyncPartRequest
	for len(b) >= 4 {
		l := binary.LittleEndian.Uint32(b)
		r := &clusterv1.SyncPartRequest{}
		if err := proto.Unmarshal(b[4:4+l], r); err != nil {
			harnessErr("unmarshal base: %v", err)
		}
		out = append(out, r)
		b = b[4+l:]
	}
	return out
}

var (
	baseMu    sync.Mutex
	baseCache = map[string][]*clusterv1.SyncPartRequest{}
)

func loadBase(l layT, cs uint32) []*clusterv1.SyncPartRequest {
	baseMu.Lock()
	defer baseMu.Unlock()
	p := basePath(l, cs)
	if b := baseCache[p]; b != nil {
		return b
	}
	raw, err := os.ReadFile(p)
	if err != nil {
		harnessErr("base sequence: %v", err)
	}
	baseCache[p] = decodeBase(raw)
	return baseCache[p]
}

// checkBase validates the recorded sequence against the sender's files: concatenating the chunk slices per file gives
// the sender's files (this is the reference reading of the chunk framing).
func checkBase(base []*clusterv1.SyncPartRequest, sp *senderPart) string {
	if len(base) < 2 || base[len(base)-1].GetCompletion() == nil || base[0].GetMetadata() == nil {
		return "sequence must be metadata+chunks ... completion"
	}
	files := map[string][]byte{}
	for i, r := range base[:len(base)-1] {
		if int(r.ChunkIndex) != i {
			return fmt.Sprintf("chunk %d carries index %d", i, r.ChunkIndex)
		}
		for _, p := range r.PartsInfo {
			for _, f := range p.Files {
				if int(f.Offset+f.Size) > len(r.ChunkData) {
					return "file slice beyond chunk data"
				}
				n := measure.V17StreamNames(f.Name)
				files[n] = append(files[n], r.ChunkData[f.Offset:f.Offset+f.Size]...)
			}
		}
	}
	for name, c := range sp.Files {
		if name == "metadata.json" {
			continue
		}
		if string(files[name]) != c {
			return "streamed bytes of " + name + " differ from the sender's file"
		}
	}
	return ""
}

// ---------------------------------------------------------------------------------------------------------------
// enumeration

// chunkSizes of a layout: the minimum the sender accepts (1 byte), 64 B, 4 KiB, and the whole part in one chunk. The
// small data sets are below 1 KiB (4 KiB = whole part), the big one is used for 4 KiB and whole.
func chunkSizes(l layT) []uint32 {
	if l.Big {
		return []uint32{4096, 1 << 20}
	}
	return []uint32{1, 64, 1 << 20}
}

// pairsCS gives about nine chunks: enough for every reorder distance up to the default window + 1.
func pairsCS(l layT) uint32 {
	if l.NF == 1 {
		return 48
	}
	return 112
}

func modes(thorough bool) []string {
	_ = thorough
	return []string{"default", "seq", "w2", "b1"}
}

func singleFaults(n int, mode string, forPairs bool) []fault {
	_, gap, _ := window(mode)
	var out []fault
	poss := []string{"first", "mid", "last"}
	if forPairs {
		poss = []string{"mid"}
	}
	for i := 0; i < n; i++ {
		for _, p := range poss {
			out = append(out, fault{Kind: "flip", I: i, Pos: p})
		}
	}
	for i := 0; i <= n; i++ {
		out = append(out, fault{Kind: "drop", I: i}, fault{Kind: "dup", I: i})
	}
	for i := 0; i < n; i++ {
		for d := 1; d <= gap+1 && i+d < n; d++ {
			out = append(out, fault{Kind: "swap", I: i, J: i + d})
		}
	}
	for i := n - gap - 1; i < n; i++ {
		if i >= 0 {
			out = append(out, fault{Kind: "cswap", I: i, J: n})
		}
	}
	for i := 0; i <= n; i++ {
		if i < n || forPairs { // alone, "stream ends after the completion message" is the clean sequence
			out = append(out, fault{Kind: "eof", I: i})
		}
		if !forPairs {
			if i < n {
				out = append(out, fault{Kind: "err", I: i})
			}
			out = append(out, fault{Kind: "crash", I: i})
		}
	}
	if !forPairs {
		for i := 0; i < n; i++ {
			out = append(out, fault{Kind: "sid", I: i}, fault{Kind: "partid", I: i})
		}
	}
	return out
}

type loopCase struct {
	c caseT
	f loopFault
	n int
}

type planT struct {
	open       []caseT
	loops      []loopCase
	degenerate int // pairs whose second fault has no target after the first
	duplicates int // pairs giving a message sequence that another pair already gives
}

func plan(thorough bool) *planT {
	p := &planT{}
	for _, l := range layouts {
		for _, cs := range chunkSizes(l) {
			n := len(loadBase(l, cs)) - 1
			for _, mode := range modes(thorough) {
				if cs == 1 {
					// the 1-byte chunking is the expensive one. quick: one layout, shipped receiver configuration;
					// thorough: every mode for one tag family, default + sequential for three
					if !thorough && (mode != "default" || l.NF != 1) {
						continue
					}
					if thorough && l.NF != 1 && mode != "default" && mode != "seq" {
						continue
					}
				}
				c := cfgT{Lay: l, CS: cs, Mode: mode}
				p.open = append(p.open, caseT{Phase: "rx", Cfg: c})
				for _, f := range singleFaults(n, mode, false) {
					p.open = append(p.open, caseT{Phase: "rx", Cfg: c, Faults: []fault{f}})
				}
			}
		}
	}
	// pairs over a small chunking
	for _, l := range layouts {
		if l.Big {
			continue
		}
		cs := pairsCS(l)
		n := len(loadBase(l, cs)) - 1
		for _, mode := range modes(thorough) {
			if !thorough && (l.NF != 1 || mode == "w2" || mode == "b1") {
				continue
			}
			c := cfgT{Lay: l, CS: cs, Mode: mode}
			fs := singleFaults(n, mode, true)
			// two orders of a pair (and different pairs) often give the same message sequence: each distinct sequence
			// is executed once; pairs whose second fault has lost its target are degenerate
			seen := map[string]bool{}
			idOnly := make([]*clusterv1.SyncPartRequest, n+1)
			for i := range idOnly {
				idOnly[i] = &clusterv1.SyncPartRequest{ChunkIndex: uint32(i)}
			}
			idOnly[n].Content = &clusterv1.SyncPartRequest_Completion{Completion: &clusterv1.SyncCompletion{}}
			for _, f := range fs {
				for _, g := range fs {
					sc := baseScript(idOnly)
					if !sc.apply(f) || !sc.apply(g) {
						p.degenerate++
						continue
					}
					var sb strings.Builder
					sb.WriteString(sc.End)
					for _, it := range sc.Items {
						fmt.Fprintf(&sb, ",%d%s", it.ID, it.Bad)
					}
					if seen[sb.String()] {
						p.duplicates++
						continue
					}
					seen[sb.String()] = true
					p.open = append(p.open, caseT{Phase: "pairs", Cfg: c, Faults: []fault{f, g}})
				}
			}
		}
	}
	// closed loop
	for _, l := range layouts {
		for _, cs := range chunkSizes(l) {
			if cs == 1 && (!thorough || l.NF != 1) {
				continue
			}
			n := len(loadBase(l, cs)) - 1
			for _, mode := range []string{"default", "seq"} {
				c := caseT{Phase: "loop", Cfg: cfgT{Lay: l, CS: cs, Mode: mode}}
				add := func(f loopFault) {
					p.loops = append(p.loops, loopCase{c, f, n})
				}
				add(loopFault{Kind: "none"})
				for i := 0; i < n; i++ {
					for _, pos := range []string{"first", "mid", "last"} {
						add(loopFault{Kind: "corrupt", K: i, Pos: pos})
					}
				}
				seen := map[int]bool{}
				for _, i := range []int{0, n / 2, n - 1} {
					if !seen[i] {
						seen[i] = true
						add(loopFault{Kind: "corrupt", K: i, Pos: "mid", Persistent: true})
					}
				}
				for k := 0; k <= n; k++ {
					add(loopFault{Kind: "recv-err", K: k})
					add(loopFault{Kind: "recv-eof", K: k})
					add(loopFault{Kind: "crash", K: k})
					add(loopFault{Kind: "send-err", K: k})
				}
				// receiver memory pressure: the part handler answers queue.ErrServerBusy for chunk k on its first delivery,
				// on its first two deliveries, or (first / middle / last chunk) always
				for k := 0; k < n; k++ {
					add(loopFault{Kind: "busy", K: k, Times: 1})
					add(loopFault{Kind: "busy", K: k, Times: 2})
				}
				done := map[int]bool{}
				for _, i := range []int{0, n / 2, n - 1} { // plan order must be the same in every worker: no map iteration
					if !done[i] {
						done[i] = true
						add(loopFault{Kind: "busy", K: i, Persistent: true})
					}
				}
			}
		}
	}
	planKinds(p, thorough)
	return filterKinds(p)
}

// ---------------------------------------------------------------------------------------------------------------
// driver / worker / replay

type violT struct {
	Key      string `json:"key"`
	Artefact any    `json:"artefact"`
	N        int    `json:"n"` // length of the case's clean sequence: the shortest violating case of a key is the one reported
}

type workerOut struct {
	Sigs    map[string]int `json:"sigs"`
	Evals   map[string]int `json:"evals"`
	Nontriv map[string]int `json:"nontriv"`
	Skipped map[string]int `json:"skipped"`
	Viols   []violT        `json:"viols"`
	VCases  map[string]int `json:"vcases"`
	Flaky   []string       `json:"flaky"`
	Invalid []string       `json:"invalid"`
	Samples []any          `json:"samples"`
}

func scriptB64(sc *script) []string {
	var out []string
	for _, it := range sc.Items {
		b, _ := proto.Marshal(it.Req)
		out = append(out, fmt.Sprintf("%d:%s:%s", it.ID, it.Bad, base64.StdEncoding.EncodeToString(b)))
	}
	return out
}

type artefactT struct {
	Case   caseT      `json:"case"`
	Loop   *loopFault `json:"loop,omitempty"`
	End    string     `json:"end,omitempty"`
	N      int        `json:"n"`
	Script []string   `json:"script,omitempty"` // open loop: the exact faulted message sequence (id:kind:base64(proto))
	Base   []string   `json:"base,omitempty"`   // the clean sequence (needed for restart+retry cases)
}

func openArtefact(c caseT, base []*clusterv1.SyncPartRequest) artefactT {
	sc := baseScript(base)
	for _, f := range c.Faults {
		sc.apply(f)
	}
	a := artefactT{Case: c, End: sc.End, N: len(base) - 1, Script: scriptB64(sc)}
	if sc.End == "crash" {
		a.Base = scriptB64(baseScript(base))
	}
	if len(a.Script) > 64 { // keep replay files small: long scripts are regenerated from the fault list
		a.Script, a.Base = nil, nil
	}
	return a
}

func worker(wi, wn int, thorough bool) {
	p := plan(thorough)
	if ph := os.Getenv("C17_PHASES"); ph != "" { // development aid: restrict the phases
		var o []caseT
		for _, c := range p.open {
			if strings.Contains(ph, c.Phase) {
				o = append(o, c)
			}
		}
		p.open = o
		if !strings.Contains(ph, "loop") {
			p.loops = nil
		}
	}
	if only := os.Getenv("C17_ONLY"); only != "" { // development aid: stress one closed-loop fault kind (1-byte chunking, default mode)
		var l []loopCase
		for rep := 0; rep < 8; rep++ {
			for _, lc := range p.loops {
				if lc.f.Kind == only && lc.c.Cfg.CS == 1 && lc.c.Cfg.Mode == "default" {
					l = append(l, lc)
				}
			}
		}
		p.loops, p.open = l, nil
	}
	t0 := time.Now()
	out := workerOut{Sigs: map[string]int{}, Evals: map[string]int{}, Nontriv: map[string]int{}, Skipped: map[string]int{}, VCases: map[string]int{}}
	seenKey := map[string]int{}
	note := func(c caseT, n int, res resultT, art func() any) {
		if res.Skipped {
			out.Skipped[c.Phase]++
			return
		}
		out.Evals[c.Phase]++
		if res.Nontriv {
			out.Nontriv[c.Phase]++
		}
		out.Sigs[res.Sig]++
		if res.Key != "" {
			out.VCases[res.Key]++
		}
		if res.Key != "" {
			if at, ok := seenKey[res.Key]; !ok {
				seenKey[res.Key] = len(out.Viols)
				out.Viols = append(out.Viols, violT{Key: res.Key, Artefact: art(), N: n})
			} else if n < out.Viols[at].N {
				out.Viols[at] = violT{Key: res.Key, Artefact: art(), N: n}
			}
		}
		if len(out.Samples) < 3 && out.Evals[c.Phase]%53 == 7 {
			out.Samples = append(out.Samples, map[string]any{"case": c, "outcome": res.Sig})
		}
	}
	for i, c := range p.open {
		if i%wn != wi {
			continue
		}
		base := loadBaseK(c.Cfg)
		c := c
		note(c, len(base)-1, runOpen(c, base, nil), func() any { return openArtefact(c, base) })
	}
	tOpen := time.Since(t0)
	// closed-loop cases mostly sleep (the sender's retry back-off): run many at once
	var mu sync.Mutex
	var wg sync.WaitGroup
	sem := make(chan struct{}, 24)
	for i, lc := range p.loops {
		if i%wn != wi {
			continue
		}
		lc := lc
		wg.Add(1)
		sem <- struct{}{}
		go func() {
			defer wg.Done()
			defer func() { <-sem }()
			o := runLoop(lc.c, lc.f, lc.n)
			for try := 0; o.res.Invalid != "" && try < 5; try++ {
				o = runLoop(lc.c, lc.f, lc.n)
			}
			if o.res.Invalid != "" {
				mu.Lock()
				out.Invalid = append(out.Invalid, fmt.Sprintf("%s %+v: %s", lc.c.Cfg, lc.f, o.res.Invalid))
				mu.Unlock()
				return
			}
			flaky := ""
			if o.res.Key != "" {
				// the closed loop runs real goroutines and timers: a verdict counts only if it reproduces twice more
				for rep := 0; rep < 2; rep++ {
					if o2 := runLoop(lc.c, lc.f, lc.n); o2.res.Invalid == "" && o2.res.Key != o.res.Key {
						flaky = o.res.Key
						o = o2
						if o2.res.Key == "" {
							break
						}
					}
				}
			}
			mu.Lock()
			defer mu.Unlock()
			if flaky != "" {
				out.Flaky = append(out.Flaky, fmt.Sprintf("%s %+v: %s", lc.c.Cfg, lc.f, flaky))
				o.res.Key = ""
			}
			f := lc.f
			note(lc.c, lc.n, o.res, func() any { return artefactT{Case: lc.c, Loop: &f, N: lc.n} })
		}()
	}
	wg.Wait()
	if os.Getenv("C17_TIMING") != "" {
		fmt.Printf("timing: open %.1fs loop %.1fs\n", tOpen.Seconds(), (time.Since(t0) - tOpen).Seconds())
	}
	b, _ := json.Marshal(out)
	par.Emit(spill(b, wi))
}

func record(l layT, cs uint32, kind ...string) ([]*clusterv1.SyncPartRequest, map[string]bool) {
	rc := caseT{Phase: "record", Cfg: cfgT{Lay: l, CS: cs, Mode: "default", Kind: strings.Join(kind, "")}}
	orders := map[string]bool{}
	var best []*clusterv1.SyncPartRequest
	tries := 1
	if l.NF > 1 && rc.Cfg.Kind != "trace" { // trace: NF counts indexes, the wire order of parts and files is fixed
		tries = 24 // the file order of a part with several tag families is Go map order: take a canonical one
	}
	for t := 0; t < tries; t++ {
		o := runLoop(rc, loopFault{Kind: "none"}, -1)
		for try := 0; o.res.Invalid != "" && try < 10; try++ {
			o = runLoop(rc, loopFault{Kind: "none"}, -1)
		}
		if o.res.Invalid != "" {
			harnessErr("cannot record a clean transfer: %s", o.res.Invalid)
		}
		if o.res.Key != "" || o.res.Class != "clean" {
			// a clean transfer that is not clean is a verdict, reported by the rx/loop phases as well; recording goes on
			fmt.Printf("note: clean recording run %s%s cs=%d ended %s %s\n", rc.Cfg.Kind, l, cs, o.res.Class, o.res.Key)
		}
		ord := fileOrder(o.rec)
		orders[ord] = true
		if best == nil || ord < fileOrder(best) {
			best = o.rec
		}
		if o.res.Class != "clean" {
			break // a broken clean transfer (retries, back-off): one recording is enough to go on with
		}
	}
	return best, orders
}

func main() {
	_ = logger.Init(logger.Logging{Env: "prod", Level: "fatal"})
	thorough := ev.Thorough()
	if cw := os.Getenv("C17_CLUSTER_WORKER"); cw != "" {
		var c cwCfg
		if err := json.Unmarshal([]byte(cw), &c); err != nil {
			fmt.Println("E2E-FATAL: bad worker configuration:", err)
			os.Exit(e2e.ExitHarness)
		}
		clusterWorker(c)
		return
	}
	if rp := ev.Arg("--replay"); rp != "" {
		replay(rp)
		return
	}
	if wi, wn, ok := par.Worker(); ok {
		scratch = os.Getenv("C17_SCRATCH")
		mydir = filepath.Join(scratch, fmt.Sprintf("w%d", wi))
		_ = os.MkdirAll(mydir, 0o755)
		if pf := os.Getenv("C17_PROF"); pf != "" && wi == 0 {
			f, _ := os.Create(pf)
			_ = pprof.StartCPUProfile(f)
			worker(wi, wn, thorough)
			pprof.StopCPUProfile()
			_ = f.Close()
		} else {
			worker(wi, wn, thorough)
		}
		_ = os.RemoveAll(mydir)
		return
	}
	var err error
	scratch, err = os.MkdirTemp("/dev/shm", "c17-")
	if err != nil {
		fmt.Println("HARNESS-ERROR:", err)
		os.Exit(2)
	}
	mydir = filepath.Join(scratch, "drv")
	rd := ev.Dir()
	if os.Getenv("VERIF_NOEVIDENCE") != "" {
		rd = filepath.Join(rd, "build", "scratch")
	}
	_ = os.RemoveAll(filepath.Join(rd, "replays", "C17")) // artefacts of earlier runs would be mistaken for this run's
	r := ev.New("C17", "fault_enumeration")
	if os.Getenv("C17_PHASES") == "cluster" { // development aid: only the cluster phase
		clusterPhase(r, thorough, scratch)
		r.Set("evaluations", 0)
		r.Set("distinct_nontrivial", 0)
		r.Set("rule", "development run of the cluster phase only")
		r.Sample("cluster phase only")
		_ = os.RemoveAll(scratch)
		r.Finish()
	}
	// 1. templates and base sequences from the real sender
	chunks := map[string]int{}
	orderCount := 0
	for _, l := range layouts {
		buildTemplates(l)
		sp := senderOf(l)
		css := chunkSizes(l)
		if !l.Big {
			css = append(css, pairsCS(l))
		}
		for _, cs := range css {
			base, orders := record(l, cs)
			if msg := checkBase(base, sp); msg != "" {
				r.Violation("record/clean-transfer/"+msg, map[string]any{"layout": l, "cs": cs})
			}
			saveBase(basePath(l, cs), base)
			chunks[fmt.Sprintf("%s/cs%d", l, cs)] = len(base) - 1
			orderCount += len(orders)
			r.Add("evaluations_record", len(orders))
		}
	}
	recordKinds(r, chunks, &orderCount, thorough) // stream.go: the same for the stream and trace engines
	// 2. enumeration in workers
	results, perr := par.Run(16, "C17_SCRATCH="+scratch)
	if perr != nil {
		_ = os.RemoveAll(scratch)
		fmt.Println("HARNESS-ERROR:", perr)
		os.Exit(2)
	}
	sigs := map[string]int{}
	evals, nontriv, skipped := map[string]int{}, map[string]int{}, map[string]int{}
	var viols []violT
	seenV := map[string]int{}
	vcases := map[string]int{}
	var flaky, invalid, samples []string
	for _, b := range results {
		var wo workerOut
		if err := json.Unmarshal(unspill(b), &wo); err != nil {
			_ = os.RemoveAll(scratch)
			fmt.Println("HARNESS-ERROR: bad worker result:", err)
			os.Exit(2)
		}
		for k, v := range wo.Sigs {
			sigs[k] += v
		}
		for k, v := range wo.Evals {
			evals[k] += v
		}
		for k, v := range wo.Nontriv {
			nontriv[k] += v
		}
		for k, v := range wo.Skipped {
			skipped[k] += v
		}
		for _, v := range wo.Viols {
			if at, ok := seenV[v.Key]; !ok {
				seenV[v.Key] = len(viols)
				viols = append(viols, v)
			} else if v.N < viols[at].N {
				viols[at] = v
			}
		}
		for k, v := range wo.VCases {
			vcases[k] += v
		}
		flaky = append(flaky, wo.Flaky...)
		invalid = append(invalid, wo.Invalid...)
		for _, s := range wo.Samples {
			b, _ := json.Marshal(s)
			samples = append(samples, string(b))
		}
	}
	if len(results) != 16 {
		_ = os.RemoveAll(scratch)
		fmt.Printf("HARNESS-ERROR: %d of 16 workers reported\n", len(results))
		os.Exit(2)
	}
	sort.Strings(samples) // worker results arrive in any order; the evidence must not depend on it
	for i, s := range samples {
		if i%((len(samples)+7)/8) == 0 {
			r.Sample(json.RawMessage(s))
		}
	}
	sort.Slice(viols, func(i, j int) bool { return viols[i].Key < viols[j].Key })
	for _, v := range viols {
		r.Violation(v.Key, v.Artefact)
	}
	total, nt := 0, 0
	for ph, v := range evals {
		total += v
		nt += nontriv[ph]
		r.Set("evaluations_"+ph, v)
		r.Set("nontrivial_"+ph, nontriv[ph])
	}
	classes := map[string]int{}
	for s, v := range sigs {
		parts := strings.Split(s, "/")
		k := parts[0]
		if len(parts) > 1 && engines[parts[1]] != nil {
			k += "/" + parts[1]
		}
		for _, p := range parts {
			if p == "clean" || p == "unchanged" || p == "bad" || strings.HasPrefix(p, "restart:") {
				k += ":" + p
			}
		}
		classes[k] += v
	}
	if dp := os.Getenv("C17_DUMP"); dp != "" {
		b, _ := json.MarshalIndent(map[string]any{"sigs": sigs, "viols": viols}, "", " ")
		_ = os.WriteFile(dp, b, 0o644)
	}
	r.Set("evaluations", total)
	r.Set("distinct_nontrivial", nt)
	pl := plan(thorough)
	for _, iv := range invalid {
		fmt.Println("note: closed-loop case not executed (in-memory connection failed 6 times):", iv)
	}
	if len(invalid) > 0 {
		r.NotExhaustive(fmt.Sprintf("%d closed-loop cases could not be executed: the in-memory gRPC connection failed (machine saturated)", len(invalid)))
	}
	if want := len(pl.open) + len(pl.loops); total+skipped["rx"]+skipped["pairs"]+len(invalid) != want && os.Getenv("C17_PHASES") == "" && os.Getenv("C17_ONLY") == "" {
		_ = os.RemoveAll(scratch)
		fmt.Printf("HARNESS-ERROR: %d cases planned, %d reported\n", want, total+skipped["rx"]+skipped["pairs"])
		os.Exit(2)
	}
	r.Set("pairs_degenerate_not_run", pl.degenerate+skipped["pairs"])
	r.Set("pairs_same_sequence_as_another_pair_not_run", pl.duplicates)
	r.Set("distinct_outcomes", len(sigs))
	r.Set("evaluations_by_phase_and_engine", kindCounts(sigs))
	r.Set("trace_rx_single_fault_cases_at_part_boundaries", boundaryStats(pl))
	r.Set("violating_cases_by_key", vcases)
	sort.Strings(flaky)
	if flaky == nil {
		flaky = []string{}
	}
	r.Set("loop_verdicts_not_reproduced", flaky)
	for _, f := range flaky {
		fmt.Println("note: closed-loop verdict did not reproduce (not reported):", f)
	}
	r.Set("outcome_classes", classes)
	r.Set("chunks_per_base_sequence", chunks)
	r.Set("file_orders_seen_while_recording", orderCount)
	r.Set("phases", []string{"record", "rx", "pairs", "loop", "cluster"})
	r.Set("rule", "one evaluation = one transfer executed on the real receiver (rx/pairs: recorded chunk sequence with the fault(s) applied; loop: real sender and receiver over gRPC with the fault injected in a stream interceptor); non-trivial = the executed message sequence / injected fault differs from the clean transfer; all cases are distinct (pairs are deduplicated by the message sequence they produce; degenerate pairs, whose second fault has lost its target, are not run; both counted separately). Phase cluster: one evaluation = one request answered by one cluster configuration and compared with the standalone server's answer; non-trivial = the standalone answer is an error or has at least one row")
	r.Assume("part-transfer phases: measure, stream and trace(+sidx) engines; TSDB/segment layer below the part handler is a stub that hands out one real tsTable")
	r.Assume("trace: manifest.json of an installed index part is compared with the sender's without the node-local fields id and segmentID")
	r.Assume("cluster phase: pkg/test/setup's in-process nodes, the generated stubs and Inspect's pending/row counters are trusted; placement is audited at block level (series, timestamp bounds, row counts)")
	r.Assume("the receiver's wall-clock buffer timeout (5 s) is moved out of reach; no verdict depends on time")
	r.Assume("tag-family file order of the base sequences is the lexicographically smallest of the Go map orders seen in 24 clean recordings")
	fmt.Printf("C17 evaluations=%d (rx=%d pairs=%d loop=%d) nontrivial=%d distinct_outcomes=%d by-engine=%v\n", total, evals["rx"], evals["pairs"], evals["loop"], nt, len(sigs), kindCounts(sigs))
	var cl []string
	for k, v := range classes {
		cl = append(cl, fmt.Sprintf("%s=%d", k, v))
	}
	sort.Strings(cl)
	fmt.Println("  outcome classes:", strings.Join(cl, " "))
	if ph := os.Getenv("C17_PHASES"); ph == "" || strings.Contains(ph, "cluster") {
		cs := clusterPhase(r, thorough, scratch)
		r.Set("evaluations", total+cs.evals)
		r.Set("distinct_nontrivial", nt+cs.nontriv)
	}
	_ = os.RemoveAll(scratch)
	r.Finish()
}

func parseScript(ss []string, end string) *script {
	sc := &script{End: end}
	for _, s := range ss {
		p := strings.SplitN(s, ":", 3)
		id, _ := strconv.Atoi(p[0])
		b, err := base64.StdEncoding.DecodeString(p[2])
		if err != nil {
			harnessErr("replay script: %v", err)
		}
		r := &clusterv1.SyncPartRequest{}
		if err := proto.Unmarshal(b, r); err != nil {
			harnessErr("replay script: %v", err)
		}
		sc.Items = append(sc.Items, item{ID: id, Bad: p[1], Req: r})
	}
	return sc
}

func replay(path string) {
	b, err := os.ReadFile(path)
	if err != nil {
		fmt.Println("HARNESS-ERROR:", err)
		os.Exit(2)
	}
	var doc struct {
		Key      string    `json:"key"`
		Artefact artefactT `json:"artefact"`
	}
	if err := json.Unmarshal(b, &doc); err != nil {
		fmt.Println("HARNESS-ERROR:", err)
		os.Exit(2)
	}
	var ph struct {
		Artefact struct {
			Phase string `json:"phase"`
		} `json:"artefact"`
	}
	_ = json.Unmarshal(b, &ph)
	if ph.Artefact.Phase == "cluster" {
		replayCluster(doc.Key, b)
		return
	}
	scratch, err = os.MkdirTemp("/dev/shm", "c17r-")
	if err != nil {
		fmt.Println("HARNESS-ERROR:", err)
		os.Exit(2)
	}
	mydir = filepath.Join(scratch, "drv")
	a := doc.Artefact
	if a.Case.Cfg.Kind != "" {
		buildTemplatesK(a.Case.Cfg.Kind, a.Case.Cfg.Lay)
	} else {
		buildTemplates(a.Case.Cfg.Lay)
	}
	var res resultT
	if a.Loop != nil {
		res = runLoop(a.Case, *a.Loop, a.N).res
		for try := 0; res.Invalid != "" && try < 10; try++ {
			res = runLoop(a.Case, *a.Loop, a.N).res
		}
		if res.Invalid != "" {
			harnessErr("in-memory connection failed: %s", res.Invalid)
		}
	} else if len(a.Script) > 0 {
		sc := parseScript(a.Script, a.End)
		var base []*clusterv1.SyncPartRequest
		if len(a.Base) > 0 {
			for _, it := range parseScript(a.Base, "eof").Items {
				base = append(base, it.Req)
			}
		} else {
			base = make([]*clusterv1.SyncPartRequest, a.N+1)
		}
		res = runOpen(a.Case, base, sc)
	} else {
		base, _ := record(a.Case.Cfg.Lay, a.Case.Cfg.CS, a.Case.Cfg.Kind)
		res = runOpen(a.Case, base, nil)
	}
	_ = os.RemoveAll(scratch)
	fmt.Printf("replay: outcome %s\n", res.Sig)
	if res.Key != "" {
		fmt.Printf("VIOLATION property=C17 replay=%s\n  key: %s\n", path, res.Key)
		os.Exit(1)
	}
	fmt.Println("replay: no violation")
	os.Exit(0)
}

var _ = errors.New
