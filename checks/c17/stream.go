// C17 part-transfer phases for further engines ("kinds"): the phases record / rx / pairs / loop of main.go, driven over
// an engine abstraction. This file holds the engine-independent part (state capture, oracle, open-loop and closed-loop
// executions, plan, recording) and the STREAM engine; tracesync.go holds the TRACE(+sidx) engine. The measure engine
// keeps its original code in main.go (cfgT.Kind == ""); everything here runs only for cfgT.Kind != "".
//
// Differences to the measure code, all forced by the engines:
//   - a transfer installs a SET of part directories ("units"): one for stream, core + one per secondary index for
//     trace. Units are named by their directory relative to the table root without the part id ("" = core part,
//     "sidx/<index>/" = index part); all units of one transfer must carry the same part id.
//   - rows are canonical strings (elements / spans / index entries) read through the engine's real read path.
package main

import (
	"context"
	"encoding/json"
	"fmt"
	"os"
	"path/filepath"
	"sort"
	"strconv"
	"strings"
	"sync"
	"sync/atomic"
	"time"

	"github.com/apache/skywalking-banyandb/api/data"
	clusterv1 "github.com/apache/skywalking-banyandb/api/proto/banyandb/cluster/v1"
	"github.com/apache/skywalking-banyandb/banyand/measure"
	"github.com/apache/skywalking-banyandb/banyand/queue"
	"github.com/apache/skywalking-banyandb/banyand/queue/pub"
	"github.com/apache/skywalking-banyandb/banyand/queue/sub"
	"github.com/apache/skywalking-banyandb/banyand/stream"
	"github.com/apache/skywalking-banyandb/pkg/bus"
	"github.com/apache/skywalking-banyandb/pkg/verif/ev"
)

// ---------------------------------------------------------------------------------------------------------------
// engine abstraction

// kTable is one real table of an engine (sender or receiver side).
type kTable interface {
	Close()
	// Units lists the part directories (relative to the table root) of every part of the current snapshot(s);
	// mem = a memory part is among them.
	Units() (units []string, epoch uint64, mem bool)
	Read() ([]string, error)
	Callback() queue.ChunkedSyncHandler
	SegRefs() int64
	// LoopDead is closed when the table's introducer loop goroutine died of a panic (the shipped table starts it with
	// run.Go, which logs the panic and lets the goroutine end): nothing is introduced any more, a part handler waiting
	// for its introduction waits forever. LoopPanic is the panic value ("" while the loop lives).
	LoopDead() <-chan struct{}
	LoopPanic() string
	SyncSnapshot(node string, mk func(node string, chunkSize uint32) (queue.ChunkedSyncClient, error)) error
}

type engineT struct {
	open       func(dir string, l layT, sender bool) kTable
	build      func(dir string, l layT, sender bool)     // writes + flushes the template content
	streamName func(partType, name string) string        // protocol file name -> on-disk file name
	prefixOf   func(partType string) string              // protocol part type -> unit prefix
	quarantine func(prefix string, id uint64) string     // unit -> directory name under failed-parts/
	meta       map[string]bool                           // file names the receiver derives from the session's part info
	norm       func(prefix, file, content string) string // canonical form of a derived file (fields that are node-local removed)
	name       string
	topic      bus.Topic
	layouts    []layT
}

var engines = map[string]*engineT{}

var kindOrder = []string{"stream", "trace"}

func engineOf(kind string) *engineT {
	e := engines[kind]
	if e == nil {
		harnessErr("unknown kind %q", kind)
	}
	return e
}

// kindsOn: development aid C17_KINDS=measure,stream,trace restricts the part-transfer phases to some engines.
func kindOn(kind string) bool {
	sel := os.Getenv("C17_KINDS")
	if sel == "" {
		return true
	}
	if kind == "" {
		kind = "measure"
	}
	for _, k := range strings.Split(sel, ",") {
		if k == kind {
			return true
		}
	}
	return false
}

// modeKey is the receiver-mode component of outcome signatures and violation keys: the kind is part of it.
func (c cfgT) modeKey() string {
	if c.Kind == "" {
		return c.Mode
	}
	return c.Kind + "/" + c.Mode
}

// unitOf splits a file path below a table root into (unit directory, true) or ("", false) for loose files.
func unitOf(name string) (string, bool) {
	comps := strings.Split(name, "/")
	switch {
	case len(comps) < 2:
		return "", false
	case comps[0] == "sidx":
		if len(comps) < 4 {
			return "", false
		}
		return strings.Join(comps[:3], "/"), true
	}
	return comps[0], true
}

// splitUnit: unit directory -> (prefix, part id).
func splitUnit(u string) (string, uint64, bool) {
	i := strings.LastIndexByte(u, '/')
	id, err := strconv.ParseUint(u[i+1:], 16, 64)
	if err != nil || len(u[i+1:]) != 16 {
		return "", 0, false
	}
	return u[:i+1], id, true
}

// ---------------------------------------------------------------------------------------------------------------
// state, reference, oracle

type kState struct {
	Files   map[string]string
	RowsErr string
	Parts   []string
	Rows    []string
	Epoch   uint64
}

func captureK(t kTable, dir string) *kState {
	st := &kState{}
	units, e, mem := t.Units()
	if mem {
		harnessErr("memory part in a table that only holds file parts")
	}
	st.Epoch = e
	st.Parts = append([]string(nil), units...)
	sort.Strings(st.Parts)
	st.Files = measure.V17FileCopy(dir)
	rows, err := t.Read()
	st.Rows = rows
	if err != nil {
		st.RowsErr = err.Error()
	}
	return st
}

// kSender is the reference: the sender's part as files per unit and as rows.
type kSender struct {
	Units map[string]map[string]string // unit prefix -> file -> content
	Rows  []string
	ID    uint64
}

var (
	kSenderMu    sync.Mutex
	kSenderCache = map[string]*kSender{}
)

func kTmplDir(kind, side string, l layT) string {
	return filepath.Join(scratch, "tmpl", kind+"-"+side+l.String())
}

func buildTemplatesK(kind string, l layT) {
	e := engineOf(kind)
	e.build(kTmplDir(kind, "snd", l), l, true)
	e.build(kTmplDir(kind, "rcv", l), l, false)
}

func senderOfK(kind string, l layT) *kSender {
	kSenderMu.Lock()
	defer kSenderMu.Unlock()
	key := kind + "/" + l.String()
	if sp := kSenderCache[key]; sp != nil {
		return sp
	}
	e := engineOf(kind)
	d := caseDir()
	copyDir(kTmplDir(kind, "snd", l), d)
	t := e.open(d, l, true)
	units, _, mem := t.Units()
	if mem || len(units) == 0 {
		harnessErr("%s sender template must hold file parts only, has %v", kind, units)
	}
	sp := &kSender{Units: map[string]map[string]string{}}
	for _, u := range units {
		pre, id, ok := splitUnit(u)
		if !ok {
			harnessErr("%s sender template: odd unit %q", kind, u)
		}
		if sp.ID != 0 && sp.ID != id {
			harnessErr("%s sender template must hold exactly one part, has %v", kind, units)
		}
		if _, dup := sp.Units[pre]; dup {
			harnessErr("%s sender template must hold exactly one part, has %v", kind, units)
		}
		sp.ID = id
		sp.Units[pre] = measure.V17FileCopy(filepath.Join(d, u))
		if len(sp.Units[pre]) == 0 {
			harnessErr("%s sender template: unit %s has no files", kind, u)
		}
	}
	rows, err := t.Read()
	if err != nil || len(rows) == 0 {
		harnessErr("%s sender template rows: %v %v", kind, rows, err)
	}
	sp.Rows = rows
	t.Close()
	_ = os.RemoveAll(d)
	kSenderCache[key] = sp
	return sp
}

func strSet(l []string) map[string]bool {
	m := map[string]bool{}
	for _, s := range l {
		m[s] = true
	}
	return m
}

func strsEq(a, b []string) bool {
	if len(a) != len(b) {
		return false
	}
	for i := range a {
		if a[i] != b[i] {
			return false
		}
	}
	return true
}

// judgeK compares the receiver before/after with the sender's part (same structure as judge of main.go).
func judgeK(e *engineT, before, after *kState, sp *kSender, allowCopies int) verdictT {
	v := verdictT{}
	bad := func(d string) verdictT { v.Class, v.Detail = "bad", d; return v }
	inB, inA := strSet(before.Parts), strSet(after.Parts)
	var fresh []string
	for _, p := range after.Parts {
		if !inB[p] {
			fresh = append(fresh, p)
		}
	}
	for _, p := range before.Parts {
		if !inA[p] {
			return bad("existing-part-left-the-snapshot")
		}
	}
	// directory: part directories == snapshot parts; every earlier file untouched
	dirs := map[string]bool{}
	var manifests []string
	for name := range after.Files {
		if u, ok := unitOf(name); ok {
			dirs[u] = true
		} else if !strings.Contains(name, "/") && strings.HasSuffix(name, ".snp") {
			manifests = append(manifests, name)
		} else {
			return bad("unexpected-file[" + filepath.Ext(name) + "]")
		}
	}
	for d := range dirs {
		if inA[d] || d == "failed-parts" {
			continue
		}
		if strings.HasPrefix(d, "sidx/") {
			return bad("leftover-index-part-dir-not-in-snapshot")
		}
		return bad("leftover-part-dir-not-in-snapshot")
	}
	for _, p := range after.Parts {
		if !dirs[p] {
			return bad("snapshot-part-without-directory")
		}
	}
	for name, c := range before.Files {
		if !strings.Contains(name, "/") && len(fresh) > 0 {
			continue // an older manifest may be collected once a newer one is published
		}
		if c2, ok := after.Files[name]; !ok || c2 != c {
			if os.Getenv("C17_DEBUG") != "" {
				fmt.Printf("debug: earlier file %s present=%v; before=%v after=%v\n", name, ok, keys(before.Files), keys(after.Files))
			}
			return bad("earlier-file-changed-or-removed")
		}
	}
	if len(fresh) == 0 {
		if len(after.Files) != len(before.Files) {
			return bad("directory-grew-without-new-part")
		}
		if after.Epoch != before.Epoch {
			return bad("epoch-changed-without-new-part")
		}
		if after.RowsErr != "" || !strsEq(after.Rows, before.Rows) {
			return bad("rows-changed-without-new-part")
		}
		v.Class = "unchanged"
		return v
	}
	// manifest: the newest manifest must list exactly the snapshot's core parts
	sort.Strings(manifests)
	if len(manifests) == 0 {
		return bad("no-manifest")
	}
	var listed []string
	if err := json.Unmarshal([]byte(after.Files[manifests[len(manifests)-1]]), &listed); err != nil {
		return bad("manifest-unreadable")
	}
	var want []string
	for _, p := range after.Parts {
		if !strings.Contains(p, "/") {
			want = append(want, p)
		}
	}
	sort.Strings(listed)
	sort.Strings(want)
	if strings.Join(listed, ",") != strings.Join(want, ",") {
		return bad("manifest-differs-from-snapshot")
	}
	// the fresh units, grouped by part id: each group is one copy of the transfer
	copies := map[uint64]map[string]string{} // id -> prefix -> unit dir
	for _, u := range fresh {
		pre, id, ok := splitUnit(u)
		if !ok {
			return bad("unexpected-part-name")
		}
		if copies[id] == nil {
			copies[id] = map[string]string{}
		}
		copies[id][pre] = u
	}
	rels := map[string]bool{}
	for _, got := range copies {
		for pre := range got {
			if _, ok := sp.Units[pre]; !ok {
				rels["extra-part"] = true
			}
		}
		for pre, files := range sp.Units {
			u, ok := got[pre]
			if !ok {
				if pre == "" {
					rels["core-part-missing"] = true
				} else {
					rels["index-part-missing"] = true
				}
				continue
			}
			have := map[string]string{}
			for name, c := range after.Files {
				if strings.HasPrefix(name, u+"/") {
					have[name[len(u)+1:]] = c
				}
			}
			for name, c := range files {
				g, ok := have[name]
				if !ok {
					rels["missing-file"] = true
					continue
				}
				if e.meta[name] {
					g, c = e.norm(pre, name, g), e.norm(pre, name, c)
				}
				if r := relation(g, c); r != "eq" {
					if e.meta[name] {
						r = "metadata-" + r
					}
					rels[r] = true
				}
			}
			for name := range have {
				if _, ok := files[name]; !ok {
					rels["extra-file"] = true
				}
			}
		}
	}
	v.Copies = len(copies)
	if len(rels) > 0 {
		var rr []string
		for r := range rels {
			rr = append(rr, r)
		}
		sort.Strings(rr)
		v.Install = "inexact[" + strings.Join(rr, ",") + "]"
		return bad("inexact-install[" + strings.Join(rr, ",") + "]")
	}
	v.Install = "exact"
	if v.Copies > allowCopies {
		return bad(fmt.Sprintf("part-installed-%d-times", v.Copies))
	}
	if after.RowsErr != "" {
		return bad("read-error-after-exact-install")
	}
	// logical content: earlier rows plus the part's rows, each exactly once. Where the receiver legitimately holds a
	// second identical copy (at-least-once delivery: the final acknowledgement was lost, or the receiver died right
	// after installing and the whole transfer is retried) the copy's rows may come back twice; recorded, not judged.
	uniq := func(l []string) []string {
		var o []string
		for i, r := range l {
			if i == 0 || l[i-1] != r {
				o = append(o, r)
			}
		}
		return o
	}
	had := strSet(before.Rows)
	second := v.Copies > 1
	for _, r := range sp.Rows {
		second = second || had[r]
	}
	wantRows := append(append([]string(nil), before.Rows...), sp.Rows...)
	sort.Strings(wantRows)
	gotRows := after.Rows
	if second {
		wantRows, gotRows = uniq(wantRows), uniq(gotRows)
		if len(gotRows) != len(after.Rows) {
			v.Install = "exact+rows-of-second-copy-returned-twice"
		}
	}
	if !strsEq(gotRows, wantRows) {
		if len(gotRows) > len(wantRows) {
			return bad("duplicate-rows-after-install")
		}
		return bad("rows-differ-after-exact-install")
	}
	v.Class = "clean"
	return v
}

// whatK turns a judge detail into the stable class used in violation keys. Bytes missing but none wrong =
// partial-install; a whole unit of the transfer missing is named in brackets.
func whatK(detail string) string {
	if !strings.HasPrefix(detail, "inexact-install[") {
		return detail
	}
	rels := strings.Split(strings.TrimSuffix(strings.TrimPrefix(detail, "inexact-install["), "]"), ",")
	var other, unit []string
	for _, r := range rels {
		switch r {
		case "hole", "prefix", "missing-file":
		case "index-part-missing", "core-part-missing":
			unit = append(unit, r)
		default:
			other = append(other, r)
		}
	}
	if len(other) > 0 {
		return "wrong-bytes-installed[" + strings.Join(append(other, unit...), ",") + "]"
	}
	if len(unit) > 0 {
		return "partial-install[" + strings.Join(unit, ",") + "]"
	}
	return "partial-install"
}

// ---------------------------------------------------------------------------------------------------------------
// receiver

type kReceiver struct {
	rc  *receiver // what the dispatcher of main.go needs: the sub server
	tab kTable
	dir string
}

func openReceiverK(e *engineT, dir string, l layT, mode string, ctl *busyCtl) *kReceiver {
	t := e.open(dir, l, false)
	s := sub.V17NewServer(mode)
	cb := t.Callback()
	if ctl != nil {
		cb = &busyHandler{ChunkedSyncHandler: cb, ctl: ctl}
	}
	s.Register(e.topic, cb)
	return &kReceiver{rc: &receiver{srv: s}, tab: t, dir: dir}
}

// ---------------------------------------------------------------------------------------------------------------
// open loop (runOpen of main.go over the engine abstraction)

// syncPartK runs the real receiver on an in-memory stream. wedged != "" = the table's introducer loop died of a panic
// while the session ran: the part handler is then parked for ever in mustAddFilePart (waiting for its introduction to
// be applied), the session never ends and the table takes no further part, flush or merge; the goroutine is abandoned.
func syncPartK(rc *kReceiver, st *memStream) (err error, pnc any, wedged string) {
	done := make(chan struct{})
	go func() {
		defer close(done)
		defer func() { pnc = recover() }()
		err = rc.rc.srv.SyncPart(st)
	}()
	select {
	case <-rc.tab.LoopDead():
	case <-done:
	}
	if p := rc.tab.LoopPanic(); p != "" {
		if os.Getenv("C17_DEBUG") != "" {
			fmt.Printf("debug: introducer loop died: %s\n", p)
		}
		return nil, nil, panicSite(p)
	}
	return err, pnc, ""
}

func runOpenK(c caseT, base []*clusterv1.SyncPartRequest, scOverride *script) resultT {
	e := engineOf(c.Cfg.Kind)
	n := len(base) - 1
	sc := scOverride
	if sc == nil {
		sc = baseScript(base)
		for _, f := range c.Faults {
			if !sc.apply(f) {
				return resultT{Skipped: true}
			}
		}
	}
	exp := model(sc, n, c.Cfg.Mode)
	sp := senderOfK(c.Cfg.Kind, c.Cfg.Lay)
	dir := caseDir()
	defer os.RemoveAll(dir)
	rdir := filepath.Join(dir, "rcv")
	copyDir(kTmplDir(c.Cfg.Kind, "rcv", c.Cfg.Lay), rdir)
	rc := openReceiverK(e, rdir, c.Cfg.Lay, c.Cfg.Mode, nil)
	before := captureK(rc.tab, rdir)
	crashDir := filepath.Join(dir, "crash")
	st := &memStream{ctx: context.Background(), sc: sc}
	crashed := false
	if sc.End == "crash" {
		st.onCrash = func() { copyDir(rdir, crashDir); crashed = true }
	}
	syncErr, pnc, wedged := syncPartK(rc, st)
	if wedged != "" {
		st = &memStream{sc: sc} // the parked handler owns the stream; nothing of it is read
	}
	if sc.End == "crash" && !crashed {
		copyDir(rdir, crashDir)
	}
	rs, success := respSet(st.resps)
	kinds := c.kinds(n)
	head := fmt.Sprintf("%s/%s/%s/exp=%s", c.Phase, c.Cfg.modeKey(), kinds, exp)
	res := resultT{Exp: exp, Nontriv: len(c.Faults) > 0}
	ec := errClass(syncErr)
	if pnc != nil {
		ec = "panic:" + panicSite(pnc)
		if os.Getenv("C17_DEBUG") != "" {
			fmt.Printf("debug: receiver panic: %v\n", pnc)
		}
	}
	finish := func(key, class, detail string) resultT {
		res.Class = class
		res.Sig = fmt.Sprintf("%s/%s/%s/resp[%s]/err=%s", head, class, detail, rs, ec)
		if key != "" {
			res.Key = head + "/" + key
		}
		return res
	}
	if wedged != "" {
		rc.tab.Close()
		return finish("receiver-table-wedged[introducer-loop-panic:"+wedged+"]", "bad", "loop-dead")
	}
	if refs := rc.tab.SegRefs(); refs != 0 {
		rc.tab.Close()
		return finish(fmt.Sprintf("segment-pin-leak[%d]", refs), "bad", "pin-leak")
	}
	target := rc
	if sc.End == "crash" {
		rc.tab.Close()
		var rp any
		func() {
			defer func() { rp = recover() }()
			target = openReceiverK(e, crashDir, c.Cfg.Lay, c.Cfg.Mode, nil)
		}()
		if rp != nil {
			return finish("reopen-panic["+panicSite(rp)+"]", "bad", "reopen-panic")
		}
	}
	after := captureK(target.tab, target.dir)
	v := judgeK(e, before, after, sp, 1)
	defer target.tab.Close()
	switch {
	case v.Class == "bad":
		key := whatK(v.Detail)
		if pnc != nil && strings.HasPrefix(key, "leftover-") {
			key += "[after-handler-panic]" // the part handler panicked half way through FinishSync (recovered by the server)
		}
		return finish(key, "bad", v.Detail)
	case v.Class == "clean" && !success:
		return finish("installed-without-success-report", "bad", "installed-unreported")
	case sc.End == "crash":
		if v.Class == "clean" && exp == "reject" {
			return finish("oracle-mismatch-fault-expected-to-be-rejected-was-installed-exactly", "bad", "oracle-mismatch")
		}
		st2 := &memStream{ctx: context.Background(), sc: baseScript(base)}
		err2, p2, w2 := syncPartK(target, st2)
		if w2 != "" {
			return finish("retry-after-restart-wedged-the-table[introducer-loop-panic:"+w2+"]", "bad", "retry-loop-dead")
		}
		if p2 != nil {
			return finish("retry-after-restart-panic["+panicSite(p2)+"]", "bad", "retry-panic")
		}
		_, ok2 := respSet(st2.resps)
		after2 := captureK(target.tab, target.dir)
		v2 := judgeK(e, after, after2, sp, 1)
		if v2.Class != "clean" || !ok2 || err2 != nil {
			return finish("retry-after-restart-not-clean["+v2.Class+":"+whatK(v2.Detail)+"]", "bad", "retry-not-clean")
		}
		return finish("", "restart:"+v.Class+"+retry:clean", "")
	case v.Class == "unchanged" && success:
		return finish("success-reported-but-nothing-installed", "bad", "success-without-install")
	case v.Class == "unchanged" && exp == "clean":
		return finish("harmless-fault-rejected", "unchanged", "")
	case v.Class == "clean" && exp == "reject":
		return finish("oracle-mismatch-fault-expected-to-be-rejected-was-installed-exactly", "clean", "")
	}
	return finish("", v.Class, "")
}

// ---------------------------------------------------------------------------------------------------------------
// closed loop (runLoop of main.go over the engine abstraction)

func runLoopK(c caseT, f loopFault, nChunks int) loopOut {
	e := engineOf(c.Cfg.Kind)
	sp := senderOfK(c.Cfg.Kind, c.Cfg.Lay)
	dir := caseDir()
	defer os.RemoveAll(dir)
	sdir, rdir := filepath.Join(dir, "snd"), filepath.Join(dir, "rcv")
	copyDir(kTmplDir(c.Cfg.Kind, "snd", c.Cfg.Lay), sdir)
	copyDir(kTmplDir(c.Cfg.Kind, "rcv", c.Cfg.Lay), rdir)
	snd := e.open(sdir, c.Cfg.Lay, true)
	abandoned := false // a wedged receiver leaves the sender waiting for ever: its table is not closed under it
	defer func() {
		if !abandoned {
			snd.Close()
		}
	}()
	var ctl *busyCtl
	if f.Kind == "busy" {
		ctl = &busyCtl{left: f.Times}
	}
	rc := openReceiverK(e, rdir, c.Cfg.Lay, c.Cfg.Mode, ctl)
	before := captureK(rc.tab, rdir)
	n := newLoopNet(f)
	n.busy = ctl
	n.disp.cur.Store(rc.rc)
	cur := rc
	var old []*kReceiver
	var rmu sync.Mutex // cur / old are switched by the crash fault on a server goroutine
	var reopenPanic any
	n.onCrash = func() {
		cd := filepath.Join(dir, "crash")
		copyDir(rdir, cd)
		func() {
			defer func() { reopenPanic = recover() }()
			nr := openReceiverK(e, cd, c.Cfg.Lay, c.Cfg.Mode, ctl)
			rmu.Lock()
			old = append(old, cur)
			cur = nr
			rmu.Unlock()
			n.disp.cur.Store(nr.rc)
		}()
	}
	var clients int32
	var attemptErrs []string
	var syncErr error
	syncDone := make(chan struct{})
	go func() {
		defer close(syncDone)
		syncErr = snd.SyncSnapshot("n0", func(node string, _ uint32) (queue.ChunkedSyncClient, error) {
			atomic.AddInt32(&clients, 1)
			return &dbgClient{ChunkedSyncClient: pub.V17NewClient(n.conn, node, c.Cfg.CS), errs: &attemptErrs,
				tag: fmt.Sprintf("%s %+v #%d", c.Cfg, f, atomic.LoadInt32(&clients))}, nil
		})
	}()
	for running := true; running; {
		select {
		case <-syncDone:
			running = false
		case <-time.After(100 * time.Millisecond):
		}
		rmu.Lock()
		dead := cur.tab.LoopPanic()
		rmu.Unlock()
		if dead != "" {
			// the receiver's introducer loop died: its part handler never returns, the sender waits for an answer for
			// ever (both are abandoned here)
			res := resultT{Nontriv: true, Class: "bad"}
			res.Sig = fmt.Sprintf("loop/%s/%s/bad/loop-dead", c.Cfg.modeKey(), f.Kind)
			res.Key = fmt.Sprintf("loop/%s/%s/receiver-table-wedged[introducer-loop-panic:%s]", c.Cfg.modeKey(), f.Kind, panicSite(dead))
			abandoned = true
			go n.close()
			return loopOut{res: res, rec: n.rec}
		}
	}
	if !n.close() {
		harnessErr("receiver handlers did not finish within 10 min (%s %+v)", c.Cfg, f)
	}
	defer cur.tab.Close()
	for _, o := range old {
		o.tab.Close()
	}
	kind := f.Kind
	if f.Kind == "busy" {
		kind = map[int]string{1: "busy-once", 2: "busy-twice"}[f.Times]
		if f.Persistent {
			kind = "busy-always"
		}
	} else if f.Persistent {
		kind += "-persistent"
	}
	for _, er := range attemptErrs {
		if strings.Contains(er, "to create sync stream") {
			return loopOut{res: resultT{Invalid: er}, rec: n.rec}
		}
	}
	lostAck := f.Kind == "send-err" && f.K == nChunks
	switch {
	case lostAck:
		kind += "-completion"
	case (f.Kind == "recv-err" || f.Kind == "recv-eof" || f.Kind == "crash") && f.K == nChunks:
		kind += "-before-completion"
	}
	head := fmt.Sprintf("loop/%s/%s", c.Cfg.modeKey(), kind)
	res := resultT{Nontriv: f.Kind != "none"}
	finish := func(key, class, detail string) loopOut {
		res.Class = class
		res.Sig = fmt.Sprintf("%s/%s/%s/attempts=%d", head, class, detail, atomic.LoadInt32(&clients))
		if key != "" {
			res.Key = fmt.Sprintf("loop/%s/%s/%s", c.Cfg.modeKey(), kind, key)
		}
		return loopOut{res: res, rec: n.rec}
	}
	if reopenPanic != nil {
		return finish("reopen-panic["+panicSite(reopenPanic)+"]", "bad", "reopen-panic")
	}
	if len(n.disp.panics) > 0 {
		head += "/receiver-panicked:" + n.disp.panics[0]
	}
	for _, r := range append(old, cur) {
		if refs := r.tab.SegRefs(); refs != 0 {
			return finish(fmt.Sprintf("segment-pin-leak[%d]", refs), "bad", "pin-leak")
		}
	}
	after := captureK(cur.tab, cur.dir)
	allow := 1
	if lostAck {
		allow = 2
	}
	v := judgeK(e, before, after, sp, allow)
	if v.Class == "bad" {
		return finish(whatK(v.Detail), "bad", v.Detail)
	}
	// sender side: every unit of the part is still in the sender's snapshots, or every unit is quarantined, unchanged
	sunits, _, _ := snd.Units()
	inS := strSet(sunits)
	ownedN, quarN := 0, 0
	sfiles := measure.V17FileCopy(sdir)
	for pre, files := range sp.Units {
		u := pre + pname(sp.ID)
		if inS[u] {
			ownedN++
			for name, cnt := range files {
				if sfiles[u+"/"+name] != cnt {
					return finish("sender-part-changed", "bad", "sender-part-changed")
				}
			}
		}
		q := "failed-parts/" + e.quarantine(pre, sp.ID)
		have := false
		for name := range sfiles {
			if strings.HasPrefix(name, q+"/") {
				have = true
				break
			}
		}
		if have {
			quarN++
			for name, cnt := range files {
				if sfiles[q+"/"+name] != cnt {
					return finish("failed-parts-copy-differs-from-part", "bad", "quarantine-differs")
				}
			}
		}
	}
	if ownedN != 0 && ownedN != len(sp.Units) {
		return finish("sender-keeps-only-some-units-of-the-part", "bad", "sender-units-diverge")
	}
	if quarN != 0 && quarN != len(sp.Units) {
		return finish("failed-parts-copy-lacks-units-of-the-part", "bad", "quarantine-incomplete")
	}
	owned, quarantined := ownedN > 0, quarN > 0
	own := "sender:gone"
	switch {
	case owned:
		own = "sender:in-snapshot"
	case quarantined:
		own = "sender:failed-parts"
	}
	switch {
	case syncErr != nil:
		return finish("sync-snapshot-error["+errClass(syncErr)+"]", "bad", "sync-error")
	case v.Class == "unchanged" && !owned && !quarantined:
		return finish("part-lost-receiver-has-nothing-sender-dropped-it", "bad", "data-lost")
	case v.Class == "unchanged" && !f.Persistent:
		fmt.Printf("note: %s %+v attempts: %q\n", c.Cfg, f, attemptErrs)
		return finish("transient-fault-but-retries-never-delivered/"+own, "unchanged", own)
	}
	return finish("", v.Class, fmt.Sprintf("copies=%d/%s/%s", v.Copies, v.Install, own))
}

// ---------------------------------------------------------------------------------------------------------------
// base sequences and chunkings

func kBasePath(kind string, l layT, cs uint32) string {
	return filepath.Join(scratch, fmt.Sprintf("base_%s_%s_%d.bin", kind, l, cs))
}

// loadBaseK is loadBase for any kind.
func loadBaseK(c cfgT) []*clusterv1.SyncPartRequest {
	if c.Kind == "" {
		return loadBase(c.Lay, c.CS)
	}
	baseMu.Lock()
	defer baseMu.Unlock()
	p := kBasePath(c.Kind, c.Lay, c.CS)
	if b := baseCache[p]; b != nil {
		return b
	}
	raw, err := os.ReadFile(p)
	if err != nil {
		harnessErr("base sequence: %v", err)
	}
	baseCache[p] = decodeBase(raw)
	return baseCache[p]
}

// checkBaseK: the recorded sequence against the sender's files - concatenating the chunk slices per (part type, file)
// gives the sender's files; part ids are the sender's part id; the part-info numbers are those of the sender's metadata.
func checkBaseK(e *engineT, base []*clusterv1.SyncPartRequest, sp *kSender) string {
	if len(base) < 2 || base[len(base)-1].GetCompletion() == nil || base[0].GetMetadata() == nil {
		return "sequence must be metadata+chunks ... completion"
	}
	files := map[string][]byte{}
	for i, r := range base[:len(base)-1] {
		if int(r.ChunkIndex) != i {
			return fmt.Sprintf("chunk %d carries index %d", i, r.ChunkIndex)
		}
		for _, p := range r.PartsInfo {
			if p.Id != sp.ID {
				return "part info carries another part id than the sender's part"
			}
			for _, f := range p.Files {
				if int(f.Offset+f.Size) > len(r.ChunkData) {
					return "file slice beyond chunk data"
				}
				k := e.prefixOf(p.PartType) + "|" + e.streamName(p.PartType, f.Name)
				files[k] = append(files[k], r.ChunkData[f.Offset:f.Offset+f.Size]...)
			}
		}
	}
	for pre, ff := range sp.Units {
		for name, c := range ff {
			if e.meta[name] {
				continue
			}
			if string(files[pre+"|"+name]) != c {
				return "streamed bytes of " + pre + name + " differ from the sender's file"
			}
			delete(files, pre+"|"+name)
		}
	}
	for k := range files {
		return "streamed file " + k + " is not a file of the sender's part"
	}
	return ""
}

// partSizes: bytes per part (in stream order) of a recorded sequence.
func partSizes(base []*clusterv1.SyncPartRequest) (order []string, size map[string]int) {
	size = map[string]int{}
	for _, r := range base {
		for _, p := range r.PartsInfo {
			if _, ok := size[p.PartType]; !ok {
				order = append(order, p.PartType)
			}
			for _, f := range p.Files {
				size[p.PartType] += int(f.Size)
			}
		}
	}
	return
}

// kChunkings of one (kind, layout): decided by the driver from the whole-part recording, read by workers.
type kChunkings struct {
	RX    []uint32 `json:"rx"`    // rx phase
	Loop  []uint32 `json:"loop"`  // closed loop
	Pairs uint32   `json:"pairs"` // 0 = no pairs for this layout
}

var (
	kcsMu    sync.Mutex
	kcsCache map[string]kChunkings
)

func kcsPath() string { return filepath.Join(scratch, "kinds_chunkings.json") }

func kChunkingsOf(kind string, l layT) kChunkings {
	kcsMu.Lock()
	defer kcsMu.Unlock()
	if kcsCache == nil {
		b, err := os.ReadFile(kcsPath())
		if err != nil {
			harnessErr("chunkings of the kinds: %v", err)
		}
		if err := json.Unmarshal(b, &kcsCache); err != nil {
			harnessErr("chunkings of the kinds: %v", err)
		}
	}
	return kcsCache[kind+"/"+l.String()]
}

const wholeCS = uint32(1 << 20)

// decideChunkings: the whole part in one chunk; a middle size (small layouts 64 B, big 4 KiB: part boundaries fall
// inside chunks); for sessions with several parts one chunking per part boundary whose first chunk ends exactly at
// that boundary (so "last chunk of part k" and "first chunk of part k+1" are whole chunks); thorough adds the 1-byte
// chunking (every file and part boundary is a chunk boundary) for the smallest layout. pairs: about nine chunks.
func decideChunkings(l layT, whole []*clusterv1.SyncPartRequest, thorough bool) kChunkings {
	order, size := partSizes(whole)
	total := 0
	for _, s := range size {
		total += s
	}
	var k kChunkings
	add := func(cs uint32, loop bool) {
		for _, x := range k.RX {
			if x == cs {
				return
			}
		}
		k.RX = append(k.RX, cs)
		if loop {
			k.Loop = append(k.Loop, cs)
		}
	}
	if l.Big {
		add(4096, true)
		add(wholeCS, true)
		return k
	}
	if thorough && l.NF == 1 {
		add(1, false) // open loop only: the closed loop over one-byte chunks is run for the measure engine
	}
	add(64, true)
	acc := 0
	for _, pt := range order[:len(order)-1] {
		acc += size[pt]
		add(uint32(acc), true)
	}
	add(wholeCS, true)
	k.Pairs = uint32((total + 8) / 9)
	return k
}

// recordKinds: templates, base sequences and chunkings of every kind (driver).
func recordKinds(r *ev.Run, chunks map[string]int, orderCount *int, thorough bool) {
	all := map[string]kChunkings{}
	for _, kind := range kindOrder {
		if !kindOn(kind) {
			continue
		}
		e := engineOf(kind)
		for _, l := range e.layouts {
			buildTemplatesK(kind, l)
			sp := senderOfK(kind, l)
			whole, orders := record(l, wholeCS, kind)
			*orderCount += len(orders)
			r.Add("evaluations_record", len(orders))
			kc := decideChunkings(l, whole, thorough)
			all[kind+"/"+l.String()] = kc
			css := append([]uint32(nil), kc.RX...)
			if kc.Pairs != 0 {
				css = append(css, kc.Pairs)
			}
			done := map[uint32]bool{}
			for _, cs := range css {
				if done[cs] {
					continue
				}
				done[cs] = true
				base := whole
				if cs != wholeCS {
					var o map[string]bool
					base, o = record(l, cs, kind)
					*orderCount += len(o)
					r.Add("evaluations_record", len(o))
				}
				if msg := checkBaseK(e, base, sp); msg != "" {
					r.Violation("record/"+kind+"/clean-transfer/"+msg, map[string]any{"kind": kind, "layout": l, "cs": cs})
				}
				saveBase(kBasePath(kind, l, cs), base)
				chunks[fmt.Sprintf("%s/%s/cs%d", kind, l, cs)] = len(base) - 1
			}
		}
	}
	b, _ := json.Marshal(all)
	if err := os.WriteFile(kcsPath(), b, 0o644); err != nil {
		harnessErr("write chunkings: %v", err)
	}
}

// ---------------------------------------------------------------------------------------------------------------
// plan

// quickFaults trims the single-fault alphabet of a kind for the quick tier: bit flips only in the middle byte,
// reorderings only at distance 1, gap and gap+1 (inside / at the edge of / beyond the window).
func quickFaults(fs []fault, mode string) []fault {
	_, gap, _ := window(mode)
	var out []fault
	for _, f := range fs {
		switch f.Kind {
		case "flip":
			if f.Pos != "mid" {
				continue
			}
		case "swap":
			if d := f.J - f.I; d != 1 && d != gap && d != gap+1 {
				continue
			}
		}
		out = append(out, f)
	}
	return out
}

func planKinds(p *planT, thorough bool) {
	for _, kind := range kindOrder {
		if !kindOn(kind) {
			continue
		}
		e := engineOf(kind)
		for _, l := range e.layouts {
			kc := kChunkingsOf(kind, l)
			for _, cs := range kc.RX {
				n := len(loadBaseK(cfgT{Kind: kind, Lay: l, CS: cs})) - 1
				for _, mode := range modes(thorough) {
					if cs == 1 && mode != "default" && mode != "seq" {
						continue
					}
					if !thorough && l.Big && mode != "default" && mode != "seq" {
						continue
					}
					c := cfgT{Kind: kind, Lay: l, CS: cs, Mode: mode}
					p.open = append(p.open, caseT{Phase: "rx", Cfg: c})
					fs := singleFaults(n, mode, false)
					if !thorough {
						fs = quickFaults(fs, mode)
					}
					for _, f := range fs {
						p.open = append(p.open, caseT{Phase: "rx", Cfg: c, Faults: []fault{f}})
					}
				}
			}
		}
		// pairs over the ~9-chunk chunking. quick: the layout with most parts, shipped receiver configuration
		for li, l := range e.layouts {
			kc := kChunkingsOf(kind, l)
			if kc.Pairs == 0 {
				continue
			}
			last := li+1 == len(e.layouts) || e.layouts[li+1].Big
			if !thorough && !last {
				continue
			}
			n := len(loadBaseK(cfgT{Kind: kind, Lay: l, CS: kc.Pairs})) - 1
			for _, mode := range modes(thorough) {
				if !thorough && mode != "default" {
					continue
				}
				c := cfgT{Kind: kind, Lay: l, CS: kc.Pairs, Mode: mode}
				fs := singleFaults(n, mode, true)
				if !thorough {
					fs = quickFaults(fs, mode)
				}
				seen := map[string]bool{}
				idOnly := make([]*clusterv1.SyncPartRequest, n+1)
				for i := range idOnly {
					idOnly[i] = &clusterv1.SyncPartRequest{ChunkIndex: uint32(i)}
				}
				idOnly[n].Content = &clusterv1.SyncPartRequest_Completion{Completion: &clusterv1.SyncCompletion{}}
				for _, f := range fs {
					for _, g := range fs {
						sc := baseScript(idOnly)
						if !sc.apply(f) || !sc.apply(g) {
							p.degenerate++
							continue
						}
						var sb strings.Builder
						sb.WriteString(sc.End)
						for _, it := range sc.Items {
							fmt.Fprintf(&sb, ",%d%s", it.ID, it.Bad)
						}
						if seen[sb.String()] {
							p.duplicates++
							continue
						}
						seen[sb.String()] = true
						p.open = append(p.open, caseT{Phase: "pairs", Cfg: c, Faults: []fault{f, g}})
					}
				}
			}
		}
		// closed loop
		for _, l := range e.layouts {
			kc := kChunkingsOf(kind, l)
			for _, cs := range kc.Loop {
				n := len(loadBaseK(cfgT{Kind: kind, Lay: l, CS: cs})) - 1
				for _, mode := range []string{"default", "seq"} {
					c := caseT{Phase: "loop", Cfg: cfgT{Kind: kind, Lay: l, CS: cs, Mode: mode}}
					add := func(f loopFault) { p.loops = append(p.loops, loopCase{c, f, n}) }
					poss := []string{"first", "mid", "last"}
					if !thorough {
						poss = []string{"mid"}
					}
					add(loopFault{Kind: "none"})
					for i := 0; i < n; i++ {
						for _, pos := range poss {
							add(loopFault{Kind: "corrupt", K: i, Pos: pos})
						}
					}
					three := []int{0, n / 2, n - 1}
					seen := map[int]bool{}
					for _, i := range three {
						if !seen[i] {
							seen[i] = true
							add(loopFault{Kind: "corrupt", K: i, Pos: "mid", Persistent: true})
						}
					}
					for k := 0; k <= n; k++ {
						add(loopFault{Kind: "recv-err", K: k})
						add(loopFault{Kind: "recv-eof", K: k})
						add(loopFault{Kind: "crash", K: k})
						add(loopFault{Kind: "send-err", K: k})
					}
					for k := 0; k < n; k++ {
						add(loopFault{Kind: "busy", K: k, Times: 1})
						if thorough {
							add(loopFault{Kind: "busy", K: k, Times: 2})
						}
					}
					done := map[int]bool{}
					for _, i := range three {
						if !done[i] {
							done[i] = true
							add(loopFault{Kind: "busy", K: i, Persistent: true})
						}
					}
				}
			}
		}
	}
}

// filterKinds applies the development aid C17_KINDS to a plan.
func filterKinds(p *planT) *planT {
	if os.Getenv("C17_KINDS") == "" {
		return p
	}
	var o []caseT
	for _, c := range p.open {
		if kindOn(c.Cfg.Kind) {
			o = append(o, c)
		}
	}
	var l []loopCase
	for _, c := range p.loops {
		if kindOn(c.c.Cfg.Kind) {
			l = append(l, c)
		}
	}
	p.open, p.loops = o, l
	return p
}

// kindCounts: evaluations per phase and engine, from the outcome signatures (phase/kind/mode/... or phase/mode/...).
func kindCounts(sigs map[string]int) map[string]int {
	out := map[string]int{}
	for s, v := range sigs {
		parts := strings.SplitN(s, "/", 3)
		k := "measure"
		if len(parts) > 1 && engines[parts[1]] != nil {
			k = parts[1]
		}
		out[parts[0]+"/"+k] += v
	}
	return out
}

// ---------------------------------------------------------------------------------------------------------------
// STREAM engine

var streamSeries = func() []uint64 {
	out := []uint64{1, 2, 3, 7, 8}
	for s := uint64(101); s <= 140; s++ {
		out = append(out, s)
	}
	return out
}()

func streamRows(l layT, sender bool) []stream.V17stRow {
	var out []stream.V17stRow
	if !sender {
		return []stream.V17stRow{
			{Series: 7, TS: tsBase + 7000, EID: 70, Val: 700},
			{Series: 8, TS: tsBase + 8000, EID: 80, Val: 800},
			{Series: 8, TS: tsBase + 8001, EID: 81, Val: 801},
		}
	}
	if l.Big {
		x := uint64(88172645463325252)
		for s := uint64(101); s <= 140; s++ {
			for k := int64(0); k < 8; k++ {
				x ^= x << 13
				x ^= x >> 7
				x ^= x << 17
				out = append(out, stream.V17stRow{Series: s, TS: tsBase + int64(x%1_000_000_000)*16 + int64(s)*8 + k, EID: s*100 + uint64(k), Val: int64(x >> 1)})
			}
		}
		return out
	}
	for s := uint64(1); s <= 3; s++ {
		for k := int64(0); k < 2; k++ {
			out = append(out, stream.V17stRow{Series: s, TS: tsBase + int64(s)*1000 + k, EID: s*10 + uint64(k), Val: int64(s)*100 + k})
		}
	}
	return out
}

type streamTab struct {
	t *stream.V17stTable
	h *stream.V17stHandler
}

func (s *streamTab) Close() { s.t.Close() }

func (s *streamTab) Units() (units []string, epoch uint64, mem bool) {
	pp, e := s.t.Parts()
	for _, p := range pp {
		units = append(units, pname(p.ID))
		mem = mem || p.Mem
	}
	return units, e, mem
}

func (s *streamTab) Read() ([]string, error) { return s.t.Read(streamSeries) }

func (s *streamTab) handler() *stream.V17stHandler {
	if s.h == nil {
		s.h = s.t.Handler()
	}
	return s.h
}

func (s *streamTab) Callback() queue.ChunkedSyncHandler { return s.handler().Callback() }

func (s *streamTab) SegRefs() int64 { return atomic.LoadInt64(&s.handler().SegRefs) }

func (s *streamTab) LoopDead() <-chan struct{} { return s.t.LoopDead() }

func (s *streamTab) LoopPanic() string { return s.t.LoopPanic() }

func (s *streamTab) SyncSnapshot(node string, mk func(string, uint32) (queue.ChunkedSyncClient, error)) error {
	return s.t.SyncSnapshot(node, mk)
}

func init() {
	engines["stream"] = &engineT{
		name:    "stream",
		topic:   data.TopicStreamPartSync,
		layouts: []layT{{NF: 1}, {NF: 3}, {NF: 3, Big: true}},
		open: func(dir string, l layT, sender bool) kTable {
			return &streamTab{t: stream.V17stOpen(dir, l.NF, sender)}
		},
		build: func(dir string, l layT, sender bool) {
			t := stream.V17stOpen(dir, l.NF, sender)
			if sender {
				t.SkipPartIDs(senderPartIDSkip(l))
			}
			t.Write(streamRows(l, sender))
			t.Flush()
			t.Close()
		},
		streamName: func(_, name string) string { return stream.V17stStreamName(name) },
		prefixOf:   func(string) string { return "" },
		quarantine: func(_ string, id uint64) string { return pname(id) + "_core" },
		meta:       map[string]bool{"metadata.json": true},
		norm:       func(_, _, c string) string { return c },
	}
}

// spill / unspill: a worker's result goes through a file and only a short pointer line through the pipe. The result
// line can be megabytes; stdout and stderr of a worker share one pipe, and goroutines abandoned after a wedged table
// (see syncPartK) may still log, which would cut the line in two.
func spill(b []byte, wi int) []byte {
	p := filepath.Join(scratch, fmt.Sprintf("result_w%d.json", wi))
	if err := os.WriteFile(p, b, 0o644); err != nil {
		harnessErr("write worker result: %v", err)
	}
	out, _ := json.Marshal(map[string]string{"spilled": p})
	return out
}

func unspill(b []byte) []byte {
	var ptr struct {
		Spilled string `json:"spilled"`
	}
	if json.Unmarshal(b, &ptr) != nil || ptr.Spilled == "" {
		return b
	}
	raw, err := os.ReadFile(ptr.Spilled)
	if err != nil {
		harnessErr("read worker result: %v", err)
	}
	return raw
}
