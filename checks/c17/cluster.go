// C17 phase "cluster": after the liaison's write queue has been delivered, a cluster (liaison + k data nodes) answers
// every query exactly as a standalone server fed the same writes, and every stored row sits in the shard
// partition.ShardID computes and in the segment containing its timestamp.
//
// One server configuration per worker subprocess (mc/e2e): standalone references (one per shard count) and clusters
// data nodes x shards x replicas. Every worker creates the same schemas, performs the same writes (2 batches, 2 time
// segments, >= 2 series per shard), waits for delivery (cluster: liaison_info.pending_* == 0 and the data nodes report
// rows x copies), runs the same request list and dumps the answers; the driver compares.
package main

import (
	"bufio"
	"bytes"
	"encoding/base64"
	"encoding/json"
	"fmt"
	"os"
	"path/filepath"
	"sort"
	"strings"
	"sync"
	"time"

	"google.golang.org/grpc/codes"
	"google.golang.org/protobuf/encoding/protojson"
	"google.golang.org/protobuf/proto"

	commonv1 "github.com/apache/skywalking-banyandb/api/proto/banyandb/common/v1"
	measurev1 "github.com/apache/skywalking-banyandb/api/proto/banyandb/measure/v1"
	modelv1 "github.com/apache/skywalking-banyandb/api/proto/banyandb/model/v1"
	streamv1 "github.com/apache/skywalking-banyandb/api/proto/banyandb/stream/v1"
	tracev1 "github.com/apache/skywalking-banyandb/api/proto/banyandb/trace/v1"
	"github.com/apache/skywalking-banyandb/banyand/measure"
	"github.com/apache/skywalking-banyandb/banyand/stream"
	"github.com/apache/skywalking-banyandb/banyand/trace"
	"github.com/apache/skywalking-banyandb/pkg/partition"
	pbv1 "github.com/apache/skywalking-banyandb/pkg/pb/v1"
	"github.com/apache/skywalking-banyandb/pkg/verif/e2e"
	"github.com/apache/skywalking-banyandb/pkg/verif/ev"
)

// ---------------------------------------------------------------------------------------------------------------
// configurations

type cwCfg struct {
	Out      string `json:"out"`      // result file
	Nodes    int    `json:"nodes"`    // 0 = standalone
	Shards   uint32 `json:"shards"`   // shard_num of the three groups
	Replicas uint32 `json:"replicas"` // copies per shard - 1
	Thorough bool   `json:"thorough"`
	Row      bool   `json:"row,omitempty"` // --measure-vectorized-enabled=false on every node: the row (proto) distributed plan
	// TZ != 0: every process of the configuration (liaison, data nodes; the standalone reference too) runs in the
	// fixed time zone UTC+TZ seconds (time.Local), and the base instant of the data set is moved to 800 ms before a
	// local midnight that is NOT a UTC midnight: batch 1 of every engine then has rows on both sides of a boundary of the
	// node-local segment grid inside one UTC day (round 2, class of seeded C17-4).
	TZ int `json:"tz,omitempty"`
}

// tzName: "+0800", "-0500", "+0530".
func tzName(sec int) string {
	sign := "+"
	if sec < 0 {
		sign, sec = "-", -sec
	}
	return fmt.Sprintf("%s%02d%02d", sign, sec/3600, sec%3600/60)
}

// loc is the process time zone of the configuration (nil offset = the zone the check runs in).
func (c cwCfg) loc() *time.Location {
	if c.TZ == 0 {
		return time.Local
	}
	return time.FixedZone("UTC"+tzName(c.TZ), c.TZ)
}

// cutMs: in a time-zone configuration the node-local midnight lies at base+cutMs. The data sets are laid out so that
// batch 1 of every engine has rows before and after base+cutMs (checked by the driver).
const cutMs = 800

// baseMs is the base instant (unix ms) of the configuration's data set: e2e.Base() (06:00 UTC), or the latest local
// midnight of the configuration's zone that is <= e2e.Base(), minus cutMs.
func (c cwCfg) baseMs() int64 {
	b := e2e.Base()
	if c.TZ == 0 {
		return b.UnixMilli()
	}
	l := b.In(c.loc())
	mid := time.Date(l.Year(), l.Month(), l.Day(), 0, 0, 0, 0, c.loc())
	return mid.UnixMilli() - cutMs
}

func (c cwCfg) String() string {
	row := ""
	if c.Row {
		row = "/row"
	}
	if c.TZ != 0 {
		row += "/tz" + tzName(c.TZ)
	}
	if c.Nodes == 0 {
		return fmt.Sprintf("standalone/s%d%s", c.Shards, row)
	}
	return fmt.Sprintf("n%d/s%d/r%d%s", c.Nodes, c.Shards, c.Replicas, row)
}

const (
	gM, nM = "c17m", "m"
	gS, nS = "c17s", "s"
	gT, nT = "c17t", "t"
	dayMs  = int64(24 * 3600 * 1000)
)

// both segments: [base-24h, base-24h+1h] and [base, base+1h] (1-day segments; e2e.Base is 06:00 UTC of yesterday)
func rangeAll() *modelv1.TimeRange { return e2e.Range(-dayMs-1000, 3600*1000) }

// ---------------------------------------------------------------------------------------------------------------
// data set

var cSvcs = []string{"s0", "s1", "s2", "s3", "s4", "s5", "s6", "s7", "s8", "s9", "s10", "s11"}

func cStrOrNull(s string) *modelv1.TagValue {
	if s == "-" {
		return e2e.Null()
	}
	return e2e.Str(s)
}

// row identity kept by the driver for the placement check.
type rowFact struct {
	Key string // series entity (svc) or trace id
	TS  int64  // unix nanoseconds
}

// measure: 12 series x 4 instants (2 per segment; the two instants of a series in a segment lie 300 ms apart inside ONE
// wall-clock second - millisecond is the precision of the write API - and carry the same indexed tag values), all
// timestamps distinct, vi distinct (no ties for top / order), group sums distinct; region/code (plain tags) with nulls; zone/lvl indexed and constant per series (measure keeps indexed
// tags in the series document). One point is written twice (version 1 in batch 0, version 2 in batch 1).
func cMeasureRows() (batches [2][]*measurev1.DataPointValue, facts []rowFact) {
	// no empty string next to null in a group-by tag: group-by puts null and "" into one group and labels it with
	// whichever row comes first (a C10 matter, not a cluster/standalone difference)
	regions := []string{"east", "west", "-", "north", "south-east"}
	codes := []int64{200, 404, 500, -1}
	for k, svc := range cSvcs {
		for j := 0; j < 4; j++ {
			ts := int64(j)*300 + int64(k)*7
			b := 1
			if j < 2 {
				ts -= dayMs
				b = 0
			}
			x := k*4 + j
			vi := int64((k+1)*100 + j*7 + (k*k)%13)
			code := e2e.Int(codes[x%len(codes)])
			if x%5 == 3 {
				code = e2e.Null()
			}
			dp := &measurev1.DataPointValue{
				Timestamp: e2e.At(ts),
				TagFamilies: []*modelv1.TagFamilyForWrite{e2e.TF(e2e.Str(svc), cStrOrNull(regions[x%len(regions)]), code,
					e2e.Str(fmt.Sprintf("z%d", k%3)), e2e.Int(int64(k%4)))},
				Fields:  []*modelv1.FieldValue{e2e.FI(vi), e2e.FF(float64(vi)/8 + 0.5)},
				Version: 1,
			}
			batches[b] = append(batches[b], dp)
			facts = append(facts, rowFact{Key: svc, TS: e2e.At(ts).AsTime().UnixNano()})
		}
	}
	// the same (series s1, first instant) again with a higher version and other values: only this one may be returned
	batches[1] = append(batches[1], &measurev1.DataPointValue{
		Timestamp:   e2e.At(-dayMs + 7),
		TagFamilies: []*modelv1.TagFamilyForWrite{e2e.TF(e2e.Str("s1"), e2e.Str("south"), e2e.Int(201), e2e.Str("z1"), e2e.Int(1))},
		Fields:      []*modelv1.FieldValue{e2e.FI(9001), e2e.FF(9001.25)},
		Version:     2,
	})
	return
}

func cMeasureFamilies() []e2e.Family {
	return []e2e.Family{{Name: "default", Tags: []e2e.Tag{{Name: "svc", Type: e2e.TStr}, {Name: "region", Type: e2e.TStr}, {Name: "code", Type: e2e.TInt}, {Name: "zone", Type: e2e.TStr}, {Name: "lvl", Type: e2e.TInt}}}}
}

// stream: 12 series x 3 elements, distinct timestamps and distinct dur (the sortable index): no ties.
func cStreamRows() (batches [2][]*streamv1.ElementValue, facts []rowFact) {
	regions := []string{"east", "west", "-", "east", ""}
	codes := []int64{200, 404, 200, 500, -1}
	for k, svc := range cSvcs {
		for j := 0; j < 3; j++ {
			ts := int64(j)*500 + int64(k)*11 + 3 // batch 1: 503..624 and 1003..1124, on both sides of cutMs
			b := 1
			if j == 0 {
				ts -= dayMs
				b = 0
			}
			i := k*3 + j
			code := e2e.Int(codes[i%len(codes)])
			if i%7 == 4 {
				code = e2e.Null()
			}
			payload := e2e.Bin([]byte{byte(i), 0, 0xff})
			if i%4 == 3 {
				payload = e2e.Null()
			}
			el := &streamv1.ElementValue{
				ElementId: fmt.Sprintf("e%02d", i), Timestamp: e2e.At(ts),
				TagFamilies: []*modelv1.TagFamilyForWrite{
					e2e.TF(e2e.Str(svc), cStrOrNull(regions[i%len(regions)]), code, e2e.Int(int64(10+((i*17)%36)*5)), e2e.Str(fmt.Sprintf("t%d", i%4))),
					e2e.TF(payload),
				},
			}
			batches[b] = append(batches[b], el)
			facts = append(facts, rowFact{Key: svc, TS: e2e.At(ts).AsTime().UnixNano()})
		}
	}
	return
}

func cStreamFamilies() []e2e.Family {
	return []e2e.Family{
		{Name: "searchable", Tags: []e2e.Tag{{Name: "svc", Type: e2e.TStr}, {Name: "region", Type: e2e.TStr}, {Name: "code", Type: e2e.TInt}, {Name: "dur", Type: e2e.TInt}, {Name: "tid", Type: e2e.TStr}}},
		{Name: "data", Tags: []e2e.Tag{{Name: "payload", Type: e2e.TBin}}},
	}
}

// trace: 12 traces x 2..3 spans (30 spans); every trace lies in one segment; tie-free tree-index keys.
// cTraceIDs: 12 trace ids, 4 per shard of a 3-shard group (trace shards are a hash of the id: the names are picked so
// that every shard of every enumerated shard count holds at least two traces).
func cTraceIDs() []string {
	per := map[uint32]int{}
	var out []string
	for c := 0; len(out) < 12 && c < 1000; c++ {
		id := fmt.Sprintf("tr%d", c)
		if sh := uint32(partition.TraceShardID(id, 3)); per[sh] < 4 {
			per[sh]++
			out = append(out, id)
		}
	}
	return out
}

func cTraceRows() (batches [2][]*tracev1.WriteRequest, facts []rowFact) {
	svcs := []string{"a", "b"}
	ids := cTraceIDs()
	i := 0
	for tr := 0; tr < len(ids); tr++ {
		n := 2 + tr%2
		for sp := 0; sp < n; sp++ {
			ts := int64(i)*70 + int64(tr)*3
			b := 1
			if tr < 5 {
				ts -= dayMs
				b = 0
			} else {
				ts -= 600 // batch 1: 255..1463; traces 5..7 end before cutMs, traces 8..11 start after it
			}
			w := &tracev1.WriteRequest{
				Tags: []*modelv1.TagValue{
					e2e.Str(ids[tr]), e2e.Str(fmt.Sprintf("sp%02d", i)), e2e.Str(svcs[tr%2]), e2e.Int(int64(tr % 3 / 2)),
					e2e.Int(int64(50 + ((i*13)%37)*20)), e2e.Time(e2e.At(ts)),
				},
				Span: []byte(fmt.Sprintf("span-%02d", i)),
			}
			batches[b] = append(batches[b], w)
			facts = append(facts, rowFact{Key: ids[tr], TS: e2e.At(ts).AsTime().UnixNano()})
			i++
		}
	}
	return
}

func cTraceTags() []e2e.Tag {
	return []e2e.Tag{{Name: "trace_id", Type: e2e.TStr}, {Name: "span_id", Type: e2e.TStr}, {Name: "svc", Type: e2e.TStr}, {Name: "state", Type: e2e.TInt}, {Name: "dur", Type: e2e.TInt}, {Name: "ts", Type: e2e.TTime}}
}

// ---------------------------------------------------------------------------------------------------------------
// requests (grammar adapted from checks/c15)

type cReq struct {
	Msg     proto.Message
	Shape   string
	Engine  byte // M S T
	Ordered bool
}

type cCrit struct {
	c     *modelv1.Criteria
	label string
}

func cCond(name string, op modelv1.Condition_BinaryOp, v *modelv1.TagValue) *modelv1.Criteria {
	return &modelv1.Criteria{Exp: &modelv1.Criteria_Condition{Condition: &modelv1.Condition{Name: name, Op: op, Value: v}}}
}

func cLogic(op modelv1.LogicalExpression_LogicalOp, l, r *modelv1.Criteria) *modelv1.Criteria {
	return &modelv1.Criteria{Exp: &modelv1.Criteria_Le{Le: &modelv1.LogicalExpression{Op: op, Left: l, Right: r}}}
}

const (
	cEQ  = modelv1.Condition_BINARY_OP_EQ
	cGT  = modelv1.Condition_BINARY_OP_GT
	cGE  = modelv1.Condition_BINARY_OP_GE
	cLE  = modelv1.Condition_BINARY_OP_LE
	cIN  = modelv1.Condition_BINARY_OP_IN
	cAND = modelv1.LogicalExpression_LOGICAL_OP_AND
	cOR  = modelv1.LogicalExpression_LOGICAL_OP_OR
)

type cOrder struct {
	o     *modelv1.QueryOrder
	label string
}

func cOrders(rule string) []cOrder {
	return []cOrder{
		{nil, "none"},
		{&modelv1.QueryOrder{Sort: modelv1.Sort_SORT_ASC}, "time.asc"},
		{&modelv1.QueryOrder{Sort: modelv1.Sort_SORT_DESC}, "time.desc"},
		{&modelv1.QueryOrder{IndexRuleName: rule, Sort: modelv1.Sort_SORT_ASC}, rule + ".asc"},
		{&modelv1.QueryOrder{IndexRuleName: rule, Sort: modelv1.Sort_SORT_DESC}, rule + ".desc"},
	}
}

type cWin struct{ limit, offset uint32 }

func (w cWin) String() string {
	if w == (cWin{}) {
		return "default"
	}
	return fmt.Sprintf("l%d.o%d", w.limit, w.offset)
}

func cTagProj(family string, tags ...string) *modelv1.TagProjection {
	return &modelv1.TagProjection{TagFamilies: []*modelv1.TagProjection_TagFamily{{Name: family, Tags: tags}}}
}

func cAggName(f modelv1.AggregationFunction) string {
	return strings.TrimPrefix(f.String(), "AGGREGATION_FUNCTION_")
}

func cRequests(thorough bool) []cReq {
	var out []cReq
	// ---- measure
	mcrits := []cCrit{
		{nil, "none"},
		{cCond("lvl", cGT, e2e.Int(1)), "lvl.GT"},
		{cCond("svc", cEQ, e2e.Str("s3")), "svc.EQ"},
		{cCond("svc", cIN, e2e.StrArr("s0", "s4", "s7", "s11")), "svc.IN"},
		{cCond("zone", cEQ, e2e.Str("z2")), "zone.EQ"},
		{cLogic(cAND, cCond("lvl", cGE, e2e.Int(2)), cCond("zone", cEQ, e2e.Str("z1"))), "AND(lvl.GE,zone.EQ)"},
		{cLogic(cOR, cCond("svc", cEQ, e2e.Str("s1")), cCond("lvl", cEQ, e2e.Int(3))), "OR(svc.EQ,lvl.EQ)"},
		{cCond("lvl", cEQ, e2e.Int(777)), "lvl.EQ(nomatch)"},
	}
	mreq := func(c cCrit, o cOrder, w cWin) *measurev1.QueryRequest {
		return &measurev1.QueryRequest{
			Groups: []string{gM}, Name: nM, TimeRange: rangeAll(),
			TagProjection:   cTagProj("default", "svc", "region", "code", "lvl"),
			FieldProjection: &measurev1.QueryRequest_FieldProjection{Names: []string{"vi", "vf"}},
			Criteria:        c.c, OrderBy: o.o, Limit: w.limit, Offset: w.offset,
		}
	}
	mwins := []cWin{{}, {5, 0}, {5, 3}, {1000, 2}, {1000, 0}}
	for _, c := range mcrits {
		for _, o := range cOrders("lvl") {
			for _, w := range mwins {
				if o.o != nil && o.o.IndexRuleName != "" && !thorough && w != (cWin{1000, 0}) {
					continue // quick: index order (full of ties: lvl is constant per series) only untruncated
				}
				out = append(out, cReq{Engine: 'M', Msg: mreq(c, o, w), Ordered: o.o != nil,
					Shape: "raw/crit=" + cClass(c.label) + "/order=" + o.label + "/window=" + w.String()})
			}
		}
	}
	// ordered by the (indexed) entity tag: the sort group is "equal svc" = the 4 points of one series, two of them inside
	// one second; index order is requested untruncated in quick, so these shapes carry the truncated windows too
	for _, c := range mcrits {
		for _, srt := range []modelv1.Sort{modelv1.Sort_SORT_ASC, modelv1.Sort_SORT_DESC} {
			o := cOrder{&modelv1.QueryOrder{IndexRuleName: "svc", Sort: srt}, "svc." + strings.ToLower(strings.TrimPrefix(srt.String(), "SORT_"))}
			for _, w := range []cWin{{1000, 0}, {5, 3}, {}} {
				out = append(out, cReq{Engine: 'M', Msg: mreq(c, o, w), Ordered: true,
					Shape: "raw/crit=" + cClass(c.label) + "/order=" + o.label + "/window=" + w.String()})
			}
		}
	}
	// one segment only, and a range cutting a segment
	for _, tr := range []struct {
		r *modelv1.TimeRange
		l string
	}{{e2e.Range(-dayMs-1000, -dayMs+3600*1000), "seg0"}, {e2e.Range(0, 3600*1000), "seg1"}, {e2e.Range(-dayMs+200, 700), "cut"},
		{e2e.Range(cutMs+50, 3600*1000), "seg1-after-cut"}} {
		for _, o := range cOrders("lvl")[:3] {
			q := mreq(mcrits[0], o, cWin{1000, 0})
			q.TimeRange = tr.r
			out = append(out, cReq{Engine: 'M', Msg: q, Ordered: o.o != nil, Shape: "raw/range=" + tr.l + "/order=" + o.label})
		}
	}
	fns := []modelv1.AggregationFunction{modelv1.AggregationFunction_AGGREGATION_FUNCTION_SUM, modelv1.AggregationFunction_AGGREGATION_FUNCTION_COUNT,
		modelv1.AggregationFunction_AGGREGATION_FUNCTION_MIN, modelv1.AggregationFunction_AGGREGATION_FUNCTION_MAX, modelv1.AggregationFunction_AGGREGATION_FUNCTION_MEAN}
	tops := []modelv1.Sort{modelv1.Sort_SORT_UNSPECIFIED, modelv1.Sort_SORT_ASC, modelv1.Sort_SORT_DESC}
	topName := map[modelv1.Sort]string{modelv1.Sort_SORT_UNSPECIFIED: "-", modelv1.Sort_SORT_ASC: "3asc", modelv1.Sort_SORT_DESC: "3desc"}
	for _, gb := range []string{"", "svc", "region", "lvl"} {
		for _, fn := range fns {
			for _, f := range []string{"vi", "vf"} {
				for _, tp := range tops {
					for _, c := range []cCrit{mcrits[0], mcrits[1], mcrits[7]} {
						if c.label == "lvl.EQ(nomatch)" && !thorough && f == "vf" {
							continue
						}
						q := mreq(c, cOrder{}, cWin{})
						q.FieldProjection = &measurev1.QueryRequest_FieldProjection{Names: []string{f}}
						q.TagProjection = nil
						if gb != "" {
							q.TagProjection = cTagProj("default", gb)
							q.GroupBy = &measurev1.QueryRequest_GroupBy{TagProjection: cTagProj("default", gb), FieldName: f}
						}
						q.Agg = &measurev1.QueryRequest_Aggregation{Function: fn, FieldName: f}
						if tp != modelv1.Sort_SORT_UNSPECIFIED {
							q.Top = &measurev1.QueryRequest_Top{Number: 3, FieldName: f, FieldValueSort: tp}
						}
						kind := "group-agg/gb=" + gb
						if gb == "" {
							kind = "scalar-agg"
						}
						out = append(out, cReq{Engine: 'M', Msg: q, Ordered: tp != modelv1.Sort_SORT_UNSPECIFIED,
							Shape: fmt.Sprintf("%s/fn=%s(%s)/top=%s/crit=%s", kind, cAggName(fn), f, topName[tp], cClass(c.label))})
					}
				}
			}
		}
	}
	// top-N over raw rows
	for _, tp := range tops[1:] {
		for _, c := range []cCrit{mcrits[0], mcrits[1], mcrits[3]} {
			q := mreq(c, cOrder{}, cWin{})
			q.Top = &measurev1.QueryRequest_Top{Number: 3, FieldName: "vi", FieldValueSort: tp}
			out = append(out, cReq{Engine: 'M', Msg: q, Ordered: true, Shape: "raw-top/top=" + topName[tp] + "/crit=" + cClass(c.label)})
		}
	}
	// ---- stream
	scrits := []cCrit{
		{nil, "none"},
		{cCond("dur", cGT, e2e.Int(90)), "dur.GT"},
		{cCond("svc", cEQ, e2e.Str("s5")), "svc.EQ"},
		{cCond("code", cGE, e2e.Int(404)), "code.GE"},
		{cCond("tid", cEQ, e2e.Str("t2")), "tid.EQ"},
		{cLogic(cAND, cCond("code", cGE, e2e.Int(200)), cCond("region", cEQ, e2e.Str("east"))), "AND(code.GE,region.EQ)"},
		{cLogic(cOR, cCond("svc", cEQ, e2e.Str("s2")), cCond("dur", cLE, e2e.Int(40))), "OR(svc.EQ,dur.LE)"},
		{cCond("dur", cEQ, e2e.Int(7777)), "dur.EQ(nomatch)"},
	}
	sreq := func(c cCrit, o cOrder, w cWin, payload bool) *streamv1.QueryRequest {
		p := cTagProj("searchable", "svc", "region", "code", "dur", "tid")
		if payload {
			p.TagFamilies = append(p.TagFamilies, &modelv1.TagProjection_TagFamily{Name: "data", Tags: []string{"payload"}})
		}
		return &streamv1.QueryRequest{Groups: []string{gS}, Name: nS, TimeRange: rangeAll(), Projection: p, Criteria: c.c, OrderBy: o.o, Limit: w.limit, Offset: w.offset}
	}
	swins := []cWin{{}, {5, 0}, {5, 3}, {1000, 0}, {1000, 2}}
	for _, c := range scrits {
		for _, o := range cOrders("dur") {
			for _, w := range swins {
				out = append(out, cReq{Engine: 'S', Msg: sreq(c, o, w, w.limit == 1000), Ordered: o.o != nil,
					Shape: "stream/crit=" + cClass(c.label) + "/order=" + o.label + "/window=" + w.String()})
			}
		}
	}
	// ---- trace
	treq := func(c cCrit, o cOrder, w cWin) *tracev1.QueryRequest {
		return &tracev1.QueryRequest{Groups: []string{gT}, Name: nT, TimeRange: rangeAll(), TagProjection: []string{"trace_id", "span_id", "svc", "dur"},
			Criteria: c.c, OrderBy: o.o, Limit: w.limit, Offset: w.offset}
	}
	tids := cTraceIDs()
	for _, c := range []cCrit{
		{cCond("trace_id", cEQ, e2e.Str(tids[1])), "trace_id.EQ(seg0)"},
		{cCond("trace_id", cEQ, e2e.Str(tids[7])), "trace_id.EQ(seg1)"},
		{cCond("trace_id", cIN, e2e.StrArr(tids[0], tids[3], tids[5], tids[9])), "trace_id.IN"},
		{cCond("trace_id", cEQ, e2e.Str("nosuch")), "trace_id.EQ(nomatch)"},
	} {
		for _, w := range []cWin{{}, {2, 0}, {1000, 0}} {
			out = append(out, cReq{Engine: 'T', Msg: treq(c, cOrder{}, w), Shape: "trace/byid/" + c.label + "/window=" + w.String()})
		}
	}
	for _, idx := range []string{"dur", "ts"} {
		for _, srt := range []modelv1.Sort{modelv1.Sort_SORT_ASC, modelv1.Sort_SORT_DESC} {
			o := cOrder{&modelv1.QueryOrder{IndexRuleName: idx, Sort: srt}, idx + "." + strings.ToLower(strings.TrimPrefix(srt.String(), "SORT_"))}
			for _, c := range []cCrit{{nil, "none"}, {cCond("svc", cEQ, e2e.Str("a")), "svc.EQ"}, {cCond("dur", cGT, e2e.Int(200)), "dur.GT"},
				{cLogic(cAND, cCond("svc", cEQ, e2e.Str("b")), cCond("dur", cLE, e2e.Int(400))), "AND(svc.EQ,dur.LE)"}} {
				for _, w := range []cWin{{}, {3, 0}, {3, 2}, {1000, 0}} {
					out = append(out, cReq{Engine: 'T', Msg: treq(c, o, w), Ordered: true,
						Shape: "trace/ordered/crit=" + cClass(c.label) + "/order=" + o.label + "/window=" + w.String()})
				}
			}
		}
	}
	return out
}

func cClass(label string) string {
	switch {
	case label == "none":
		return "none"
	case strings.HasPrefix(label, "AND"), strings.HasPrefix(label, "OR"):
		return "logic"
	case strings.Contains(label, "nomatch"):
		return "nomatch"
	}
	if i := strings.IndexByte(label, '.'); i > 0 {
		return label[:i]
	}
	return label
}

// ---------------------------------------------------------------------------------------------------------------
// worker

type cResult struct {
	Msg      string     `json:"msg,omitempty"`
	TimedOut bool       `json:"timed_out,omitempty"`
	Resp     string     `json:"resp,omitempty"` // base64(deterministic proto bytes)
	I        int        `json:"i"`
	Code     codes.Code `json:"code"`
}

type cBlock struct {
	Node   int    `json:"node"`
	Shard  uint32 `json:"shard"`
	Seg    string `json:"seg"`
	Engine string `json:"engine"`
	Key    string `json:"key"` // series id (decimal) or trace id
	Min    int64  `json:"min"`
	Max    int64  `json:"max"`
	Count  uint64 `json:"count"`
}

type cReport struct {
	Cfg       cwCfg         `json:"cfg"`
	Delivered bool          `json:"delivered"`
	Delivery  []string      `json:"delivery"`
	Short     []string      `json:"short"` // groups whose queue drained while rows were still missing on the data nodes
	Blocks    []cBlock      `json:"blocks"`
	Results   []cResult     `json:"results"`
	StartMs   int64         `json:"start_ms"`
	TotalMs   int64         `json:"total_ms"`
	Wait      time.Duration `json:"wait"`
}

const deliveryHorizon = 4 * time.Minute

func clusterWorker(c cwCfg) {
	if c.TZ != 0 {
		// the whole process (in-process liaison + data nodes, or the standalone server) lives in this zone: set before
		// any other goroutine exists. The base instant came with the environment (runClusterWorkers).
		time.Local = c.loc()
		mid := time.UnixMilli(e2e.Base().UnixMilli() + cutMs).Local()
		if _, off := time.Unix(0, 0).Zone(); off != c.TZ || mid.Hour() != 0 || mid.Minute() != 0 || mid.Second() != 0 || mid.Nanosecond() != 0 {
			e2e.Fatal("time-zone configuration %s not in effect: offset %d, base+cut = %s", c, off, mid)
		}
	}
	t0 := time.Now()
	var s *e2e.Server
	var cl *e2e.Cluster
	var extra []string
	if c.Row {
		extra = []string{"--measure-vectorized-enabled=false"}
	}
	if c.Nodes == 0 {
		s = e2e.Start(append([]string{"--measure-flush-timeout=500ms", "--stream-flush-timeout=500ms", "--trace-flush-timeout=500ms"}, extra...)...)
	} else {
		cl = e2e.StartCluster(c.Nodes, extra)
		s = cl.Server
	}
	rep := cReport{Cfg: c, StartMs: time.Since(t0).Milliseconds(), Delivered: true}
	s.CreateGroupR(gM, commonv1.Catalog_CATALOG_MEASURE, c.Shards, c.Replicas, 1, 7)
	s.CreateMeasure(gM, nM, []string{"svc"}, cMeasureFamilies(), []e2e.Field{{Name: "vi", Type: e2e.FInt}, {Name: "vf", Type: e2e.FFloat}}, false,
		e2e.Index{Name: "zone", Tags: []string{"zone"}, Type: e2e.IInv}, e2e.Index{Name: "lvl", Tags: []string{"lvl"}, Type: e2e.IInv},
		e2e.Index{Name: "svc", Tags: []string{"svc"}, Type: e2e.IInv})
	s.CreateGroupR(gS, commonv1.Catalog_CATALOG_STREAM, c.Shards, c.Replicas, 1, 7)
	s.CreateStream(gS, nS, []string{"svc"}, cStreamFamilies(),
		e2e.Index{Name: "dur", Tags: []string{"dur"}, Type: e2e.IInv}, e2e.Index{Name: "tid", Tags: []string{"tid"}, Type: e2e.IInv})
	s.CreateGroupR(gT, commonv1.Catalog_CATALOG_TRACE, c.Shards, c.Replicas, 1, 7)
	s.CreateTrace(gT, nT, cTraceTags(), "trace_id", "span_id", "ts",
		e2e.Index{Name: "dur", Tags: []string{"svc", "state", "dur"}, Type: e2e.ITree}, e2e.Index{Name: "ts", Tags: []string{"svc", "state", "ts"}, Type: e2e.ITree})
	mb, mf := cMeasureRows()
	sb, sf := cStreamRows()
	tb, tf := cTraceRows()
	copies := int64(c.Replicas) + 1
	for b := 0; b < 2; b++ {
		s.WriteMeasure(gM, nM, mb[b])
		s.WriteStream(gS, nS, sb[b])
		s.WriteTrace(gT, nT, tb[b])
		if cl != nil && b == 0 {
			// the first batch is delivered before the second is written: at least two parts per shard on the data nodes
			w0 := time.Now()
			for _, g := range []struct {
				g string
				n int
			}{{gM, len(mb[0])}, {gS, len(sb[0])}, {gT, len(tb[0])}} {
				d, st := cl.WaitDelivered(g.g, int64(g.n)*copies, deliveryHorizon)
				rep.Delivery = append(rep.Delivery, fmt.Sprintf("%s batch0 %+v %s", g.g, d, st))
				rep.Delivered = rep.Delivered && st != e2e.Horizon
			}
			rep.Wait += time.Since(w0)
		}
	}
	if cl != nil {
		w0 := time.Now()
		for _, g := range []struct {
			g string
			n int
		}{{gM, len(mf) + 1}, {gS, len(sf)}, {gT, len(tf)}} {
			d, st := cl.WaitDelivered(g.g, int64(g.n)*copies, deliveryHorizon)
			rep.Delivery = append(rep.Delivery, fmt.Sprintf("%s %+v %s", g.g, d, st))
			rep.Delivered = rep.Delivered && st != e2e.Horizon
			if st == e2e.Quiescent {
				rep.Short = append(rep.Short, fmt.Sprintf("%s: liaison queue empty and idle for 10 s, data nodes hold %d of %d rows", g.g, d.DataRows, int64(g.n)*copies))
			}
		}
		rep.Wait += time.Since(w0)
	} else {
		time.Sleep(1200 * time.Millisecond) // let the 500 ms flush timers fire: file parts, like on the data nodes
	}
	det := proto.MarshalOptions{Deterministic: true}
	if rep.Delivered {
		for i, q := range cRequests(c.Thorough) {
			var m proto.Message
			var code codes.Code
			var msg string
			timedOut := false
			for try := 0; try < 5; try++ {
				switch r := q.Msg.(type) {
				case *measurev1.QueryRequest:
					m, code, msg = unnil(s.QueryMeasure(r))
				case *streamv1.QueryRequest:
					m, code, msg = unnil(s.QueryStream(r))
				case *tracev1.QueryRequest:
					m, code, msg = unnil(s.QueryTrace(r))
				}
				// an internal time-out (liaison -> data node broadcast on a saturated machine) is not an answer
				timedOut = code != codes.OK && strings.Contains(strings.ToLower(msg), "deadline exceeded")
				if !timedOut {
					break
				}
				time.Sleep(2 * time.Second)
			}
			res := cResult{I: i, Code: code, Msg: msg, TimedOut: timedOut}
			if m != nil {
				b, _ := det.Marshal(m)
				res.Resp = base64.StdEncoding.EncodeToString(b)
			}
			rep.Results = append(rep.Results, res)
		}
		if cl != nil {
			rep.Blocks = placementFacts(cl)
		}
	}
	rep.TotalMs = time.Since(t0).Milliseconds()
	b, _ := json.Marshal(rep)
	if err := os.WriteFile(c.Out, b, 0o644); err != nil {
		e2e.Fatal("write %s: %v", c.Out, err)
	}
	s.Remove()
	os.Exit(0)
}

// unnil turns typed nil responses into untyped nil.
func unnil[T proto.Message](m T, code codes.Code, msg string) (proto.Message, codes.Code, string) {
	if code != codes.OK {
		return nil, code, msg
	}
	return m, code, msg
}

// placementFacts reads, from the data nodes' disks, which series / traces lie in which shard of which segment.
func placementFacts(cl *e2e.Cluster) []cBlock {
	var out []cBlock
	for _, sd := range cl.ShardDirs("measure", gM) {
		for _, p := range sd.Parts {
			for _, b := range measure.V17PartBlocks(filepath.Join(sd.Path, p)) {
				out = append(out, cBlock{Node: sd.Node, Shard: sd.Shard, Seg: sd.SegName, Engine: "measure", Key: fmt.Sprint(b.Series), Min: b.Min, Max: b.Max, Count: b.Count})
			}
		}
	}
	for _, sd := range cl.ShardDirs("stream", gS) {
		for _, p := range sd.Parts {
			for _, b := range stream.V17PartBlocks(filepath.Join(sd.Path, p)) {
				out = append(out, cBlock{Node: sd.Node, Shard: sd.Shard, Seg: sd.SegName, Engine: "stream", Key: fmt.Sprint(b.Series), Min: b.Min, Max: b.Max, Count: b.Count})
			}
		}
	}
	for _, sd := range cl.ShardDirs("trace", gT) {
		for _, p := range sd.Parts {
			for _, b := range trace.V17PartBlocks(filepath.Join(sd.Path, p)) {
				out = append(out, cBlock{Node: sd.Node, Shard: sd.Shard, Seg: sd.SegName, Engine: "trace", Key: b.TraceID, Min: b.Min, Max: b.Max, Count: b.Count})
			}
		}
	}
	return out
}

// ---------------------------------------------------------------------------------------------------------------
// comparison (oracle of checks/c15: status, count, multiset, sort-key sequence, ties only among equal keys)

func cItems(engine byte, raw []byte) [][]byte {
	det := proto.MarshalOptions{Deterministic: true}
	var out [][]byte
	add := func(m proto.Message) {
		b, _ := det.Marshal(m)
		out = append(out, b)
	}
	switch engine {
	case 'M':
		r := &measurev1.QueryResponse{}
		_ = proto.Unmarshal(raw, r)
		for _, dp := range r.GetDataPoints() {
			add(dp)
		}
	case 'S':
		r := &streamv1.QueryResponse{}
		_ = proto.Unmarshal(raw, r)
		for _, el := range r.GetElements() {
			add(el)
		}
	case 'T':
		r := &tracev1.QueryResponse{}
		_ = proto.Unmarshal(raw, r)
		for _, t := range r.GetTraces() {
			// spans of one trace: their order inside the trace is not part of the contract checked here
			sort.Slice(t.Spans, func(i, j int) bool { return t.Spans[i].GetSpanId() < t.Spans[j].GetSpanId() })
			add(t)
		}
	}
	return out
}

func cSorted(a [][]byte) [][]byte {
	c := append([][]byte(nil), a...)
	sort.Slice(c, func(i, j int) bool { return bytes.Compare(c[i], c[j]) < 0 })
	return c
}

func cEqualSeq(a, b [][]byte) bool {
	if len(a) != len(b) {
		return false
	}
	for i := range a {
		if !bytes.Equal(a[i], b[i]) {
			return false
		}
	}
	return true
}

func cWindow(q cReq) (limit, offset uint32, top bool) {
	switch r := q.Msg.(type) {
	case *measurev1.QueryRequest:
		limit, offset, top = r.GetLimit(), r.GetOffset(), r.GetTop() != nil
		if limit == 0 {
			limit = 100
		}
	case *streamv1.QueryRequest:
		limit, offset = r.GetLimit(), r.GetOffset()
		if limit == 0 {
			limit = 20
		}
	case *tracev1.QueryRequest:
		limit, offset = r.GetLimit(), r.GetOffset()
		if limit == 0 {
			limit = 20
		}
	}
	return
}

func cFamilyKey(q cReq) string {
	m := proto.Clone(q.Msg)
	switch r := m.(type) {
	case *measurev1.QueryRequest:
		r.Limit, r.Offset, r.Top = 0, 0, nil
	case *streamv1.QueryRequest:
		r.Limit, r.Offset = 0, 0
	case *tracev1.QueryRequest:
		r.Limit, r.Offset = 0, 0
	}
	b, _ := proto.MarshalOptions{Deterministic: true}.Marshal(m)
	return string(q.Engine) + string(b)
}

// cSortKeys extracts per row the value the request sorts by; ok=false when the key is not visible.
func cSortKeys(q cReq, raw []byte) (keys []string, ok bool) {
	det := proto.MarshalOptions{Deterministic: true}
	find := func(tfs []*modelv1.TagFamily, name string) ([]byte, bool) {
		for _, tf := range tfs {
			for _, t := range tf.GetTags() {
				if t.GetKey() == name {
					b, _ := det.Marshal(t.GetValue())
					return b, true
				}
			}
		}
		return nil, false
	}
	switch r := q.Msg.(type) {
	case *measurev1.QueryRequest:
		resp := &measurev1.QueryResponse{}
		_ = proto.Unmarshal(raw, resp)
		for _, dp := range resp.GetDataPoints() {
			var k []byte
			found := false
			switch {
			case r.GetTop() != nil:
				for _, f := range dp.GetFields() {
					if f.GetName() == r.GetTop().GetFieldName() {
						k, _ = det.Marshal(f.GetValue())
						found = true
					}
				}
			case r.GetOrderBy().GetIndexRuleName() != "":
				k, found = find(dp.GetTagFamilies(), r.GetOrderBy().GetIndexRuleName())
			case r.GetOrderBy() != nil:
				k, _ = det.Marshal(dp.GetTimestamp())
				found = true
			}
			if !found {
				return nil, false
			}
			keys = append(keys, string(k))
		}
		return keys, true
	case *streamv1.QueryRequest:
		resp := &streamv1.QueryResponse{}
		_ = proto.Unmarshal(raw, resp)
		if r.GetOrderBy() == nil {
			return nil, false
		}
		for _, el := range resp.GetElements() {
			var k []byte
			found := false
			if rule := r.GetOrderBy().GetIndexRuleName(); rule != "" {
				k, found = find(el.GetTagFamilies(), rule)
			} else {
				k, _ = det.Marshal(el.GetTimestamp())
				found = true
			}
			if !found {
				return nil, false
			}
			keys = append(keys, string(k))
		}
		return keys, true
	}
	return nil, false
}

func cRows(raw []byte, engine byte) int { return len(cItems(engine, raw)) }

// floatAsInt: same number of data points, and some field that is a float in the standalone answer is an int in the
// cluster's answer.
func floatAsInt(ref, got []byte) bool {
	a, b := &measurev1.QueryResponse{}, &measurev1.QueryResponse{}
	if proto.Unmarshal(ref, a) != nil || proto.Unmarshal(got, b) != nil || len(a.DataPoints) != len(b.DataPoints) {
		return false
	}
	for i := range a.DataPoints {
		fa, fb := a.DataPoints[i].GetFields(), b.DataPoints[i].GetFields()
		if len(fa) != len(fb) {
			return false
		}
		for j := range fa {
			if _, isF := fa[j].GetValue().GetValue().(*modelv1.FieldValue_Float); isF {
				if _, isI := fb[j].GetValue().GetValue().(*modelv1.FieldValue_Int); isI {
					return true
				}
			}
		}
	}
	return false
}

// cCompare: "" = agree. ref = standalone, got = cluster.
func cCompare(q cReq, ref, got cResult, universe map[string]struct{}) (kind string, tie bool) {
	if ref.Code != got.Code {
		return fmt.Sprintf("status(standalone=%s,cluster=%s)", ref.Code, got.Code), false
	}
	if ref.Code != codes.OK {
		return "", false
	}
	rr, _ := base64.StdEncoding.DecodeString(ref.Resp)
	gr, _ := base64.StdEncoding.DecodeString(got.Resp)
	a, b := cItems(q.Engine, rr), cItems(q.Engine, gr)
	if cEqualSeq(a, b) {
		return "", false
	}
	if len(a) != len(b) {
		if len(b) < len(a) {
			return "rows-lost(cluster<standalone)", false
		}
		return "rows-extra(cluster>standalone)", false
	}
	same := cEqualSeq(cSorted(a), cSorted(b))
	if !same && q.Engine == 'M' && floatAsInt(rr, gr) {
		return "float-aggregate-returned-as-int", false
	}
	limit, offset, top := cWindow(q)
	truncated := offset != 0 || top || uint32(len(a)) >= limit
	inUniverse := func() bool {
		if universe == nil {
			return false
		}
		for _, row := range b {
			if _, ok := universe[string(row)]; !ok {
				return false
			}
		}
		return true
	}
	if !q.Ordered {
		switch {
		case same:
			return "", false
		case truncated && inUniverse():
			return "", true
		}
		return "values", false
	}
	ka, ok1 := cSortKeys(q, rr)
	kb, ok2 := cSortKeys(q, gr)
	if !ok1 || !ok2 || strings.Join(ka, "\x00") != strings.Join(kb, "\x00") {
		if same {
			return "order", false
		}
		return "values", false
	}
	switch {
	case same:
		return "", true
	case truncated && inUniverse():
		return "", true
	}
	return "values", false
}

// ---------------------------------------------------------------------------------------------------------------
// driver

// cZones: process time zones (seconds east of UTC) of the time-zone configurations: UTC+8 (Asia/Shanghai), UTC-5
// (America/New_York, winter), and for the thorough tier a zone with a half-hour offset (Asia/Kolkata), the extremes
// UTC+14 / UTC-12 and UTC-3:30 (America/St_Johns).
var cZones = []int{8 * 3600, -5 * 3600, 5*3600 + 1800, 14 * 3600, -12 * 3600, -(3*3600 + 1800)}

func clusterConfigs(thorough bool) []cwCfg {
	var out []cwCfg
	if !thorough {
		// every value of every dimension, every pair (nodes, replicas) that exists
		for _, c := range [][3]int{{1, 1, 0}, {2, 3, 1}, {3, 2, 0}, {3, 3, 1}} {
			out = append(out, cwCfg{Nodes: c[0], Shards: uint32(c[1]), Replicas: uint32(c[2])})
		}
		// the row (non-vectorized) distributed plan on the replicated configurations
		out = append(out, cwCfg{Nodes: 2, Shards: 3, Replicas: 1, Row: true}, cwCfg{Nodes: 3, Shards: 3, Replicas: 1, Row: true})
		// process time zone east and west of UTC (round 2): one replicated and one unreplicated configuration
		out = append(out, cwCfg{Nodes: 2, Shards: 3, Replicas: 1, TZ: cZones[0]}, cwCfg{Nodes: 3, Shards: 2, Replicas: 0, TZ: cZones[1]})
		return out
	}
	for n := 1; n <= 3; n++ {
		for s := 1; s <= 3; s++ {
			for r := 0; r <= 1; r++ {
				if r+1 > n {
					continue // two copies of a shard need two data nodes: the 3 configurations 1 node x replicas=1 do not exist
				}
				out = append(out, cwCfg{Nodes: n, Shards: uint32(s), Replicas: uint32(r), Thorough: true})
				if r == 1 || (n == 3 && s == 3) {
					out = append(out, cwCfg{Nodes: n, Shards: uint32(s), Replicas: uint32(r), Thorough: true, Row: true})
				}
			}
		}
	}
	for i, tz := range cZones {
		c := [][3]int{{2, 3, 1}, {3, 2, 0}, {3, 3, 1}}[i%3]
		out = append(out, cwCfg{Nodes: c[0], Shards: uint32(c[1]), Replicas: uint32(c[2]), Thorough: true, TZ: tz})
	}
	out = append(out, cwCfg{Nodes: 2, Shards: 3, Replicas: 1, Thorough: true, Row: true, TZ: cZones[0]})
	return out
}

func runClusterWorkers(dir string, cfgs []cwCfg, par int) map[string]*cReport {
	out := map[string]*cReport{}
	var mu sync.Mutex
	var wg sync.WaitGroup
	sem := make(chan struct{}, par)
	for i := range cfgs {
		cfgs[i].Out = filepath.Join(dir, strings.ReplaceAll(cfgs[i].String(), "/", "_")+".json")
		c := cfgs[i]
		wg.Add(1)
		sem <- struct{}{}
		go func() {
			defer wg.Done()
			defer func() { <-sem }()
			b, _ := json.Marshal(c)
			// the worker's base instant: last duplicate of an environment key wins (os/exec)
			outp, err := e2e.Spawn("C17_CLUSTER_WORKER="+string(b), fmt.Sprintf("VERIF_E2E_BASE_MS=%d", c.baseMs()))
			raw, rerr := os.ReadFile(c.Out)
			mu.Lock()
			defer mu.Unlock()
			if err != nil || rerr != nil {
				var tail []string
				sc := bufio.NewScanner(bytes.NewReader(outp))
				sc.Buffer(make([]byte, 1<<20), 1<<26)
				for sc.Scan() {
					if l := sc.Text(); !strings.HasPrefix(l, `{"level"`) {
						tail = append(tail, l)
					}
				}
				if len(tail) > 12 {
					tail = tail[len(tail)-12:]
				}
				fmt.Printf("note: cluster worker %s did not complete: %v %v\n  %s\n", c, err, rerr, strings.Join(tail, "\n  "))
				out[c.String()] = nil
				return
			}
			rep := &cReport{}
			if json.Unmarshal(raw, rep) != nil {
				out[c.String()] = nil
				return
			}
			out[c.String()] = rep
		}()
	}
	wg.Wait()
	return out
}

// expected placement of a data set: key -> shard, key -> series id string.
type cExpect struct {
	shard  map[string]uint32 // block key (series id / trace id) -> shard
	name   map[string]string // block key -> entity value
	counts map[string]int    // "key|seg" -> rows
}

// segName: directory name of the 1-day segment of an instant on a node whose process zone is judgeLoc (the zone of the
// configuration being judged; the driver itself stays in its own zone).
var judgeLoc = time.Local

func segName(tsNano int64) string {
	return "seg-" + time.Unix(0, tsNano).In(judgeLoc).Format("20060102")
}

// factsAt moves the row facts (computed from the driver's base instant) to the base instant of a configuration.
func factsAt(facts []rowFact, c cwCfg) []rowFact {
	d := (c.baseMs() - e2e.Base().UnixMilli()) * int64(time.Millisecond)
	out := make([]rowFact, len(facts))
	for i, f := range facts {
		out[i] = rowFact{Key: f.Key, TS: f.TS + d}
	}
	return out
}

func expectSeries(subject string, facts []rowFact, shards uint32) cExpect {
	e := cExpect{shard: map[string]uint32{}, name: map[string]string{}, counts: map[string]int{}}
	for _, f := range facts {
		ev := pbv1.EntityValues{pbv1.EntityStrValue(subject), e2e.Str(f.Key)}
		ent, err := ev.ToEntity()
		if err != nil {
			harnessErr("entity: %v", err)
		}
		sh, err := partition.ShardID(ent.Marshal(), shards)
		if err != nil {
			harnessErr("shard id: %v", err)
		}
		s := pbv1.Series{Subject: subject, EntityValues: []*modelv1.TagValue{e2e.Str(f.Key)}}
		if err := s.Marshal(); err != nil {
			harnessErr("series: %v", err)
		}
		k := fmt.Sprint(uint64(s.ID))
		e.shard[k], e.name[k] = uint32(sh), f.Key
		e.counts[k+"|"+segName(f.TS)]++
	}
	return e
}

func expectTraces(facts []rowFact, shards uint32) cExpect {
	e := cExpect{shard: map[string]uint32{}, name: map[string]string{}, counts: map[string]int{}}
	for _, f := range facts {
		e.shard[f.Key], e.name[f.Key] = uint32(partition.TraceShardID(f.Key, shards)), f.Key
		e.counts[f.Key+"|"+segName(f.TS)]++
	}
	return e
}

type cVio struct {
	key string
	art any
}

type cStats struct {
	outcomes, vcases                         map[string]int
	notExhaustive, timings                   []string
	evals, nontriv, ties, placed, judged, nq int
	tzJudged                                 int
}

func clusterPhase(r *ev.Run, thorough bool, dir string) cStats {
	t0 := time.Now()
	cfgs := clusterConfigs(thorough)
	if only := os.Getenv("C17_CLUSTER_ONLY"); only != "" { // development aid
		var f []cwCfg
		for _, c := range cfgs {
			if strings.Contains(","+only+",", ","+c.String()+",") {
				f = append(f, c)
			}
		}
		cfgs = f
	}
	st, vios := clusterJudge(cfgs, thorough, dir)
	if dp := os.Getenv("C17_DUMP"); dp != "" {
		m := map[string]any{}
		for _, v := range vios {
			m[v.key] = v.art
		}
		b, _ := json.MarshalIndent(m, "", " ")
		_ = os.WriteFile(dp, b, 0o644)
	}
	for _, ne := range st.notExhaustive {
		r.NotExhaustive(ne)
	}
	for _, v := range vios {
		r.Violation(v.key, v.art)
	}
	r.Set("evaluations_cluster", st.evals)
	r.Set("nontrivial_cluster", st.nontriv)
	r.Set("cluster_configurations_judged", st.judged)
	r.Set("cluster_configurations_planned", len(cfgs))
	r.Set("cluster_time_zone_configurations_judged", st.tzJudged)
	r.Set("cluster_requests_per_configuration", st.nq)
	r.Set("cluster_ties_tolerated", st.ties)
	r.Set("cluster_blocks_checked_for_placement", st.placed)
	r.Set("cluster_outcomes", st.outcomes)
	r.Set("cluster_violating_cases_by_key", st.vcases)
	r.Set("cluster_timings", st.timings)
	r.Set("cluster_wall_s", time.Since(t0).Seconds())
	fmt.Printf("C17 cluster: configurations judged=%d/%d requests/config=%d evaluations=%d nontrivial=%d ties=%d placement blocks=%d wall=%.0fs\n",
		st.judged, len(cfgs), st.nq, st.evals, st.nontriv, st.ties, st.placed, time.Since(t0).Seconds())
	var oc []string
	for k, v := range st.outcomes {
		oc = append(oc, fmt.Sprintf("%s=%d", k, v))
	}
	sort.Strings(oc)
	fmt.Println("  cluster outcomes:", strings.Join(oc, " "))
	return st
}

// clusterJudge runs the standalone references and the given cluster configurations and compares them.
func clusterJudge(cfgs []cwCfg, thorough bool, dir string) (cStats, []cVio) {
	shardSet := map[cwCfg]bool{}
	for _, c := range cfgs {
		shardSet[cwCfg{Shards: c.Shards, Row: c.Row, TZ: c.TZ}] = true
	}
	var all []cwCfg
	for _, tz := range append([]int{0}, cZones...) {
		for _, row := range []bool{false, true} {
			for s := uint32(1); s <= 3; s++ {
				if shardSet[cwCfg{Shards: s, Row: row, TZ: tz}] {
					all = append(all, cwCfg{Shards: s, Thorough: thorough, Row: row, TZ: tz})
				}
			}
		}
	}
	all = append(all, cfgs...)
	for i := range all {
		all[i].Thorough = thorough
	}
	par := 7 // 14 workers in quick (8 configurations + 6 references): two waves, as the 10 workers at 6 before round 2
	_, mf := cMeasureRows()
	_, sf := cStreamRows()
	_, tf := cTraceRows()
	// data-set obligations: >= 2 series (traces) per shard for every shard count, 2 segments
	for s := uint32(2); s <= 3; s++ {
		for name, e := range map[string]cExpect{"measure": expectSeries(nM, mf, s), "stream": expectSeries(nS, sf, s), "trace": expectTraces(tf, s)} {
			per := map[uint32]int{}
			for _, sh := range e.shard {
				per[sh]++
			}
			for sh := uint32(0); sh < s; sh++ {
				if per[sh] < 2 {
					harnessErr("data set: %s has %d series in shard %d of %d (need >= 2)", name, per[sh], sh, s)
				}
			}
		}
	}
	if os.Getenv("C17_DEBUG") != "" {
		for s := uint32(2); s <= 3; s++ {
			e := expectSeries(nM, mf, s)
			var l []string
			for k, sh := range e.shard {
				l = append(l, fmt.Sprintf("%s->%d", e.name[k], sh))
			}
			sort.Strings(l)
			fmt.Printf("debug: measure series -> shard of %d: %v\n", s, l)
		}
	}
	reps := runClusterWorkers(dir, all, par)
	reqs := cRequests(thorough)
	evals, nontriv, ties, placed, timeouts := 0, 0, 0, 0, 0
	outcomes := map[string]int{}
	vcases := map[string]int{}
	var vios []cVio
	seen := map[string]bool{}
	report := func(key string, art any) {
		vcases[key]++
		if !seen[key] {
			seen[key] = true
			vios = append(vios, cVio{key, art})
		}
	}
	started, tzJudged := 0, 0
	var timings, notEx []string
	for _, c := range cfgs {
		c.Thorough = thorough
		rep := reps[c.String()]
		ref := reps[cwCfg{Shards: c.Shards, Row: c.Row, TZ: c.TZ}.String()]
		if c.Replicas > 0 && c.Nodes < int(c.Replicas)+1 {
			// fewer nodes than copies: whatever happens is recorded, nothing is demanded
			outcomes[fmt.Sprintf("cluster/%s/not-judged(fewer-nodes-than-copies)", c)]++
			continue
		}
		if rep == nil || ref == nil {
			notEx = append(notEx, fmt.Sprintf("cluster configuration %s (or its standalone reference) could not be started/completed in this sandbox", c))
			continue
		}
		if !rep.Delivered {
			notEx = append(notEx, fmt.Sprintf("cluster %s: the liaison's queue was not delivered within %s: %v", c, deliveryHorizon, rep.Delivery))
			continue
		}
		started++
		for _, sh := range rep.Short {
			report("cluster/delivery/queue-drained-but-rows-missing-on-data-nodes", map[string]any{"phase": "cluster", "cfg": c, "what": sh, "delivery": rep.Delivery})
		}
		timings = append(timings, fmt.Sprintf("%s start=%.1fs delivery-wait=%.1fs total=%.1fs", c, float64(rep.StartMs)/1000, rep.Wait.Seconds(), float64(rep.TotalMs)/1000))
		if len(rep.Results) != len(reqs) || len(ref.Results) != len(reqs) {
			harnessErr("cluster %s: %d/%d answers for %d requests", c, len(rep.Results), len(ref.Results), len(reqs))
		}
		// universes: rows the standalone returns for the untruncated member of each request family
		uni := map[string]map[string]struct{}{}
		for i, q := range reqs {
			limit, offset, top := cWindow(q)
			if offset != 0 || top || ref.Results[i].Code != codes.OK {
				continue
			}
			rr, _ := base64.StdEncoding.DecodeString(ref.Results[i].Resp)
			rows := cItems(q.Engine, rr)
			if uint32(len(rows)) >= limit {
				continue
			}
			fk := cFamilyKey(q)
			if uni[fk] == nil {
				uni[fk] = map[string]struct{}{}
			}
			for _, row := range rows {
				uni[fk][string(row)] = struct{}{}
			}
		}
		for i, q := range reqs {
			if ref.Results[i].TimedOut || rep.Results[i].TimedOut {
				timeouts++
				continue
			}
			evals++
			rr, _ := base64.StdEncoding.DecodeString(ref.Results[i].Resp)
			if ref.Results[i].Code != codes.OK || cRows(rr, q.Engine) > 0 {
				nontriv++
			}
			kind, tie := cCompare(q, ref.Results[i], rep.Results[i], uni[cFamilyKey(q)])
			if tie {
				ties++
			}
			eng := map[byte]string{'M': "measure", 'S': "stream", 'T': "trace"}[q.Engine]
			multi := "nodes=1"
			if c.Nodes > 1 {
				multi = "nodes>1"
			}
			if c.Replicas > 0 {
				multi += ",replicated"
			}
			if c.Row {
				multi += ",row-plan"
			}
			if kind == "" {
				outcomes["cluster/"+eng+"/agree"]++
				continue
			}
			key := fmt.Sprintf("cluster/%s/%s/%s/%s", eng, q.Shape, multi, kind)
			outcomes["cluster/"+eng+"/differ:"+kind]++
			outcomes[fmt.Sprintf("by-config/%s/%s/differ", c, eng)]++
			report(key, map[string]any{"phase": "cluster", "cfg": c, "request_index": i, "shape": q.Shape,
				"request": protoJSON(q.Msg), "request_times_relative_to_base_ms": e2e.Base().UnixMilli(), "cfg_base_ms": c.baseMs(),
				"standalone": ref.Results[i], "cluster": rep.Results[i]})
		}
		// placement
		judgeLoc = c.loc()
		cmf := factsAt(mf, c)
		exp := map[string]cExpect{"measure": expectSeries(nM, cmf, c.Shards), "stream": expectSeries(nS, factsAt(sf, c), c.Shards), "trace": expectTraces(factsAt(tf, c), c.Shards)}
		if c.TZ != 0 {
			tzJudged++
			// data-set obligation of a time-zone configuration: the rows of batch 1 (the last 24 h of the data set) of
			// every engine lie in two node-local segments although they lie in one UTC day
			for eng, ff := range map[string][]rowFact{"measure": cmf, "stream": factsAt(sf, c), "trace": factsAt(tf, c)} {
				segs, utc := map[string]bool{}, map[string]bool{}
				for _, f := range ff {
					if f.TS >= c.baseMs()*int64(time.Millisecond) {
						segs[segName(f.TS)] = true
						utc[time.Unix(0, f.TS).UTC().Format("20060102")] = true
					}
				}
				if len(segs) != 2 || len(utc) != 1 {
					harnessErr("data set: batch 1 of %s in %s lies in %d local segments and %d UTC days (need 2 and 1)", eng, c, len(segs), len(utc))
				}
			}
		}
		got := map[string]uint64{} // engine|key|seg|node -> rows
		for _, b := range rep.Blocks {
			placed++
			e := exp[b.Engine]
			sh, known := e.shard[b.Key]
			art := map[string]any{"phase": "cluster", "cfg": c, "block": b, "entity": e.name[b.Key]}
			switch {
			case !known:
				report(fmt.Sprintf("cluster/%s/placement/unknown-series-on-data-node", b.Engine), art)
			case sh != b.Shard:
				art["expected_shard"] = sh
				report(fmt.Sprintf("cluster/%s/placement/row-in-wrong-shard", b.Engine), art)
			}
			if segName(b.Min) != b.Seg || segName(b.Max) != b.Seg {
				report(fmt.Sprintf("cluster/%s/placement/row-in-wrong-segment", b.Engine), art)
			}
			got[fmt.Sprintf("%s|%s|%s|%d", b.Engine, b.Key, b.Seg, b.Node)] += b.Count
		}
		copies := int(c.Replicas) + 1
		for eng, e := range exp {
			for ks, want := range e.counts {
				if eng == "measure" && e.name[strings.Split(ks, "|")[0]] == "s1" && strings.HasSuffix(ks, segName(cmf[0].TS)) {
					want++ // the point written twice (two versions) is stored twice
				}
				holders := 0
				for n := 0; n < c.Nodes; n++ {
					cnt, ok := got[fmt.Sprintf("%s|%s|%d", eng, ks, n)]
					if !ok {
						continue
					}
					holders++
					if int(cnt) != want {
						k := "rows-lost-on-data-node"
						if int(cnt) > want {
							k = "rows-duplicated-on-data-node"
						}
						report(fmt.Sprintf("cluster/%s/placement/%s", eng, k), map[string]any{"phase": "cluster", "cfg": c, "series|segment": ks, "node": n, "stored": cnt, "written": want})
					}
				}
				if holders != copies {
					report(fmt.Sprintf("cluster/%s/placement/copies(stored=%s,configured=%d)", eng, cmpWord(holders, copies), copies),
						map[string]any{"phase": "cluster", "cfg": c, "series|segment": ks, "holders": holders})
				}
			}
		}
	}
	if timeouts > 0 {
		notEx = append(notEx, fmt.Sprintf("%d requests ended in an internal time-out five times in a row (saturated machine) and were not judged", timeouts))
	}
	sort.Slice(vios, func(i, j int) bool { return vios[i].key < vios[j].key })
	return cStats{outcomes: outcomes, vcases: vcases, notExhaustive: notEx, timings: timings, evals: evals, nontriv: nontriv, ties: ties,
		placed: placed, judged: started, nq: len(reqs), tzJudged: tzJudged}, vios
}

func cmpWord(a, b int) string {
	switch {
	case a < b:
		return "fewer"
	case a > b:
		return "more"
	}
	return "equal"
}

func protoJSON(m proto.Message) json.RawMessage {
	b, err := protojson.Marshal(m)
	if err != nil {
		return json.RawMessage(`"?"`)
	}
	return b
}

// replayCluster re-runs the configuration of a recorded cluster artefact (plus its standalone reference) and exits 1
// if the same violation key is produced again. With C17_SHOW=1 it only prints the recorded answers decoded.
func replayCluster(key string, raw []byte) {
	var doc struct {
		Artefact struct {
			Standalone cResult `json:"standalone"`
			Cluster    cResult `json:"cluster"`
			Shape      string  `json:"shape"`
			Cfg        cwCfg   `json:"cfg"`
		} `json:"artefact"`
	}
	if err := json.Unmarshal(raw, &doc); err != nil {
		fmt.Println("HARNESS-ERROR:", err)
		os.Exit(2)
	}
	a := doc.Artefact
	if os.Getenv("C17_SHOW") != "" {
		eng := byte('M')
		if strings.Contains(key, "cluster/stream/") {
			eng = 'S'
		} else if strings.Contains(key, "cluster/trace/") {
			eng = 'T'
		}
		for _, side := range []struct {
			n string
			r cResult
		}{{"standalone", a.Standalone}, {"cluster", a.Cluster}} {
			rr, _ := base64.StdEncoding.DecodeString(side.r.Resp)
			var m proto.Message
			switch eng {
			case 'M':
				m = &measurev1.QueryResponse{}
			case 'S':
				m = &streamv1.QueryResponse{}
			default:
				m = &tracev1.QueryResponse{}
			}
			_ = proto.Unmarshal(rr, m)
			fmt.Printf("%s code=%s %s\n%s\n", side.n, side.r.Code, side.r.Msg, protojson.MarshalOptions{Multiline: false}.Format(m))
		}
		os.Exit(0)
	}
	dir, err := os.MkdirTemp("/dev/shm", "c17r-")
	if err != nil {
		fmt.Println("HARNESS-ERROR:", err)
		os.Exit(2)
	}
	scratch = dir
	c := a.Cfg
	c.Out = ""
	st, vios := clusterJudge([]cwCfg{c}, c.Thorough, dir)
	_ = os.RemoveAll(dir)
	if len(st.notExhaustive) > 0 {
		fmt.Println("HARNESS-ERROR:", st.notExhaustive)
		os.Exit(2)
	}
	fmt.Printf("replay: cluster %s judged, %d violation keys\n", c, len(vios))
	for _, v := range vios {
		if v.key == key {
			fmt.Printf("VIOLATION property=C17 replay=(cluster)\n  key: %s\n", key)
			os.Exit(1)
		}
	}
	fmt.Println("replay: no violation with this key")
	os.Exit(0)
}
