// C17 part-transfer phases, TRACE engine: a sync session ships the core part AND the sidx part of every secondary index
// as separate PartsInfo entries (same part id, part type "core" / index name, sorted by part type). The receiver
// (trace.syncChunkCallback / syncPartContext) opens one part context per part id, switches writers on a part-type
// change (NewPartType) and installs core + index parts in ONE introduction at FinishSync. Engine-independent code is in
// stream.go.
//
// Layouts: NF = number of secondary indexes. nf1 = {core, "zi"} (core first on the wire), nf2 = {"ai", core, "zi"}
// (an index part before AND after the core part: both orders of the part-type switch), nf2L = nf2 with 320 spans.
package main

import (
	"encoding/json"
	"fmt"
	"strings"
	"sync/atomic"

	"github.com/apache/skywalking-banyandb/api/data"
	"github.com/apache/skywalking-banyandb/banyand/queue"
	"github.com/apache/skywalking-banyandb/banyand/trace"
)

func traceIdx(l layT) []string {
	if l.NF >= 2 {
		return []string{"ai", "zi"}
	}
	return []string{"zi"}
}

var traceIDs = func() []string {
	out := []string{"t1", "t2", "t3", "r7", "r8"}
	for s := 101; s <= 140; s++ {
		out = append(out, fmt.Sprintf("b%d", s))
	}
	return out
}()

func traceSpans(l layT, sender bool) []trace.V17stSpan {
	if !sender {
		return []trace.V17stSpan{
			{Trace: "r7", ID: "r7-0", TS: tsBase + 7000, Key: 700},
			{Trace: "r8", ID: "r8-0", TS: tsBase + 8000, Key: 800},
			{Trace: "r8", ID: "r8-1", TS: tsBase + 8001, Key: 801},
		}
	}
	var out []trace.V17stSpan
	if l.Big {
		x := uint64(88172645463325252)
		for s := 101; s <= 140; s++ {
			for k := 0; k < 8; k++ {
				x ^= x << 13
				x ^= x >> 7
				x ^= x << 17
				out = append(out, trace.V17stSpan{Trace: fmt.Sprintf("b%d", s), ID: fmt.Sprintf("b%d-%d", s, k),
					TS: tsBase + int64(x%1_000_000_000)*16 + int64(s)*8 + int64(k), Key: int64(x>>20) % 1_000_000, Pad: 48})
			}
		}
		return out
	}
	for s := 1; s <= 3; s++ {
		for k := 0; k < 2; k++ {
			out = append(out, trace.V17stSpan{Trace: fmt.Sprintf("t%d", s), ID: fmt.Sprintf("t%d-%d", s, k),
				TS: tsBase + int64(s)*1000 + int64(k), Key: int64(s)*100 + int64(k)})
		}
	}
	return out
}

type traceTab struct {
	t *trace.V17stTable
	h *trace.V17stHandler
}

func (s *traceTab) Close() { s.t.Close() }

func (s *traceTab) Units() (units []string, epoch uint64, mem bool) {
	pp, e := s.t.Parts()
	for _, p := range pp {
		u := pname(p.ID)
		if p.Index != "" {
			u = trace.V17stSidxDir + "/" + p.Index + "/" + u
		}
		units = append(units, u)
		mem = mem || p.Mem
	}
	return units, e, mem
}

func (s *traceTab) Read() ([]string, error) { return s.t.Read(traceIDs) }

func (s *traceTab) handler() *trace.V17stHandler {
	if s.h == nil {
		s.h = s.t.Handler()
	}
	return s.h
}

func (s *traceTab) Callback() queue.ChunkedSyncHandler { return s.handler().Callback() }

func (s *traceTab) SegRefs() int64 { return atomic.LoadInt64(&s.handler().SegRefs) }

func (s *traceTab) LoopDead() <-chan struct{} { return s.t.LoopDead() }

func (s *traceTab) LoopPanic() string { return s.t.LoopPanic() }

func (s *traceTab) SyncSnapshot(node string, mk func(string, uint32) (queue.ChunkedSyncClient, error)) error {
	return s.t.SyncSnapshot(node, mk)
}

func tracePrefix(partType string) string {
	if partType == trace.V17stCore {
		return ""
	}
	return trace.V17stSidxDir + "/" + partType + "/"
}

// traceNorm: metadata.json of the core part must be byte-identical. manifest.json of an index part is rebuilt by the
// receiver from the session's part info; "id" (the sender's part id; the receiver names the part by its directory and
// overwrites the field on open) and "segmentID" (a routing aid of the liaison's write queue, the fallback for a
// missing minTimestamp) are node-local and not compared; every other field must agree.
func traceNorm(prefix, file, content string) string {
	if prefix == "" || file != "manifest.json" {
		return content
	}
	m := map[string]json.RawMessage{}
	if err := json.Unmarshal([]byte(content), &m); err != nil {
		return content
	}
	delete(m, "id")
	delete(m, "segmentID")
	b, _ := json.Marshal(m) // map keys are marshalled in sorted order
	return string(b)
}

func init() {
	engines["trace"] = &engineT{
		name:    "trace",
		topic:   data.TopicTracePartSync,
		layouts: []layT{{NF: 1}, {NF: 2}, {NF: 2, Big: true}},
		open: func(dir string, l layT, sender bool) kTable {
			return &traceTab{t: trace.V17stOpen(dir, traceIdx(l), tsBase, sender)}
		},
		build: func(dir string, l layT, sender bool) {
			t := trace.V17stOpen(dir, traceIdx(l), tsBase, sender)
			if sender {
				t.SkipPartIDs(senderPartIDSkip(l))
			}
			t.Write(traceSpans(l, sender))
			t.Flush()
			t.Close()
		},
		streamName: trace.V17stStreamName,
		prefixOf:   tracePrefix,
		quarantine: func(prefix string, id uint64) string {
			if prefix == "" {
				return pname(id) + "_core"
			}
			return pname(id) + "_" + strings.TrimSuffix(strings.TrimPrefix(prefix, trace.V17stSidxDir+"/"), "/")
		},
		meta: map[string]bool{"metadata.json": true, "manifest.json": true},
		norm: traceNorm,
	}
}

// boundaryStats counts the rx single-fault cases of the trace kind whose target chunk lies at a part boundary of the
// session (evidence that the part-type switch is exercised from both sides and in both framings).
func boundaryStats(pl *planT) map[string]int {
	out := map[string]int{}
	for _, c := range pl.open {
		if c.Cfg.Kind != "trace" || c.Phase != "rx" || len(c.Faults) != 1 {
			continue
		}
		base := loadBaseK(c.Cfg)
		n := len(base) - 1
		i := c.Faults[0].I
		if i >= n {
			continue
		}
		first, last := map[string]int{}, map[string]int{} // part type -> first / last chunk carrying it
		for k, r := range base[:n] {
			for _, p := range r.PartsInfo {
				if _, ok := first[p.PartType]; !ok {
					first[p.PartType] = k
				}
				last[p.PartType] = k
			}
		}
		pi := base[i].PartsInfo
		if len(pi) > 1 {
			out["chunk-carries-several-parts"]++
		}
		for _, p := range pi {
			kind := "index"
			if p.PartType == trace.V17stCore {
				kind = "core"
			}
			if first[p.PartType] == i {
				out["first-chunk-of-"+kind+"-part"]++
				if p == pi[0] && i > 0 {
					out["first-chunk-of-"+kind+"-part,starting-exactly-at-the-chunk-start"]++
				}
			}
			if last[p.PartType] == i {
				out["last-chunk-of-"+kind+"-part"]++
				if p == pi[len(pi)-1] && i+1 < n {
					out["last-chunk-of-"+kind+"-part,ending-exactly-at-the-chunk-end"]++
				}
			}
		}
	}
	return out
}
