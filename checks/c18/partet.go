package main

// Round 2, parts (e) and (t): the two replica-local mechanisms that decide whether a stored value SURVIVES (physical
// tombstone expiry in the index merge hook) and whether anti-entropy ever LOOKS at it (the Merkle tree the gossip
// protocol compares first, built by the scheduler and possibly interrupted by a shutdown). See NOTES-round2.md.

import (
	"bytes"
	"context"
	"encoding/json"
	"fmt"
	"os"
	"os/exec"
	"path/filepath"
	"sort"
	"strings"
	"time"

	commonv1 "github.com/apache/skywalking-banyandb/api/proto/banyandb/common/v1"
	modelv1 "github.com/apache/skywalking-banyandb/api/proto/banyandb/model/v1"
	propertyv1 "github.com/apache/skywalking-banyandb/api/proto/banyandb/property/v1"
	"github.com/apache/skywalking-banyandb/banyand/internal/storage"
	"github.com/apache/skywalking-banyandb/banyand/observability"
	propdb "github.com/apache/skywalking-banyandb/banyand/property/db"
	"github.com/apache/skywalking-banyandb/pkg/convert"
	"github.com/apache/skywalking-banyandb/pkg/fs"
)

// openNodeCfg opens a real property database configured like a production data node (safe batches that wait for
// persistence), with the given tombstone expiry and, optionally, the repair scheduler (build-tree cron far away).
func openNodeCfg(base, name string, expire time.Duration, repair bool) *node {
	dbSerial++
	dir := filepath.Join(base, fmt.Sprintf("%s-%d", name, dbSerial))
	n := &node{name: name, up: true, dir: dir}
	snpSeq := 0
	cfg := propdb.Config{
		Location:               filepath.Join(dir, "data"),
		MetricsScopeName:       fmt.Sprintf("c18_%s_%d", name, dbSerial),
		FlushInterval:          time.Hour,
		ExpireToDeleteDuration: expire,
		Index:                  propdb.IndexConfig{BatchWaitSec: 0, WaitForPersistence: true},
		Repair:                 propdb.RepairConfig{Enabled: false, Location: filepath.Join(dir, "repair")},
	}
	if repair {
		cfg.Repair = propdb.RepairConfig{
			Enabled: true, Location: filepath.Join(dir, "repair"), BuildTreeCron: "@every 24h",
			QuickBuildTreeTime: 24 * time.Hour, TreeSlotCount: 4,
		}
		cfg.Snapshot = propdb.SnapshotConfig{
			Location: filepath.Join(dir, "snapshots"),
			// what banyand/property/service.go wires in: snapshot every shard, hand over the data directory
			Func: func(ctx context.Context) (string, error) {
				snpSeq++
				sn := fmt.Sprintf("snp-%d", snpSeq)
				res := n.db.TakeSnapShot(ctx, sn)
				if res.Error != "" {
					return "", fmt.Errorf("%s", res.Error)
				}
				return filepath.Join(dir, "snapshots", sn, storage.DataDir), nil
			},
		}
	}
	d, err := propdb.OpenDB(bg, cfg, observability.BypassRegistry, fs.NewLocalFileSystem())
	if err != nil {
		fatal("OpenDB: %v", err)
	}
	n.db = d
	openNodes[n] = true
	return n
}

func etProp(name, id string, rev int64) *propertyv1.Property {
	return &propertyv1.Property{
		Metadata: &commonv1.Metadata{Group: group, Name: name, ModRevision: rev, CreateRevision: 1},
		Id:       id,
		Tags: []*modelv1.Tag{{Key: "a", Value: &modelv1.TagValue{Value: &modelv1.TagValue_Str{
			Str: &modelv1.Str{Value: fmt.Sprintf("%s-r%d", id, rev)},
		}}}},
	}
}

// ---------------------------------------------------------------------------------------------------------------
// (e) physical tombstone expiry: the merge hook may drop expired tombstones and nothing else

// letters of a layout; every letter acts on its own key and appends documents to the shard's index:
//
//	L  live value                               Update(k@1)
//	E  user delete long ago (expired)           Update(k@1); Delete(k@1, now-2h)
//	F  user delete a minute ago (not expired)   Update(k@1); Delete(k@1, now-1min)
//	R  anti-entropy brings a newer LIVE rev     Update(k@1); Repair(k@2, live)      -> one batch [tombstone k@1, live k@2]
//	Q  anti-entropy brings a newer TOMBSTONE    Update(k@1); Repair(k@2, now-2h)    -> one batch [tombstone k@1, tombstone k@2]
const eLetters = "LEFRQ"

type ecase struct {
	Letters   string `json:"letters"`
	ExpireSec int64  `json:"expire_sec"`
}

type eResult struct {
	Outcomes   map[string]int `json:"outcomes"`
	Pairs      map[string]int `json:"pairs"` // class of a document -> class of the next one in document order
	Layouts    int            `json:"layouts"`
	HookCalls  int            `json:"hook_calls"`
	Docs       int            `json:"docs"`
	Dropped    int            `json:"dropped"`
	ExpThenLiv int            `json:"expired_tombstone_directly_followed_by_live"`
}

func eLayouts(maxLen int) []string {
	var out []string
	var rec func(p string)
	rec = func(p string) {
		if len(p) > 0 {
			out = append(out, p)
		}
		if len(p) == maxLen {
			return
		}
		for _, l := range eLetters {
			rec(p + string(l))
		}
	}
	rec("")
	return out
}

func must(err error, what string) {
	if err != nil {
		fatal("%s: %v", what, err)
	}
}

func runE(base string, c ecase, res *eResult, sink *vsink) {
	if res.Outcomes == nil {
		res.Outcomes, res.Pairs = map[string]int{}, map[string]int{}
	}
	n := openNodeCfg(base, "e", time.Duration(c.ExpireSec)*time.Second, false)
	defer closeNodes([]*node{n})
	art := map[string]any{"part": "e", "case": c}
	now := time.Now()
	longAgo, recently := now.Add(-2*time.Hour), now.Add(-time.Minute)
	class := map[string]byte{} // _id -> L live, E tombstone older than 1h, F tombstone younger than 1h
	for i, l := range c.Letters {
		key := fmt.Sprintf("e%d", i)
		p1, p2 := etProp(propName, key, 1), etProp(propName, key, 2)
		id1, id2 := propdb.GetPropertyID(p1), propdb.GetPropertyID(p2)
		must(n.db.Update(bg, 0, id1, p1), "update")
		class[string(id1)] = 'L'
		switch l {
		case 'E':
			must(n.db.Delete(bg, [][]byte{id1}, longAgo), "delete")
			class[string(id1)] = 'E'
		case 'F':
			must(n.db.Delete(bg, [][]byte{id1}, recently), "delete")
			class[string(id1)] = 'F'
		case 'R':
			must(n.db.Repair(bg, id2, 0, p2, 0), "repair")
			class[string(id1)], class[string(id2)] = 'F', 'L'
		case 'Q':
			must(n.db.Repair(bg, id2, 0, p2, longAgo.UnixNano()), "repair")
			class[string(id1)], class[string(id2)] = 'F', 'E'
		}
	}
	res.Layouts++
	expired := func(cl byte) bool { return cl == 'E' || (cl == 'F' && c.ExpireSec == 0) }
	ndocs := -1
	for cut := 0; ndocs < 0 || cut < ndocs; cut++ {
		snap := filepath.Join(n.dir, fmt.Sprintf("hook-%d", cut))
		var cuts []int
		if cut > 0 {
			cuts = []int{cut}
		}
		docs, dropped, err := propdb.VerifC18MergeHook(bg, n.db, group, 0, snap, cuts)
		must(err, "merge hook")
		_ = os.RemoveAll(snap)
		ndocs = len(docs)
		res.HookCalls++
		res.Docs += len(docs)
		res.Dropped += len(dropped)
		isDropped := map[int]bool{}
		for _, d := range dropped {
			isDropped[d] = true
		}
		seen := map[string]bool{}
		prev := byte('-')
		for i, d := range docs {
			cl, ok := class[d.ID]
			if !ok {
				sink.add("e/index holds a document nobody wrote", art)
				continue
			}
			seen[d.ID] = true
			stored := int64(0)
			if len(d.DeleteTime) == 8 {
				stored = convert.BytesToInt64(d.DeleteTime)
			}
			if (stored > 0) != (cl != 'L') {
				sink.add(fmt.Sprintf("e/stored document of class %c has delete time >0 = %v", cl, stored > 0), art)
			}
			shape := fmt.Sprintf("expire=%ds document-before=%s", c.ExpireSec, eClassName(prev, c.ExpireSec))
			switch {
			case isDropped[i] && cl == 'L':
				sink.add("e/merge hook drops a LIVE document: the latest non-deleted value disappears from the replica ("+shape+")", art)
			case isDropped[i] && !expired(cl):
				sink.add("e/merge hook drops a tombstone that has not expired ("+shape+")", art)
			case !isDropped[i] && expired(cl):
				res.Outcomes["e:expired-tombstone-kept-by-merge-hook"]++
			case isDropped[i]:
				res.Outcomes["e:expired-tombstone-dropped"]++
			case cl == 'L':
				res.Outcomes["e:live-kept after "+eClassName(prev, c.ExpireSec)]++
			default:
				res.Outcomes["e:fresh-tombstone-kept after "+eClassName(prev, c.ExpireSec)]++
			}
			if cut == 0 {
				res.Pairs[eClassName(prev, c.ExpireSec)+">"+eClassName(cl, c.ExpireSec)]++
				if prev != '-' && expired(prev) && cl == 'L' {
					res.ExpThenLiv++
				}
			}
			prev = cl
		}
		// end to end: whatever the index's own background merges did meanwhile (they call the same hook), every
		// live document and every unexpired tombstone that was written is still there
		ids := make([]string, 0, len(class))
		for id := range class {
			ids = append(ids, id)
		}
		sort.Strings(ids)
		for _, id := range ids {
			if seen[id] || expired(class[id]) {
				continue
			}
			if class[id] == 'L' {
				sink.add(fmt.Sprintf("e/a LIVE document that was written is no longer in the index (expire=%ds)", c.ExpireSec), art)
			} else {
				sink.add(fmt.Sprintf("e/an unexpired tombstone that was written is no longer in the index (expire=%ds)", c.ExpireSec), art)
			}
		}
	}
}

func eClassName(cl byte, expireSec int64) string {
	switch {
	case cl == '-':
		return "none"
	case cl == 'L':
		return "live"
	case cl == 'E' || expireSec == 0:
		return "expired-tombstone"
	}
	return "fresh-tombstone"
}

// The index's own background merger calls the same hook. When the hook drops a document the index still counts as
// live, bluge's merge introduction panics in a background goroutine and takes the process down. A chunk of layouts is
// therefore executed in a child process; its death by a Go panic is the verdict "the data node crashes", not a
// harness error.
type eChunkOut struct {
	ViolCounts map[string]int `json:"viol_counts"`
	Viol       []viol         `json:"viol"`
	E          eResult        `json:"e"`
}

func eChunkChild(arg string) {
	var cs []ecase
	if err := json.Unmarshal([]byte(arg), &cs); err != nil {
		fatal("%v", err)
	}
	out := eChunkOut{}
	sink := &vsink{}
	for _, c := range cs {
		runE(scratch, c, &out.E, sink)
	}
	out.Viol, out.ViolCounts = sink.list, sink.byKey
	b, _ := json.Marshal(out)
	fmt.Printf("E-CHUNK-RESULT %s\n", b)
	cleanup()
}

func runEChunkIsolated(cs []ecase, res *eResult, sink *vsink) {
	if res.Outcomes == nil {
		res.Outcomes, res.Pairs = map[string]int{}, map[string]int{}
	}
	arg, _ := json.Marshal(cs)
	cmd := exec.Command(os.Args[0], "--e-chunk", string(arg))
	var stdout, stderr bytes.Buffer
	cmd.Stdout, cmd.Stderr = &stdout, &stderr
	cmd.Env = append(os.Environ(), "C18_SCRATCH_BASE="+scratch)
	runErr := cmd.Run()
	if i := strings.Index(stdout.String(), "E-CHUNK-RESULT "); i >= 0 && runErr == nil {
		var o eChunkOut
		line := strings.SplitN(stdout.String()[i+len("E-CHUNK-RESULT "):], "\n", 2)[0]
		if err := json.Unmarshal([]byte(line), &o); err != nil {
			fatal("bad e-chunk result: %v", err)
		}
		listed := map[string]int{}
		for _, v := range o.Viol {
			sink.add(v.Key, v.Artefact)
			listed[v.Key]++
		}
		for k, cnt := range o.ViolCounts { // keep the true multiplicities
			sink.byKey[k] += cnt - listed[k]
		}
		mergeCounts(res.Outcomes, o.E.Outcomes)
		mergeCounts(res.Pairs, o.E.Pairs)
		res.Layouts += o.E.Layouts
		res.HookCalls += o.E.HookCalls
		res.Docs += o.E.Docs
		res.Dropped += o.E.Dropped
		res.ExpThenLiv += o.E.ExpThenLiv
		return
	}
	if se := stderr.String(); strings.Contains(se, "panic:") && strings.Contains(se, "bluge/index.(*Writer).introduceMerge") {
		sink.add("e/data node crashes: the index's background merge panics after the merge hook dropped a document the index counts as live (bluge introduceMerge)",
			map[string]any{"part": "echunk", "case": cs})
		return
	}
	tail := stderr.String()
	if len(tail) > 1500 {
		tail = tail[len(tail)-1500:]
	}
	fatal("e-chunk child failed: %v\n%s\n%s", runErr, stdout.String(), tail)
}

// ---------------------------------------------------------------------------------------------------------------
// (t) the Merkle tree under a shutdown at every point of the build

type tcase struct {
	Op      string `json:"op"`       // what happens to the shard after its tree was built: update | delete | create | none
	Base    int    `json:"base"`     // keys in the shard when the first tree is built
	FaultAt int    `json:"fault_at"` // the build's context reports cancellation from this poll on; -1 = never
}

type tResult struct {
	Outcomes   map[string]int `json:"outcomes"`
	Cases      int            `json:"cases"`
	Tripped    int            `json:"tripped"`
	Unsettled  int            `json:"unsettled"`
	MaxPolls   int            `json:"max_polls"`
	PollCapHit int            `json:"poll_cap_hit"`
}

const (
	tPage    = 1  // documents per page of the tree build (production: 100), so that 2-4 documents span several pages
	tPollCap = 24 // fault points per (base, op); more polls than that -> NotExhaustive
)

func tCombos() [][2]any {
	return [][2]any{
		{0, "create"}, {0, "none"},
		{1, "update"}, {1, "delete"}, {1, "create"}, {1, "none"},
		{2, "update"}, {2, "delete"}, {2, "create"},
	}
}

// runT executes one case on a fresh replica and returns the number of context polls of its (possibly cut) build.
func runT(base string, c tcase, res *tResult, sink *vsink) int {
	if res.Outcomes == nil {
		res.Outcomes = map[string]int{}
	}
	n := openNodeCfg(base, "t", time.Hour, true)
	defer closeNodes([]*node{n})
	art := map[string]any{"part": "t", "case": c}
	res.Cases++
	for i := 0; i < c.Base; i++ {
		p := etProp(propName, fmt.Sprintf("t%d", i), 1)
		must(n.db.Update(bg, 0, propdb.GetPropertyID(p), p), "update")
	}
	must(propdb.VerifC18TreeTick(n.db), "first scheduled build")
	root0, _, _, _, err := propdb.VerifC18TreeState(bg, n.db, group, 0)
	if c.Base > 0 {
		must(err, "tree state")
	}
	p1 := etProp(propName, "t0", 1)
	switch c.Op {
	case "update": // what Apply delivers to a replica: the new revision, then the delete of the older ones
		p2 := etProp(propName, "t0", 2)
		must(n.db.Update(bg, 0, propdb.GetPropertyID(p2), p2), "update")
		must(n.db.Delete(bg, [][]byte{propdb.GetPropertyID(p1)}, time.Now()), "delete")
	case "delete":
		must(n.db.Delete(bg, [][]byte{propdb.GetPropertyID(p1)}, time.Now()), "delete")
	case "create":
		p := etProp(propName, "t9", 1)
		must(n.db.Update(bg, 0, propdb.GetPropertyID(p), p), "update")
	}
	// synchronisation only: let the index finish its background merge of the small segments, so that no new index
	// snapshot appears on its own afterwards (a new snapshot would only make a later scheduled build MORE likely)
	settled := false
	stable, last := 0, [2]int{-1, -1}
	for dl := time.Now().Add(10 * time.Second); time.Now().Before(dl); time.Sleep(10 * time.Millisecond) {
		segs, snps := propdb.VerifC18IndexFiles(bg, n.db, group, 0)
		if cur := [2]int{segs, snps}; cur == last && snps <= 1 {
			stable++
		} else {
			stable, last = 0, cur
		}
		if stable >= 20 { // one index snapshot file left and nothing moved for 200 ms
			settled = true
			break
		}
	}
	if !settled {
		res.Unsettled++
		if os.Getenv("C18_DEBUG") != "" {
			segs, snps := propdb.VerifC18IndexFiles(bg, n.db, group, 0)
			fmt.Printf("  unsettled: %+v segs=%d snps=%d\n", c, segs, snps)
		}
	}
	polls, tripped, buildErr, err := propdb.VerifC18TreeBuildWithFault(bg, n.db, group, 0, c.FaultAt, tPage)
	must(err, "build with fault")
	if polls > res.MaxPolls {
		res.MaxPolls = polls
	}
	if tripped {
		res.Tripped++
	}
	rootA, _, _, hasUpdatesA, errA := propdb.VerifC18TreeState(bg, n.db, group, 0)
	must(propdb.VerifC18TreeTick(n.db), "scheduled build after the fault")
	rootB, _, _, _, errB := propdb.VerifC18TreeState(bg, n.db, group, 0)
	must(propdb.VerifC18TreeForce(n.db), "forced build")
	rootR, _, existsR, _, errR := propdb.VerifC18TreeState(bg, n.db, group, 0)
	must(errR, "reference tree")
	shape := fmt.Sprintf("op=%s build-canceled=%v build-returned-error=%v", c.Op, tripped, buildErr != nil)
	if !tripped && buildErr != nil {
		sink.add("t/tree build fails without a fault: "+strings.SplitN(buildErr.Error(), ":", 2)[0], art)
	}
	if errA != nil || errB != nil {
		sink.add("t/tree file unreadable after a build ("+shape+")", art)
		return polls
	}
	if c.Op != "none" && existsR && rootR == root0 {
		fatal("t: op %s does not change the root hash (base %d)", c.Op, c.Base)
	}
	if !hasUpdatesA && rootA != rootR {
		sink.add("t/repair state says the tree is up to date (checkHasUpdates=false) but the tree file does not describe the shard: peers holding the old state see 'root matches' ("+shape+")", art)
	}
	if rootB != rootR {
		sink.add("t/tree still does not describe the shard after the next scheduled build: anti-entropy cannot see the update ("+shape+")", art)
	}
	res.Outcomes[fmt.Sprintf("t:%s has-updates-after-build=%v tree-current-after-build=%v", shape, hasUpdatesA, rootA == rootR)]++
	return polls
}

// runTCombo: one (base, op): a probe without fault gives the number of polls N of the build; then one case per
// fault point 0..N-1, each on a fresh replica.
func runTCombo(base string, nb int, op string, res *tResult, sink *vsink, deadline time.Time) (skipped int) {
	n := runT(base, tcase{Base: nb, Op: op, FaultAt: -1}, res, sink)
	if n > tPollCap {
		res.PollCapHit++
		n = tPollCap
	}
	for f := 0; f < n; f++ {
		if time.Now().After(deadline) {
			skipped++
			continue
		}
		runT(base, tcase{Base: nb, Op: op, FaultAt: f}, res, sink)
	}
	return skipped
}
