package main

import (
	"fmt"
	"sort"

	commonv1 "github.com/apache/skywalking-banyandb/api/proto/banyandb/common/v1"
	modelv1 "github.com/apache/skywalking-banyandb/api/proto/banyandb/model/v1"
	propertyv1 "github.com/apache/skywalking-banyandb/api/proto/banyandb/property/v1"
	liaisongrpc "github.com/apache/skywalking-banyandb/banyand/liaison/grpc"
)

// ---------------------------------------------------------------------------------------------------------------
// Part (d): the liaison's query-time dedup functions (simpleDedupWithoutSort, sortedQueryWithDedup) driven directly.
// Universe: entities e1,e2 x revisions 1,2 x {live, tombstone}; every node returns any list of <=2 documents with
// distinct (entity, revision); three nodes; every combination. Reference: per entity exactly one result, the highest
// revision present anywhere; on equal revision a tombstone beats a live copy; sorted results ordered by sort value.

type ddoc struct {
	E    int  `json:"e"`
	Rev  int  `json:"rev"`
	Tomb bool `json:"tomb,omitempty"`
}

type dcase struct {
	Mode  string    `json:"mode"` // unsorted | asc | desc
	Nodes [3][]ddoc `json:"nodes"`
}

// sort values deliberately not monotone in the revision
var dSortVal = map[[2]int]string{{1, 1}: "m", {1, 2}: "c", {2, 1}: "h", {2, 2}: "x"}

type dResult struct {
	Outcomes map[string]int
	Cases    int
	Nontriv  int
	Calls    int
}

func dLists() [][]ddoc {
	var all []ddoc
	for e := 1; e <= 2; e++ {
		for r := 1; r <= 2; r++ {
			all = append(all, ddoc{E: e, Rev: r}, ddoc{E: e, Rev: r, Tomb: true})
		}
	}
	out := [][]ddoc{nil}
	for i := range all {
		out = append(out, []ddoc{all[i]})
	}
	for i := range all {
		for j := i + 1; j < len(all); j++ {
			if all[i].E == all[j].E && all[i].Rev == all[j].Rev {
				continue
			}
			out = append(out, []ddoc{all[i], all[j]})
		}
	}
	return out
}

func runD(srv *liaisongrpc.VerifC18Server, c dcase, res *dResult, sink *vsink) {
	art := func() any { return map[string]any{"part": "d", "case": c} }
	type best struct {
		rev        int
		tomb, live bool
	}
	want := map[int]*best{}
	in := map[string][]liaisongrpc.VerifC18Prop{}
	for n := 0; n < 3; n++ {
		l := append([]ddoc{}, c.Nodes[n]...)
		if c.Mode != "unsorted" {
			sort.SliceStable(l, func(i, j int) bool {
				a, b := dSortVal[[2]int{l[i].E, l[i].Rev}], dSortVal[[2]int{l[j].E, l[j].Rev}]
				if c.Mode == "asc" {
					return a < b
				}
				return a > b
			})
		}
		name := fmt.Sprintf("n%d", n)
		for _, d := range l {
			b := want[d.E]
			if b == nil || d.Rev > b.rev {
				b = &best{rev: d.Rev}
				want[d.E] = b
			}
			if d.Rev == b.rev {
				b.tomb = b.tomb || d.Tomb
				b.live = b.live || !d.Tomb
			}
			var dt int64
			if d.Tomb {
				dt = 12345
			}
			in[name] = append(in[name], liaisongrpc.VerifC18Prop{
				Node: name, DeletedTime: dt, SortedValue: []byte(dSortVal[[2]int{d.E, d.Rev}]),
				P: &propertyv1.Property{
					Metadata: &commonv1.Metadata{Group: group, Name: propName, ModRevision: int64(1000 + d.Rev)},
					Id:       fmt.Sprintf("e%d", d.E),
					Tags:     []*modelv1.Tag{{Key: "a", Value: &modelv1.TagValue{Value: &modelv1.TagValue_Str{Str: &modelv1.Str{Value: dSortVal[[2]int{d.E, d.Rev}]}}}}},
				},
			})
		}
		if len(l) == 0 && n != 2 {
			in[name] = nil // a node that answered with nothing
		}
	}
	res.Cases++
	tieCase := false
	for _, b := range want {
		if b.tomb && b.live {
			tieCase = true
		}
	}
	multi := 0
	for n := 0; n < 3; n++ {
		if len(c.Nodes[n]) > 0 {
			multi++
		}
	}
	if multi >= 2 {
		res.Nontriv++
	}
	reps := 1
	if tieCase {
		reps = 8 // map iteration order decides ties; repeat so the verdict does not depend on one draw
	}
	for rep := 0; rep < reps; rep++ {
		req := &propertyv1.QueryRequest{Limit: 100}
		switch c.Mode {
		case "asc":
			req.OrderBy = &propertyv1.QueryOrder{TagName: "a", Sort: modelv1.Sort_SORT_ASC}
		case "desc":
			req.OrderBy = &propertyv1.QueryOrder{TagName: "a", Sort: modelv1.Sort_SORT_DESC}
		}
		got := srv.VerifC18Dedup(in, c.Mode != "unsorted", req)
		res.Calls++
		seen := map[int]bool{}
		prev := ""
		for i, g := range got {
			var e int
			_, _ = fmt.Sscanf(g.P.Id, "e%d", &e)
			if seen[e] {
				sink.add("d/dedup "+c.Mode+": two versions of one key in the result", art())
			}
			seen[e] = true
			b := want[e]
			if b == nil {
				sink.add("d/dedup "+c.Mode+": result for a key no node returned", art())
				continue
			}
			rev := int(g.P.Metadata.ModRevision - 1000)
			switch {
			case rev < b.rev:
				sink.add("d/dedup "+c.Mode+": an older revision was chosen over a newer one", art())
			case rev > b.rev:
				sink.add("d/dedup "+c.Mode+": impossible revision", art())
			case b.tomb && b.live && g.DeletedTime == 0:
				sink.add("d/dedup "+c.Mode+": tie=same-revision-tomb-vs-live resolved to the live copy", art())
			case (g.DeletedTime > 0) != b.tomb && !(b.tomb && b.live):
				sink.add("d/dedup "+c.Mode+": tombstone flag of the chosen revision is wrong", art())
			}
			sv := string(g.SortedValue)
			if i > 0 && ((c.Mode == "asc" && sv < prev) || (c.Mode == "desc" && sv > prev)) {
				sink.add("d/dedup "+c.Mode+": result not ordered by the sort value", art())
			}
			prev = sv
		}
		for e := range want {
			if !seen[e] {
				sink.add("d/dedup "+c.Mode+": a key is missing from the result", art())
			}
		}
		if res.Outcomes == nil {
			res.Outcomes = map[string]int{}
		}
		res.Outcomes[fmt.Sprintf("dedup:%s results=%d tie=%v", c.Mode, len(got), tieCase)]++
	}
}

func enumerateD(each func(dcase)) {
	ls := dLists()
	for _, mode := range []string{"unsorted", "asc", "desc"} {
		for _, a := range ls {
			for _, b := range ls {
				for _, c := range ls {
					each(dcase{Mode: mode, Nodes: [3][]ddoc{a, b, c}})
				}
			}
		}
	}
}
