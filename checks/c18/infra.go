package main

import (
	"context"
	"errors"
	"fmt"
	"os"
	"path/filepath"
	"strconv"
	"time"

	"github.com/apache/skywalking-banyandb/api/common"
	"github.com/apache/skywalking-banyandb/api/data"
	commonv1 "github.com/apache/skywalking-banyandb/api/proto/banyandb/common/v1"
	databasev1 "github.com/apache/skywalking-banyandb/api/proto/banyandb/database/v1"
	liaisongrpc "github.com/apache/skywalking-banyandb/banyand/liaison/grpc"
	"github.com/apache/skywalking-banyandb/banyand/metadata"
	"github.com/apache/skywalking-banyandb/banyand/metadata/schema"
	"github.com/apache/skywalking-banyandb/banyand/observability"
	"github.com/apache/skywalking-banyandb/banyand/property"
	propdb "github.com/apache/skywalking-banyandb/banyand/property/db"
	"github.com/apache/skywalking-banyandb/banyand/queue"
	"github.com/apache/skywalking-banyandb/pkg/bus"
	"github.com/apache/skywalking-banyandb/pkg/fs"
)

const (
	group    = "g18"
	propName = "p18"
	// a second property NAME in the same group; keys are group/name/id, so p18/x and q18/x are unrelated keys
	propName2 = "q18"
)

var bg = context.Background()

// ---------------------------------------------------------------------------------------------------------------
// real replica instances

type node struct {
	db                 propdb.Database
	upd, del, qry, rep bus.MessageListener
	name               string
	dir                string
	up                 bool
}

var dbSerial int

var batchWait = int64(1)

func openNode(base, name string) *node {
	if v := os.Getenv("C18_BATCHWAIT"); v != "" {
		batchWait, _ = strconv.ParseInt(v, 10, 64)
	}
	dbSerial++
	dir := filepath.Join(base, fmt.Sprintf("%s-%d", name, dbSerial))
	d, err := propdb.OpenDB(bg, propdb.Config{
		Location:         dir,
		MetricsScopeName: fmt.Sprintf("c18_%s_%d", name, dbSerial),
		FlushInterval:    time.Hour,
		// tombstones must never be physically dropped during a run (prepareForMerge drops expired ones)
		ExpireToDeleteDuration: 50 * 365 * 24 * time.Hour,
		Repair:                 propdb.RepairConfig{Enabled: false, Location: filepath.Join(dir, "repair")},
		// BatchWaitSec>0 = bluge "unsafe batches": Writer.Batch returns when the segment is introduced into the root
		// snapshot (visible to the next Reader()), without waiting for the persister. That is the deterministic
		// visibility point; no sleeps anywhere.
		Index: propdb.IndexConfig{BatchWaitSec: batchWait, WaitForPersistence: false},
	}, observability.BypassRegistry, fs.NewLocalFileSystem())
	if err != nil {
		fatal("OpenDB: %v", err)
	}
	n := &node{name: name, db: d, up: true, dir: dir}
	openNodes[n] = true
	n.upd, n.del, n.qry, n.rep = property.VerifC18Listeners(d, name)
	return n
}

func fatal(f string, a ...any) {
	fmt.Printf("HARNESS-ERROR: "+f+"\n", a...)
	cleanup()
	os.Exit(2)
}

var (
	scratch   string
	openNodes = map[*node]bool{}
)

// closeNodes closes databases (stopping bluge's persister and merger goroutines) and removes their directories.
func closeNodes(ns []*node) {
	for _, n := range ns {
		if !openNodes[n] {
			continue
		}
		delete(openNodes, n)
		_ = n.db.Close()
		_ = os.RemoveAll(n.dir)
	}
}

// cleanup closes whatever is still open and removes the scratch directory of this process.
func cleanup() {
	var rest []*node
	for n := range openNodes {
		rest = append(rest, n)
	}
	closeNodes(rest)
	if scratch != "" {
		_ = os.RemoveAll(scratch)
	}
}

// ---------------------------------------------------------------------------------------------------------------
// fake queue.Client: synchronous dispatch to the real data-node listeners. A node that is "down" is skipped by
// Broadcast (the real pub only addresses active nodes) and Publish to it fails (the liaison then skips that replica).
// A handler answer of type *common.Error surfaces as an error from Future.Get, as with the real pub/sub pair.

type fakeClient struct {
	queue.Client
	byName map[string]*node
	nodes  []*node
}

type fut struct{ msgs []bus.Message }

func (f *fut) Get() (bus.Message, error) {
	if len(f.msgs) == 0 {
		return bus.Message{}, errors.New("empty future")
	}
	m := f.msgs[0]
	f.msgs = f.msgs[1:]
	if ce, ok := m.Data().(*common.Error); ok {
		return bus.Message{}, errors.New(ce.Error())
	}
	return m, nil
}

func (f *fut) GetAll() ([]bus.Message, error) {
	var out []bus.Message
	var err error
	for len(f.msgs) > 0 {
		m, e := f.Get()
		if e != nil {
			err = errors.Join(err, e)
			continue
		}
		out = append(out, m)
	}
	return out, err
}

func (c *fakeClient) dispatch(ctx context.Context, n *node, topic bus.Topic, m bus.Message) bus.Message {
	var l bus.MessageListener
	switch topic {
	case data.TopicPropertyUpdate:
		l = n.upd
	case data.TopicPropertyDelete:
		l = n.del
	case data.TopicPropertyQuery:
		l = n.qry
	case data.TopicPropertyRepair:
		l = n.rep
	default:
		fatal("unexpected topic %v", topic)
	}
	resp := l.Rev(ctx, bus.NewMessageWithNode(m.ID(), n.name, m.Data()))
	return bus.NewMessageWithNode(resp.ID(), n.name, resp.Data())
}

func (c *fakeClient) Publish(ctx context.Context, topic bus.Topic, ms ...bus.Message) (bus.Future, error) {
	f := &fut{}
	for _, m := range ms {
		n := c.byName[m.Node()]
		if n == nil {
			return nil, fmt.Errorf("unknown node %q", m.Node())
		}
		if !n.up {
			return nil, fmt.Errorf("node %s is down", n.name)
		}
		f.msgs = append(f.msgs, c.dispatch(ctx, n, topic, m))
	}
	return f, nil
}

func (c *fakeClient) Broadcast(_ time.Duration, topic bus.Topic, m bus.Message) ([]bus.Future, error) {
	var ff []bus.Future
	for _, n := range c.nodes {
		if !n.up {
			continue
		}
		ff = append(ff, &fut{msgs: []bus.Message{c.dispatch(bg, n, topic, m)}})
	}
	if len(ff) == 0 {
		return nil, errors.New("no active nodes")
	}
	return ff, nil
}

// ---------------------------------------------------------------------------------------------------------------
// fake schema registry and node registry (only the methods propertyServer reaches)

type fakeRepo struct {
	metadata.Repo
	replicas uint32
}

type fakeGroups struct {
	schema.Group
	replicas uint32
}

type fakeProps struct{ schema.Property }

func (r *fakeRepo) GroupRegistry() schema.Group       { return &fakeGroups{replicas: r.replicas} }
func (r *fakeRepo) PropertyRegistry() schema.Property { return &fakeProps{} }

func (g *fakeGroups) GetGroup(_ context.Context, name string) (*commonv1.Group, error) {
	if name != group {
		return nil, errors.New("no such group")
	}
	return &commonv1.Group{
		Metadata: &commonv1.Metadata{Name: group}, Catalog: commonv1.Catalog_CATALOG_PROPERTY,
		ResourceOpts: &commonv1.ResourceOpts{ShardNum: 1, Replicas: g.replicas},
	}, nil
}

func (p *fakeProps) GetProperty(_ context.Context, md *commonv1.Metadata) (*databasev1.Property, error) {
	if md.Group != group || (md.Name != propName && md.Name != propName2) {
		return nil, errors.New("no such property")
	}
	return &databasev1.Property{
		Metadata: &commonv1.Metadata{Group: group, Name: md.Name},
		Tags: []*databasev1.TagSpec{
			{Name: "a", Type: databasev1.TagType_TAG_TYPE_STRING},
			{Name: "b", Type: databasev1.TagType_TAG_TYPE_STRING},
		},
	}, nil
}

type fakeNR struct{ names []string }

func (f *fakeNR) Locate(_, _ string, _, replicaID uint32) (string, error) {
	if int(replicaID) >= len(f.names) {
		return "", errors.New("no such replica")
	}
	return f.names[replicaID], nil
}

func (f *fakeNR) LocateAll(_ string, _ uint32, replicas int) ([]string, error) {
	return f.names[:replicas], nil
}
func (f *fakeNR) String() string { return "fakeNR" }

// cluster = real liaison propertyServer on top of n real property databases behind their real listeners.
type cluster struct {
	srv   *liaisongrpc.VerifC18Server
	cl    *fakeClient
	nodes []*node
}

func newCluster(base string, n int, tag string) *cluster {
	c := &cluster{cl: &fakeClient{byName: map[string]*node{}}}
	var names []string
	for i := 0; i < n; i++ {
		nd := openNode(base, fmt.Sprintf("%s-n%d", tag, i))
		c.nodes = append(c.nodes, nd)
		c.cl.nodes = append(c.cl.nodes, nd)
		c.cl.byName[nd.name] = nd
		names = append(names, nd.name)
	}
	c.srv = liaisongrpc.VerifC18NewPropertyServer(&fakeRepo{replicas: uint32(n - 1)}, c.cl, &fakeNR{names: names},
		map[string]*commonv1.ResourceOpts{group: {ShardNum: 1, Replicas: uint32(n - 1)}}, 64)
	return c
}
