package main

import (
	"fmt"
	"sort"
	"strings"
	"time"

	"google.golang.org/protobuf/encoding/protojson"
	"google.golang.org/protobuf/proto"

	commonv1 "github.com/apache/skywalking-banyandb/api/proto/banyandb/common/v1"
	modelv1 "github.com/apache/skywalking-banyandb/api/proto/banyandb/model/v1"
	propertyv1 "github.com/apache/skywalking-banyandb/api/proto/banyandb/property/v1"
	propdb "github.com/apache/skywalking-banyandb/banyand/property/db"
)

// ---------------------------------------------------------------------------------------------------------------
// Part (b): replica level. Three real property databases (one shard each). Key K1 receives the stream u1<u2<u3 with
// a user delete D after u_shape; every event is seen by an enumerated subset of replicas. Key K2 receives the
// mirrored stream (w_i, D') seen by exactly the replicas that did NOT see the K1 event (equivariant under replica
// permutation, so symmetry pruning stays valid; gives anti-correlated per-key states to expose cross-key mix-ups).
// Then: explicit-state search over sequences of pairwise exchanges X>Y (X's gossip-latest per key pushed into
// Y's shard.repair).

const revBase = int64(1_700_000_000_000_000_000)

type bcase struct {
	Seq    []int `json:"seq,omitempty"` // exchange indices, see exchanges
	Assign []int `json:"assign"`        // replica bitmask per event, in stream order (NU updates + the delete)
	NU     int   `json:"nu"`            // number of updates in the stream (2 or 3)
	Shape  int   `json:"shape"`         // D comes after u_Shape
	Keys   int   `json:"keys"`          // 2 = with the mirrored key K2
}

// exchanges 0..5: push X>Y (X's gossip-latest into Y's shard.repair; also what the liaison's read repair does).
// exchanges 6..11: gossip session I<>S: replica I initiates (gossip client), replica S is contacted (gossip server);
// the server side is the real repairGossipServer.processPropertySync / processPropertyMissing, and what it sends back
// is repaired into I.
const nEx = 12

var exchanges = [nEx][2]int{{0, 1}, {0, 2}, {1, 0}, {1, 2}, {2, 0}, {2, 1}, {0, 1}, {0, 2}, {1, 0}, {1, 2}, {2, 0}, {2, 1}}

func isSession(e int) bool { return e >= 6 }

func exName(e int) string {
	if isSession(e) {
		return fmt.Sprintf("%d<>%d", exchanges[e][0], exchanges[e][1])
	}
	return fmt.Sprintf("%d>%d", exchanges[e][0], exchanges[e][1])
}

// after exchange e, whose initial information has reached whom
func spread(k [3][3]bool, e int) [3][3]bool {
	sx, sy := exchanges[e][0], exchanges[e][1]
	n := k
	for r := 0; r < 3; r++ {
		n[r][sy] = k[r][sy] || k[r][sx]
		if isSession(e) {
			n[r][sx] = k[r][sx] || k[r][sy]
		}
	}
	return n
}

// stream returns the events of a shape: i>0 = update u_i, 0 = delete.
func stream(nu, shape int) []int {
	var out []int
	for i := 1; i <= nu; i++ {
		out = append(out, i)
		if i == shape {
			out = append(out, 0)
		}
	}
	return out
}

func (c bcase) String() string {
	st := stream(c.NU, c.Shape)
	var sb strings.Builder
	for j, e := range st {
		if e == 0 {
			fmt.Fprintf(&sb, "D@%03b ", c.Assign[j])
		} else {
			fmt.Fprintf(&sb, "u%d@%03b ", e, c.Assign[j])
		}
	}
	for _, e := range c.Seq {
		sb.WriteString(exName(e) + " ")
	}
	return strings.TrimSpace(sb.String())
}

var perms3 = [6][3]int{{0, 1, 2}, {0, 2, 1}, {1, 0, 2}, {1, 2, 0}, {2, 0, 1}, {2, 1, 0}}

func permMask(m int, p [3]int) int {
	o := 0
	for r := 0; r < 3; r++ {
		if m&(1<<r) != 0 {
			o |= 1 << p[r]
		}
	}
	return o
}

// canonicalAssignments: all 8^n assignments of n events modulo replica permutation (lexicographically least
// representative of each orbit).
func canonicalAssignments(n int) [][]int {
	var out [][]int
	total := 1 << (3 * n)
	for x := 0; x < total; x++ {
		a := make([]int, n)
		for j := 0; j < n; j++ {
			a[j] = x >> (3 * (n - 1 - j)) & 7
		}
		least := true
		for _, p := range perms3[1:] {
			for j := 0; j < n; j++ {
				if b := permMask(a[j], p); b != a[j] {
					if b < a[j] {
						least = false
					}
					break
				}
			}
			if !least {
				break
			}
		}
		if least {
			out = append(out, a)
		}
	}
	return out
}

// ---- the two keys of one execution

type bkeys struct {
	ids   [2]string
	names [2]string
	props [2][4]*propertyv1.Property // [key][i] i=1..3
}

var bSerial int

func newKeys() *bkeys {
	bSerial++
	k := &bkeys{}
	for ki := 0; ki < 2; ki++ {
		// K2 has the SAME id as K1 under another property name: keys are group/name/id
		k.ids[ki] = fmt.Sprintf("x%d", bSerial)
		k.names[ki] = [2]string{propName, propName2}[ki]
		for i := 1; i <= 3; i++ {
			k.props[ki][i] = &propertyv1.Property{
				Metadata: &commonv1.Metadata{
					Group: group, Name: k.names[ki],
					ModRevision:    bRev(ki, i),
					CreateRevision: bRev(ki, 1),
				},
				Id: k.ids[ki],
				Tags: []*modelv1.Tag{{Key: "a", Value: &modelv1.TagValue{Value: &modelv1.TagValue_Str{
					Str: &modelv1.Str{Value: fmt.Sprintf("k%d-u%d", ki+1, i)},
				}}}},
			}
		}
	}
	return k
}

func bRev(ki, i int) int64 { return revBase + int64(i)*1000 + int64(ki)*7 }

func revIndex(ki int, rev int64) int {
	for i := 1; i <= 3; i++ {
		if bRev(ki, i) == rev {
			return i
		}
	}
	return -1
}

// logical clock for user-delete times: strictly increasing, always distinct, always below any time.Now() taken later
// inside shard.repair.
var (
	delBase = time.Now().UnixNano()
	delTick int64
)

func nextDelTime() time.Time {
	delTick++
	return time.Unix(0, delBase+delTick)
}

// ---- observation

type bdoc struct {
	Src []byte `json:"-"`
	Rev int    `json:"rev"` // 1..3, -1 = not a revision of this key
	Del int64  `json:"del"` // raw delete time (0 = live)
}

type bval struct {
	Rev  int  // 0 = none
	Tomb bool // tombstone
}

func (v bval) String() string {
	if v.Rev == 0 {
		return "none"
	}
	if v.Tomb {
		return fmt.Sprintf("u%d+T", v.Rev)
	}
	return fmt.Sprintf("u%d", v.Rev)
}

func (v bval) kind() string {
	switch {
	case v.Rev == 0:
		return "none"
	case v.Tomb:
		return "tomb"
	}
	return "live"
}

func less(a, b bval) bool {
	if a.Rev != b.Rev {
		return a.Rev < b.Rev
	}
	return !a.Tomb && b.Tomb
}

func join(a, b bval) bval {
	if less(a, b) {
		return b
	}
	return a
}

type bstate [3][2][]bdoc

func top(docs []bdoc) bval {
	v := bval{}
	for _, d := range docs {
		c := bval{Rev: d.Rev, Tomb: d.Del > 0}
		if d.Rev > v.Rev || (d.Rev == v.Rev && less(v, c)) {
			v = c
		}
	}
	return v
}

func sameDocs(a, b []bdoc) bool {
	if len(a) != len(b) {
		return false
	}
	for i := range a {
		if a[i].Rev != b[i].Rev || a[i].Del != b[i].Del || string(a[i].Src) != string(b[i].Src) {
			return false
		}
	}
	return true
}

// ---- violations found by one execution

type viol struct {
	Artefact any    `json:"artefact"`
	Key      string `json:"key"`
}

type vsink struct {
	byKey map[string]int
	list  []viol
}

func (s *vsink) add(key string, artefact any) {
	if s.byKey == nil {
		s.byKey = map[string]int{}
	}
	s.byKey[key]++
	if s.byKey[key] <= 2 {
		s.list = append(s.list, viol{Key: key, Artefact: artefact})
	}
}

// ---- execution on the real replicas

func ids(k *bkeys, ki, upto int) [][]byte {
	var out [][]byte
	for i := 1; i <= upto; i++ {
		out = append(out, propdb.GetPropertyID(k.props[ki][i]))
	}
	return out
}

// expected value of a replica after the setup phase (plain reference).
func expectSetup(c bcase, ki, r int) bval {
	st := stream(c.NU, c.Shape)
	maxSeen, sawD := 0, false
	for j, e := range st {
		m := c.Assign[j]
		if ki == 1 {
			m = ^m & 7
		}
		if m&(1<<r) == 0 {
			continue
		}
		if e == 0 {
			sawD = true
		} else {
			maxSeen = e
		}
	}
	if maxSeen == 0 {
		return bval{}
	}
	return bval{Rev: maxSeen, Tomb: sawD && maxSeen <= c.Shape}
}

// bexec is one execution: setup on fresh keys, then exchanges applied one by one, each judged by the oracle.
type bexec struct {
	reps       []*node
	k          *bkeys
	sink       *vsink
	out        *bOutcomes
	c          bcase // c.Seq grows with every step
	st         bstate
	init       [3][2]bval
	knows      [3][3]bool // knows[x][y]: x's initial information has reached y along a time-respecting path
	lastK1Viol string     // step-oracle violation of the last step on K1 ("" = none)
	nk         int        // 2 = with the mirrored key K2, 1 = K1 only
	cause      string     // first step-oracle violation of this execution ("" = none)
}

func (x *bexec) art() any {
	cc := x.c
	cc.Seq = append([]int{}, x.c.Seq...)
	return map[string]any{"part": "b", "case": cc, "text": cc.String()}
}

func observeOne(rep *node, k *bkeys, ki int) []bdoc {
	res, err := rep.db.Query(bg, &propertyv1.QueryRequest{Groups: []string{group}, Name: k.names[ki], Ids: []string{k.ids[ki]}, Limit: 100})
	if err != nil {
		fatal("Query: %v", err)
	}
	docs := make([]bdoc, 0, len(res))
	for _, q := range res {
		docs = append(docs, bdoc{Rev: revIndex(ki, q.Timestamp()), Del: q.DeleteTime(), Src: q.Source()})
	}
	sort.Slice(docs, func(i, j int) bool {
		if docs[i].Rev != docs[j].Rev {
			return docs[i].Rev < docs[j].Rev
		}
		return docs[i].Del < docs[j].Del
	})
	return docs
}

func startB(reps []*node, c bcase, nk int, sink *vsink, out *bOutcomes) *bexec {
	x := &bexec{reps: reps, k: newKeys(), sink: sink, out: out, c: bcase{NU: c.NU, Shape: c.Shape, Assign: c.Assign, Keys: nk}, nk: nk}
	k := x.k
	st := stream(c.NU, c.Shape)
	// setup: every event, in stream order, on the replicas that saw it
	for j, e := range st {
		for r := 0; r < 3; r++ {
			for ki := 0; ki < x.nk; ki++ {
				m := c.Assign[j]
				if ki == 1 {
					m = ^m & 7
				}
				if m&(1<<r) == 0 {
					continue
				}
				if e == 0 {
					// user delete issued after u_shape: the liaison broadcasts the ids of the revisions it found
					if err := reps[r].db.Delete(bg, ids(k, ki, c.Shape), nextDelTime()); err != nil {
						fatal("Delete: %v", err)
					}
					continue
				}
				p := k.props[ki][e]
				if err := reps[r].db.Update(bg, 0, propdb.GetPropertyID(p), p); err != nil {
					fatal("Update: %v", err)
				}
				if e > 1 {
					// Apply's deferred cleanup: remove(ids of the older revisions)
					if err := reps[r].db.Delete(bg, ids(k, ki, e-1), nextDelTime()); err != nil {
						fatal("Delete: %v", err)
					}
				}
			}
		}
	}
	for r := 0; r < 3; r++ {
		x.knows[r][r] = true
		for ki := 0; ki < x.nk; ki++ {
			x.st[r][ki] = observeOne(reps[r], k, ki)
			x.init[r][ki] = top(x.st[r][ki])
			if w := expectSetup(c, ki, r); x.init[r][ki] != w {
				sink.add(fmt.Sprintf("b/setup update+delete result on a replica: got=%s want=%s", x.init[r][ki].kind(), w.kind()), x.art())
			}
		}
	}
	checkDocs(x, "setup")
	return x
}

// step applies exchange e and judges it. Push X>Y: X's gossip-latest of every key goes into Y's shard.repair.
// Session I<>S: see VerifC18GossipSession. Oracle: every replica that takes part as a receiver (Y; both I and S in a
// session) ends with the join of the two values; nothing else changes.
func (x *bexec) step(e int) {
	sx, sy := exchanges[e][0], exchanges[e][1]
	x.c.Seq = append(x.c.Seq, e)
	x.lastK1Viol = ""
	pre := x.st
	for ki := 0; ki < x.nk; ki++ {
		if isSession(e) {
			rounds, trace, cut, err := propdb.VerifC18GossipSession(bg, x.reps[sx].db, x.reps[sy].db, group, 0, x.k.names[ki], x.k.ids[ki])
			if err != nil {
				fatal("gossip session: %v", err)
			}
			x.out.add(fmt.Sprintf("session:%s", strings.Join(trace, "/")))
			if cut {
				// classify the state the ping-pong happens in (read back from the replicas)
				a, b := top(pre[sx][ki]), top(pre[sy][ki])
				dup := false
				for i := 1; i < len(pre[sy][ki]); i++ {
					dup = dup || pre[sy][ki][i].Rev == pre[sy][ki][i-1].Rev
				}
				eq := "different-revisions"
				if a.Rev == b.Rev {
					eq = "equal-rev"
				}
				x.sink.add(fmt.Sprintf("b/session does not terminate (cut after %d server rounds): %s initiator=%s server=%s server-stores-two-documents-of-one-revision=%v",
					rounds, eq, a.kind(), b.kind(), dup), x.art())
			}
			continue
		}
		id, p, dt, found, err := propdb.VerifC18GossipLatest(bg, x.reps[sx].db, group, 0, x.k.names[ki], x.k.ids[ki])
		if err != nil {
			fatal("gossip latest: %v", err)
		}
		if !found {
			x.out.add("send:nothing")
			continue
		}
		updated, newer, err := propdb.VerifC18Repair(bg, x.reps[sy].db, group, 0, id, p, dt)
		if err != nil {
			fatal("repair: %v", err)
		}
		x.out.add(fmt.Sprintf("repair:updated=%v,refused-with-own-newer=%v", updated, newer != nil))
	}
	for ki := 0; ki < x.nk; ki++ {
		x.st[sy][ki] = observeOne(x.reps[sy], x.k, ki)
		if isSession(e) {
			x.st[sx][ki] = observeOne(x.reps[sx], x.k, ki)
		}
	}
	x.knows = spread(x.knows, e)
	for ki := 0; ki < x.nk; ki++ {
		a, b := top(pre[sx][ki]), top(pre[sy][ki])
		want := join(a, b)
		rel := "equal-rev"
		switch {
		case a.Rev == 0:
			rel = "sent-none"
		case b.Rev == 0:
			rel = "recv-none"
		case a.Rev > b.Rev:
			rel = "sent-newer"
		case a.Rev < b.Rev:
			rel = "sent-older"
		}
		judge := func(kind string, old, got bval) {
			if got == want {
				return
			}
			which := "other"
			switch got {
			case a:
				which = "sent-value"
			case b:
				which = "recv-value"
			}
			verdict := "not-propagated"
			if less(got, old) {
				verdict = "LOWERED"
			}
			key := fmt.Sprintf("b/%s %s rel=%s recv=%s sent=%s got=%s(%s) want=%s key=K%d",
				kind, verdict, rel, b.kind(), a.kind(), which, got.kind(), want.kind(), ki+1)
			x.sink.add(key, x.art())
			if x.cause == "" {
				x.cause = key
			}
			if ki == 0 {
				x.lastK1Viol = key
			}
		}
		if isSession(e) {
			// a = initiator's value (sent first), b = contacted server's value
			x.out.add(fmt.Sprintf("session-step:%s server=%s initiator=%s", rel, b.kind(), a.kind()))
			judge("session server-side", b, top(x.st[sy][ki]))
			judge("session initiator-side", a, top(x.st[sx][ki]))
		} else {
			x.out.add(fmt.Sprintf("step:%s recv=%s sent=%s", rel, b.kind(), a.kind()))
			judge("exchange", b, top(x.st[sy][ki]))
		}
	}
	checkDocs(x, "exchange")
	// convergence, literally: once every ordered pair is connected in time order, every replica holds the join of
	// all initial values
	if allKnow(x.knows) {
		x.out.add("connected-prefix")
		for ki := 0; ki < x.nk; ki++ {
			want := join(join(x.init[0][ki], x.init[1][ki]), x.init[2][ki])
			for r := 0; r < 3; r++ {
				if g := top(x.st[r][ki]); g != want {
					x.sink.add(fmt.Sprintf("b/convergence connected sequence but a replica holds %s, join of all is %s; first step violation on the way: [%s]",
						g.kind(), want.kind(), x.cause), x.art())
				}
			}
		}
	}
}

// finish re-reads every replica: exchanges must have changed nothing but their receivers (whose state was re-read
// after each step).
func (x *bexec) finish() {
	for r := 0; r < 3; r++ {
		for ki := 0; ki < x.nk; ki++ {
			if !sameDocs(x.st[r][ki], observeOne(x.reps[r], x.k, ki)) {
				x.sink.add("b/exchange changed a replica other than its receiver, or another key", x.art())
			}
		}
	}
}

func allKnow(k [3][3]bool) bool {
	for r := 0; r < 3; r++ {
		for q := 0; q < 3; q++ {
			if !k[r][q] {
				return false
			}
		}
	}
	return true
}

// graph digest of key K1: per replica the set of (revision, tombstone) pairs. shard.repair and the gossip sender read
// nothing else of a key's documents except delete times, which they only test for equality when the revisions are
// equal - and then either outcome leaves the same (revision, tombstone) sets. Every executed step is judged by the
// oracle regardless of the digest; the digest only decides which steps still have to be executed.
func (x *bexec) digest() string {
	var sb strings.Builder
	for r := 0; r < 3; r++ {
		last := ""
		for _, d := range x.st[r][0] {
			s := fmt.Sprintf("%d", d.Rev)
			if d.Del > 0 {
				s += "t"
			}
			if s != last {
				sb.WriteString(s + ",")
			}
			last = s
		}
		sb.WriteByte('/')
	}
	return sb.String()
}

// checkDocs: structural invariants of every replica's documents for a key.
func checkDocs(x *bexec, when string) {
	k, st, sink, art := x.k, &x.st, x.sink, x.art
	for r := 0; r < 3; r++ {
		for ki := 0; ki < x.nk; ki++ {
			docs := st[r][ki]
			t := top(docs)
			live := 0
			for i, d := range docs {
				if d.Rev < 0 {
					sink.add("b/foreign-revision under key ("+when+")", art())
					continue
				}
				if i > 0 && docs[i-1].Rev == d.Rev {
					// two stored documents with the same _id (same revision). Both tombstones: invisible to every
					// reader (recorded as an outcome, see NOTES.md). One live, one tombstone: the version is ambiguous.
					if (docs[i-1].Del > 0) != (d.Del > 0) {
						sink.add("b/dup-revision one revision stored both live and tombstoned on a replica ("+when+")", art())
					} else {
						x.out.add("observed:two-documents-of-one-revision-same-tombstone-state")
					}
				}
				if d.Del == 0 {
					live++
					if d.Rev < t.Rev {
						sink.add("b/older-not-tombstoned live document below the newest revision ("+when+")", art())
					}
				}
				var p propertyv1.Property
				if err := protojson.Unmarshal(d.Src, &p); err != nil {
					sink.add("b/payload unparsable ("+when+")", art())
					continue
				}
				if !proto.Equal(&p, k.props[ki][d.Rev]) {
					sink.add("b/payload-mismatch stored source differs from the revision's payload ("+when+")", art())
				}
			}
			if live > 1 {
				sink.add("b/two-live-versions of one key on a replica ("+when+")", art())
			}
		}
	}
}

// ---- outcome statistics

type bOutcomes struct{ M map[string]int }

func (o *bOutcomes) add(k string) {
	if o.M == nil {
		o.M = map[string]int{}
	}
	o.M[k]++
}

// ---- explicit-state search for one (shape, assignment)

type gnode struct {
	digest string
	path   []int // a shortest known exchange sequence reaching the state
	vals   [3]bval
	succ   [nEx]int    // -1 = not executed yet
	sviol  [nEx]string // step-oracle violation on K1 observed when the transition was executed
	id     int
}

type bResult struct {
	Outcomes      map[string]int `json:"outcomes"`
	Sample        string         `json:"sample,omitempty"`
	Viol          []viol         `json:"viol,omitempty"`
	ViolCounts    map[string]int `json:"viol_counts,omitempty"`
	Cases         int            `json:"cases"`
	NontrivCases  int            `json:"nontriv_cases"`
	States        int            `json:"states"`
	Transitions   int            `json:"transitions"`
	Changing      int            `json:"changing_transitions"`
	Executions    int            `json:"executions"`
	ExchangeSteps int            `json:"exchange_steps"`
	SeqWalked     int            `json:"seq_walked"`
	SeqConnected  int            `json:"seq_connected"`
	MaxStates     int            `json:"max_states"`
	MaxDepth      int            `json:"max_depth"`
	CrossSeqs     int            `json:"cross_seqs"`
}

// exploreB builds the complete reachable state graph of a case under arbitrary exchange sequences (it is finite:
// information only grows) by transition tours on the real replicas: every (state, exchange) pair is executed at
// least once; no-op exchanges are tested in place, state-changing ones move the execution on.
func exploreB(reps []*node, c bcase, depth int, res *bResult, sink *vsink) []*gnode {
	out := &bOutcomes{M: res.Outcomes}
	defer func() { res.Outcomes = out.M }()
	var nodes []*gnode
	byDigest := map[string]int{}
	intern := func(x *bexec, path []int) int {
		dg := x.digest()
		if id, ok := byDigest[dg]; ok {
			return id
		}
		n := &gnode{digest: dg, id: len(nodes), path: append([]int{}, path...)}
		for e := range n.succ {
			n.succ[e] = -1
		}
		for r := 0; r < 3; r++ {
			n.vals[r] = top(x.st[r][0])
		}
		nodes = append(nodes, n)
		byDigest[dg] = n.id
		return n.id
	}
	open := func(n *gnode) int {
		for e := 0; e < nEx; e++ {
			if n.succ[e] < 0 {
				return e
			}
		}
		return -1
	}
	// route: first exchange of a shortest known path from cur to a state that still has unexecuted exchanges
	route := func(cur int) int {
		type qe struct{ id, first int }
		seen := map[int]bool{cur: true}
		q := []qe{}
		for e := 0; e < nEx; e++ {
			if t := nodes[cur].succ[e]; t >= 0 && !seen[t] {
				seen[t] = true
				q = append(q, qe{t, e})
			}
		}
		for len(q) > 0 {
			h := q[0]
			q = q[1:]
			if open(nodes[h.id]) >= 0 {
				return h.first
			}
			for e := 0; e < nEx; e++ {
				if t := nodes[h.id].succ[e]; t >= 0 && !seen[t] {
					seen[t] = true
					q = append(q, qe{t, h.first})
				}
			}
		}
		return -1
	}
	for {
		target := -1
		for _, n := range nodes {
			if open(n) >= 0 {
				target = n.id
				break
			}
		}
		if len(nodes) > 0 && target < 0 {
			break
		}
		nk := 1
		if len(nodes) == 0 {
			nk = 2 // the mirrored key rides along on the first execution of every case
		}
		x := startB(reps, c, nk, sink, out)
		res.Executions++
		cur := intern(x, nil)
		if cur != 0 {
			sink.add("b/nondeterministic: same setup, different replica contents", x.art())
			return nil
		}
		if target > 0 {
			for _, e := range nodes[target].path {
				x.step(e)
				res.ExchangeSteps++
				cur = nodes[cur].succ[e]
				if x.digest() != nodes[cur].digest {
					sink.add("b/nondeterministic: same history, different replica contents", x.art())
					return nil
				}
			}
		}
		for steps := 0; steps < 200; steps++ {
			e := open(nodes[cur])
			if e < 0 {
				e = route(cur)
				if e < 0 {
					break
				}
				x.step(e)
				res.ExchangeSteps++
				cur = nodes[cur].succ[e]
				if x.digest() != nodes[cur].digest {
					sink.add("b/nondeterministic: same history, different replica contents", x.art())
					return nil
				}
				continue
			}
			x.step(e)
			res.ExchangeSteps++
			t := intern(x, append(append([]int{}, nodes[cur].path...), e))
			nodes[cur].succ[e] = t
			nodes[cur].sviol[e] = x.lastK1Viol
			res.Transitions++
			if t != cur {
				res.Changing++
			}
			cur = t
		}
		x.finish()
		if len(nodes) > 400 {
			sink.add("b/state graph does not close (more than 400 states)", x.art())
			return nil
		}
	}
	res.Cases++
	res.States += len(nodes)
	for _, n := range nodes {
		if len(n.path) > res.MaxDepth {
			res.MaxDepth = len(n.path)
		}
	}
	if nodes[0].vals[0] != nodes[0].vals[1] || nodes[0].vals[1] != nodes[0].vals[2] {
		res.NontrivCases++
	}
	if len(nodes) > res.MaxStates {
		res.MaxStates = len(nodes)
		res.Sample = fmt.Sprintf("%s: %d states; K1 init r0=%s r1=%s r2=%s", c.String(), len(nodes), nodes[0].vals[0], nodes[0].vals[1], nodes[0].vals[2])
	}
	// walk EVERY exchange sequence of length <= depth over the state graph observed from the implementation and
	// check convergence literally on each connected one
	want := join(join(nodes[0].vals[0], nodes[0].vals[1]), nodes[0].vals[2])
	var walk func(sid, d int, knows [3][3]bool, seq []int, cause string)
	walk = func(sid, d int, knows [3][3]bool, seq []int, cause string) {
		if d == depth {
			res.SeqWalked++
			if allKnow(knows) {
				res.SeqConnected++
			}
			return
		}
		for e := 0; e < nEx; e++ {
			kn := spread(knows, e)
			t := nodes[sid].succ[e]
			cs := cause
			if cs == "" {
				cs = nodes[sid].sviol[e]
			}
			if allKnow(kn) {
				for r := 0; r < 3; r++ {
					if g := nodes[t].vals[r]; g != want {
						cc := c
						cc.Keys = 1
						cc.Seq = append(append([]int{}, seq...), e)
						sink.add(fmt.Sprintf("b/convergence connected sequence but a replica holds %s, join of all is %s; first step violation on the way: [%s]",
							g.kind(), want.kind(), cs), map[string]any{"part": "b", "case": cc, "text": cc.String()})
					}
				}
			}
			walk(t, d+1, kn, append(seq, e), cs)
		}
	}
	var k0 [3][3]bool
	for r := 0; r < 3; r++ {
		k0[r][r] = true
	}
	walk(0, 0, k0, nil, "")
	return nodes
}

// crossCheckB executes EVERY exchange sequence of exactly the given length individually on the real replicas (no
// state merging), judges every step, and compares the states it passes through with the graph's prediction.
func crossCheckB(reps []*node, c bcase, nodes []*gnode, length int, res *bResult, sink *vsink) {
	out := &bOutcomes{M: res.Outcomes}
	defer func() { res.Outcomes = out.M }()
	seq := make([]int, length)
	for {
		x := startB(reps, c, 1, sink, out)
		res.Executions++
		cur := 0
		for _, e := range seq {
			x.step(e)
			res.ExchangeSteps++
			cur = nodes[cur].succ[e]
			if x.digest() != nodes[cur].digest {
				sink.add("b/state merging unsound: individually executed sequence leaves the predicted state graph", x.art())
				break
			}
		}
		x.finish()
		res.CrossSeqs++
		i := length - 1
		for ; i >= 0; i-- {
			seq[i]++
			if seq[i] < nEx {
				break
			}
			seq[i] = 0
		}
		if i < 0 {
			return
		}
	}
}
