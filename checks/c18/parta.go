package main

import (
	"fmt"
	"sort"
	"strings"

	"google.golang.org/protobuf/encoding/protojson"

	commonv1 "github.com/apache/skywalking-banyandb/api/proto/banyandb/common/v1"
	modelv1 "github.com/apache/skywalking-banyandb/api/proto/banyandb/model/v1"
	propertyv1 "github.com/apache/skywalking-banyandb/api/proto/banyandb/property/v1"
)

// ---------------------------------------------------------------------------------------------------------------
// Part (a): map semantics of the liaison's real propertyServer.Apply/Delete/Query on top of real data-node
// listeners and real property databases.
//   cfg 1: one data node, copies=1. Alphabet: merge/replace x tag sets {a},{b},{a,b}, delete. Query after every op.
//   cfg 2: two data nodes, copies=2; node n1 may be down for an operation (it then misses it), n0 never is, so n0
//          always holds the full history and the plain map stays the reference. Alphabet: merge{a}, merge{b},
//          replace{a}, delete, each with n1 up or down, plus "RR" (query with both up, then run the read-repair
//          tasks the query queued).

type aop struct {
	Kind string `json:"k"`           // M (merge) R (replace) D (delete) RR (query + run read repair)
	Tags string `json:"t,omitempty"` // "a","b","ab"
	Down bool   `json:"down,omitempty"`
}

func (o aop) String() string {
	s := o.Kind
	if o.Tags != "" {
		s += "{" + o.Tags + "}"
	}
	if o.Down {
		s += "@n0"
	}
	return s
}

func alphabetA(cfg int) []aop {
	if cfg == 1 {
		return []aop{
			{Kind: "M", Tags: "a"}, {Kind: "M", Tags: "b"}, {Kind: "M", Tags: "ab"},
			{Kind: "R", Tags: "a"}, {Kind: "R", Tags: "b"}, {Kind: "R", Tags: "ab"}, {Kind: "D"},
		}
	}
	var out []aop
	for _, down := range []bool{false, true} {
		out = append(out, aop{Kind: "M", Tags: "a", Down: down}, aop{Kind: "M", Tags: "b", Down: down},
			aop{Kind: "R", Tags: "a", Down: down}, aop{Kind: "D", Down: down})
	}
	return append(out, aop{Kind: "RR"})
}

type acase struct {
	Ops []aop `json:"ops"`
	Cfg int   `json:"cfg"`
}

func (c acase) String() string {
	var p []string
	for _, o := range c.Ops {
		p = append(p, o.String())
	}
	return fmt.Sprintf("cfg%d: %s", c.Cfg, strings.Join(p, " "))
}

type aResult struct {
	Outcomes   map[string]int `json:"outcomes"`
	ViolCounts map[string]int `json:"viol_counts,omitempty"`
	Sample     string         `json:"sample,omitempty"`
	Viol       []viol         `json:"viol,omitempty"`
	Histories  int            `json:"histories"`
	Ops        int            `json:"ops"`
	Queries    int            `json:"queries"`
	Nontrivial int            `json:"nontrivial"`
	Aborted    int            `json:"aborted"`
	Family     int            `json:"family"`
}

var aSerial int

func tagMap(p *propertyv1.Property) (map[string]string, bool) {
	m := map[string]string{}
	dup := false
	for _, t := range p.Tags {
		if _, ok := m[t.Key]; ok {
			dup = true
		}
		m[t.Key] = t.Value.GetStr().GetValue()
	}
	return m, dup
}

func fmtTags(m map[string]string) string {
	var ks []string
	for k := range m {
		ks = append(ks, k)
	}
	sort.Strings(ks)
	return strings.Join(ks, "")
}

// ntop is the newest stored revision of the key on one node: the step of the apply that wrote it (encoded in its
// tag values) and its tombstone state.
type ntop struct {
	rev  int64
	step int
	has  bool
	tomb bool
}

func (t ntop) String() string {
	switch {
	case !t.has:
		return "nothing"
	case t.tomb:
		return fmt.Sprintf("apply#%d+tombstone", t.step)
	}
	return fmt.Sprintf("apply#%d", t.step)
}

func (t ntop) kind() string {
	switch {
	case !t.has:
		return "nothing"
	case t.tomb:
		return "a tombstone"
	}
	return "a live value"
}

// nodeTops reads the newest revision of the key back from every node's database.
func nodeTops(cl *cluster, name, id string) []ntop {
	tops := make([]ntop, len(cl.nodes))
	for i := range cl.nodes {
		res, err := cl.nodes[i].db.Query(bg, &propertyv1.QueryRequest{Groups: []string{group}, Name: name, Ids: []string{id}, Limit: 100})
		if err != nil {
			fatal("node query: %v", err)
		}
		for _, q := range res {
			if tops[i].has && q.Timestamp() <= tops[i].rev {
				continue
			}
			var p propertyv1.Property
			if err := protojson.Unmarshal(q.Source(), &p); err != nil || len(p.Tags) == 0 {
				fatal("node source: %v", err)
			}
			t := ntop{has: true, rev: q.Timestamp(), tomb: q.DeleteTime() > 0, step: -1}
			// the newest tag value of the document carries the step of the apply that wrote it
			for _, tg := range p.Tags {
				var st int
				var c byte
				if n, _ := fmt.Sscanf(tg.Value.GetStr().GetValue(), "s%d-%c", &st, &c); n == 2 && st > t.step {
					t.step = st
				}
			}
			tops[i] = t
		}
	}
	return tops
}

// tieOf classifies "same newest revision, tombstone on one node, live on the other". It is the situation in which
// the liaison's revision-only comparisons have no defined winner. ref is what the plain per-node reference
// predicts: a tie the reference predicts comes from a delete the node missed; any other tie is unexplained.
func tieOf(act, ref []ntop) string {
	if len(act) < 2 {
		return "n/a"
	}
	if !(act[0].has && act[1].has && act[0].rev == act[1].rev && act[0].tomb != act[1].tomb) {
		return "none"
	}
	if ref[0].has && ref[1].has && ref[0].step == ref[1].step && ref[0].tomb != ref[1].tomb {
		return "same-revision-tomb-vs-live"
	}
	return "UNEXPLAINED-same-revision-tomb-vs-live"
}

func runA(cl *cluster, c acase, res *aResult, sink *vsink) {
	aSerial++
	id := fmt.Sprintf("a%d-%d", c.Cfg, aSerial)
	art := func() any { return map[string]any{"part": "a", "case": c, "text": c.String()} }
	// a history is judged up to its first violation (every prefix is enumerated as well, so nothing is lost; what
	// follows a wrong state is not meaningful)
	outer := sink
	sink = &vsink{}
	defer func() {
		for _, v := range sink.list {
			outer.add(v.Key, v.Artefact)
		}
	}()
	// per-node reference (cfg 2): newest revision (by step of the apply) and tombstone state each node should hold
	ref := make([]ntop, len(cl.nodes))
	tieBefore := "none"
	tieNow := func() string {
		if t := tieOf(nodeTops(cl, propName, id), ref); t != "none" {
			return t
		}
		return tieBefore
	}
	out := func(k string) {
		if res.Outcomes == nil {
			res.Outcomes = map[string]int{}
		}
		res.Outcomes[k]++
	}
	// sibling: an unrelated property with the SAME id under another property name (keys are group/name/id), applied
	// with every node reachable before the history starts. Nothing in the history may touch it.
	sibResp, sibErr := cl.srv.Apply(bg, &propertyv1.ApplyRequest{Strategy: propertyv1.ApplyRequest_STRATEGY_MERGE, Property: &propertyv1.Property{
		Metadata: &commonv1.Metadata{Group: group, Name: propName2}, Id: id,
		Tags: []*modelv1.Tag{{Key: "a", Value: &modelv1.TagValue{Value: &modelv1.TagValue_Str{Str: &modelv1.Str{Value: "sib"}}}}},
	}})
	if sibErr != nil || !sibResp.Created {
		sink.add("a/sibling: apply of the same-id property under another name failed or was not a creation", art())
		return
	}
	sibRev := nodeTops(cl, propName2, id)
	checkSibling := func(after string) {
		for n, t := range nodeTops(cl, propName2, id) {
			if !t.has || t.tomb || t.rev != sibRev[n].rev {
				sink.add(fmt.Sprintf("a/sibling: node n%d no longer holds the untouched same-id property of another name live (holds %s) (cfg=%d after=%s)",
					n, t.kind(), c.Cfg, after), art())
			}
		}
	}
	// plain reference
	live := false
	tags := map[string]string{}
	var createRev, lastMod int64
	deletesSeen, mergesKept := 0, 0
	setUp := func(down bool) {
		if len(cl.nodes) > 1 {
			cl.nodes[1].up = !down
		}
	}
	query := func(order *propertyv1.QueryOrder) []*propertyv1.Property {
		resp, err := cl.srv.Query(bg, &propertyv1.QueryRequest{Groups: []string{group}, Name: propName, Ids: []string{id}, OrderBy: order})
		res.Queries++
		if err != nil {
			sink.add("a/query error: "+errClass(err), art())
			return nil
		}
		return resp.Properties
	}
	check := func(after aop, view string, props []*propertyv1.Property, fresh bool, sorted bool) {
		bad := func(msg string) {
			sink.add(fmt.Sprintf("a/%s (cfg=%d view=%s after=%s tie=%s)", msg, c.Cfg, view, after.Kind, tieNow()), art())
		}
		if !live {
			if len(props) != 0 {
				bad("query: deleted-or-absent key is returned")
			}
			return
		}
		if len(props) == 0 {
			bad("query: live key is not returned")
			return
		}
		if len(props) > 1 {
			bad("query: more than one version of one key returned")
			return
		}
		p := props[0]
		got, dup := tagMap(p)
		if dup {
			bad("query: duplicate tag key in value")
		}
		same := len(got) == len(tags)
		for k, v := range tags {
			same = same && got[k] == v
		}
		if !same {
			kind := "stale-or-wrong-values"
			switch {
			case len(got) > len(tags):
				kind = "extra-tags"
			case len(got) < len(tags):
				kind = "missing-tags"
			}
			bad("query: value differs from latest: " + kind)
		}
		if sorted {
			return // revisions are judged on the unsorted observation of the step
		}
		md := p.Metadata
		if fresh {
			createRev = md.CreateRevision
			if md.CreateRevision != md.ModRevision {
				bad("revision: create_revision != mod_revision on creation")
			}
		} else if md.CreateRevision != createRev {
			bad("revision: create_revision changed across updates of a live key")
		}
		if view == "both" && (after.Kind == "M" || after.Kind == "R") {
			if md.ModRevision <= lastMod {
				bad("revision: mod_revision not strictly increasing")
			}
			lastMod = md.ModRevision
		} else if md.ModRevision != lastMod {
			bad("revision: mod_revision changed without an apply")
		}
	}
	for step, o := range c.Ops {
		res.Ops++
		fresh := false
		if c.Cfg == 2 {
			tieBefore = tieOf(nodeTops(cl, propName, id), ref)
		}
		// per-node reference: which nodes the operation reaches
		reach := []int{0}
		if len(cl.nodes) > 1 && !o.Down {
			reach = append(reach, 1)
		}
		switch o.Kind {
		case "M", "R":
			for _, n := range reach {
				ref[n] = ntop{has: true, step: step}
			}
		case "D":
			for _, n := range reach {
				if ref[n].has {
					ref[n].tomb = true
				}
			}
		case "RR":
			// read repair: a node that lacks the newest revision receives it (value or tombstone); a same-revision
			// tie is not repaired (both nodes "have" the revision)
			if len(ref) == 2 && ref[0].has && (!ref[1].has || ref[1].step < ref[0].step) {
				ref[1] = ref[0]
			}
		}
		switch o.Kind {
		case "M", "R":
			setUp(o.Down)
			p := &propertyv1.Property{Metadata: &commonv1.Metadata{Group: group, Name: propName}, Id: id}
			newVals := map[string]string{}
			for _, t := range o.Tags {
				v := fmt.Sprintf("s%d-%c", step, t)
				newVals[string(t)] = v
				p.Tags = append(p.Tags, &modelv1.Tag{Key: string(t), Value: &modelv1.TagValue{Value: &modelv1.TagValue_Str{Str: &modelv1.Str{Value: v}}}})
			}
			st := propertyv1.ApplyRequest_STRATEGY_MERGE
			if o.Kind == "R" {
				st = propertyv1.ApplyRequest_STRATEGY_REPLACE
			}
			resp, err := cl.srv.Apply(bg, &propertyv1.ApplyRequest{Property: p, Strategy: st})
			setUp(false)
			if err != nil {
				sink.add("a/apply error: "+errClass(err), art())
				return
			}
			fresh = !live
			if !live || o.Kind == "R" {
				tags = map[string]string{}
			} else if len(tags) > len(newVals) || !subset(tags, newVals) {
				mergesKept++
			}
			for k, v := range newVals {
				tags[k] = v
			}
			live = true
			out(fmt.Sprintf("apply:%s created=%v tags=%d", o.Kind, resp.Created, resp.TagsNum))
			if resp.Created != fresh {
				sink.add(fmt.Sprintf("a/apply: response created=%v but key was live=%v (cfg=%d tie=%s)", resp.Created, !fresh, c.Cfg, tieNow()), art())
			}
			if int(resp.TagsNum) != len(tags) {
				sink.add(fmt.Sprintf("a/apply: response tags_num differs from merged value (cfg=%d kind=%s tie=%s)", c.Cfg, o.Kind, tieNow()), art())
			}
		case "D":
			setUp(o.Down)
			resp, err := cl.srv.Delete(bg, &propertyv1.DeleteRequest{Group: group, Name: propName, Id: id})
			setUp(false)
			switch {
			case err != nil && !live && strings.Contains(err.Error(), "id is empty"):
				// deleting an absent/already deleted key: the liaison broadcasts an empty id list and the data node
				// rejects it; no state change. Recorded, not judged (the property says nothing about the response).
				out("delete:nothing-to-delete-error")
			case err != nil:
				sink.add("a/delete error: "+errClass(err), art())
				return
			default:
				out(fmt.Sprintf("delete:deleted=%v waslive=%v", resp.Deleted, live))
			}
			if live {
				deletesSeen++
			}
			live = false
			tags = map[string]string{}
		case "RR":
			_ = query(nil)
			n, err := cl.srv.VerifC18DrainRepairs(bg, false)
			if err != nil {
				sink.add("a/read-repair error: "+errClass(err), art())
			}
			out(fmt.Sprintf("readrepair:tasks=%d", n))
		}
		// observations (side-effect free: queued read-repair tasks are discarded)
		check(o, "both", query(nil), fresh, false)
		if live {
			if _, ok := tags["a"]; ok {
				check(o, "both-sorted-asc", query(&propertyv1.QueryOrder{TagName: "a", Sort: modelv1.Sort_SORT_ASC}), fresh, true)
				check(o, "both-sorted-desc", query(&propertyv1.QueryOrder{TagName: "a", Sort: modelv1.Sort_SORT_DESC}), fresh, true)
			}
		}
		if len(cl.nodes) > 1 {
			setUp(true)
			check(o, "n0-only", query(nil), fresh, false)
			setUp(false)
		}
		if _, err := cl.srv.VerifC18DrainRepairs(bg, true); err != nil {
			fatal("drain: %v", err)
		}
		if len(sink.list) == 0 {
			checkSibling(o.Kind)
		}
		if len(sink.list) == 0 && c.Cfg == 2 {
			act := nodeTops(cl, propName, id)
			for n := range act {
				if act[n].has != ref[n].has || (act[n].has && (act[n].step != ref[n].step || act[n].tomb != ref[n].tomb)) {
					rel := "same revision"
					switch {
					case !act[n].has || !ref[n].has:
						rel = "n/a"
					case act[n].step < ref[n].step:
						rel = "held revision is older"
					case act[n].step > ref[n].step:
						rel = "held revision is newer"
					}
					sink.add(fmt.Sprintf("a/replica: node n%d holds %s, the reference says %s; %s (cfg=2 after=%s tie=%s)",
						n, act[n].kind(), ref[n].kind(), rel, o.Kind, tieOf(act, ref)), art())
				}
			}
		}
		if len(sink.list) > 0 {
			res.Aborted++
			break
		}
	}
	if len(sink.list) == 0 {
		// the sibling through the liaison: exactly its value, and never mixed into the key's own results (judged above)
		resp, err := cl.srv.Query(bg, &propertyv1.QueryRequest{Groups: []string{group}, Name: propName2, Ids: []string{id}})
		res.Queries++
		if err != nil || len(resp.Properties) != 1 || len(resp.Properties[0].Tags) != 1 || resp.Properties[0].Tags[0].Value.GetStr().GetValue() != "sib" {
			sink.add(fmt.Sprintf("a/sibling: query of the untouched same-id property of another name does not return its value (cfg=%d)", c.Cfg), art())
		}
		if _, err := cl.srv.VerifC18DrainRepairs(bg, true); err != nil {
			fatal("drain: %v", err)
		}
	}
	res.Histories++
	if deletesSeen > 0 && mergesKept > 0 {
		res.Nontrivial++
	}
}

func subset(a, b map[string]string) bool {
	for k := range a {
		if _, ok := b[k]; !ok {
			return false
		}
	}
	return true
}

func errClass(err error) string {
	s := err.Error()
	if len(s) > 80 {
		s = s[:80]
	}
	return s
}

// canonicalA: cfg 1 treats tags a and b alike (they differ only in the hash of their name), so a history and its a<->b
// mirror image are one case; the representative is the one whose first single-tag apply uses tag a.
func canonicalA(c acase) bool {
	for _, o := range c.Ops {
		if o.Tags == "a" {
			return true
		}
		if o.Tags == "b" {
			return false
		}
	}
	return true
}

// familyMissedUpdateAndDelete: cfg 2 histories of depth 4 of the shape "apply on both nodes; apply while n1 is
// unreachable; delete while n1 is unreachable; any operation": n1 comes back holding a stale LIVE older revision
// while the newest revision (on n0) is a tombstone - no same-revision tie involved. Part of the quick tier on top of
// the general depth 3; the thorough tier's depth 4 contains it.
func familyMissedUpdateAndDelete(each func(acase)) {
	al := alphabetA(2)
	for _, o1 := range al {
		if o1.Down || (o1.Kind != "M" && o1.Kind != "R") {
			continue
		}
		for _, o2 := range al {
			if !o2.Down || (o2.Kind != "M" && o2.Kind != "R") {
				continue
			}
			for _, o4 := range al {
				each(acase{Cfg: 2, Ops: []aop{o1, o2, {Kind: "D", Down: true}, o4}})
			}
		}
	}
}

// enumerate all op sequences of exactly the given depth whose first two ops have the given prefix index.
func enumerateA(cfg, depth int, each func(acase)) {
	al := alphabetA(cfg)
	idx := make([]int, depth)
	for {
		ops := make([]aop, depth)
		for i, j := range idx {
			ops[i] = al[j]
		}
		each(acase{Cfg: cfg, Ops: ops})
		i := depth - 1
		for ; i >= 0; i-- {
			idx[i]++
			if idx[i] < len(al) {
				break
			}
			idx[i] = 0
		}
		if i < 0 {
			return
		}
	}
}
