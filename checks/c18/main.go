// Command c18 checks property C18 (properties are last-writer-wins and replicas converge); see NOTES.md.
package main

import (
	"encoding/json"
	"fmt"
	"os"
	"runtime/pprof"
	"sort"
	"strings"
	"syscall"
	"time"

	"github.com/apache/skywalking-banyandb/pkg/logger"
	"github.com/apache/skywalking-banyandb/pkg/verif/ev"
	"github.com/apache/skywalking-banyandb/pkg/verif/par"
)

type params struct {
	shapes     []int
	nu         int // updates in the replica-level stream
	walkDepth  int
	crossLen   int
	a1Depth    int
	a2Depth    int
	budget     time.Duration
	aRecycle   int
	bRecycle   int
	prefixLenA int
	a1Canon    bool // cfg 1: histories modulo the a<->b tag symmetry
	eLen       int  // (e) layouts of up to this many letters
}

func tierParams() params {
	if ev.Thorough() {
		return params{nu: 3, shapes: []int{3, 2, 1}, walkDepth: 4, crossLen: 2, a1Depth: 5, a1Canon: true, a2Depth: 4, budget: 17 * time.Minute, aRecycle: 150, bRecycle: 3, prefixLenA: 2, eLen: 4}
	}
	return params{nu: 2, shapes: []int{2, 1}, walkDepth: 4, crossLen: 0, a1Depth: 4, a1Canon: true, a2Depth: 3, budget: 4 * time.Minute, aRecycle: 150, bRecycle: 3, prefixLenA: 2, eLen: 3}
}

type item struct {
	part   string // a | b | af (cfg 2 family "missed update and delete") | e (merge hook layouts) | t (tree build under faults)
	op     string // t
	ecases []ecase
	prefix []int // a: indices of the first ops
	assign []int
	cfg    int
	shape  int
	nu     int
	cross  int // b: additionally execute every exchange sequence of this length individually
}

func items(p params) []item {
	var as, bs []item
	// (e): chunks of 10 layouts x both expiry settings; (t): one item per (base, op). Cheap (seconds); they go first
	// so that an internal deadline on a loaded machine never cuts them
	var first []item
	var chunk []ecase
	for _, l := range eLayouts(p.eLen) {
		chunk = append(chunk, ecase{Letters: l, ExpireSec: 3600}, ecase{Letters: l, ExpireSec: 0})
		if len(chunk) >= 20 {
			first = append(first, item{part: "e", ecases: chunk})
			chunk = nil
		}
	}
	if len(chunk) > 0 {
		first = append(first, item{part: "e", ecases: chunk})
	}
	for _, c := range tCombos() {
		first = append(first, item{part: "t", nu: c[0].(int), op: c[1].(string)})
	}
	for _, cfg := range []int{1, 2} {
		n := len(alphabetA(cfg))
		for i := 0; i < n; i++ {
			for j := 0; j < n; j++ {
				as = append(as, item{part: "a", cfg: cfg, prefix: []int{i, j}})
			}
		}
	}
	if p.a2Depth < 4 {
		as = append(as, item{part: "af", cfg: 2})
	}
	for _, a := range canonicalAssignments(p.nu + 1) {
		for _, sh := range p.shapes {
			bs = append(bs, item{part: "b", nu: p.nu, shape: sh, assign: a})
		}
	}
	if p.crossLen > 0 {
		// the brute-force cross-check of state merging runs on the 2-update stream
		for _, a := range canonicalAssignments(3) {
			// delete-last shape: 12^2 = 144 individually executed sequences per case
			bs = append(bs, item{part: "b", nu: 2, shape: 2, assign: a, cross: p.crossLen})
		}
	}
	if only := os.Getenv("C18_ONLY"); only != "" { // development aid: run only the listed parts (e.g. "e,t")
		keep := func(l []item) (o []item) {
			for _, it := range l {
				if strings.Contains(","+only+",", ","+it.part+",") {
					o = append(o, it)
				}
			}
			return o
		}
		as, bs, first = keep(as), keep(bs), keep(first)
	}
	// interleave the two lists proportionally, so that an internal deadline cuts all parts alike
	out := append([]item{}, first...)
	i, j := 0, 0
	for i < len(as) || j < len(bs) {
		if j >= len(bs) || (i < len(as) && i*len(bs) <= j*len(as)) {
			out = append(out, as[i])
			i++
		} else {
			out = append(out, bs[j])
			j++
		}
	}
	return out
}

func cpuSec() float64 {
	var ru syscall.Rusage
	_ = syscall.Getrusage(syscall.RUSAGE_SELF, &ru)
	return float64(ru.Utime.Sec+ru.Stime.Sec) + float64(ru.Utime.Usec+ru.Stime.Usec)/1e6
}

type workerOut struct {
	CPU        map[string]float64  `json:"cpu"`
	A          map[string]*aResult `json:"a"`
	ViolCounts map[string]int      `json:"viol_counts"`
	Skipped    int                 `json:"skipped"`
	Viol       []viol              `json:"viol"`
	B          bResult             `json:"b"`
	E          eResult             `json:"e"`
	T          tResult             `json:"t"`
}

func worker(wi, wn int, p params) {
	deadline := time.Now().Add(p.budget)
	out := workerOut{A: map[string]*aResult{"1": {}, "2": {}}, CPU: map[string]float64{}}
	sink := &vsink{}
	var reps []*node
	bCount := 0
	var cl [3]*cluster
	var clCount [3]int
	for idx, it := range items(p) {
		if idx%wn != wi {
			continue
		}
		if time.Now().After(deadline) {
			out.Skipped++
			continue
		}
		c0 := cpuSec()
		switch it.part {
		case "a":
			al := alphabetA(it.cfg)
			depth := p.a1Depth
			if it.cfg == 2 {
				depth = p.a2Depth
			}
			res := out.A[fmt.Sprint(it.cfg)]
			enumerateA(it.cfg, depth-len(it.prefix), func(c acase) {
				if cl[it.cfg] == nil || clCount[it.cfg] >= p.aRecycle {
					if cl[it.cfg] != nil {
						closeNodes(cl[it.cfg].nodes)
					}
					cl[it.cfg] = newCluster(scratch, it.cfg, fmt.Sprintf("a%d", it.cfg))
					clCount[it.cfg] = 0
				}
				clCount[it.cfg]++
				ops := []aop{}
				for _, i := range it.prefix {
					ops = append(ops, al[i])
				}
				c.Ops = append(ops, c.Ops...)
				if it.cfg == 1 && p.a1Canon && !canonicalA(c) {
					return
				}
				runA(cl[it.cfg], c, res, sink)
				if res.Sample == "" && res.Histories > 40 {
					res.Sample = c.String()
				}
			})
		case "af":
			res := out.A["2"]
			familyMissedUpdateAndDelete(func(c acase) {
				if cl[2] == nil || clCount[2] >= p.aRecycle {
					if cl[2] != nil {
						closeNodes(cl[2].nodes)
					}
					cl[2] = newCluster(scratch, 2, "a2")
					clCount[2] = 0
				}
				clCount[2]++
				runA(cl[2], c, res, sink)
				res.Family++
			})
		case "e":
			runEChunkIsolated(it.ecases, &out.E, sink)
		case "t":
			out.Skipped += runTCombo(scratch, it.nu, it.op, &out.T, sink, deadline)
		case "b":
			if reps == nil || bCount >= p.bRecycle {
				closeNodes(reps)
				reps = []*node{openNode(scratch, "r0"), openNode(scratch, "r1"), openNode(scratch, "r2")}
				bCount = 0
			}
			bCount++
			c := bcase{NU: it.nu, Shape: it.shape, Assign: it.assign}
			nodes := exploreB(reps, c, p.walkDepth, &out.B, sink)
			if nodes != nil && it.cross > 0 {
				crossCheckB(reps, c, nodes, it.cross, &out.B, sink)
			}
		}
		out.CPU[fmt.Sprintf("%s%d", it.part, it.cfg)] += cpuSec() - c0
	}
	out.Viol = sink.list
	out.ViolCounts = sink.byKey
	b, _ := json.Marshal(out)
	par.Emit(b)
}

func mergeCounts(dst, src map[string]int) {
	for k, v := range src {
		dst[k] += v
	}
}

func main() {
	_ = logger.Init(logger.Logging{Env: "prod", Level: "fatal"})
	var err error
	scratchBase := "/dev/shm"
	if v := os.Getenv("C18_SCRATCH_BASE"); v != "" { // child of a worker: below the worker's scratch directory
		scratchBase = v
	}
	scratch, err = os.MkdirTemp(scratchBase, "c18-")
	if err != nil {
		fatal("%v", err)
	}
	defer cleanup()
	p := tierParams()
	if ev.Arg("--bench") != "" {
		if pf := os.Getenv("VERIF_CPUPROFILE"); pf != "" {
			f, _ := os.Create(pf)
			_ = pprof.StartCPUProfile(f)
			defer pprof.StopCPUProfile()
		}
		bench()
		return
	}
	if ch := ev.Arg("--e-chunk"); ch != "" {
		eChunkChild(ch)
		return
	}
	if rp := ev.Arg("--replay"); rp != "" {
		replay(rp)
		return
	}
	if wi, wn, ok := par.Worker(); ok {
		worker(wi, wn, p)
		return
	}
	r := ev.New("C18", "model_checking")
	// part (d) is pure and cheap: run it here
	dres := &dResult{}
	dsink := &vsink{}
	dsrv := newCluster(scratch, 1, "d").srv
	enumerateD(func(c dcase) { runD(dsrv, c, dres, dsink) })
	results, perr := par.Run(16)
	if perr != nil {
		fmt.Println("HARNESS-ERROR:", perr)
		cleanup()
		os.Exit(2)
	}
	var B bResult
	B.Outcomes = map[string]int{}
	A := map[string]*aResult{"1": {Outcomes: map[string]int{}}, "2": {Outcomes: map[string]int{}}}
	violCounts := map[string]int{}
	var viols []viol
	skipped := 0
	E := eResult{Outcomes: map[string]int{}, Pairs: map[string]int{}}
	T := tResult{Outcomes: map[string]int{}}
	cpu := map[string]float64{}
	var samples []string
	for _, raw := range results {
		var w workerOut
		if err := json.Unmarshal(raw, &w); err != nil {
			fmt.Println("HARNESS-ERROR: bad worker result:", err)
			cleanup()
			os.Exit(2)
		}
		skipped += w.Skipped
		for k, v := range w.CPU {
			cpu[k] += v
		}
		mergeCounts(violCounts, w.ViolCounts)
		viols = append(viols, w.Viol...)
		mergeCounts(E.Outcomes, w.E.Outcomes)
		mergeCounts(E.Pairs, w.E.Pairs)
		E.Layouts += w.E.Layouts
		E.HookCalls += w.E.HookCalls
		E.Docs += w.E.Docs
		E.Dropped += w.E.Dropped
		E.ExpThenLiv += w.E.ExpThenLiv
		mergeCounts(T.Outcomes, w.T.Outcomes)
		T.Cases += w.T.Cases
		T.Tripped += w.T.Tripped
		T.Unsettled += w.T.Unsettled
		T.PollCapHit += w.T.PollCapHit
		if w.T.MaxPolls > T.MaxPolls {
			T.MaxPolls = w.T.MaxPolls
		}
		mergeCounts(B.Outcomes, w.B.Outcomes)
		B.Cases += w.B.Cases
		B.NontrivCases += w.B.NontrivCases
		B.States += w.B.States
		B.Transitions += w.B.Transitions
		B.Changing += w.B.Changing
		B.Executions += w.B.Executions
		B.ExchangeSteps += w.B.ExchangeSteps
		B.SeqWalked += w.B.SeqWalked
		B.SeqConnected += w.B.SeqConnected
		B.CrossSeqs += w.B.CrossSeqs
		if w.B.MaxStates > B.MaxStates {
			B.MaxStates, B.Sample = w.B.MaxStates, w.B.Sample
		}
		if w.B.MaxDepth > B.MaxDepth {
			B.MaxDepth = w.B.MaxDepth
		}
		for k, a := range w.A {
			mergeCounts(A[k].Outcomes, a.Outcomes)
			A[k].Histories += a.Histories
			A[k].Ops += a.Ops
			A[k].Queries += a.Queries
			A[k].Nontrivial += a.Nontrivial
			A[k].Aborted += a.Aborted
			A[k].Family += a.Family
			if a.Sample != "" && len(samples) < 4 {
				samples = append(samples, "a "+a.Sample)
			}
		}
	}
	if len(results) != 16 {
		fmt.Println("HARNESS-ERROR: missing worker results:", len(results))
		cleanup()
		os.Exit(2)
	}
	mergeCounts(violCounts, dsink.byKey)
	viols = append(viols, dsink.list...)
	if skipped > 0 {
		r.NotExhaustive(fmt.Sprintf("internal deadline: %d work items skipped", skipped))
	}
	if T.Unsettled > 0 {
		r.NotExhaustive(fmt.Sprintf("(t) %d cases in which the index did not finish its background merge within 10 s before the build (executed and judged, but a later index snapshot may hide a stale tree)", T.Unsettled))
	}
	if T.PollCapHit > 0 {
		r.NotExhaustive(fmt.Sprintf("(t) %d (base, op) combinations whose build polls its context more than %d times", T.PollCapHit, tPollCap))
	}
	// report
	sort.Slice(viols, func(i, j int) bool { return viols[i].Key < viols[j].Key })
	for _, v := range viols {
		r.Violation(v.Key, v.Artefact)
	}
	outcomes := map[string]int{}
	mergeCounts(outcomes, B.Outcomes)
	mergeCounts(outcomes, A["1"].Outcomes)
	mergeCounts(outcomes, A["2"].Outcomes)
	mergeCounts(outcomes, dres.Outcomes)
	mergeCounts(outcomes, E.Outcomes)
	mergeCounts(outcomes, T.Outcomes)
	r.Set("e_layouts_x_expiry", E.Layouts)
	r.Set("e_max_letters", p.eLen)
	r.Set("e_merge_hook_calls_layout_x_segment_cut", E.HookCalls)
	r.Set("e_documents_judged", E.Docs)
	r.Set("e_documents_dropped_by_hook", E.Dropped)
	r.Set("e_expired_tombstone_directly_followed_by_live_document", E.ExpThenLiv)
	r.Set("e_adjacent_class_pairs_in_document_order", E.Pairs)
	r.Set("t_cases_base_x_op_x_fault_point", T.Cases)
	r.Set("t_cases_build_canceled", T.Tripped)
	r.Set("t_max_context_polls_of_a_build", T.MaxPolls)
	r.Set("t_cases_index_not_settled", T.Unsettled)
	r.Set("states", B.States)
	r.Set("transitions", B.Transitions)
	r.Set("traces_validated_against_impl", B.Executions+A["1"].Histories+A["2"].Histories)
	r.Set("b_cases_shape_x_assignment", B.Cases)
	r.Set("b_cases_replicas_initially_disagree", B.NontrivCases)
	r.Set("b_state_changing_transitions", B.Changing)
	r.Set("b_executions_on_fresh_keys", B.Executions)
	r.Set("b_exchange_steps_executed_and_judged", B.ExchangeSteps)
	r.Set("b_max_states_per_case", B.MaxStates)
	r.Set("b_max_graph_depth", B.MaxDepth)
	r.Set("b_graphs_closed", B.Cases) // exploreB only returns when no (state, exchange) pair is left unexecuted
	r.Set("b_exchange_sequences_walked", B.SeqWalked)
	r.Set("b_exchange_sequences_connected_checked_for_convergence", B.SeqConnected)
	r.Set("b_walk_depth", p.walkDepth)
	r.Set("b_sequences_executed_individually_crosscheck", B.CrossSeqs)
	r.Set("b_shapes_delete_after_u", p.shapes)
	r.Set("b_updates_in_stream", p.nu)
	r.Set("b_crosscheck_sequence_length_on_2_update_stream", p.crossLen)
	r.Set("a1_histories", A["1"].Histories)
	r.Set("a1_depth", p.a1Depth)
	r.Set("a1_ops", A["1"].Ops)
	r.Set("a1_histories_with_delete_and_tag_kept_by_merge", A["1"].Nontrivial)
	r.Set("a2_histories", A["2"].Histories)
	r.Set("a2_depth", p.a2Depth)
	r.Set("a2_ops", A["2"].Ops)
	r.Set("a2_histories_with_delete_and_tag_kept_by_merge", A["2"].Nontrivial)
	r.Set("a1_histories_modulo_tag_symmetry", p.a1Canon)
	r.Set("a_histories_stopped_at_first_violation", A["1"].Aborted+A["2"].Aborted)
	r.Set("a2_extra_depth4_histories_missed_update_and_delete_family", A["2"].Family)
	r.Set("a_queries_judged", A["1"].Queries+A["2"].Queries)
	r.Set("d_dedup_inputs", dres.Cases)
	r.Set("d_dedup_inputs_with_two_or_more_answering_nodes", dres.Nontriv)
	r.Set("d_dedup_calls", dres.Calls)
	r.Set("cpu_seconds_by_part", cpu)
	r.Set("distinct_outcomes", len(outcomes))
	r.Set("outcomes", outcomes)
	r.Set("violation_counts_by_key", violCounts)
	r.Sample("b " + B.Sample)
	for _, s := range samples {
		r.Sample(s)
	}
	r.Sample(map[string]any{"part": "d", "case": dcase{Mode: "asc", Nodes: [3][]ddoc{{{E: 1, Rev: 1}}, {{E: 1, Rev: 2, Tomb: true}}, {{E: 2, Rev: 1}, {E: 1, Rev: 2}}}}})
	r.Assume("replica exchange = repairGossipBase.queryProperty on the sender + shard.repair on the receiver (the two functions both gossip roles use); the Merkle-tree comparison that decides WHICH keys are exchanged, and the gRPC stream, are not exercised")
	r.Assume("'replica saw u_i' = db.Update(u_i) followed by db.Delete(ids of all older revisions) as Apply's deferred cleanup does; 'saw D' = db.Delete(ids of u_1..u_shape); delete times are distinct per replica")
	r.Assume("state merging in part (b) uses per replica the set of (revision, tombstone) pairs of key K1; every executed step is judged regardless, the thorough tier re-executes every sequence of length 2 individually against the graph")
	r.Assume("fake queue client dispatches synchronously to the real data-node listeners; schema/node registries are fakes returning one group (1 shard) and one property schema with string tags a,b")
	fmt.Printf("C18 %s: (a) cfg1 %d histories depth %d, cfg2 %d histories depth %d, %d queries judged; (b) %d cases, %d states, %d transitions (%d changing), %d executions, %d steps, max %d states/case, depth %d, %d sequences walked (%d connected), %d cross-checked; (d) %d dedup inputs; %d distinct outcomes\n",
		ev.Tier(), A["1"].Histories, p.a1Depth, A["2"].Histories, p.a2Depth, A["1"].Queries+A["2"].Queries,
		B.Cases, B.States, B.Transitions, B.Changing, B.Executions, B.ExchangeSteps, B.MaxStates, B.MaxDepth, B.SeqWalked, B.SeqConnected, B.CrossSeqs,
		dres.Cases, len(outcomes))
	fmt.Printf("  (e) %d layouts x expiry, %d merge-hook calls, %d documents judged, %d dropped, %d x expired tombstone directly before a live document, %d adjacent class pairs; (t) %d cases (%d builds canceled, max %d polls, %d unsettled)\n",
		E.Layouts, E.HookCalls, E.Docs, E.Dropped, E.ExpThenLiv, len(E.Pairs), T.Cases, T.Tripped, T.MaxPolls, T.Unsettled)
	fmt.Printf("  cpu seconds by part: %v\n", cpu)
	keys := make([]string, 0, len(violCounts))
	for k := range violCounts {
		keys = append(keys, k)
	}
	sort.Strings(keys)
	for _, k := range keys {
		fmt.Printf("  %8d x %s\n", violCounts[k], k)
	}
	cleanup()
	r.Finish()
}

func replay(path string) {
	raw, err := os.ReadFile(path)
	if err != nil {
		fatal("%v", err)
	}
	var doc struct {
		Artefact struct {
			Part string          `json:"part"`
			Case json.RawMessage `json:"case"`
		} `json:"artefact"`
		Key string `json:"key"`
	}
	if err := json.Unmarshal(raw, &doc); err != nil {
		fatal("%v", err)
	}
	sink := &vsink{}
	switch doc.Artefact.Part {
	case "a":
		var c acase
		if err := json.Unmarshal(doc.Artefact.Case, &c); err != nil {
			fatal("%v", err)
		}
		// the tie between a tombstone and a live copy is resolved by map iteration order: repeat
		for i := 0; i < 64; i++ {
			cl := newCluster(scratch, c.Cfg, fmt.Sprintf("rp%d", i))
			runA(cl, c, &aResult{}, sink)
			closeNodes(cl.nodes)
		}
	case "b":
		var c bcase
		if err := json.Unmarshal(doc.Artefact.Case, &c); err != nil {
			fatal("%v", err)
		}
		reps := []*node{openNode(scratch, "r0"), openNode(scratch, "r1"), openNode(scratch, "r2")}
		if c.Keys == 0 {
			c.Keys = 2
		}
		x := startB(reps, c, c.Keys, sink, &bOutcomes{})
		for _, e := range c.Seq {
			x.step(e)
		}
		x.finish()
		for r := 0; r < 3; r++ {
			fmt.Printf("  replica %d: K1=%s K2=%s\n", r, top(x.st[r][0]), top(x.st[r][1]))
		}
	case "e":
		var c ecase
		if err := json.Unmarshal(doc.Artefact.Case, &c); err != nil {
			fatal("%v", err)
		}
		runE(scratch, c, &eResult{}, sink)
	case "echunk":
		var cs []ecase
		if err := json.Unmarshal(doc.Artefact.Case, &cs); err != nil {
			fatal("%v", err)
		}
		runEChunkIsolated(cs, &eResult{}, sink)
	case "t":
		var c tcase
		if err := json.Unmarshal(doc.Artefact.Case, &c); err != nil {
			fatal("%v", err)
		}
		tr := &tResult{}
		runT(scratch, c, tr, sink)
		fmt.Printf("  outcomes: %v\n", tr.Outcomes)
	case "d":
		var c dcase
		if err := json.Unmarshal(doc.Artefact.Case, &c); err != nil {
			fatal("%v", err)
		}
		runD(newCluster(scratch, 1, "d").srv, c, &dResult{}, sink)
	default:
		fatal("unknown artefact part %q", doc.Artefact.Part)
	}
	fmt.Printf("replay of %s\n  recorded key: %s\n", path, doc.Key)
	keys := make([]string, 0, len(sink.byKey))
	for k := range sink.byKey {
		keys = append(keys, k)
	}
	sort.Strings(keys)
	for _, k := range keys {
		fmt.Printf("  VIOLATION %d x %s\n", sink.byKey[k], k)
	}
	cleanup()
	if len(keys) > 0 {
		os.Exit(1)
	}
	fmt.Println("  no violation")
}
