package main

import (
	"fmt"
	"os"
)

// bench: CPU cost per unit of work (development aid: ./vcheck c18 --bench 1).
func bench() {
	as := canonicalAssignments(4)
	res := &bResult{}
	sink := &vsink{}
	c0 := cpuSec()
	var reps []*node
	n := 0
	for i := 0; i < len(as) && os.Getenv("C18_SKIPB") == ""; i += 40 {
		closeNodes(reps)
		reps = []*node{openNode(scratch, "r0"), openNode(scratch, "r1"), openNode(scratch, "r2")}
		for sh := 1; sh <= 3; sh++ {
			exploreB(reps, bcase{NU: 3, Shape: sh, Assign: as[i]}, 4, res, sink)
			n++
		}
	}
	if n > 0 {
		fmt.Printf("B: %d cases cpu %.2fs: %.0f ms/case, %.1f ms/exec, %d execs %d steps\n", n, cpuSec()-c0, (cpuSec()-c0)*1000/float64(n),
			(cpuSec()-c0)*1000/float64(res.Executions), res.Executions, res.ExchangeSteps)
	}
	for _, cfg := range []int{1, 2} {
		var cl *cluster
		ar := &aResult{}
		c0 = cpuSec()
		cnt := 0
		enumerateA(cfg, 3, func(c acase) {
			if cnt%150 == 0 {
				if cl != nil {
					closeNodes(cl.nodes)
				}
				cl = newCluster(scratch, cfg, fmt.Sprintf("a%d", cfg))
			}
			runA(cl, c, ar, sink)
			cnt++
		})
		fmt.Printf("A%d: %d histories %d ops %d queries cpu %.2fs: %.2f ms/op\n", cfg, cnt, ar.Ops, ar.Queries, cpuSec()-c0, (cpuSec()-c0)*1000/float64(ar.Ops))
	}
}
