// C14: a segment is never closed or deleted while in use, and never leaks.
package main

import (
	"encoding/json"
	"fmt"
	"os"
	"path/filepath"
	"runtime"
	"runtime/pprof"
	"sort"
	"strings"
	"time"

	"github.com/apache/skywalking-banyandb/banyand/internal/storage"
	"github.com/apache/skywalking-banyandb/pkg/logger"
	"github.com/apache/skywalking-banyandb/pkg/timestamp"
	"github.com/apache/skywalking-banyandb/pkg/verif/ev"
	"github.com/apache/skywalking-banyandb/pkg/verif/par"
	"github.com/apache/skywalking-banyandb/pkg/verif/racep"
	"github.com/apache/skywalking-banyandb/pkg/verif/sched"
)

var (
	loc  = time.Local
	tA   = time.Date(2026, 9, 5, 10, 0, 0, 0, loc)
	tB   = time.Date(2026, 9, 6, 10, 0, 0, 0, loc)
	tC   = time.Date(2026, 9, 7, 10, 0, 0, 0, loc)
	now  = time.Date(2026, 9, 10, 12, 0, 0, 0, loc)
	allR = timestamp.NewInclusiveTimeRange(tA.Add(-time.Hour), tC.Add(48*time.Hour))
	aR   = timestamp.NewInclusiveTimeRange(tA.Add(-time.Hour), tA.Add(time.Hour))
)

type world struct {
	db      *storage.VDB
	dir     string
	segs    []*storage.VSeg // every segment object ever seen
	holders map[string]int
	viol    map[string]bool
	closing bool
	// panics of non-close roles after Close began (counted, not a C14 verdict)
	shutdownPanics int
	notes   []string
}

// The world's own bookkeeping goes through sched.Own: a plain call under the controlled scheduler, serialised by a
// mutex in the free-running -race pass.
func (w *world) see(s *storage.VSeg) {
	sched.Own(func() {
		for _, o := range w.segs {
			if o.Same(s) {
				return
			}
		}
		w.segs = append(w.segs, s)
	})
}

func (w *world) bad(k string) { sched.Own(func() { w.viol[k] = true }) }

func (w *world) hold(s *storage.VSeg, d int) { sched.Own(func() { w.holders[s.Key()] += d }) }

func (w *world) note(s string) { sched.Own(func() { w.notes = append(w.notes, s) }) }

func (w *world) isClosing() (c bool) {
	sched.Own(func() { c = w.closing })
	return c
}

// hold registers a successful acquisition, lets others run, checks the resources, then releases.
func (w *world) holdUseRelease(role string, segs []*storage.VSeg) {
	for _, s := range segs {
		w.see(s)
		w.hold(s, 1)
	}
	sched.Yield(role + ":use")
	sched.Observe(func() {
		for _, s := range segs {
			if w.closing {
				continue
			}
			if msg := s.Use(); msg != "" {
				w.bad(fmt.Sprintf("in-use: %s while held by %s", msg, role))
			}
			if st := s.State(); int(st.RefCount) < w.holders[s.Key()] {
				w.bad(fmt.Sprintf("stolen-ref: refCount %d < holders %d (observed by %s)", st.RefCount, w.holders[s.Key()], role))
			}
		}
	})
	for _, s := range segs {
		w.hold(s, -1)
		s.DecRef()
	}
}

type role struct {
	fn   func(w *world)
	name string
	// kind: h = holder, r = reclaimer, o = observer
	kind byte
}

var roles = []role{
	{name: "query", kind: 'h', fn: func(w *world) {
		ss, err := w.db.Select(allR, true)
		if err != nil {
			w.note("query err: " + err.Error())
			return
		}
		w.holdUseRelease("query", ss)
	}},
	{name: "queryA", kind: 'h', fn: func(w *world) {
		ss, err := w.db.Select(aR, true)
		if err != nil {
			return
		}
		w.holdUseRelease("queryA", ss)
	}},
	{name: "writerB", kind: 'h', fn: func(w *world) {
		s, err := w.db.Create(tB)
		if err != nil {
			return
		}
		w.see(s)
		w.hold(s, 1)
		_, terr := s.Table()
		w.hold(s, -1)
		if terr != nil {
			w.bad("writer: CreateTSTableIfNotExist failed on a held segment: " + terr.Error())
			s.DecRef()
			return
		}
		w.holdUseRelease("writerB", []*storage.VSeg{s})
	}},
	{name: "writerC", kind: 'h', fn: func(w *world) {
		s, err := w.db.Create(tC)
		if err != nil {
			return
		}
		w.holdUseRelease("writerC", []*storage.VSeg{s})
	}},
	{name: "rotationTick", kind: 'h', fn: func(w *world) {
		// what the rotation loop does on each tick: segments(true) ... DecRef each
		ss, err := w.db.Segments(true)
		if err != nil {
			w.note("segments(true) err")
			return // the caller has nothing to release
		}
		w.holdUseRelease("rotationTick", ss)
	}},
	{name: "statsSelect", kind: 'o', fn: func(w *world) {
		ss, _ := w.db.Select(allR, false)
		for _, s := range ss {
			w.see(s)
			s.DecRef() // documented contract: "The caller must DecRef every returned segment (a no-op for a closed one)"
		}
	}},
	{name: "metrics", kind: 'o', fn: func(w *world) { w.db.CollectMetrics() }},
	{name: "snapshot", kind: 'o', fn: func(w *world) {
		dst := filepath.Join(w.dir, "snap")
		_, _ = w.db.Snapshot(dst)
	}},
	{name: "expiredRange", kind: 'o', fn: func(w *world) { w.db.ExpiredRange() }},
	{name: "idle", kind: 'r', fn: func(w *world) { w.db.CloseIdle() }},
	{name: "retentionA", kind: 'r', fn: func(w *world) { w.db.RetentionRun(time.Date(2026, 9, 13, 0, 0, 1, 0, loc)) }},
	{name: "deleteExpiredA", kind: 'r', fn: func(w *world) { w.db.DeleteExpired([]string{tA.Format("20060102")}) }},
	{name: "deleteExpiredB", kind: 'r', fn: func(w *world) { w.db.DeleteExpired([]string{tB.Format("20060102")}) }},
	{name: "forcedDelete", kind: 'r', fn: func(w *world) { _, _ = w.db.DeleteOldest() }},
	{name: "close", kind: 'r', fn: func(w *world) { sched.Own(func() { w.closing = true }); _ = w.db.Close() }},
}

func roleByName(n string) role {
	for _, r := range roles {
		if r.name == n {
			return r
		}
	}
	panic("unknown role " + n)
}

type scenario struct {
	Init  string   `json:"init"` // dormant | closedA
	Roles []string `json:"roles"`
	Bound int      `json:"bound,omitempty"` // preemption bound this scenario is explored to
}

func (s scenario) String() string { return s.Init + ":" + strings.Join(s.Roles, "|") }

var base string

func setup(sc scenario, seq *int) sched.Harness {
	aborted := false
	*seq++
	dir := filepath.Join(base, fmt.Sprintf("x%d", *seq))
	w := &world{dir: dir, holders: map[string]int{}, viol: map[string]bool{}}
	db, err := storage.VOpenDB(filepath.Join(dir, "db"), storage.VOpts{
		Now: now, Interval: storage.IntervalRule{Unit: storage.DAY, Num: 1}, TTL: storage.IntervalRule{Unit: storage.DAY, Num: 7},
		IdleTimeout: -1000000 * time.Hour,
	})
	if err != nil {
		panic(err)
	}
	w.db = db
	for _, ts := range []time.Time{tA, tB} {
		s, err := db.Create(ts)
		if err != nil {
			panic(err)
		}
		if _, err := s.Table(); err != nil {
			panic(err)
		}
		start, _ := s.Range()
		_ = os.WriteFile(filepath.Join(db.Dir, "seg-"+start.Format("20060102"), "shard-0", "data"), []byte("x"), 0o600)
		s.DecRef()
		w.see(s)
	}
	if sc.Init == "closedA" {
		if !w.segs[0].CloseIfIdle(1 << 62) {
			panic("cannot idle-close A in setup")
		}
	}
	var threads []func()
	for _, rn := range sc.Roles {
		r := roleByName(rn)
		threads = append(threads, func() {
			defer func() {
				// database.Close releases every segment regardless of holders (documented: "full shutdown");
				// what a racing writer/query does after shutdown began is outside C14. A panic before shutdown is a verdict.
				if p := recover(); p != nil {
					if !w.isClosing() {
						panic(p)
					}
					sched.Own(func() { w.shutdownPanics++ })
				}
			}()
			r.fn(w)
		})
	}
	return sched.Harness{
		Threads: threads,
		Check: func(res *sched.Result) []string {
			aborted = res.Abort != ""
			if res.Abort == "" {
				w.final()
			}
			if !w.closing {
				for _, e := range w.db.Errors {
					w.bad("table: " + e)
				}
			}
			keys := make([]string, 0, len(w.viol))
			for k := range w.viol {
				keys = append(keys, k)
			}
			sort.Strings(keys)
			return keys
		},
		Cleanup: func() {
			if !w.closing {
				func() {
					defer func() { _ = recover() }()
					_ = w.db.Close()
				}()
			}
			if aborted {
				for _, s := range w.segs {
					s.ForceClose()
				}
				collectAfterAbort()
			}
			_ = os.RemoveAll(dir)
		},
	}
}

// Executions that are aborted by a panic / deadlock inside the code under test never reach their own cleanup and leave
// open files behind that only the garbage collector's finalizers close. A long exploration of a scenario with a known
// panic would exhaust the descriptor limit before the collector runs (the workers allocate little), so it is run
// explicitly now and then. (Closing the descriptors by number is NOT safe: the finalizers would later close the
// re-used numbers under a live index.)
var abortedSinceGC int

func collectAfterAbort() {
	abortedSinceGC++
	if abortedSinceGC >= 100 {
		abortedSinceGC = 0
		runtime.GC()
	}
}

// final checks quiescence: nobody holds anything.
func (w *world) final() {
	// a deleted segment's directory name is reused when a writer creates the same time bucket again: the path then
	// belongs to the new (unflagged) segment object, not to the deleted one
	reused := map[string]bool{}
	for _, s := range w.segs {
		if !s.State().Flagged {
			reused[s.Suffix()] = true
		}
	}
	for _, s := range w.segs {
		st := s.State()
		if st.RefCount != 0 && w.shutdownPanics == 0 {
			w.bad(fmt.Sprintf("leak: refCount %d at quiescence with no holder", st.RefCount))
		}
		if w.closing {
			continue
		}
		if st.Flagged {
			if st.DirExists && !reused[s.Suffix()] {
				w.bad("flagged segment still on disk after its last holder released it")
			}
			if st.Open {
				w.bad("flagged segment is open after its last holder released it")
			}
			continue
		}
		if !st.DirExists {
			w.bad("directory of a segment that was not selected for deletion is gone")
			continue
		}
		// transparent reopen with all its data
		if err := s.IncRef(); err != nil {
			w.bad("unflagged segment cannot be re-acquired: " + err.Error())
			continue
		}
		if msg := s.Use(); msg != "" {
			w.bad("after re-acquire: " + msg)
		}
		tbl, err := s.Table()
		if err != nil || tbl.Closed {
			w.bad("after re-acquire: shard table not open")
		} else if _, err := os.Stat(filepath.Join(tbl.Loc, "data")); err != nil && (s.Same(w.segs[0]) || s.Same(w.segs[1])) {
			w.bad("after re-acquire: shard data missing")
		}
		s.DecRef()
	}
}

type scenResult struct {
	Bound      int            `json:"bound"`
	Scenario   string         `json:"scenario"`
	HarnessErr string         `json:"harness_err,omitempty"`
	Outcomes   map[string]int `json:"outcomes"`
	ByPreempt  map[int]int    `json:"by_preempt"`
	Viol       []violRec      `json:"viol,omitempty"`
	Executions int            `json:"executions"`
	Points     int            `json:"points"`
	MaxPoints  int            `json:"max_points"`
	Capped     bool           `json:"capped"`
}

type violRec struct {
	Key      string   `json:"key"`
	Scenario scenario `json:"scenario"`
	Choices  []int    `json:"choices"`
	Trace    []string `json:"trace"`
}

func runScenario(sc scenario, bound int, deadline time.Time) scenResult {
	seq := 0
	out := scenResult{Scenario: sc.String()}
	seen := map[string]bool{}
	x := &sched.Explorer{
		Bound: bound, MaxSteps: 5000, Deadline: deadline,
		Setup: func() sched.Harness { return setup(sc, &seq) },
		Outcome: func(res *sched.Result) string {
			return res.Abort
		},
	}
	var lastKeys []string
	x.OnViolate = func(key string, res *sched.Result) {
		lastKeys = append(lastKeys, key)
		if seen[key] {
			return
		}
		seen[key] = true
		tr := make([]string, 0, len(res.Points))
		for _, p := range res.Points {
			tr = append(tr, p.Sig)
		}
		out.Viol = append(out.Viol, violRec{Key: key, Scenario: sc, Choices: append([]int{}, res.Choices...), Trace: tr})
	}
	x.Explore()
	// every reported violation must reproduce identically 5 times
	for i := range out.Viol {
		for rep := 0; rep < 5; rep++ {
			lastKeys = nil
			h := setup(sc, &seq)
			res := sched.Run(out.Viol[i].Choices, nil, 5000, h.Threads)
			keys := h.Check(res)
			switch res.Abort {
			case "deadlock", "livelock":
				keys = append(keys, res.Abort)
			case "panic":
				keys = append(keys, sched.PanicKey(res))
			}
			h.Cleanup()
			found := false
			for _, k := range keys {
				if k == out.Viol[i].Key {
					found = true
				}
			}
			if !found {
				out.HarnessErr = fmt.Sprintf("violation %q of %s did not reproduce on replay %d", out.Viol[i].Key, sc, rep)
			}
		}
	}
	out.Executions = x.Executions
	fmt.Fprintf(os.Stderr, "timing setup=%v run=%v rest=%v\n", x.TSetup, x.TRun, x.TRest)
	out.ByPreempt = x.ByPreempt
	out.MaxPoints = x.MaxPoints
	out.Capped = x.Capped
	out.Outcomes = x.Outcomes
	if x.HarnessErr != "" {
		out.HarnessErr = x.HarnessErr
	}
	return out
}

func scenarios(thorough bool) []scenario {
	var out []scenario
	var names []string
	for _, r := range roles {
		// quick: queryA (a query that overlaps only A), writerC (creates a third segment), expiredRange and metrics are left
		// to the thorough tier; they multiply the scenario count without adding a new kind of collision.
		if !thorough && (r.name == "queryA" || r.name == "writerC" || r.name == "expiredRange" || r.name == "metrics") {
			continue
		}
		names = append(names, r.name)
	}
	kind := func(n string) byte { return roleByName(n).kind }
	for i := 0; i < len(names); i++ {
		for j := i; j < len(names); j++ {
			for k := j; k < len(names); k++ {
				t := []string{names[i], names[j], names[k]}
				h, r := 0, 0
				for _, n := range t {
					switch kind(n) {
					case 'h':
						h++
					case 'r':
						r++
					}
				}
				// every triple that has at least one holder and at least one reclaimer or observer racing with it
				if h == 0 || h == 3 {
					continue
				}
				if !thorough && r == 0 {
					continue
				}
				if names[i] == names[j] && names[j] == names[k] {
					continue
				}
				if nc := strings.Count(strings.Join(t, "|"), "close"); nc > 1 {
					continue // concurrent double Close is not a segment-lifecycle question
				}
				out = append(out, scenario{Init: "dormant", Roles: t})
				if thorough || (r > 0 && h == 1 && (names[i] == "query" || names[i] == "rotationTick")) {
					out = append(out, scenario{Init: "closedA", Roles: t})
				}
			}
		}
	}
	return out
}

func main() {
	_ = logger.Init(logger.Logging{Env: "prod", Level: "fatal"})
	thorough := ev.Thorough()
	var err error
	if pf := os.Getenv("VERIF_CPUPROFILE"); pf != "" {
		f, _ := os.Create(pf)
		_ = pprof.StartCPUProfile(f)
		defer pprof.StopCPUProfile()
	}
	if rp := ev.Arg("--replay"); rp != "" {
		replay(rp)
		return
	}
	// quick: reduced role alphabet, every schedule with <= 2 preemptions.
	// thorough: full role alphabet to bound 2, then the reduced alphabet again to bound 3 (as far as the budget allows;
	// scenarios cut by the deadline are reported, exhaustive=false).
	scs := scenarios(thorough)
	for i := range scs {
		scs[i].Bound = 2
	}
	if thorough {
		for _, sc := range scenarios(false) {
			sc.Bound = 3
			scs = append(scs, sc)
		}
	}
	if only := ev.Arg("--scenario"); only != "" {
		var f []scenario
		for _, s := range scs {
			if s.String() == only || fmt.Sprintf("%s@%d", s, s.Bound) == only {
				f = append(f, s)
			}
		}
		scs = f
	}
	budget := 8 * time.Minute
	if thorough {
		budget = 40 * time.Minute
	}
	if os.Getenv("VERIF_PHASE") == "race" {
		// the -race build: the same role bodies, detached, as plain goroutines (racep.Pass reads the detector's log)
		base, err = os.MkdirTemp("/dev/shm", "c14race-")
		if err != nil {
			panic(err)
		}
		defer os.RemoveAll(base)
		iters, seq := 5, 0
		if thorough {
			iters = 40
		}
		full := scenarios(thorough)
		racep.Phase(iters, 6*time.Minute, len(full), func(i int) sched.Harness { return setup(full[i], &seq) })
		return
	}
	if wi, wn, ok := par.Worker(); ok {
		base, err = os.MkdirTemp("/dev/shm", "c14-")
		if err != nil {
			panic(err)
		}
		defer os.RemoveAll(base)
		deadline := time.Now().Add(budget)
		if os.Getenv("VERIF_PHASE") == "seq" {
			depth := 3
			if thorough {
				depth = 4
			}
			seqWorker(wi, wn, depth, deadline)
			return
		}
		for i, sc := range scs {
			if i%wn != wi {
				continue
			}
			r := runScenario(sc, sc.Bound, deadline)
			r.Bound = sc.Bound
			if os.Getenv("VERIF_FDDEBUG") != "" {
				ents, _ := os.ReadDir("/proc/self/fd")
				fmt.Fprintf(os.Stderr, "fd-debug %s executions=%d open_fds=%d\n", sc, r.Executions, len(ents))
				kinds := map[string]int{}
				for _, e := range ents {
					t, _ := os.Readlink("/proc/self/fd/" + e.Name())
					if i := strings.Index(t, "/x"); i > 0 && strings.HasPrefix(t, "/dev/shm/") {
						t = "/dev/shm/<exec>" + t[strings.Index(t[i+1:], "/")+i+1:]
					}
					kinds[t]++
				}
				for k, n := range kinds {
					if n > 2 {
						fmt.Fprintf(os.Stderr, "fd-debug   %4d %s\n", n, k)
					}
				}
			}
			b, _ := json.Marshal(r)
			par.Emit(b)
		}
		return
	}
	r := ev.New("C14", "model_checking")
	results, perr := par.Run(16)
	if perr != nil {
		fmt.Println("HARNESS-ERROR:", perr)
		os.Exit(2)
	}
	execs, points, maxPts := 0, 0, 0
	byPre := map[string]int{}
	outcomes := map[string]int{}
	nScen := 0
	doneByBound, cutByBound := map[string]int{}, map[string]int{}
	for _, b := range results {
		var sr scenResult
		if err := json.Unmarshal(b, &sr); err != nil {
			fmt.Println("HARNESS-ERROR: bad worker result:", err)
			os.Exit(2)
		}
		if sr.HarnessErr != "" {
			fmt.Println("HARNESS-ERROR:", sr.Scenario, sr.HarnessErr)
			os.Exit(2)
		}
		nScen++
		execs += sr.Executions
		if sr.MaxPoints > maxPts {
			maxPts = sr.MaxPoints
		}
		for k, v := range sr.ByPreempt {
			byPre[fmt.Sprint(k)] += v
		}
		for k, v := range sr.Outcomes {
			if k == "" {
				k = "completed"
			}
			outcomes[k] += v
		}
		if sr.Capped {
			r.NotExhaustive(fmt.Sprintf("deadline hit in scenario %s at bound %d", sr.Scenario, sr.Bound))
			cutByBound[fmt.Sprint(sr.Bound)]++
		} else {
			doneByBound[fmt.Sprint(sr.Bound)]++
		}
		for _, v := range sr.Viol {
			r.Violation(fmt.Sprintf("%s: %s", v.Scenario, v.Key), v)
		}
		if nScen%97 == 3 {
			r.Sample(map[string]any{"scenario": sr.Scenario, "executions": sr.Executions, "by_preemptions": sr.ByPreempt})
		}
	}
	if nScen != len(scs) {
		fmt.Printf("HARNESS-ERROR: %d of %d scenarios reported\n", nScen, len(scs))
		os.Exit(2)
	}
	_ = points
	// ---- Engine O part: sequential operation histories (see seq.go)
	seqRes, serr := par.Run(16, "VERIF_PHASE=seq")
	if serr != nil {
		fmt.Println("HARNESS-ERROR:", serr)
		os.Exit(2)
	}
	seqHist, seqOpsN := 0, 0
	for _, b := range seqRes {
		var sr seqResult
		if err := json.Unmarshal(b, &sr); err != nil {
			fmt.Println("HARNESS-ERROR: bad seq worker result:", err)
			os.Exit(2)
		}
		seqHist += sr.Histories
		seqOpsN += sr.Ops
		if sr.Capped {
			r.NotExhaustive("deadline hit in the sequential-history part")
		}
		for k, ops := range sr.Viol {
			r.Violation(k, map[string]any{"seq_ops": ops})
		}
	}
	r.Set("sequential_histories", seqHist)
	r.Set("sequential_operations", seqOpsN)
	r.Set("sequential_alphabet", seqOps)
	r.Sample(map[string]any{"sequential_history": []string{"tickRotate", "expiredQuery", "queryOverIdle"}, "judged": "after every operation and after a final idle-reclaim + retention"})
	execs += seqHist
	if ev.Arg("--scenario") == "" {
		racep.Pass(r, "c14")
	}
	r.Set("states", execs)
	r.Set("transitions", execs)
	r.Set("traces_validated_against_impl", execs)
	r.Set("evaluations", execs)
	r.Set("distinct_nontrivial", nScen)
	r.Set("scenarios", nScen)
	r.Set("scenarios_completed_by_bound", doneByBound)
	r.Set("scenarios_cut_by_deadline_by_bound", cutByBound)
	r.Set("executions_by_preemptions", byPre)
	r.Set("outcomes", outcomes)
	r.Set("max_points_per_execution", maxPts)
	r.Set("rule", "one execution = one complete schedule of a 3-thread scenario on the real storage code; states/transitions count executions (stateless search, no state graph is stored); distinct_nontrivial = scenarios (role triples x initial state) whose threads share segments A/B")
	r.Assume("sequential consistency at hooked sync/atomic operations; data races are outside the cooperative scheduler's view")
	r.Assume("3 threads, two pre-existing segments (A, B) plus on-demand C; preemption bounds as reported per scenario group")
	r.Finish()
}

func replay(p string) {
	b, err := os.ReadFile(p)
	if err != nil {
		fmt.Println(err)
		os.Exit(2)
	}
	var a struct {
		Artefact violRec `json:"artefact"`
	}
	if err := json.Unmarshal(b, &a); err != nil {
		fmt.Println(err)
		os.Exit(2)
	}
	if racep.Replay(b, "c14") {
		return
	}
	base, _ = os.MkdirTemp("/dev/shm", "c14r-")
	defer os.RemoveAll(base)
	var sq struct {
		Artefact struct {
			SeqOps []string `json:"seq_ops"`
		} `json:"artefact"`
	}
	if json.Unmarshal(b, &sq) == nil && len(sq.Artefact.SeqOps) > 0 {
		viol := runSeqHistory(sq.Artefact.SeqOps, 0)
		fmt.Println("sequential history:", sq.Artefact.SeqOps)
		fmt.Println("violations:", viol)
		if len(viol) > 0 {
			os.RemoveAll(base)
			os.Exit(1)
		}
		return
	}
	seq := 0
	sched.TraceCallers = true
	h := setup(a.Artefact.Scenario, &seq)
	res := sched.Run(a.Artefact.Choices, nil, 5000, h.Threads)
	keys := h.Check(res)
	h.Cleanup()
	fmt.Printf("scenario %s\nabort=%q panic=%v\n", a.Artefact.Scenario, res.Abort, res.Panic)
	for i, pt := range res.Points {
		fmt.Printf("  %3d %-28s -> T%d   %s\n", i, pt.Sig, pt.Enabled[pt.Chosen], pt.Where)
	}
	fmt.Println("violations:", keys)
	if res.Stack != "" {
		fmt.Println(res.Stack)
	}
	if len(keys) > 0 || res.Abort != "" {
		os.Exit(1)
	}
}
