// C14, Engine O part: exhaustive sequential histories of segment-lifecycle operations on a real TSDB (scheduler
// detached; the rotation goroutine is the real one, driven through database.Tick), judged after every operation against
// a small reference model: nothing is held between operations, so every reference count must be zero, every listed
// segment must be on disk, every removed one gone, idle reclaim must be able to close everything and retention must be
// able to delete everything ("failed or partial acquisitions do not leave references behind that would block
// idle-close or retention forever").
package main

import (
	"encoding/json"
	"fmt"
	"os"
	"path/filepath"
	"sort"
	"strings"
	"time"

	"github.com/apache/skywalking-banyandb/banyand/internal/storage"
	"github.com/apache/skywalking-banyandb/pkg/verif/par"
)

var seqOps = []string{"query", "queryOverIdle", "writerB", "writerC", "tickRotate", "idle", "stats", "metrics", "snapshot",
	"expiredQuery", "deleteExpiredA", "forcedDelete", "reopen"}

type seqWorld struct {
	db      *storage.VDB
	dir     string
	removed []*storage.VSeg // segment objects that left the list
	known   map[string]*storage.VSeg
	viol    []string
	snapN   int
}

func seqOpen(dir string, now time.Time) *storage.VDB {
	db, err := storage.VOpenDB(dir, storage.VOpts{
		Now: now, Interval: storage.IntervalRule{Unit: storage.DAY, Num: 1}, TTL: storage.IntervalRule{Unit: storage.DAY, Num: 7},
		IdleTimeout: -1000000 * time.Hour,
	})
	if err != nil {
		panic(err)
	}
	db.InstallCounters()
	return db
}

func (w *seqWorld) bad(op int, name, msg string) {
	w.viol = append(w.viol, fmt.Sprintf("seq: after %s: %s", name, msg))
	_ = op
}

// sync refreshes the set of known segment objects from the controller's list and notes which objects left it.
func (w *seqWorld) sync() []*storage.VSeg {
	cur := w.db.List()
	now := map[string]*storage.VSeg{}
	for _, s := range cur {
		now[s.Key()] = s
	}
	for k, s := range w.known {
		if _, ok := now[k]; !ok {
			w.removed = append(w.removed, s)
		}
	}
	w.known = now
	return cur
}

func (w *seqWorld) invariants(i int, op string) {
	cur := w.sync()
	live := map[string]bool{}
	for _, s := range cur {
		st := s.State()
		live[s.Suffix()] = true
		if st.RefCount != 0 {
			w.bad(i, op, fmt.Sprintf("leak: a listed segment has refCount %d although nothing is held", st.RefCount))
		}
		if st.Flagged {
			w.bad(i, op, "a segment flagged for deletion is still listed")
		}
		if !st.DirExists {
			w.bad(i, op, "directory of a listed segment is gone")
		}
	}
	for _, s := range w.removed {
		st := s.State()
		if st.RefCount != 0 {
			w.bad(i, op, fmt.Sprintf("leak: a removed segment has refCount %d although nothing is held", st.RefCount))
		}
		if st.Open {
			w.bad(i, op, "a removed segment is still open")
		}
		if st.DirExists && !live[s.Suffix()] {
			w.bad(i, op, "directory of a removed segment is still on disk although nothing holds it")
		}
	}
	for _, e := range w.db.Errors {
		w.bad(i, op, "table: "+e)
	}
	w.db.Errors = nil
}

func (w *seqWorld) apply(i int, op string) {
	switch op {
	case "query", "queryOverIdle":
		ss, err := w.db.Select(allR, true)
		if err != nil {
			w.bad(i, op, "SelectSegments failed: "+err.Error())
			return
		}
		if op == "queryOverIdle" {
			w.db.CloseIdle()
		}
		for _, s := range ss {
			if msg := s.Use(); msg != "" {
				w.bad(i, op, "in-use: "+msg+" while held by the query")
			}
			if _, err := s.Table(); err != nil {
				w.bad(i, op, "held segment cannot provide its shard table")
			}
		}
		for _, s := range ss {
			s.DecRef()
		}
	case "writerB", "writerC":
		ts := tB
		if op == "writerC" {
			ts = tC
		}
		s, err := w.db.Create(ts)
		if err != nil {
			w.bad(i, op, "CreateSegmentIfNotExist failed: "+err.Error())
			return
		}
		if _, err := s.Table(); err != nil {
			w.bad(i, op, "CreateTSTableIfNotExist failed on a held segment")
		}
		if msg := s.Use(); msg != "" {
			w.bad(i, op, "in-use: "+msg+" while held by the writer")
		}
		s.DecRef()
	case "tickRotate":
		// a data point 30 minutes before the end of the newest segment: the rotation goroutine pins all segments,
		// pre-creates the next one and runs retention (real goroutine, real channel)
		cur := w.db.List()
		if len(cur) == 0 {
			return
		}
		_, end := cur[len(cur)-1].Range()
		if err := w.db.TickAndWait(end.Add(-30*time.Minute).UnixNano(), 3*time.Minute); err != nil {
			fmt.Println("HARNESS-ERROR:", err)
			os.Exit(2)
		}
	case "idle":
		w.db.CloseIdle()
		for _, s := range w.db.List() {
			if st := s.State(); st.Open {
				w.bad(i, op, fmt.Sprintf("idle reclaim could not close an unheld segment (refCount %d)", st.RefCount))
			}
		}
	case "stats":
		ss, _ := w.db.Select(allR, false)
		for _, s := range ss {
			s.DecRef()
		}
	case "metrics":
		w.db.CollectMetrics()
	case "snapshot":
		w.snapN++
		_, _ = w.db.Snapshot(filepath.Join(w.dir, fmt.Sprintf("snap%d", w.snapN)))
	case "expiredQuery":
		// the clock has moved on: every segment is fully expired but retention has not run yet; a query must get
		// nothing and must not keep references on what it skipped
		w.db.Clock.SetNow(now.Add(30 * 24 * time.Hour))
		ss, _ := w.db.Select(allR, true)
		if len(ss) != 0 {
			w.bad(i, op, "a query was handed fully expired segments")
		}
		for _, s := range ss {
			s.DecRef()
		}
		w.db.Clock.SetNow(now)
	case "deleteExpiredA":
		w.db.DeleteExpired([]string{tA.Format("20060102")})
	case "forcedDelete":
		_, _ = w.db.DeleteOldest()
	case "reopen":
		_ = w.db.Close()
		w.known, w.removed = map[string]*storage.VSeg{}, nil
		w.db = seqOpen(filepath.Join(w.dir, "db"), now)
	default:
		panic("unknown op " + op)
	}
}

func runSeqHistory(ops []string, seq int) []string {
	dir := filepath.Join(base, fmt.Sprintf("q%d", seq))
	w := &seqWorld{dir: dir, known: map[string]*storage.VSeg{}}
	w.db = seqOpen(filepath.Join(dir, "db"), now)
	defer func() {
		func() {
			defer func() { _ = recover() }()
			_ = w.db.Close()
		}()
		_ = os.RemoveAll(dir)
	}()
	func() {
		defer func() {
			if p := recover(); p != nil {
				w.viol = append(w.viol, "seq: panic: "+firstLineOf(fmt.Sprint(p)))
			}
		}()
		for _, ts := range []time.Time{tA, tB} {
			s, err := w.db.Create(ts)
			if err != nil {
				panic(err)
			}
			if _, err := s.Table(); err != nil {
				panic(err)
			}
			s.DecRef()
		}
		w.invariants(-1, "setup")
		for i, op := range ops {
			w.apply(i, op)
			w.invariants(i, op)
			if len(w.viol) > 0 {
				return
			}
		}
		// nothing may block idle reclaim or retention at the end of any history
		w.apply(len(ops), "idle")
		w.invariants(len(ops), "final idle")
		w.db.RetentionRun(now.Add(365 * 24 * time.Hour))
		if n := len(w.db.List()); n != 0 {
			w.viol = append(w.viol, fmt.Sprintf("seq: after final retention: %d segments could not be removed", n))
		}
		w.invariants(len(ops)+1, "final retention")
	}()
	sort.Strings(w.viol)
	return w.viol
}

func firstLineOf(s string) string {
	if i := strings.IndexByte(s, '\n'); i >= 0 {
		return s[:i]
	}
	return s
}

type seqResult struct {
	Viol      map[string][]string `json:"viol"` // key -> first history
	Histories int                 `json:"histories"`
	Ops       int                 `json:"ops"`
	Capped    bool                `json:"capped"`
}

// seqWorker enumerates every history of exactly `depth` operations (invariants are judged after every operation, so
// all shorter histories are covered as prefixes) whose index falls to this worker.
func seqWorker(wi, wn, depth int, deadline time.Time) {
	res := seqResult{Viol: map[string][]string{}}
	total := 1
	for i := 0; i < depth; i++ {
		total *= len(seqOps)
	}
	for idx := wi; idx < total; idx += wn {
		if time.Now().After(deadline) {
			res.Capped = true
			break
		}
		ops := make([]string, depth)
		x := idx
		for i := depth - 1; i >= 0; i-- {
			ops[i] = seqOps[x%len(seqOps)]
			x /= len(seqOps)
		}
		res.Histories++
		res.Ops += depth
		for _, v := range runSeqHistory(ops, idx) {
			if _, ok := res.Viol[v]; !ok {
				res.Viol[v] = ops
			}
		}
	}
	b, _ := json.Marshal(res)
	par.Emit(b)
}
