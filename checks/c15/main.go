// C15: vectorized execution returns what row execution returns.
//
// Translation validation by complete enumeration of a bounded request grammar: every request of the grammar
// (grammar.go) is executed over real gRPC against in-process standalone servers that differ only in the
// --{measure,stream,trace}-vectorized-enabled flags (off = row path; on = columnar path; on with batch size 2 = columnar
// path with batch boundaries inside the data), fed identical acknowledged writes, in two part layouts (all parts in
// memory / all parts flushed). Each server lives in its own worker subprocess (mc/e2e). The parent compares the
// responses of "on" and "off" request by request. Plus the columnar frame codec round trip (frame.go).
package main

import (
	"bufio"
	"bytes"
	"encoding/binary"
	"encoding/json"
	"fmt"
	"io"
	"os"
	"path/filepath"
	"sort"
	"strings"
	"sync"
	"time"

	"google.golang.org/grpc/codes"
	"google.golang.org/protobuf/encoding/protojson"
	"google.golang.org/protobuf/proto"

	commonv1 "github.com/apache/skywalking-banyandb/api/proto/banyandb/common/v1"
	measurev1 "github.com/apache/skywalking-banyandb/api/proto/banyandb/measure/v1"
	modelv1 "github.com/apache/skywalking-banyandb/api/proto/banyandb/model/v1"
	streamv1 "github.com/apache/skywalking-banyandb/api/proto/banyandb/stream/v1"
	tracev1 "github.com/apache/skywalking-banyandb/api/proto/banyandb/trace/v1"
	"github.com/apache/skywalking-banyandb/pkg/logger"
	"github.com/apache/skywalking-banyandb/pkg/verif/e2e"
	"github.com/apache/skywalking-banyandb/pkg/verif/ev"
)

const workerEnv = "VERIF_C15_WORKER"

type workerCfg struct {
	Cfg    string `json:"cfg"`    // off | on | onb2
	Layout string `json:"layout"` // mem | flush
	Req    string `json:"req"`    // request file
	Out    string `json:"out"`    // result file
	Multi  bool   `json:"multi"`  // also create the second measure group
}

type workerReport struct {
	Cfg, Layout          string
	DiskStart, DiskEnd   map[string]int64
	PartsStart, PartsEnd map[string]int64
	Rows                 map[string]int64
	Requests             int
	StartS, LoadS, RunS  float64
}

func serverFlags(c workerCfg) []string {
	var f []string
	on := c.Cfg != "off"
	for _, e := range []string{"measure", "stream", "trace"} {
		f = append(f, fmt.Sprintf("--%s-vectorized-enabled=%v", e, on))
		if c.Cfg == "onb2" {
			f = append(f, fmt.Sprintf("--%s-vectorized-batch-size=2", e))
		}
		if c.Layout == "mem" {
			f = append(f, fmt.Sprintf("--%s-flush-timeout=2h", e))
		} else {
			f = append(f, fmt.Sprintf("--%s-flush-timeout=100ms", e))
		}
	}
	if c.Layout == "mem" {
		f = append(f, "--element-index-flush-timeout=2h")
	} else {
		f = append(f, "--element-index-flush-timeout=100ms")
	}
	return f
}

// ---------------------------------------------------------------------------------------------------------------
// request / result files

func writeRequests(path string, cases []reqCase) error {
	var buf bytes.Buffer
	for _, c := range cases {
		b, err := proto.MarshalOptions{Deterministic: true}.Marshal(c.Msg)
		if err != nil {
			return err
		}
		buf.WriteByte(c.Engine)
		buf.Write(binary.AppendUvarint(nil, uint64(len(b))))
		buf.Write(b)
	}
	return os.WriteFile(path, buf.Bytes(), 0o644)
}

type rawReq struct {
	msg    proto.Message
	engine byte
}

func readRequests(path string) ([]rawReq, error) {
	b, err := os.ReadFile(path)
	if err != nil {
		return nil, err
	}
	r := bufio.NewReader(bytes.NewReader(b))
	var out []rawReq
	for {
		e, err := r.ReadByte()
		if err == io.EOF {
			return out, nil
		}
		n, err := binary.ReadUvarint(r)
		if err != nil {
			return nil, err
		}
		p := make([]byte, n)
		if _, err := io.ReadFull(r, p); err != nil {
			return nil, err
		}
		var m proto.Message
		switch e {
		case 'M':
			m = &measurev1.QueryRequest{}
		case 'S':
			m = &streamv1.QueryRequest{}
		case 'T':
			m = &tracev1.QueryRequest{}
		default:
			return nil, fmt.Errorf("bad engine byte %q", e)
		}
		if err := proto.Unmarshal(p, m); err != nil {
			return nil, err
		}
		out = append(out, rawReq{m, e})
	}
}

type result struct {
	msg  string
	resp []byte
	code codes.Code
}

func appendResult(buf *bytes.Buffer, r result) {
	buf.Write(binary.AppendUvarint(nil, uint64(r.code)))
	buf.Write(binary.AppendUvarint(nil, uint64(len(r.msg))))
	buf.WriteString(r.msg)
	buf.Write(binary.AppendUvarint(nil, uint64(len(r.resp))))
	buf.Write(r.resp)
}

func readResults(path string) ([]result, error) {
	b, err := os.ReadFile(path)
	if err != nil {
		return nil, err
	}
	r := bufio.NewReader(bytes.NewReader(b))
	var out []result
	for {
		c, err := binary.ReadUvarint(r)
		if err == io.EOF {
			return out, nil
		}
		if err != nil {
			return nil, err
		}
		var res result
		res.code = codes.Code(c)
		for i := 0; i < 2; i++ {
			n, err := binary.ReadUvarint(r)
			if err != nil {
				return nil, err
			}
			p := make([]byte, n)
			if _, err := io.ReadFull(r, p); err != nil {
				return nil, err
			}
			if i == 0 {
				res.msg = string(p)
			} else {
				res.resp = p
			}
		}
		out = append(out, res)
	}
}

// ---------------------------------------------------------------------------------------------------------------
// worker

func layoutFacts(s *e2e.Server, multi bool) (disk, parts, rows map[string]int64) {
	disk, parts, rows = map[string]int64{}, map[string]int64{}, map[string]int64{}
	gs := [][2]string{{"measure", gMeasure}, {"stream", gStream}, {"trace", gTrace}}
	if multi {
		gs = append(gs, [2]string{"measure", gMeasure2})
	}
	for _, g := range gs {
		disk[g[1]] = s.DiskParts(g[0], g[1])
		parts[g[1]], rows[g[1]] = s.Parts(g[1])
	}
	return
}

func worker(c workerCfg) {
	t0 := time.Now()
	reqs, err := readRequests(c.Req)
	if err != nil {
		e2e.Fatal("read requests: %v", err)
	}
	s := e2e.Start(serverFlags(c)...)
	rep := workerReport{Cfg: c.Cfg, Layout: c.Layout, StartS: time.Since(t0).Seconds()}
	t1 := time.Now()
	s.CreateGroup(gMeasure, commonv1.Catalog_CATALOG_MEASURE, 2, 1, 3)
	s.CreateGroup(gStream, commonv1.Catalog_CATALOG_STREAM, 2, 1, 3)
	s.CreateGroup(gTrace, commonv1.Catalog_CATALOG_TRACE, 2, 1, 3) // two shards = two sidx instances: the ordered trace query merges
	s.CreateMeasure(gMeasure, nMeasure, []string{"svc"}, measureFamilies(), measureFieldSpecs(), false, measureIndex()...)
	if c.Multi {
		s.CreateGroup(gMeasure2, commonv1.Catalog_CATALOG_MEASURE, 2, 1, 3)
		s.CreateMeasure(gMeasure2, nMeasure, []string{"svc"}, measureFamilies(), measureFieldSpecs(), false, measureIndex()...)
	}
	s.CreateStream(gStream, nStream, []string{"svc"}, streamFamilies(), streamIndex()...)
	s.CreateTrace(gTrace, nTrace, traceTagSpecs(), "trace_id", "span_id", "ts", traceIndex()...)
	mr, mr2, sr, tr := measureRows(0), measureRows(1), streamRows(), traceRows()
	for b := 0; b < 2; b++ {
		s.WriteMeasure(gMeasure, nMeasure, mr[b])
		if c.Multi {
			s.WriteMeasure(gMeasure2, nMeasure, mr2[b])
		}
		s.WriteStream(gStream, nStream, sr[b])
		s.WriteTrace(gTrace, nTrace, tr[b])
		if c.Layout == "flush" {
			s.WaitFlushed("measure", gMeasure)
			if c.Multi {
				s.WaitFlushed("measure", gMeasure2)
			}
			s.WaitFlushed("stream", gStream)
			s.WaitFlushed("trace", gTrace)
		}
	}
	rep.DiskStart, rep.PartsStart, rep.Rows = layoutFacts(s, c.Multi)
	rep.LoadS = time.Since(t1).Seconds()
	t2 := time.Now()
	var buf bytes.Buffer
	det := proto.MarshalOptions{Deterministic: true}
	for _, r := range reqs {
		var res result
		var m proto.Message
		switch q := r.msg.(type) {
		case *measurev1.QueryRequest:
			resp, code, msg := s.QueryMeasure(q)
			res.code, res.msg = code, msg
			if resp != nil {
				m = resp
			}
		case *streamv1.QueryRequest:
			resp, code, msg := s.QueryStream(q)
			res.code, res.msg = code, msg
			if resp != nil {
				m = resp
			}
		case *tracev1.QueryRequest:
			resp, code, msg := s.QueryTrace(q)
			res.code, res.msg = code, msg
			if resp != nil {
				m = resp
			}
		}
		if m != nil {
			res.resp, err = det.Marshal(m)
			if err != nil {
				e2e.Fatal("marshal response: %v", err)
			}
		}
		appendResult(&buf, res)
	}
	rep.RunS = time.Since(t2).Seconds()
	rep.Requests = len(reqs)
	rep.DiskEnd, rep.PartsEnd, _ = layoutFacts(s, c.Multi)
	if err := os.WriteFile(c.Out, buf.Bytes(), 0o644); err != nil {
		e2e.Fatal("write results: %v", err)
	}
	j, _ := json.Marshal(rep)
	fmt.Printf("C15REPORT %s\n", j)
	s.Remove()
	os.Exit(0)
}

// ---------------------------------------------------------------------------------------------------------------
// comparison

// items splits a response into its comparable rows (deterministic bytes) after removing trace/timing fields.
func items(engine byte, raw []byte) ([][]byte, error) {
	det := proto.MarshalOptions{Deterministic: true}
	var out [][]byte
	add := func(m proto.Message) error {
		b, err := det.Marshal(m)
		out = append(out, b)
		return err
	}
	switch engine {
	case 'M':
		r := &measurev1.QueryResponse{}
		if err := proto.Unmarshal(raw, r); err != nil {
			return nil, err
		}
		for _, dp := range r.GetDataPoints() {
			if err := add(dp); err != nil {
				return nil, err
			}
		}
	case 'S':
		r := &streamv1.QueryResponse{}
		if err := proto.Unmarshal(raw, r); err != nil {
			return nil, err
		}
		for _, el := range r.GetElements() {
			if err := add(el); err != nil {
				return nil, err
			}
		}
	case 'T':
		r := &tracev1.QueryResponse{}
		if err := proto.Unmarshal(raw, r); err != nil {
			return nil, err
		}
		for _, t := range r.GetTraces() {
			if err := add(t); err != nil {
				return nil, err
			}
		}
	}
	return out, nil
}

func sortedCopy(a [][]byte) [][]byte {
	c := append([][]byte(nil), a...)
	sort.Slice(c, func(i, j int) bool { return bytes.Compare(c[i], c[j]) < 0 })
	return c
}

func equalSeq(a, b [][]byte) bool {
	if len(a) != len(b) {
		return false
	}
	for i := range a {
		if !bytes.Equal(a[i], b[i]) {
			return false
		}
	}
	return true
}

// window facts of a request.
func reqWindow(c reqCase) (limit, offset uint32, top bool) {
	switch q := c.Msg.(type) {
	case *measurev1.QueryRequest:
		limit, offset, top = q.GetLimit(), q.GetOffset(), q.GetTop() != nil
		if limit == 0 {
			limit = 100
		}
	case *streamv1.QueryRequest:
		limit, offset = q.GetLimit(), q.GetOffset()
		if limit == 0 {
			limit = 20
		}
	case *tracev1.QueryRequest:
		limit, offset = q.GetLimit(), q.GetOffset()
		if limit == 0 {
			limit = 20
		}
	}
	return
}

// familyKey identifies the request modulo limit, offset and top: all members of a family select from the same rows.
func familyKey(c reqCase) string {
	m := proto.Clone(c.Msg)
	switch q := m.(type) {
	case *measurev1.QueryRequest:
		q.Limit, q.Offset, q.Top = 0, 0, nil
	case *streamv1.QueryRequest:
		q.Limit, q.Offset = 0, 0
	case *tracev1.QueryRequest:
		q.Limit, q.Offset = 0, 0
	}
	b, _ := proto.MarshalOptions{Deterministic: true}.Marshal(m)
	return string(c.Engine) + string(b)
}

// sortKeys extracts, per row, the value the request sorts by (top field, else the order_by tag, else the timestamp);
// ok=false if the request fixes no order or the key is not visible in the rows (then sequences are compared strictly).
func sortKeys(c reqCase, raw []byte) (keys []string, ok bool) {
	det := proto.MarshalOptions{Deterministic: true}
	switch q := c.Msg.(type) {
	case *measurev1.QueryRequest:
		r := &measurev1.QueryResponse{}
		if proto.Unmarshal(raw, r) != nil {
			return nil, false
		}
		for _, dp := range r.GetDataPoints() {
			var k []byte
			found := false
			switch {
			case q.GetTop() != nil:
				for _, f := range dp.GetFields() {
					if f.GetName() == q.GetTop().GetFieldName() {
						k, _ = det.Marshal(f.GetValue())
						found = true
					}
				}
			case q.GetOrderBy().GetIndexRuleName() != "":
				for _, tf := range dp.GetTagFamilies() {
					for _, t := range tf.GetTags() {
						if t.GetKey() == q.GetOrderBy().GetIndexRuleName() {
							k, _ = det.Marshal(t.GetValue())
							found = true
						}
					}
				}
			case q.GetOrderBy() != nil:
				k, _ = det.Marshal(dp.GetTimestamp())
				found = true
			}
			if !found {
				return nil, false
			}
			keys = append(keys, string(k))
		}
		return keys, true
	case *streamv1.QueryRequest:
		r := &streamv1.QueryResponse{}
		if proto.Unmarshal(raw, r) != nil || q.GetOrderBy() == nil {
			return nil, false
		}
		for _, el := range r.GetElements() {
			var k []byte
			found := false
			if rule := q.GetOrderBy().GetIndexRuleName(); rule != "" {
				for _, tf := range el.GetTagFamilies() {
					for _, t := range tf.GetTags() {
						if t.GetKey() == rule {
							k, _ = det.Marshal(t.GetValue())
							found = true
						}
					}
				}
			} else {
				k, _ = det.Marshal(el.GetTimestamp())
				found = true
			}
			if !found {
				return nil, false
			}
			keys = append(keys, string(k))
		}
		return keys, true
	}
	return nil, false
}

// timeSorted: for a request ordered by time (and without top), is this answer sorted in the requested direction?
func timeSorted(c reqCase, raw []byte) (sorted, applicable bool) {
	var ob *modelv1.QueryOrder
	switch q := c.Msg.(type) {
	case *measurev1.QueryRequest:
		if q.GetTop() != nil {
			return true, false
		}
		ob = q.GetOrderBy()
	case *streamv1.QueryRequest:
		ob = q.GetOrderBy()
	}
	if ob == nil || ob.GetIndexRuleName() != "" {
		return true, false
	}
	var x []int64
	switch c.Engine {
	case 'M':
		r := &measurev1.QueryResponse{}
		_ = proto.Unmarshal(raw, r)
		for _, dp := range r.GetDataPoints() {
			x = append(x, dp.GetTimestamp().AsTime().UnixNano())
		}
	case 'S':
		r := &streamv1.QueryResponse{}
		_ = proto.Unmarshal(raw, r)
		for _, el := range r.GetElements() {
			x = append(x, el.GetTimestamp().AsTime().UnixNano())
		}
	}
	for i := 1; i < len(x); i++ {
		if ob.GetSort() == modelv1.Sort_SORT_DESC && x[i] > x[i-1] {
			return false, true
		}
		if ob.GetSort() != modelv1.Sort_SORT_DESC && x[i] < x[i-1] {
			return false, true
		}
	}
	return true, true
}

// timeBlame says which side's answer is not sorted by time in the requested direction.
func timeBlame(c reqCase, off, on []byte) string {
	so, ok := timeSorted(c, off)
	sn, _ := timeSorted(c, on)
	switch {
	case !ok:
		return ""
	case !so && sn:
		return "(row-path-unsorted)"
	case so && !sn:
		return "(vec-path-unsorted)"
	case !so && !sn:
		return "(both-unsorted)"
	}
	return ""
}

func equalStrings(a, b []string) bool {
	if len(a) != len(b) {
		return false
	}
	for i := range a {
		if a[i] != b[i] {
			return false
		}
	}
	return true
}

type verdict struct {
	kind     string // "" = the answers agree under the oracle
	seqEqual bool   // the answers are identical as sequences (or both errors with the same message)
	tie      bool   // agree, but rows with equal sort keys come in another order / another choice at the window edge
	strict   bool   // decided by byte-identical sequences / multisets (no tie tolerance was needed or available)
}

// compare decides one (off, on) pair. universe = all rows the row path returned for any member of the request's
// family (nil if the family has no untruncated member).
//
// Oracle: same gRPC status code; same number of rows; an untruncated answer (offset 0, no top, fewer rows than the
// limit) must be the same multiset; where the request fixes an order (order_by / top) the sequences of sort keys must
// be identical; a truncated answer may differ from the row path's only in rows that carry the same sort key (ties are
// broken differently by the two paths, and not even deterministically inside one path) and must consist of rows of
// the family's universe; without visible sort keys an ordered answer must be the identical sequence.
func compare(c reqCase, off, on result, universe map[string]struct{}) (verdict, error) {
	if off.code != on.code {
		return verdict{kind: fmt.Sprintf("status(off=%s,on=%s)", off.code, on.code)}, nil
	}
	if off.code != codes.OK {
		return verdict{seqEqual: off.msg == on.msg, strict: true}, nil
	}
	a, err := items(c.Engine, off.resp)
	if err != nil {
		return verdict{}, err
	}
	b, err := items(c.Engine, on.resp)
	if err != nil {
		return verdict{}, err
	}
	if equalSeq(a, b) {
		return verdict{seqEqual: true, strict: true}, nil
	}
	if len(a) != len(b) {
		k := "count(on<off)"
		if len(b) > len(a) {
			k = "count(on>off)"
		}
		return verdict{kind: k}, nil
	}
	sameMultiset := equalSeq(sortedCopy(a), sortedCopy(b))
	limit, offset, top := reqWindow(c)
	truncated := offset != 0 || top || uint32(len(a)) >= limit
	var ka, kb []string
	keysOK := false
	if c.Ordered {
		var ok1, ok2 bool
		ka, ok1 = sortKeys(c, off.resp)
		kb, ok2 = sortKeys(c, on.resp)
		keysOK = ok1 && ok2
	}
	if !c.Ordered {
		if sameMultiset {
			return verdict{strict: true}, nil
		}
		if !truncated || universe == nil {
			return verdict{kind: "values"}, nil
		}
		for _, row := range b {
			if _, ok := universe[string(row)]; !ok {
				return verdict{kind: "values"}, nil
			}
		}
		return verdict{tie: true}, nil // another choice among the rows; no order was requested
	}
	if !keysOK || !equalStrings(ka, kb) {
		blame := timeBlame(c, off.resp, on.resp)
		if sameMultiset {
			return verdict{kind: "order" + blame}, nil
		}
		return verdict{kind: "values" + blame}, nil
	}
	if sameMultiset {
		return verdict{tie: true}, nil
	}
	if !truncated || universe == nil {
		return verdict{kind: "values"}, nil
	}
	for _, row := range b {
		if _, ok := universe[string(row)]; !ok {
			return verdict{kind: "values"}, nil
		}
	}
	return verdict{tie: true}, nil
}

func pj(m proto.Message) json.RawMessage {
	b, err := protojson.Marshal(m)
	if err != nil {
		return json.RawMessage(`"?"`)
	}
	var c bytes.Buffer
	if json.Compact(&c, b) == nil { // protojson output is deliberately unstable in whitespace
		return c.Bytes()
	}
	return b
}

func respJSON(engine byte, r result) any {
	if r.code != codes.OK {
		return map[string]any{"code": r.code.String(), "message": r.msg}
	}
	var m proto.Message
	switch engine {
	case 'M':
		m = &measurev1.QueryResponse{}
	case 'S':
		m = &streamv1.QueryResponse{}
	default:
		m = &tracev1.QueryResponse{}
	}
	if proto.Unmarshal(r.resp, m) != nil {
		return "?"
	}
	return pj(m)
}

// ---------------------------------------------------------------------------------------------------------------
// parent

type artefact struct {
	Engine  string          `json:"engine"`
	Layout  string          `json:"layout"`
	Cfg     string          `json:"cfg"`
	Shape   string          `json:"shape"`
	Kind    string          `json:"kind"`
	Request json.RawMessage `json:"request"`
	Off     any             `json:"off,omitempty"`
	On      any             `json:"on,omitempty"`
	Ordered bool            `json:"ordered"`
}

func runWorkers(dir string, cfgs []workerCfg) (map[string]workerReport, error) {
	reps := map[string]workerReport{}
	var mu sync.Mutex
	var wg sync.WaitGroup
	var firstErr error
	for _, c := range cfgs {
		wg.Add(1)
		go func(c workerCfg) {
			defer wg.Done()
			j, _ := json.Marshal(c)
			out, err := e2e.Spawn(workerEnv + "=" + string(j))
			mu.Lock()
			defer mu.Unlock()
			for _, l := range strings.Split(string(out), "\n") {
				if strings.HasPrefix(l, "C15REPORT ") {
					var r workerReport
					if json.Unmarshal([]byte(l[10:]), &r) == nil {
						reps[c.Cfg+"/"+c.Layout] = r
					}
				} else if strings.HasPrefix(l, "E2E-FATAL") || strings.HasPrefix(l, "panic") || strings.HasPrefix(l, "fatal error") {
					fmt.Printf("[%s/%s] %s\n", c.Cfg, c.Layout, l)
				}
			}
			if err != nil && firstErr == nil {
				tail := string(out)
				if len(tail) > 3000 {
					tail = tail[len(tail)-3000:]
				}
				firstErr = fmt.Errorf("worker %s/%s: %w\n%s", c.Cfg, c.Layout, err, tail)
			}
		}(c)
	}
	wg.Wait()
	return reps, firstErr
}

func trunc(s string, n int) string {
	if len(s) > n {
		return s[:n]
	}
	return s
}

func engineName(e byte) string {
	switch e {
	case 'M':
		return "measure"
	case 'S':
		return "stream"
	}
	return "trace"
}

func main() {
	_ = logger.Init(logger.Logging{Env: "prod", Level: "fatal"})
	if w := os.Getenv(workerEnv); w != "" {
		var c workerCfg
		if err := json.Unmarshal([]byte(w), &c); err != nil {
			e2e.Fatal("worker config: %v", err)
		}
		worker(c)
		return
	}
	if p := ev.Arg("--replay"); p != "" {
		replay(p)
		return
	}
	r := ev.New("C15", "translation_validation")
	thorough := ev.Thorough()
	frameRoundTrip(r, thorough)
	coordinatorMerge(r)

	cases := allCases(thorough)
	dir := fmt.Sprintf("/dev/shm/verif-c15-%d", os.Getpid())
	_ = os.RemoveAll(dir)
	if err := os.MkdirAll(dir, 0o755); err != nil {
		fmt.Fprintln(os.Stderr, err)
		os.Exit(2)
	}
	defer os.RemoveAll(dir)
	reqFile := filepath.Join(dir, "req.bin")
	if err := writeRequests(reqFile, cases); err != nil {
		fmt.Fprintln(os.Stderr, err)
		os.Exit(2)
	}
	var cfgs []workerCfg
	for _, layout := range []string{"mem", "flush"} {
		for _, cfg := range []string{"off", "on", "onb2"} {
			cfgs = append(cfgs, workerCfg{Cfg: cfg, Layout: layout, Req: reqFile, Out: filepath.Join(dir, cfg+"-"+layout+".bin"), Multi: thorough})
		}
	}
	reps, err := runWorkers(dir, cfgs)
	if err != nil {
		_ = os.RemoveAll(dir)
		fmt.Fprintln(os.Stderr, "C15 harness error:", err)
		os.Exit(2)
	}
	// layout facts: not a verdict, but the evidence must say whether the intended layouts were really held
	// "mem" layout: the engines flush the very first memory part at once (the merge loop's initial registration wakes
	// the flusher) and keep the second one in memory for the flush timeout (2 h): expected = 1 part on disk + 1 in
	// memory for the whole run. "flush" layout: every part on disk.
	layoutHeld := true
	for k, rep := range reps {
		for g, d := range rep.DiskStart {
			if rep.Layout == "mem" && !(d < rep.PartsStart[g] && rep.DiskEnd[g] < rep.PartsEnd[g]) {
				layoutHeld = false
				r.NotExhaustive(fmt.Sprintf("layout mem (>=1 part in memory) not held in %s group %s: disk %d of %d parts .. disk %d of %d", k, g, d, rep.PartsStart[g], rep.DiskEnd[g], rep.PartsEnd[g]))
			}
			if rep.Layout == "flush" && (d == 0 || d != rep.PartsStart[g] || rep.DiskEnd[g] != rep.PartsEnd[g]) {
				layoutHeld = false
				r.NotExhaustive(fmt.Sprintf("layout flush not held in %s group %s: disk %d parts %d .. disk %d parts %d", k, g, d, rep.PartsStart[g], rep.DiskEnd[g], rep.PartsEnd[g]))
			}
		}
	}
	r.Set("layouts_held", layoutHeld)
	r.Set("workers", reps)

	res := map[string][]result{}
	for _, c := range cfgs {
		rs, err := readResults(c.Out)
		if err != nil || len(rs) != len(cases) {
			_ = os.RemoveAll(dir)
			fmt.Fprintf(os.Stderr, "C15 harness error: results of %s/%s: %v (%d of %d)\n", c.Cfg, c.Layout, err, len(rs), len(cases))
			os.Exit(2)
		}
		res[c.Cfg+"/"+c.Layout] = rs
	}
	wireRoundTrip(r, cases, res["off/mem"])
	var dump *os.File
	if p := os.Getenv("C15_DUMP"); p != "" {
		dump, _ = os.Create(p)
		defer dump.Close()
	}
	perEngine := map[string]int{}
	errMsgs := map[string]int{}
	outcomes := map[string]int{}
	distinctAnswers := map[string]struct{}{}
	nonEmpty, errorsBoth, unorderedSeqDiff, msgDiff, comparisons, disagreements := 0, 0, 0, 0, 0, 0
	shapes := map[string]struct{}{}
	// family universes from the row path (layout by layout)
	universes := map[string]map[string]map[string]struct{}{"mem": {}, "flush": {}}
	complete := map[string]map[string]bool{"mem": {}, "flush": {}}
	rowUnsorted := map[string]map[string]bool{"mem": {}, "flush": {}} // families whose row-path answer is not sorted by time
	for i, c := range cases {
		fk := familyKey(c)
		for _, layout := range []string{"mem", "flush"} {
			off := res["off/"+layout][i]
			if off.code != codes.OK {
				continue
			}
			its, _ := items(c.Engine, off.resp)
			if sorted, ok := timeSorted(c, off.resp); ok && !sorted {
				rowUnsorted[layout][fk] = true
			}
			u := universes[layout][fk]
			if u == nil {
				u = map[string]struct{}{}
				universes[layout][fk] = u
			}
			for _, it := range its {
				u[string(it)] = struct{}{}
			}
			limit, offset, top := reqWindow(c)
			if offset == 0 && !top && uint32(len(its)) < limit {
				complete[layout][fk] = true
			}
		}
	}
	ties, strictEqual := 0, 0
	var tieSamples []any
	for i, c := range cases {
		perEngine[engineName(c.Engine)]++
		shapes[c.Shape] = struct{}{}
		fk := familyKey(c)
		for _, layout := range []string{"mem", "flush"} {
			off := res["off/"+layout][i]
			if layout == "mem" {
				h := fmt.Sprintf("%c%d|%x", c.Engine, off.code, off.resp)
				distinctAnswers[h] = struct{}{}
				if off.code != codes.OK {
					errMsgs[engineName(c.Engine)+": "+trunc(off.msg, 140)]++
					errorsBoth++
					outcomes[engineName(c.Engine)+":"+off.code.String()]++
				} else if its, _ := items(c.Engine, off.resp); len(its) > 0 {
					nonEmpty++
					outcomes[engineName(c.Engine)+":rows"]++
				} else {
					outcomes[engineName(c.Engine)+":empty"]++
				}
			}
			var universe map[string]struct{}
			if complete[layout][fk] {
				universe = universes[layout][fk]
			}
			for _, cfg := range []string{"on", "onb2"} {
				on := res[cfg+"/"+layout][i]
				comparisons++
				v, err := compare(c, off, on, universe)
				if err != nil {
					fmt.Fprintln(os.Stderr, "C15 harness error: undecodable response:", err)
					os.Exit(2)
				}
				if v.kind == "" {
					switch {
					case v.tie:
						ties++
						if len(tieSamples) < 4 {
							tieSamples = append(tieSamples, map[string]any{"engine": engineName(c.Engine), "layout": layout, "cfg": cfg, "request": pj(c.Msg), "off": respJSON(c.Engine, off), "on": respJSON(c.Engine, on)})
						}
					case off.code == codes.OK && v.seqEqual:
						strictEqual++
					case off.code == codes.OK:
						unorderedSeqDiff++
					case !v.seqEqual:
						msgDiff++
					}
					continue
				}
				disagreements++
				if rowUnsorted[layout][fk] && !strings.Contains(v.kind, "unsorted") {
					v.kind += "(row-path-unsorted)" // a window of a family whose row-path order is broken
				}
				if dump != nil {
					j, _ := json.Marshal(map[string]any{"engine": engineName(c.Engine), "layout": layout, "cfg": cfg, "shape": c.Shape, "kind": v.kind, "request": pj(c.Msg), "off": respJSON(c.Engine, off), "on": respJSON(c.Engine, on)})
					fmt.Fprintf(dump, "%s\n", j)
				}
				key := fmt.Sprintf("%s %s kind=%s", engineName(c.Engine), c.Shape, v.kind)
				r.Violation(key, artefact{Engine: engineName(c.Engine), Layout: layout, Cfg: cfg, Shape: c.Shape, Kind: v.kind, Ordered: c.Ordered,
					Request: pj(c.Msg), Off: respJSON(c.Engine, off), On: respJSON(c.Engine, on)})
			}
		}
		if i%997 == 0 {
			r.Sample(map[string]any{"engine": engineName(c.Engine), "shape": c.Shape, "request": pj(c.Msg), "row_path_answer": respJSON(c.Engine, res["off/mem"][i])})
		}
	}
	r.Set("answers_identical_as_sequences", strictEqual)
	r.Set("answers_equal_up_to_ties", ties)
	r.Set("tie_samples", tieSamples)
	r.Set("programs", len(cases))
	r.Set("programs_per_engine", perEngine)
	r.Set("request_shapes", len(shapes))
	r.Set("disagreements_checked", comparisons)
	r.Set("disagreements_found", disagreements)
	r.Set("configs", []string{"on vs off (mem: newest part in memory)", "on+batch2 vs off (mem)", "on vs off (flush: all parts on disk)", "on+batch2 vs off (flush)"})
	r.Set("evaluations", len(cases)*len(cfgs))
	r.Set("distinct_nontrivial", len(distinctAnswers))
	r.Set("rule", "every request of the bounded grammar (grammar.go) x 6 server configurations; distinct_nontrivial = number of distinct row-path answers (status or byte-exact response) over all requests; non-empty answers and error answers counted separately")
	r.Set("row_path_nonempty_answers", nonEmpty)
	r.Set("row_path_error_answers", errorsBoth)
	r.Set("row_path_outcomes", outcomes)
	r.Set("row_path_error_messages", errMsgs)
	r.Set("unordered_answers_same_multiset_other_sequence", unorderedSeqDiff)
	r.Set("error_answers_with_other_message", msgDiff)
	r.Assume("pbgen-generated messages and stubs; the servers are the repository's own standalone command started through pkg/test/setup")
	r.Assume("the request grammar and the dataset in checks/c15/grammar.go bound the claim; requests outside it are not covered")
	r.Assume("the relative order of rows with equal sort keys (and therefore the choice among them at a limit/offset/top-N edge) is not part of the contract: it differs between the two paths and is not deterministic inside one path (trace); such answers are counted as answers_equal_up_to_ties, not as violations; error answers are compared by gRPC status code")
	fmt.Printf("C15: %d requests (%v) x %d configs, %d comparisons, %d disagreements; row path: %d non-empty, %d errors, %d distinct answers; layouts held=%v\n",
		len(cases), perEngine, len(cfgs), comparisons, disagreements, nonEmpty, errorsBoth, len(distinctAnswers), layoutHeld)
	_ = os.RemoveAll(dir)
	r.Finish()
}

// replay re-executes one recorded disagreement: the request alone, on a fresh "off" and a fresh "<cfg>" server in the
// recorded layout.
func replay(path string) {
	b, err := os.ReadFile(path)
	if err != nil {
		fmt.Fprintln(os.Stderr, err)
		os.Exit(2)
	}
	var rec struct {
		Artefact json.RawMessage `json:"artefact"`
	}
	if err := json.Unmarshal(b, &rec); err != nil {
		fmt.Fprintln(os.Stderr, err)
		os.Exit(2)
	}
	var mprobe struct {
		Merge *mergeCase `json:"merge"`
	}
	if json.Unmarshal(rec.Artefact, &mprobe) == nil && mprobe.Merge != nil && mprobe.Merge.Merge {
		if msg, _ := mergeOne(*mprobe.Merge); msg != "" {
			fmt.Println("C15 replay: coordinator merge still differs:", msg)
			os.Exit(1)
		}
		fmt.Println("C15 replay: coordinator merge agrees")
		os.Exit(0)
	}
	var probe struct {
		Frame *frameCase `json:"frame"`
	}
	if json.Unmarshal(rec.Artefact, &probe) == nil && probe.Frame != nil {
		if msg := frameOne(*probe.Frame); msg != "" {
			fmt.Println("C15 replay: frame round trip still fails:", msg)
			os.Exit(1)
		}
		fmt.Println("C15 replay: frame round trip ok")
		os.Exit(0)
	}
	var a artefact
	if err := json.Unmarshal(rec.Artefact, &a); err != nil {
		fmt.Fprintln(os.Stderr, err)
		os.Exit(2)
	}
	c := reqCase{Ordered: a.Ordered, Shape: a.Shape}
	switch a.Engine {
	case "measure":
		c.Engine, c.Msg = 'M', &measurev1.QueryRequest{}
	case "stream":
		c.Engine, c.Msg = 'S', &streamv1.QueryRequest{}
	default:
		c.Engine, c.Msg = 'T', &tracev1.QueryRequest{}
	}
	if err := protojson.Unmarshal(a.Request, c.Msg); err != nil {
		fmt.Fprintln(os.Stderr, "replay: request:", err)
		os.Exit(2)
	}
	dir := fmt.Sprintf("/dev/shm/verif-c15-%d", os.Getpid())
	_ = os.MkdirAll(dir, 0o755)
	defer os.RemoveAll(dir)
	reqFile := filepath.Join(dir, "req.bin")
	// second request: the untruncated member of the family (gives the universe of admissible rows)
	base := reqCase{Engine: c.Engine, Msg: proto.Clone(c.Msg)}
	switch q := base.Msg.(type) {
	case *measurev1.QueryRequest:
		q.Limit, q.Offset, q.Top = 1000, 0, nil
	case *streamv1.QueryRequest:
		q.Limit, q.Offset = 1000, 0
	case *tracev1.QueryRequest:
		q.Limit, q.Offset = 1000, 0
	}
	if err := writeRequests(reqFile, []reqCase{c, base}); err != nil {
		fmt.Fprintln(os.Stderr, err)
		os.Exit(2)
	}
	multi := false
	if m, ok := c.Msg.(*measurev1.QueryRequest); ok && len(m.GetGroups()) > 1 {
		multi = true
	}
	cfgs := []workerCfg{
		{Cfg: "off", Layout: a.Layout, Req: reqFile, Out: filepath.Join(dir, "off.bin"), Multi: multi},
		{Cfg: a.Cfg, Layout: a.Layout, Req: reqFile, Out: filepath.Join(dir, "on.bin"), Multi: multi},
	}
	if _, err := runWorkers(dir, cfgs); err != nil {
		_ = os.RemoveAll(dir)
		fmt.Fprintln(os.Stderr, "replay harness error:", err)
		os.Exit(2)
	}
	off, err1 := readResults(cfgs[0].Out)
	on, err2 := readResults(cfgs[1].Out)
	if err1 != nil || err2 != nil || len(off) != 2 || len(on) != 2 {
		_ = os.RemoveAll(dir)
		fmt.Fprintln(os.Stderr, "replay harness error: results", err1, err2)
		os.Exit(2)
	}
	var universe map[string]struct{}
	if off[1].code == codes.OK {
		universe = map[string]struct{}{}
		for _, rr := range []result{off[0], off[1]} {
			if rr.code == codes.OK {
				its, _ := items(c.Engine, rr.resp)
				for _, it := range its {
					universe[string(it)] = struct{}{}
				}
			}
		}
	}
	v, err := compare(c, off[0], on[0], universe)
	_ = os.RemoveAll(dir)
	if err != nil {
		fmt.Fprintln(os.Stderr, err)
		os.Exit(2)
	}
	if v.kind != "" {
		o1, _ := json.Marshal(respJSON(c.Engine, off[0]))
		o2, _ := json.Marshal(respJSON(c.Engine, on[0]))
		fmt.Printf("C15 replay: still disagrees (%s)\n off: %s\n %s: %s\n", v.kind, o1, a.Cfg, o2)
		os.Exit(1)
	}
	fmt.Println("C15 replay: responses agree")
	os.Exit(0)
}
