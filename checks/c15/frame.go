// Columnar frame codec round trip: decode(encode(f)) == f for every frame of a bounded space, with the measure codec
// (6 wire types) and the stream codec (4 wire types) of pkg/query/vectorized/{measure,stream}/frame, which are thin
// parameterisations of pkg/query/vectorized/frame (encode.go / decode.go).
package main

import (
	"bytes"
	"fmt"
	"math"

	"google.golang.org/grpc/codes"
	"google.golang.org/protobuf/proto"

	measurev1 "github.com/apache/skywalking-banyandb/api/proto/banyandb/measure/v1"
	modelv1 "github.com/apache/skywalking-banyandb/api/proto/banyandb/model/v1"
	"github.com/apache/skywalking-banyandb/pkg/query/vectorized"
	vmeasure "github.com/apache/skywalking-banyandb/pkg/query/vectorized/measure"
	mframe "github.com/apache/skywalking-banyandb/pkg/query/vectorized/measure/frame"
	sframe "github.com/apache/skywalking-banyandb/pkg/query/vectorized/stream/frame"
	"github.com/apache/skywalking-banyandb/pkg/verif/e2e"
	"github.com/apache/skywalking-banyandb/pkg/verif/ev"
)

type frameCol struct {
	Type int `json:"type"` // vectorized.ColumnType
	Mask int `json:"mask"` // bit i set = row i is null
}

type frameCase struct {
	Codec string     `json:"codec"` // measure | stream
	Cols  []frameCol `json:"cols"`
	Sel   []int      `json:"sel"` // nil = no selection vector; else the active rows ([-1] encodes the empty non-nil selection)
	Rows  int        `json:"rows"`
}

var (
	fInts    = []int64{0, -1, math.MaxInt64}
	fFloats  = []float64{0, -0.5, math.Inf(1)}
	fStrings = []string{"", "a", "héllo\x00"}
	fBytes   = [][]byte{{}, {0}, {0xff, 0, 0x80}}
	fTagVals = []*modelv1.TagValue{e2e.Str("x"), e2e.Int(0), e2e.Null()}
	fFldVals = []*modelv1.FieldValue{e2e.FI(7), e2e.FF(0), e2e.FNull()}
)

func roleFor(t vectorized.ColumnType) vectorized.ColumnRole {
	switch t {
	case vectorized.ColumnTypeFloat64, vectorized.ColumnTypeFieldValue:
		return vectorized.RoleField
	}
	return vectorized.RoleTag
}

func buildFrame(fc frameCase) *vectorized.RecordBatch {
	defs := make([]vectorized.ColumnDef, len(fc.Cols))
	for i, c := range fc.Cols {
		t := vectorized.ColumnType(c.Type)
		defs[i] = vectorized.ColumnDef{Name: fmt.Sprintf("c%dé", i), Role: roleFor(t), Type: t}
		if defs[i].Role == vectorized.RoleTag {
			defs[i].TagFamily = "fam"
		}
	}
	b := vectorized.NewRecordBatch(vectorized.NewBatchSchema(defs), fc.Rows)
	for i, c := range fc.Cols {
		for r := 0; r < fc.Rows; r++ {
			null := c.Mask&(1<<r) != 0
			switch col := b.Columns[i].(type) {
			case *vectorized.TypedColumn[int64]:
				if null {
					col.AppendNull()
				} else {
					col.Append(fInts[r%3])
				}
			case *vectorized.TypedColumn[float64]:
				if null {
					col.AppendNull()
				} else {
					col.Append(fFloats[r%3])
				}
			case *vectorized.TypedColumn[string]:
				if null {
					col.AppendNull()
				} else {
					col.Append(fStrings[r%3])
				}
			case *vectorized.TypedColumn[[]byte]:
				if null {
					col.AppendNull()
				} else {
					col.Append(fBytes[r%3])
				}
			case *vectorized.TypedColumn[*modelv1.TagValue]:
				if null {
					col.AppendNull()
				} else {
					col.Append(fTagVals[r%3])
				}
			case *vectorized.TypedColumn[*modelv1.FieldValue]:
				if null {
					col.AppendNull()
				} else {
					col.Append(fFldVals[r%3])
				}
			}
		}
	}
	b.Len = fc.Rows
	if fc.Sel != nil {
		b.Selection = []uint16{}
		for _, s := range fc.Sel {
			if s >= 0 {
				b.Selection = append(b.Selection, uint16(s))
			}
		}
	}
	return b
}

func cellEqual(a vectorized.Column, ai int, b vectorized.Column, bi int) bool {
	if a.IsNull(ai) != b.IsNull(bi) {
		return false
	}
	if a.IsNull(ai) {
		return true
	}
	switch x := a.(type) {
	case *vectorized.TypedColumn[int64]:
		y, ok := b.(*vectorized.TypedColumn[int64])
		return ok && bi < len(y.Data()) && x.Data()[ai] == y.Data()[bi]
	case *vectorized.TypedColumn[float64]:
		y, ok := b.(*vectorized.TypedColumn[float64])
		return ok && bi < len(y.Data()) && math.Float64bits(x.Data()[ai]) == math.Float64bits(y.Data()[bi])
	case *vectorized.TypedColumn[string]:
		y, ok := b.(*vectorized.TypedColumn[string])
		return ok && bi < len(y.Data()) && x.Data()[ai] == y.Data()[bi]
	case *vectorized.TypedColumn[[]byte]:
		y, ok := b.(*vectorized.TypedColumn[[]byte])
		return ok && bi < len(y.Data()) && bytes.Equal(x.Data()[ai], y.Data()[bi])
	case *vectorized.TypedColumn[*modelv1.TagValue]:
		y, ok := b.(*vectorized.TypedColumn[*modelv1.TagValue])
		return ok && bi < len(y.Data()) && proto.Equal(x.Data()[ai], y.Data()[bi])
	case *vectorized.TypedColumn[*modelv1.FieldValue]:
		y, ok := b.(*vectorized.TypedColumn[*modelv1.FieldValue])
		return ok && bi < len(y.Data()) && proto.Equal(x.Data()[ai], y.Data()[bi])
	}
	return false
}

// frameOne runs one round trip; "" = ok.
func frameOne(fc frameCase) (msg string) {
	defer func() {
		if p := recover(); p != nil {
			msg = fmt.Sprintf("panic: %v", p)
		}
	}()
	in := buildFrame(fc)
	enc, dec := mframe.Encode, mframe.Decode
	if fc.Codec == "stream" {
		enc, dec = sframe.Encode, sframe.Decode
	}
	wire, err := enc(in)
	if err != nil {
		return "encode: " + err.Error()
	}
	out, err := dec(wire)
	if err != nil {
		return "decode: " + err.Error()
	}
	active := make([]int, 0, fc.Rows)
	if in.Selection == nil {
		for i := 0; i < in.Len; i++ {
			active = append(active, i)
		}
	} else {
		for _, s := range in.Selection {
			active = append(active, int(s))
		}
	}
	if out.Len != len(active) || out.Selection != nil {
		return fmt.Sprintf("rows: got Len=%d selection=%v want %d", out.Len, out.Selection, len(active))
	}
	if len(out.Columns) != len(in.Columns) || len(out.Schema.Columns) != len(in.Schema.Columns) {
		return fmt.Sprintf("columns: got %d want %d", len(out.Columns), len(in.Columns))
	}
	for i := range in.Columns {
		if in.Schema.Columns[i] != out.Schema.Columns[i] {
			return fmt.Sprintf("column %d def: got %+v want %+v", i, out.Schema.Columns[i], in.Schema.Columns[i])
		}
		if out.Columns[i].Len() != len(active) {
			return fmt.Sprintf("column %d: decoded %d cells, want %d", i, out.Columns[i].Len(), len(active))
		}
		for j, src := range active {
			if !cellEqual(in.Columns[i], src, out.Columns[i], j) {
				return fmt.Sprintf("column %d row %d differs", i, j)
			}
		}
	}
	// a second encode of the decoded frame must reproduce the wire bytes (canonical form)
	wire2, err := enc(out)
	if err != nil {
		return "re-encode: " + err.Error()
	}
	if !bytes.Equal(wire, wire2) {
		return "re-encoded frame differs from the first encoding"
	}
	return ""
}

func frameRoundTrip(r *ev.Run, thorough bool) {
	maxCols := 2
	if thorough {
		maxCols = 3
	}
	types := map[string][]vectorized.ColumnType{
		"measure": {vectorized.ColumnTypeInt64, vectorized.ColumnTypeFloat64, vectorized.ColumnTypeString, vectorized.ColumnTypeBytes, vectorized.ColumnTypeTagValue, vectorized.ColumnTypeFieldValue},
		"stream":  {vectorized.ColumnTypeInt64, vectorized.ColumnTypeString, vectorized.ColumnTypeBytes, vectorized.ColumnTypeTagValue},
	}
	n, bad, withNull, withSel := 0, 0, 0, 0
	one := func(fc frameCase) {
		n++
		for _, c := range fc.Cols {
			if c.Mask != 0 {
				withNull++
				break
			}
		}
		if fc.Sel != nil {
			withSel++
		}
		if msg := frameOne(fc); msg != "" {
			bad++
			last := "none"
			if len(fc.Cols) > 0 {
				last = vectorized.ColumnType(fc.Cols[len(fc.Cols)-1].Type).String()
			}
			r.Violation(fmt.Sprintf("frame %s codec round trip: %s (last column %s, rows=%d, cols=%d)", fc.Codec, msgClass(msg), last, fc.Rows, len(fc.Cols)),
				map[string]any{"frame": fc, "message": msg})
		}
		if n%40000 == 1 {
			r.Sample(map[string]any{"frame": fc})
		}
	}
	for _, codec := range []string{"measure", "stream"} {
		for rows := 0; rows <= 3; rows++ {
			var colAlpha []frameCol
			for _, t := range types[codec] {
				for m := 0; m < 1<<rows; m++ {
					colAlpha = append(colAlpha, frameCol{Type: int(t), Mask: m})
				}
			}
			sels := [][]int{nil}
			switch rows {
			case 1:
				sels = append(sels, []int{-1}, []int{0})
			case 2:
				sels = append(sels, []int{-1}, []int{1}, []int{1, 0})
			case 3:
				sels = append(sels, []int{-1}, []int{1}, []int{0, 2}, []int{2, 0})
			}
			var rec func(cols []frameCol)
			rec = func(cols []frameCol) {
				for _, sel := range sels {
					if sel != nil && len(cols) > 2 {
						continue // selection vectors are enumerated for frames of <= 2 columns
					}
					one(frameCase{Codec: codec, Rows: rows, Cols: cols, Sel: sel})
				}
				if len(cols) == maxCols {
					return
				}
				for _, c := range colAlpha {
					rec(append(append([]frameCol(nil), cols...), c))
				}
			}
			rec(nil)
		}
		// the validity bitmap's byte boundary: 8 and 9 rows; one column with every null mask, two columns with the
		// masks {none, all, alternating, first only, last only}
		for _, rows := range []int{8, 9} {
			all := 1<<rows - 1
			edge := []int{0, all, 0x155 & all, 1, 1 << (rows - 1)}
			for _, t := range types[codec] {
				for m := 0; m <= all; m++ {
					one(frameCase{Codec: codec, Rows: rows, Cols: []frameCol{{Type: int(t), Mask: m}}})
				}
				for _, t2 := range types[codec] {
					for _, m1 := range edge {
						for _, m2 := range edge {
							one(frameCase{Codec: codec, Rows: rows, Cols: []frameCol{{Type: int(t), Mask: m1}, {Type: int(t2), Mask: m2}}})
						}
					}
				}
			}
		}
	}
	r.Set("frame_round_trips", n)
	r.Set("frame_round_trips_with_null_cells", withNull)
	r.Set("frame_round_trips_with_selection_vector", withSel)
	r.Set("frame_round_trip_failures", bad)
	r.Set("frame_bounds", fmt.Sprintf("codecs measure(6 types) and stream(4 types); rows 0..3: every null mask, 0..%d columns, every type sequence, selection vectors for <=2 columns; rows 8 and 9: one column with every null mask, two columns with 5 edge masks each", maxCols))
	fmt.Printf("C15: frame codec round trips: %d (%d with nulls, %d with a selection vector), failures %d\n", n, withNull, withSel, bad)
}

func msgClass(m string) string {
	for i := 0; i < len(m); i++ {
		if m[i] == ':' {
			return m[:i]
		}
	}
	if len(m) > 40 {
		return m[:40]
	}
	return m
}

// wireRoundTrip pushes every distinct non-empty measure answer of the row path through the columnar wire format a
// data node uses towards the liaison (pkg/query/vectorized/measure/raw_emit.go): data points -> passthrough batch ->
// (a) proto-bytes columns / (b) typed columns (convertPassthroughForFrame, as DrainPipelineToFrame does) -> frame ->
// DecodeFramesToInternalDataPoints; the decoded data points must equal the originals.
func wireRoundTrip(r *ev.Run, cases []reqCase, off []result) {
	seen := map[string]struct{}{}
	n, bad := 0, 0
	for i, c := range cases {
		if c.Engine != 'M' || off[i].code != codes.OK {
			continue
		}
		if _, ok := seen[string(off[i].resp)]; ok {
			continue
		}
		seen[string(off[i].resp)] = struct{}{}
		resp := &measurev1.QueryResponse{}
		if proto.Unmarshal(off[i].resp, resp) != nil || len(resp.GetDataPoints()) == 0 {
			continue
		}
		idps := make([]*measurev1.InternalDataPoint, len(resp.GetDataPoints()))
		for j, dp := range resp.GetDataPoints() {
			idps[j] = &measurev1.InternalDataPoint{DataPoint: dp, ShardId: uint32(j % 2)}
		}
		for _, variant := range []string{"passthrough", "typed"} {
			n++
			msg := wireOne(variant, idps)
			if msg != "" {
				bad++
				r.Violation(fmt.Sprintf("measure wire frame (%s) round trip: %s [%s]", variant, msgClass(msg), c.Shape),
					map[string]any{"wire": variant, "message": msg, "request": pj(c.Msg), "data_points": pj(resp)})
			}
		}
	}
	r.Set("wire_round_trips", n)
	r.Set("wire_round_trip_failures", bad)
	r.Set("wire_absent_timestamp_decoded_as_zero", wireNilTS)
	fmt.Printf("C15: measure wire-format round trips over distinct row-path answers: %d, failures %d\n", n, bad)
}

var wireNilTS int

func wireOne(variant string, idps []*measurev1.InternalDataPoint) (msg string) {
	defer func() {
		if p := recover(); p != nil {
			msg = fmt.Sprintf("panic: %v", p)
		}
	}()
	var body []byte
	var err error
	if variant == "typed" {
		body, err = vmeasure.VerifC15EmitTyped(idps)
	} else {
		body, err = vmeasure.SerializeDataPointsToFrame(idps)
	}
	if err != nil {
		return "emit: " + err.Error()
	}
	back, err := vmeasure.DecodeFramesToInternalDataPoints([][]byte{body})
	if err != nil {
		return "decode: " + err.Error()
	}
	if len(back) != len(idps) {
		return fmt.Sprintf("rows: decoded %d data points, want %d", len(back), len(idps))
	}
	for i := range idps {
		// abstention: the frame has a non-nullable timestamp column, so the absent timestamp of an aggregated data
		// point comes back as the zero timestamp; not demanded (the liaison rebuilds aggregated rows).
		if idps[i].GetDataPoint().GetTimestamp() == nil && back[i].GetDataPoint().GetTimestamp() != nil &&
			back[i].GetDataPoint().GetTimestamp().GetSeconds() == 0 && back[i].GetDataPoint().GetTimestamp().GetNanos() == 0 {
			back[i].DataPoint.Timestamp = nil
			wireNilTS++
		}
		if !proto.Equal(idps[i], back[i]) {
			return fmt.Sprintf("data point %d differs: got %s want %s", i, trunc(back[i].String(), 300), trunc(idps[i].String(), 300))
		}
	}
	return ""
}
