// Dataset and request grammar of C15. Everything here is deterministic and depends only on the tier and on
// e2e.Base(): the parent enumerates the requests once, every worker replays exactly that list on its own server.
package main

import (
	"fmt"
	"strings"

	"google.golang.org/protobuf/proto"

	measurev1 "github.com/apache/skywalking-banyandb/api/proto/banyandb/measure/v1"
	modelv1 "github.com/apache/skywalking-banyandb/api/proto/banyandb/model/v1"
	streamv1 "github.com/apache/skywalking-banyandb/api/proto/banyandb/stream/v1"
	tracev1 "github.com/apache/skywalking-banyandb/api/proto/banyandb/trace/v1"
	"github.com/apache/skywalking-banyandb/pkg/verif/e2e"
)

const (
	gMeasure  = "c15m"
	gMeasure2 = "c15m2"
	gStream   = "c15s"
	gTrace    = "c15t"
	nMeasure  = "m"
	nStream   = "s"
	nTrace    = "t"
	horizonMs = 3600_000 // every row lies in [Base, Base+1h)
)

// reqCase is one enumerated request.
type reqCase struct {
	Msg     proto.Message
	Shape   string // coarse class used in violation keys
	Engine  byte   // 'M' measure, 'S' stream, 'T' trace
	Ordered bool   // the request fixes the order of the answer (order_by or top): sequences must be identical
}

// ---------------------------------------------------------------------------------------------------------------
// measure dataset: 5 series (a..e) x 4 instants + 1 re-written point, value collisions, nulls, empty strings;
// indexed tags (zone, lvl) are constant per series because measure keeps them in the series index document.

var (
	mTags   = []string{"svc", "region", "code", "zone", "lvl"}
	mFields = []string{"vi", "vf", "vs", "ni"}
)

func measureFamilies() []e2e.Family {
	return []e2e.Family{{Name: "default", Tags: []e2e.Tag{{Name: "svc", Type: e2e.TStr}, {Name: "region", Type: e2e.TStr}, {Name: "code", Type: e2e.TInt}, {Name: "zone", Type: e2e.TStr}, {Name: "lvl", Type: e2e.TInt}}}}
}

func measureFieldSpecs() []e2e.Field {
	return []e2e.Field{{Name: "vi", Type: e2e.FInt}, {Name: "vf", Type: e2e.FFloat}, {Name: "vs", Type: e2e.FStr}, {Name: "ni", Type: e2e.FInt}}
}

func measureIndex() []e2e.Index {
	return []e2e.Index{{Name: "zone", Tags: []string{"zone"}, Type: e2e.IInv}, {Name: "lvl", Tags: []string{"lvl"}, Type: e2e.IInv}}
}

func strOrNull(s *string) *modelv1.TagValue {
	if s == nil {
		return e2e.Null()
	}
	return e2e.Str(*s)
}

func sp(s string) *string { return &s }
func ip(i int64) *int64   { return &i }
func fp(f float64) *float64 {
	return &f
}

// measureRows returns the two write batches of group g (variant 0 = main data, 1 = the second group of multi-group
// requests: other instants, overlapping values).
func measureRows(variant int) [2][]*measurev1.DataPointValue {
	svcs := []string{"a", "b", "c", "d", "e"}
	zones := []*string{sp("z1"), sp("z1"), sp("z2"), sp("z2"), nil}
	lvls := []int64{1, 2, 2, 3, 3}
	regions := []*string{sp("east"), sp("west"), nil, sp("east"), sp(""), sp("west"), sp("east")}
	codes := []*int64{ip(200), ip(404), ip(200), nil, ip(500), ip(-1), ip(404)}
	// vi and vf (the aggregated fields) never hold null: the row path cannot aggregate a null field value (finding
	// "agg-over-null-field", kept alive by dedicated boundary requests on ni); nulls in projected fields: vs, ni.
	vis := []int64{5, 3, 5, 12, 0, -7, 9, 12, 3}
	vfs := []float64{1.5, 2.25, -3, 1.5, -0.5, 0, 2.25}
	nis := []*int64{ip(5), nil, ip(3), ip(5), nil, ip(8)}
	vss := []*string{sp("x"), sp("y"), nil, sp("")}
	var out [2][]*measurev1.DataPointValue
	nser := len(svcs)
	n := 4 * nser
	if variant == 1 {
		n = 2 * nser
	}
	for i := 0; i < n; i++ {
		k, j := i%nser, i/nser
		ts := int64(j) * 1000
		if k >= 2 {
			ts += int64(k-1) * 200 // a and b share their instants; c, d, e have their own
		}
		x := i
		if variant == 1 {
			ts += 100 // other instants than the main group, interleaved with them
			x = i + 2
		}
		code := e2e.Null()
		if c := codes[x%len(codes)]; c != nil {
			code = e2e.Int(*c)
		}
		fs, fn := e2e.FNull(), e2e.FNull()
		if v := nis[x%len(nis)]; v != nil {
			fn = e2e.FI(*v)
		}
		if v := vss[x%len(vss)]; v != nil {
			fs = e2e.FS(*v)
		}
		dp := &measurev1.DataPointValue{
			Timestamp: e2e.At(ts),
			TagFamilies: []*modelv1.TagFamilyForWrite{e2e.TF(e2e.Str(svcs[k]), strOrNull(regions[x%len(regions)]), code,
				strOrNull(zones[k]), e2e.Int(lvls[k]))},
			Fields:  []*modelv1.FieldValue{e2e.FI(vis[x%len(vis)]), e2e.FF(vfs[x%len(vfs)]), fs, fn},
			Version: 1,
		}
		b := 0
		if i >= n/2 {
			b = 1
		}
		out[b] = append(out[b], dp)
	}
	if variant == 0 {
		// the same (series a, instant 0) again with a higher version and other values: only this one may be returned
		out[1] = append(out[1], &measurev1.DataPointValue{
			Timestamp:   e2e.At(0),
			TagFamilies: []*modelv1.TagFamilyForWrite{e2e.TF(e2e.Str("a"), e2e.Str("north"), e2e.Int(201), e2e.Str("z1"), e2e.Int(1))},
			Fields:      []*modelv1.FieldValue{e2e.FI(100), e2e.FF(100.5), e2e.FS("z"), e2e.FI(1)},
			Version:     2,
		})
	}
	return out
}

// ---------------------------------------------------------------------------------------------------------------
// criteria

type crit struct {
	c     *modelv1.Criteria
	label string
}

func cond(name string, op modelv1.Condition_BinaryOp, v *modelv1.TagValue) *modelv1.Criteria {
	return &modelv1.Criteria{Exp: &modelv1.Criteria_Condition{Condition: &modelv1.Condition{Name: name, Op: op, Value: v}}}
}

func logic(op modelv1.LogicalExpression_LogicalOp, l, r *modelv1.Criteria) *modelv1.Criteria {
	return &modelv1.Criteria{Exp: &modelv1.Criteria_Le{Le: &modelv1.LogicalExpression{Op: op, Left: l, Right: r}}}
}

const (
	opEQ  = modelv1.Condition_BINARY_OP_EQ
	opNE  = modelv1.Condition_BINARY_OP_NE
	opLT  = modelv1.Condition_BINARY_OP_LT
	opLE  = modelv1.Condition_BINARY_OP_LE
	opGT  = modelv1.Condition_BINARY_OP_GT
	opGE  = modelv1.Condition_BINARY_OP_GE
	opIN  = modelv1.Condition_BINARY_OP_IN
	opNIN = modelv1.Condition_BINARY_OP_NOT_IN
	lAND  = modelv1.LogicalExpression_LOGICAL_OP_AND
	lOR   = modelv1.LogicalExpression_LOGICAL_OP_OR
)

var opName = map[modelv1.Condition_BinaryOp]string{opEQ: "EQ", opNE: "NE", opLT: "LT", opLE: "LE", opGT: "GT", opGE: "GE", opIN: "IN", opNIN: "NOT_IN"}

// atoms builds tag x op x constant for an int tag and a string tag class.
func intAtoms(tag string, c1, c2 int64) []crit {
	var out []crit
	for _, op := range []modelv1.Condition_BinaryOp{opEQ, opNE, opLT, opLE, opGT, opGE} {
		out = append(out, crit{cond(tag, op, e2e.Int(c1)), tag + "." + opName[op]})
	}
	out = append(out, crit{cond(tag, opIN, e2e.IntArr(c1, c2)), tag + ".IN"}, crit{cond(tag, opNIN, e2e.IntArr(c1)), tag + ".NOT_IN"})
	return out
}

func strAtoms(tag, c1, c2 string) []crit {
	return []crit{
		{cond(tag, opEQ, e2e.Str(c1)), tag + ".EQ"},
		{cond(tag, opNE, e2e.Str(c1)), tag + ".NE"},
		{cond(tag, opIN, e2e.StrArr(c1, c2)), tag + ".IN"},
		{cond(tag, opNIN, e2e.StrArr(c1)), tag + ".NOT_IN"},
	}
}

// measureCriteria: index 0 is "no criteria". small=true gives the representative subset used inside the big
// cross products. A measure accepts criteria on entity tags and on indexed tags only ("mandatory index rule"
// otherwise, on both paths), so the atoms range over svc (entity), lvl (int, indexed) and zone (string, indexed);
// criteria on the plain tags code/region are validation boundaries.
func measureCriteria(small bool) []crit {
	none := crit{nil, "none"}
	and := crit{logic(lAND, cond("lvl", opGE, e2e.Int(2)), cond("zone", opEQ, e2e.Str("z2"))), "AND(lvl.GE,zone.EQ)"}
	or := crit{logic(lOR, cond("svc", opEQ, e2e.Str("a")), cond("lvl", opEQ, e2e.Int(3))), "OR(svc.EQ,lvl.EQ)"}
	empty := crit{cond("lvl", opEQ, e2e.Int(777)), "lvl.EQ(nomatch)"}
	out := []crit{none}
	out = append(out, intAtoms("lvl", 2, 1)...)
	out = append(out, strAtoms("zone", "z1", "z2")...)
	out = append(out, crit{cond("svc", opEQ, e2e.Str("a")), "svc.EQ"}, crit{cond("svc", opIN, e2e.StrArr("a", "c", "e")), "svc.IN"})
	out = append(out, and, or, empty,
		crit{logic(lAND, cond("svc", opIN, e2e.StrArr("b", "c", "d")), cond("lvl", opLE, e2e.Int(2))), "AND(svc.IN,lvl.LE)"},
		crit{logic(lOR, cond("zone", opEQ, e2e.Str("z2")), cond("lvl", opLT, e2e.Int(2))), "OR(zone.EQ,lvl.LT)"},
		// validation boundaries: unindexed tag, negation on the entity, ordered comparison on a string, unknown tag
		crit{cond("code", opEQ, e2e.Int(200)), "code.EQ(unindexed)"},
		crit{cond("svc", opNE, e2e.Str("a")), "svc.NE(entity)"},
		crit{cond("zone", opGT, e2e.Str("z1")), "zone.GT(illtyped)"},
		crit{cond("nosuch", opEQ, e2e.Str("x")), "nosuch.EQ(unknown)"},
		// enum defaults and absent values
		crit{cond("lvl", modelv1.Condition_BINARY_OP_UNSPECIFIED, e2e.Int(2)), "lvl.UNSPECIFIED(op-default)"},
		crit{logic(modelv1.LogicalExpression_LOGICAL_OP_UNSPECIFIED, cond("lvl", opGE, e2e.Int(2)), cond("zone", opEQ, e2e.Str("z2"))), "UNSPECIFIED(lvl.GE,zone.EQ)(logical-op-default)"},
		crit{cond("zone", opEQ, e2e.Null()), "zone.EQ(null-value)"},
		crit{cond("lvl", opEQ, &modelv1.TagValue{}), "lvl.EQ(no-value)"},
	)
	if small {
		return pick(out, "none", "lvl.GT", "svc.EQ", "zone.EQ", "AND(lvl.GE,zone.EQ)", "OR(svc.EQ,lvl.EQ)", "lvl.EQ(nomatch)")
	}
	return out
}

// pick selects criteria by label (the small sets are subsets of the full ones, so every family has its members).
func pick(all []crit, labels ...string) []crit {
	var out []crit
	for _, l := range labels {
		found := false
		for _, c := range all {
			if c.label == l {
				out = append(out, c)
				found = true
			}
		}
		if !found {
			panic("c15 grammar: no criterion labelled " + l)
		}
	}
	return out
}

// ---------------------------------------------------------------------------------------------------------------
// projections

// subsets returns all subsets of items with at most k elements, in canonical order (by size, then lexicographic).
func subsets(items []string, k int) [][]string {
	var out [][]string
	n := len(items)
	for size := 0; size <= k; size++ {
		var rec func(start int, cur []string)
		rec = func(start int, cur []string) {
			if len(cur) == size {
				out = append(out, append([]string(nil), cur...))
				return
			}
			for i := start; i < n; i++ {
				rec(i+1, append(cur, items[i]))
			}
		}
		rec(0, nil)
	}
	return out
}

type mproj struct {
	tags, fields []string
}

func (p mproj) String() string {
	return "[" + strings.Join(p.tags, ",") + "|" + strings.Join(p.fields, ",") + "]"
}

// measureProjections: all subsets of <= k of the 8 columns (5 tags + 3 fields).
func measureProjections(k int) []mproj {
	var all []string
	for _, t := range mTags {
		all = append(all, "t:"+t)
	}
	for _, f := range mFields {
		all = append(all, "f:"+f)
	}
	var out []mproj
	for _, s := range subsets(all, k) {
		var p mproj
		for _, x := range s {
			if strings.HasPrefix(x, "t:") {
				p.tags = append(p.tags, x[2:])
			} else {
				p.fields = append(p.fields, x[2:])
			}
		}
		out = append(out, p)
	}
	return out
}

func tagProj(family string, tags []string) *modelv1.TagProjection {
	if len(tags) == 0 {
		return nil
	}
	return &modelv1.TagProjection{TagFamilies: []*modelv1.TagProjection_TagFamily{{Name: family, Tags: tags}}}
}

func fieldProj(fields []string) *measurev1.QueryRequest_FieldProjection {
	if len(fields) == 0 {
		return nil
	}
	return &measurev1.QueryRequest_FieldProjection{Names: fields}
}

// ---------------------------------------------------------------------------------------------------------------
// order, limit/offset

type order struct {
	o     *modelv1.QueryOrder
	label string
}

func orders(indexRule string) []order {
	return []order{
		{nil, "none"},
		{&modelv1.QueryOrder{Sort: modelv1.Sort_SORT_ASC}, "time.asc"},
		{&modelv1.QueryOrder{Sort: modelv1.Sort_SORT_DESC}, "time.desc"},
		{&modelv1.QueryOrder{IndexRuleName: indexRule, Sort: modelv1.Sort_SORT_ASC}, indexRule + ".asc"},
		{&modelv1.QueryOrder{IndexRuleName: indexRule, Sort: modelv1.Sort_SORT_DESC}, indexRule + ".desc"},
		// sort left at the proto default
		{&modelv1.QueryOrder{}, "time.unspecified"},
		{&modelv1.QueryOrder{IndexRuleName: indexRule}, indexRule + ".unspecified"},
	}
}

type window struct{ limit, offset uint32 }

func (w window) String() string { return fmt.Sprintf("l%d.o%d", w.limit, w.offset) }

func windows(all bool) []window {
	if all {
		var out []window
		for _, l := range []uint32{0, 1, 3, 1000} {
			for _, o := range []uint32{0, 2} {
				out = append(out, window{l, o})
			}
		}
		return out
	}
	return []window{{0, 0}, {1, 0}, {3, 2}, {1000, 2}}
}

// ---------------------------------------------------------------------------------------------------------------
// measure requests

func mreq(groups []string, p mproj, c crit, o order, w window) *measurev1.QueryRequest {
	return &measurev1.QueryRequest{
		Groups: groups, Name: nMeasure, TimeRange: e2e.Range(0, horizonMs),
		TagProjection: tagProj("default", p.tags), FieldProjection: fieldProj(p.fields),
		Criteria: c.c, OrderBy: o.o, Limit: w.limit, Offset: w.offset,
	}
}

func critClass(label string) string {
	switch {
	case label == "none":
		return "nocrit"
	case strings.HasPrefix(label, "AND"), strings.HasPrefix(label, "OR"):
		return "logic"
	case strings.Contains(label, "("):
		return "boundary"
	case strings.HasPrefix(label, "lvl"), strings.HasPrefix(label, "zone"):
		return "indexed"
	case strings.HasPrefix(label, "svc"):
		return "entity"
	}
	return "plain"
}

func measureCases(thorough bool) []reqCase {
	var out []reqCase
	g := []string{gMeasure}
	full := measureCriteria(false)
	small := measureCriteria(true)
	ords := orders("lvl")

	// S1a  projection x criteria (no order, default window): hidden criteria tags, null projection, every atom.
	k := 2
	if thorough {
		k = 3
	}
	for _, p := range measureProjections(k) {
		if len(p.tags)+len(p.fields) == 0 {
			continue // the row path rejects an empty projection (finding "empty-projection", see S3)
		}
		for _, c := range full {
			out = append(out, reqCase{Engine: 'M', Msg: mreq(g, p, c, ords[0], window{}), Shape: "raw/" + critClass(c.label) + "/order=none/window=default"})
		}
	}
	// S1b  criteria x order x window on representative projections.
	projs := []mproj{{tags: []string{"svc", "lvl"}, fields: []string{"vi"}}, {tags: []string{"region", "lvl"}, fields: []string{"vf", "vs", "ni"}}} // the order tag is projected: sort keys are visible
	crits := small
	if thorough {
		projs = append(projs, mproj{tags: []string{"lvl"}}, mproj{tags: []string{"zone", "code", "lvl"}, fields: []string{"vi"}})
		crits = full
	}
	for _, p := range projs {
		for _, c := range crits {
			for oi, o := range ords {
				for _, w := range windows(true) {
					if oi == 0 && w == (window{}) {
						continue // already in S1a
					}
					out = append(out, reqCase{Engine: 'M', Msg: mreq(g, p, c, o, w), Ordered: o.o != nil,
						Shape: "raw/" + critClass(c.label) + "/order=" + o.label + "/window=" + winClass(w)})
				}
			}
		}
	}
	// S2  group-by x aggregation x top x criteria x window x projection style.
	gbs := []string{"", "svc", "region", "code"}
	type aggT struct {
		field string
		fn    modelv1.AggregationFunction
	}
	aggs := []aggT{{}}
	for _, fn := range []modelv1.AggregationFunction{modelv1.AggregationFunction_AGGREGATION_FUNCTION_SUM, modelv1.AggregationFunction_AGGREGATION_FUNCTION_COUNT,
		modelv1.AggregationFunction_AGGREGATION_FUNCTION_MIN, modelv1.AggregationFunction_AGGREGATION_FUNCTION_MAX, modelv1.AggregationFunction_AGGREGATION_FUNCTION_MEAN} {
		for _, f := range []string{"vi", "vf"} {
			aggs = append(aggs, aggT{f, fn})
		}
	}
	// top: none, 2 asc, 2 desc, 2 with field_value_sort left at the proto default (SORT_UNSPECIFIED = highest N on the row path)
	aggs = append(aggs, aggT{"vi", modelv1.AggregationFunction_AGGREGATION_FUNCTION_UNSPECIFIED}) // enum default: rejected by both paths
	tops := []int32{-1, int32(modelv1.Sort_SORT_ASC), int32(modelv1.Sort_SORT_DESC), int32(modelv1.Sort_SORT_UNSPECIFIED)}
	acrits := []crit{small[0], small[1], small[6]} // none, lvl.GT, nomatch (empty groups)
	wins := []window{{0, 0}, {3, 2}}
	// projection style 0: exactly the group-by tag and the value field; 2: additional columns. (A projection that omits
	// the grouped / aggregated columns makes the row path panic: finding "agg-field-not-projected", see S3.)
	styles := []int{0}
	aords := []order{ords[0]}
	if thorough {
		acrits = []crit{small[0], small[1], small[2], small[3], small[4], small[6]}
		wins = windows(false)
		styles = []int{0, 2}
		aords = []order{ords[0], ords[2]}
	}
	for _, gb := range gbs {
		for _, ag := range aggs {
			for ti, tp := range tops {
				if gb == "" && ag.field == "" && ti == 0 {
					continue // plain scan: S1
				}
				if gb != "" && ag.field == "" && ti > 0 {
					continue // group-by without aggregation + top: the two paths disagree on the meaning (see S3)
				}
				for _, c := range acrits {
					for _, w := range wins {
						for _, st := range styles {
							for _, o := range aords {
								if o.o != nil && (st == 2 || ag.field == "") {
									// the non-grouped columns of an aggregated row, and the representative row of a raw
									// group-by, are those of the first row the scan delivers; under an explicit order the
									// two paths scan in different orders, so these shapes legitimately differ (NOTES.md)
									continue
								}
								vf := ag.field
								if vf == "" {
									vf = "vi"
								}
								var p mproj
								switch st {
								case 0:
									if gb != "" {
										p.tags = []string{gb}
									}
									p.fields = []string{vf}
								case 1:
									p.tags = []string{"zone"}
								case 2:
									p.tags = []string{"svc", "region", "code"}
									p.fields = []string{"vi", "vf"}
								}
								r := mreq(g, p, c, o, w)
								if gb != "" {
									r.GroupBy = &measurev1.QueryRequest_GroupBy{TagProjection: tagProj("default", []string{gb}), FieldName: vf}
								}
								if ag.field != "" {
									r.Agg = &measurev1.QueryRequest_Aggregation{Function: ag.fn, FieldName: ag.field}
								}
								if ti > 0 {
									r.Top = &measurev1.QueryRequest_Top{Number: 2, FieldName: vf, FieldValueSort: modelv1.Sort(tp)}
								}
								shape := fmt.Sprintf("agg/gb=%s/fn=%s(%s)/top=%s/%s/order=%s/window=%s/proj=%d", orDash(gb), aggName(ag.fn), orDash(ag.field), topName(tp), critClass(c.label), o.label, winClass(w), st)
								out = append(out, reqCase{Engine: 'M', Msg: r, Ordered: ti > 0 || o.o != nil, Shape: shape})
							}
						}
					}
				}
			}
		}
	}
	// S3  validation boundaries: unknown projection names, unknown index rule, unknown agg / group-by / top names,
	// group-by over two families, no time range.
	p0 := mproj{tags: []string{"svc"}, fields: []string{"vi"}}
	bad := func(shape string, f func(r *measurev1.QueryRequest)) {
		r := mreq(g, p0, small[0], ords[0], window{})
		f(r)
		out = append(out, reqCase{Engine: 'M', Msg: r, Shape: "boundary/" + shape})
	}
	// requests the vectorized path answers but the row path rejects / cannot execute (documented findings, NOTES.md)
	bad("empty-projection", func(r *measurev1.QueryRequest) { r.TagProjection, r.FieldProjection = nil, nil })
	bad("empty-projection+criteria", func(r *measurev1.QueryRequest) {
		r.TagProjection, r.FieldProjection, r.Criteria = nil, nil, small[1].c
	})
	for _, fn := range []modelv1.AggregationFunction{modelv1.AggregationFunction_AGGREGATION_FUNCTION_SUM, modelv1.AggregationFunction_AGGREGATION_FUNCTION_COUNT, modelv1.AggregationFunction_AGGREGATION_FUNCTION_MEAN} {
		fn := fn
		bad("agg-field-not-projected/"+aggName(fn), func(r *measurev1.QueryRequest) {
			r.FieldProjection = nil
			r.Agg = &measurev1.QueryRequest_Aggregation{Function: fn, FieldName: "vi"}
		})
		bad("agg-over-null-field/"+aggName(fn), func(r *measurev1.QueryRequest) {
			r.FieldProjection = fieldProj([]string{"ni"})
			r.Agg = &measurev1.QueryRequest_Aggregation{Function: fn, FieldName: "ni"}
		})
		bad("agg-over-null-field/groupby/"+aggName(fn), func(r *measurev1.QueryRequest) {
			r.FieldProjection = fieldProj([]string{"ni"})
			r.GroupBy = &measurev1.QueryRequest_GroupBy{TagProjection: tagProj("default", []string{"svc"}), FieldName: "ni"}
			r.Agg = &measurev1.QueryRequest_Aggregation{Function: fn, FieldName: "ni"}
		})
	}
	bad("groupby-tag-not-projected", func(r *measurev1.QueryRequest) {
		r.TagProjection = tagProj("default", []string{"zone"})
		r.GroupBy = &measurev1.QueryRequest_GroupBy{TagProjection: tagProj("default", []string{"region"}), FieldName: "vi"}
		r.Agg = &measurev1.QueryRequest_Aggregation{Function: modelv1.AggregationFunction_AGGREGATION_FUNCTION_SUM, FieldName: "vi"}
	})
	bad("groupby-without-agg+top", func(r *measurev1.QueryRequest) {
		r.GroupBy = &measurev1.QueryRequest_GroupBy{TagProjection: tagProj("default", []string{"svc"}), FieldName: "vi"}
		r.Top = &measurev1.QueryRequest_Top{Number: 2, FieldName: "vi", FieldValueSort: modelv1.Sort_SORT_ASC}
	})
	bad("top-over-null-field", func(r *measurev1.QueryRequest) {
		r.FieldProjection = fieldProj([]string{"ni"})
		r.Top = &measurev1.QueryRequest_Top{Number: 2, FieldName: "ni", FieldValueSort: modelv1.Sort_SORT_DESC}
	})
	bad("top-field-not-projected", func(r *measurev1.QueryRequest) {
		r.FieldProjection = fieldProj([]string{"vf"})
		r.Top = &measurev1.QueryRequest_Top{Number: 2, FieldName: "vi", FieldValueSort: modelv1.Sort_SORT_DESC}
	})
	bad("unknown-tag-projection", func(r *measurev1.QueryRequest) { r.TagProjection = tagProj("default", []string{"svc", "nosuch"}) })
	bad("unknown-family-projection", func(r *measurev1.QueryRequest) { r.TagProjection = tagProj("nofamily", []string{"svc"}) })
	bad("unknown-field-projection", func(r *measurev1.QueryRequest) { r.FieldProjection = fieldProj([]string{"vi", "nosuch"}) })
	bad("unknown-index-rule", func(r *measurev1.QueryRequest) {
		r.OrderBy = &modelv1.QueryOrder{IndexRuleName: "nosuch", Sort: modelv1.Sort_SORT_ASC}
	})
	bad("unknown-agg-field", func(r *measurev1.QueryRequest) {
		r.Agg = &measurev1.QueryRequest_Aggregation{Function: modelv1.AggregationFunction_AGGREGATION_FUNCTION_SUM, FieldName: "nosuch"}
	})
	bad("agg-on-string-field", func(r *measurev1.QueryRequest) {
		r.FieldProjection = fieldProj([]string{"vs"})
		r.Agg = &measurev1.QueryRequest_Aggregation{Function: modelv1.AggregationFunction_AGGREGATION_FUNCTION_SUM, FieldName: "vs"}
	})
	bad("unknown-groupby-tag", func(r *measurev1.QueryRequest) {
		r.GroupBy = &measurev1.QueryRequest_GroupBy{TagProjection: tagProj("default", []string{"nosuch"}), FieldName: "vi"}
	})
	bad("unknown-top-field", func(r *measurev1.QueryRequest) {
		r.Top = &measurev1.QueryRequest_Top{Number: 2, FieldName: "nosuch", FieldValueSort: modelv1.Sort_SORT_DESC}
	})
	bad("top-number-0", func(r *measurev1.QueryRequest) {
		r.Top = &measurev1.QueryRequest_Top{Number: 0, FieldName: "vi", FieldValueSort: modelv1.Sort_SORT_DESC}
	})
	bad("agg-unspecified-fn", func(r *measurev1.QueryRequest) {
		r.Agg = &measurev1.QueryRequest_Aggregation{FieldName: "vi"}
	})
	bad("empty-time-range", func(r *measurev1.QueryRequest) { r.TimeRange = e2e.Range(horizonMs*2, horizonMs*3) })
	bad("inverted-time-range", func(r *measurev1.QueryRequest) { r.TimeRange = e2e.Range(5000, 1000) })
	bad("unknown-measure", func(r *measurev1.QueryRequest) { r.Name = "nosuch" })
	bad("unknown-group", func(r *measurev1.QueryRequest) { r.Groups = []string{"nosuch"} })

	// S4  two groups (the same measure in c15m and c15m2): cross-group merge.
	if thorough {
		g2 := []string{gMeasure, gMeasure2}
		for _, p := range projs {
			for _, c := range small {
				for _, o := range ords {
					for _, w := range windows(false) {
						out = append(out, reqCase{Engine: 'M', Msg: mreq(g2, p, c, o, w), Ordered: o.o != nil,
							Shape: "multigroup/raw/" + critClass(c.label) + "/order=" + o.label + "/window=" + winClass(w)})
					}
				}
			}
		}
		for _, gb := range []string{"", "svc"} {
			for _, ag := range aggs[1:] {
				for ti, tp := range tops {
					r := mreq(g2, mproj{tags: []string{"svc"}, fields: []string{ag.field}}, small[0], ords[0], window{})
					if gb != "" {
						r.GroupBy = &measurev1.QueryRequest_GroupBy{TagProjection: tagProj("default", []string{gb}), FieldName: ag.field}
					}
					r.Agg = &measurev1.QueryRequest_Aggregation{Function: ag.fn, FieldName: ag.field}
					if ti > 0 {
						r.Top = &measurev1.QueryRequest_Top{Number: 2, FieldName: ag.field, FieldValueSort: modelv1.Sort(tp)}
					}
					out = append(out, reqCase{Engine: 'M', Msg: r, Ordered: ti > 0,
						Shape: fmt.Sprintf("multigroup/agg/gb=%s/fn=%s(%s)/top=%s", orDash(gb), aggName(ag.fn), ag.field, topName(tp))})
				}
			}
		}
	}
	return out
}

func winClass(w window) string {
	if w == (window{}) {
		return "default"
	}
	return w.String()
}

func orDash(s string) string {
	if s == "" {
		return "-"
	}
	return s
}

func aggName(f modelv1.AggregationFunction) string {
	if f == modelv1.AggregationFunction_AGGREGATION_FUNCTION_UNSPECIFIED {
		return "-"
	}
	return strings.TrimPrefix(f.String(), "AGGREGATION_FUNCTION_")
}

func topName(s int32) string {
	switch {
	case s < 0:
		return "-"
	case modelv1.Sort(s) == modelv1.Sort_SORT_ASC:
		return "2asc"
	case modelv1.Sort(s) == modelv1.Sort_SORT_DESC:
		return "2desc"
	}
	return "2unspecified"
}

// ---------------------------------------------------------------------------------------------------------------
// stream: 3 series x 5 elements; indexed: dur (inverted, sortable), tid (inverted); plain: region, code; a binary
// payload in a second family.

var sTags = []string{"svc", "region", "code", "dur", "tid"}

func streamFamilies() []e2e.Family {
	return []e2e.Family{
		{Name: "searchable", Tags: []e2e.Tag{{Name: "svc", Type: e2e.TStr}, {Name: "region", Type: e2e.TStr}, {Name: "code", Type: e2e.TInt}, {Name: "dur", Type: e2e.TInt}, {Name: "tid", Type: e2e.TStr}}},
		{Name: "data", Tags: []e2e.Tag{{Name: "payload", Type: e2e.TBin}}},
	}
}

func streamIndex() []e2e.Index {
	return []e2e.Index{{Name: "dur", Tags: []string{"dur"}, Type: e2e.IInv}, {Name: "tid", Tags: []string{"tid"}, Type: e2e.IInv}}
}

func streamRows() [2][]*streamv1.ElementValue {
	svcs := []string{"a", "b", "c"}
	regions := []*string{sp("east"), sp("west"), nil, sp("east"), sp("")}
	codes := []*int64{ip(200), ip(404), ip(200), nil, ip(500), ip(-1), ip(404)}
	durs := []int64{10, 30, 10, 50, 20, 30, 10}
	var out [2][]*streamv1.ElementValue
	for i := 0; i < 15; i++ {
		k, j := i%3, i/3
		ts := int64(j) * 1000
		if k == 2 {
			ts += 500
		}
		code := e2e.Null()
		if c := codes[i%len(codes)]; c != nil {
			code = e2e.Int(*c)
		}
		payload := e2e.Bin([]byte{byte(i), 0, 0xff})
		if i%4 == 3 {
			payload = e2e.Null()
		}
		el := &streamv1.ElementValue{
			ElementId: fmt.Sprintf("e%02d", i), Timestamp: e2e.At(ts),
			TagFamilies: []*modelv1.TagFamilyForWrite{
				e2e.TF(e2e.Str(svcs[k]), strOrNull(regions[i%len(regions)]), code, e2e.Int(durs[i%len(durs)]), e2e.Str(fmt.Sprintf("t%d", i%4))),
				e2e.TF(payload),
			},
		}
		b := 0
		if i >= 8 {
			b = 1
		}
		out[b] = append(out[b], el)
	}
	return out
}

func streamCriteria(small bool) []crit {
	none := crit{nil, "none"}
	and := crit{logic(lAND, cond("code", opGE, e2e.Int(200)), cond("region", opEQ, e2e.Str("east"))), "AND(code.GE,region.EQ)"}
	or := crit{logic(lOR, cond("svc", opEQ, e2e.Str("a")), cond("dur", opEQ, e2e.Int(30))), "OR(svc.EQ,dur.EQ)"}
	empty := crit{cond("dur", opEQ, e2e.Int(777)), "dur.EQ(nomatch)"}
	out := []crit{none}
	out = append(out, intAtoms("dur", 30, 10)...)
	out = append(out, intAtoms("code", 200, 500)...)
	out = append(out, strAtoms("region", "east", "west")...)
	out = append(out, strAtoms("svc", "a", "b")...)
	out = append(out, strAtoms("tid", "t1", "t2")...)
	out = append(out, and, or, empty,
		crit{logic(lAND, cond("dur", opGE, e2e.Int(20)), cond("tid", opEQ, e2e.Str("t1"))), "AND(dur.GE,tid.EQ)"},
		crit{cond("nosuch", opEQ, e2e.Str("x")), "nosuch.EQ(unknown)"},
		crit{cond("dur", modelv1.Condition_BINARY_OP_UNSPECIFIED, e2e.Int(30)), "dur.UNSPECIFIED(op-default)"},
		crit{logic(modelv1.LogicalExpression_LOGICAL_OP_UNSPECIFIED, cond("dur", opGE, e2e.Int(20)), cond("tid", opEQ, e2e.Str("t1"))), "UNSPECIFIED(dur.GE,tid.EQ)(logical-op-default)"},
		crit{cond("region", opEQ, e2e.Null()), "region.EQ(null-value)"},
	)
	if small {
		return pick(out, "none", "dur.GT", "svc.EQ", "code.GE", "AND(code.GE,region.EQ)", "dur.EQ(nomatch)")
	}
	return out
}

func sreq(tags []string, withPayload bool, c crit, o order, w window) *streamv1.QueryRequest {
	p := &modelv1.TagProjection{}
	if len(tags) > 0 {
		p.TagFamilies = append(p.TagFamilies, &modelv1.TagProjection_TagFamily{Name: "searchable", Tags: tags})
	}
	if withPayload {
		p.TagFamilies = append(p.TagFamilies, &modelv1.TagProjection_TagFamily{Name: "data", Tags: []string{"payload"}})
	}
	return &streamv1.QueryRequest{Groups: []string{gStream}, Name: nStream, TimeRange: e2e.Range(0, horizonMs), Projection: p,
		Criteria: c.c, OrderBy: o.o, Limit: w.limit, Offset: w.offset}
}

func streamClass(label string) string {
	switch {
	case label == "none":
		return "nocrit"
	case strings.HasPrefix(label, "AND"), strings.HasPrefix(label, "OR"):
		return "logic"
	case strings.Contains(label, "("):
		return "boundary"
	case strings.HasPrefix(label, "dur"), strings.HasPrefix(label, "tid"):
		return "indexed"
	case strings.HasPrefix(label, "svc"):
		return "entity"
	}
	return "plain"
}

func streamCases(thorough bool) []reqCase {
	var out []reqCase
	full, small := streamCriteria(false), streamCriteria(true)
	ords := orders("dur")
	k := 2
	if thorough {
		k = 3
	}
	// projection x criteria
	for _, p := range subsets(sTags, k) {
		for _, pay := range []bool{false, true} {
			if len(p) == 0 && !pay {
				continue // a stream projection must name something
			}
			if pay && len(p) > 1 && !thorough {
				continue
			}
			for _, c := range full {
				out = append(out, reqCase{Engine: 'S', Msg: sreq(p, pay, c, ords[0], window{}), Shape: "stream/" + streamClass(c.label) + "/order=none/window=default"})
			}
		}
	}
	// criteria x order x window
	crits := small
	projs := [][]string{{"svc", "dur"}}
	if thorough {
		crits = full
		projs = append(projs, []string{"region", "code", "dur"})
	}
	for _, p := range projs {
		for _, c := range crits {
			for oi, o := range ords {
				for _, w := range windows(true) {
					if oi == 0 && w == (window{}) {
						continue
					}
					// An index-rule order is its own shape class ("ix-"): with a tag-filter criterion the vectorized scan must
					// NOT cap the merge before the egress filter there (the row scan resumes across pulls), unlike the
					// time/none orders where the open finding "limit before the tag filter" lives. The label keeps the two
					// apart so that the known-finding pattern of the latter cannot absorb a defect of the former.
					ol := o.label
					if o.o != nil && o.o.GetIndexRuleName() != "" {
						ol = "ix-" + ol
					}
					out = append(out, reqCase{Engine: 'S', Msg: sreq(p, false, c, o, w), Ordered: o.o != nil,
						Shape: "stream/" + streamClass(c.label) + "/order=" + ol + "/window=" + winClass(w)})
				}
			}
		}
	}
	// boundaries
	bad := func(shape string, f func(r *streamv1.QueryRequest)) {
		r := sreq([]string{"svc"}, false, small[0], ords[0], window{})
		f(r)
		out = append(out, reqCase{Engine: 'S', Msg: r, Shape: "stream/boundary/" + shape})
	}
	bad("unknown-tag-projection", func(r *streamv1.QueryRequest) { r.Projection.TagFamilies[0].Tags = []string{"svc", "nosuch"} })
	bad("unknown-index-rule", func(r *streamv1.QueryRequest) {
		r.OrderBy = &modelv1.QueryOrder{IndexRuleName: "nosuch", Sort: modelv1.Sort_SORT_ASC}
	})
	bad("no-time-range", func(r *streamv1.QueryRequest) { r.TimeRange = nil })
	bad("empty-time-range", func(r *streamv1.QueryRequest) { r.TimeRange = e2e.Range(horizonMs*2, horizonMs*3) })
	bad("unknown-stream", func(r *streamv1.QueryRequest) { r.Name = "nosuch" })
	return out
}

// ---------------------------------------------------------------------------------------------------------------
// trace: 6 traces, 14 spans; tree indexes "dur" = (svc,state,dur) and "ts" = (svc,state,ts).

var tTags = []string{"trace_id", "span_id", "svc", "state", "dur", "ts"}

func traceTagSpecs() []e2e.Tag {
	return []e2e.Tag{{Name: "trace_id", Type: e2e.TStr}, {Name: "span_id", Type: e2e.TStr}, {Name: "svc", Type: e2e.TStr}, {Name: "state", Type: e2e.TInt}, {Name: "dur", Type: e2e.TInt}, {Name: "ts", Type: e2e.TTime}}
}

func traceIndex() []e2e.Index {
	return []e2e.Index{{Name: "dur", Tags: []string{"svc", "state", "dur"}, Type: e2e.ITree}, {Name: "ts", Tags: []string{"svc", "state", "ts"}, Type: e2e.ITree}}
}

func traceRows() [2][]*tracev1.WriteRequest {
	svcs := []string{"a", "b"}
	// durations and timestamps are distinct over all spans: the order of traces with equal sort keys is not even
	// deterministic inside one implementation, so the trace data has no ties in either tree index
	durs := []int64{100, 300, 150, 500, 200, 350, 50, 450, 250, 400, 120, 330, 80, 270}
	var out [2][]*tracev1.WriteRequest
	for i := 0; i < 14; i++ {
		tr := i % 6
		w := &tracev1.WriteRequest{
			Tags: []*modelv1.TagValue{
				e2e.Str(fmt.Sprintf("tr%d", tr)), e2e.Str(fmt.Sprintf("sp%02d", i)), e2e.Str(svcs[tr%2]), e2e.Int(int64(tr % 3 / 2)),
				e2e.Int(durs[i%len(durs)]), e2e.Time(e2e.At(int64(i)*70 + int64(tr)*3)),
			},
			Span: []byte(fmt.Sprintf("span-%02d", i)),
		}
		b := 0
		if i >= 7 {
			b = 1
		}
		out[b] = append(out[b], w)
	}
	return out
}

func treq(proj []string, c crit, o order, w window) *tracev1.QueryRequest {
	return &tracev1.QueryRequest{Groups: []string{gTrace}, Name: nTrace, TimeRange: e2e.Range(0, horizonMs), TagProjection: proj,
		Criteria: c.c, OrderBy: o.o, Limit: w.limit, Offset: w.offset}
}

func traceCases(thorough bool) []reqCase {
	var out []reqCase
	k := 1
	if thorough {
		k = 2
	}
	projs := subsets(tTags, k)
	byID := []crit{
		{cond("trace_id", opEQ, e2e.Str("tr1")), "trace_id.EQ"},
		{cond("trace_id", opIN, e2e.StrArr("tr0", "tr3", "tr5")), "trace_id.IN"},
		{cond("trace_id", opEQ, e2e.Str("nosuch")), "trace_id.EQ(nomatch)"},
		{logic(lAND, cond("trace_id", opEQ, e2e.Str("tr2")), cond("svc", opEQ, e2e.Str("zzz"))), "AND(trace_id.EQ,svc.EQ(nomatch))"},
	}
	none := order{nil, "none"}
	// by trace id x projection x window
	for _, p := range projs {
		for _, c := range byID {
			for _, w := range windows(thorough) {
				out = append(out, reqCase{Engine: 'T', Msg: treq(p, c, none, w), Shape: "trace/byid/" + c.label + "/window=" + winClass(w)})
			}
		}
	}
	// ordered by a tree index x criteria x window
	filt := []crit{
		{nil, "none"},
		{cond("svc", opEQ, e2e.Str("a")), "svc.EQ"},
		{cond("state", opEQ, e2e.Int(1)), "state.EQ"},
		{cond("dur", opGT, e2e.Int(100)), "dur.GT"},
		{logic(lAND, cond("svc", opEQ, e2e.Str("b")), cond("dur", opLE, e2e.Int(300))), "AND(svc.EQ,dur.LE)"},
		{cond("svc", opEQ, e2e.Str("zzz")), "svc.EQ(nomatch)"},
	}
	if thorough {
		filt = append(filt, crit{cond("svc", opIN, e2e.StrArr("a", "b")), "svc.IN"}, crit{cond("dur", opGE, e2e.Int(300)), "dur.GE"},
			crit{cond("dur", opLT, e2e.Int(100)), "dur.LT"}, crit{cond("state", opNE, e2e.Int(1)), "state.NE"})
	}
	oprojs := [][]string{nil, {"trace_id", "dur"}}
	if thorough {
		oprojs = append(oprojs, []string{"svc", "state", "ts"})
	}
	for _, idx := range []string{"dur", "ts"} {
		for _, srt := range []modelv1.Sort{modelv1.Sort_SORT_ASC, modelv1.Sort_SORT_DESC, modelv1.Sort_SORT_UNSPECIFIED} {
			o := order{&modelv1.QueryOrder{IndexRuleName: idx, Sort: srt}, idx + "." + strings.ToLower(strings.TrimPrefix(srt.String(), "SORT_"))}
			for _, p := range oprojs {
				for _, c := range filt {
					for _, w := range windows(true) {
						out = append(out, reqCase{Engine: 'T', Msg: treq(p, c, o, w), Ordered: true,
							Shape: "trace/ordered/" + c.label + "/order=" + o.label + "/window=" + winClass(w)})
					}
				}
			}
		}
	}
	// boundaries
	bad := func(shape string, f func(r *tracev1.QueryRequest)) {
		r := treq([]string{"trace_id"}, byID[0], none, window{})
		f(r)
		out = append(out, reqCase{Engine: 'T', Msg: r, Shape: "trace/boundary/" + shape})
	}
	bad("unknown-tag-projection", func(r *tracev1.QueryRequest) { r.TagProjection = []string{"nosuch"} })
	bad("unknown-index-rule", func(r *tracev1.QueryRequest) {
		r.OrderBy = &modelv1.QueryOrder{IndexRuleName: "nosuch", Sort: modelv1.Sort_SORT_ASC}
	})
	bad("no-criteria-no-order", func(r *tracev1.QueryRequest) { r.Criteria = nil })
	bad("no-time-range", func(r *tracev1.QueryRequest) { r.TimeRange = nil })
	bad("unknown-trace", func(r *tracev1.QueryRequest) { r.Name = "nosuch" })
	return out
}

func allCases(thorough bool) []reqCase {
	out := measureCases(thorough)
	out = append(out, streamCases(thorough)...)
	out = append(out, traceCases(thorough)...)
	// every family (request modulo limit/offset/top) gets an untruncated member: its answer on the row path is the
	// universe of rows a truncated answer of the family may be made of
	has := map[string]bool{}
	for _, c := range out {
		limit, offset, top := reqWindow(c)
		if offset == 0 && !top && (limit >= 1000 || isDefaultLimit(c)) {
			has[familyKey(c)] = true
		}
	}
	for _, c := range append([]reqCase(nil), out...) {
		fk := familyKey(c)
		if has[fk] {
			continue
		}
		has[fk] = true
		b := reqCase{Engine: c.Engine, Msg: proto.Clone(c.Msg), Shape: "base/" + engineName(c.Engine), Ordered: c.Ordered}
		switch q := b.Msg.(type) {
		case *measurev1.QueryRequest:
			q.Limit, q.Offset, q.Top = 1000, 0, nil
			b.Ordered = q.GetOrderBy() != nil
		case *streamv1.QueryRequest:
			q.Limit, q.Offset = 1000, 0
		case *tracev1.QueryRequest:
			q.Limit, q.Offset = 1000, 0
		}
		out = append(out, b)
	}
	return out
}

func isDefaultLimit(c reqCase) bool {
	switch q := c.Msg.(type) {
	case *measurev1.QueryRequest:
		return q.GetLimit() == 0
	case *streamv1.QueryRequest:
		return q.GetLimit() == 0
	case *tracev1.QueryRequest:
		return q.GetLimit() == 0
	}
	return false
}
