// Coordinator merge differential (unit level): the answers of up to 3 data nodes to one non-aggregated, time-ordered
// measure query are merged (a) by the row path's logicalmeasure.MergeGroupMIterators (sortableDataPoints ->
// sort.NewItemIter -> sortedMIterator, highest version per (series, timestamp) wins) and (b) by the vectorized
// liaison's mergeDistributedRows / distributedRowEmitter over the frames the nodes would send (built by the real
// data-node emitters). Enumerated completely: every assignment of the versions {absent,1,2,3} of one contested
// (series, timestamp) to the nodes in every arrival order, x every assignment {absent,1,2} of a second series at the
// same instant, x ascending/descending x batch size {1, 8} x frame variant {proto-bytes columns, typed columns}.
package main

import (
	"fmt"
	"sort"
	"time"

	"google.golang.org/protobuf/proto"
	"google.golang.org/protobuf/types/known/timestamppb"

	commonv1 "github.com/apache/skywalking-banyandb/api/proto/banyandb/common/v1"
	databasev1 "github.com/apache/skywalking-banyandb/api/proto/banyandb/database/v1"
	measurev1 "github.com/apache/skywalking-banyandb/api/proto/banyandb/measure/v1"
	modelv1 "github.com/apache/skywalking-banyandb/api/proto/banyandb/model/v1"
	"github.com/apache/skywalking-banyandb/pkg/query/executor"
	"github.com/apache/skywalking-banyandb/pkg/query/logical"
	logicalmeasure "github.com/apache/skywalking-banyandb/pkg/query/logical/measure"
	vmeasure "github.com/apache/skywalking-banyandb/pkg/query/vectorized/measure"
	vecplan "github.com/apache/skywalking-banyandb/pkg/query/vectorized/measure/plan"
	"github.com/apache/skywalking-banyandb/pkg/verif/e2e"
	"github.com/apache/skywalking-banyandb/pkg/verif/ev"
)

type mergeCase struct {
	Variant string  `json:"frames"` // passthrough | typed
	Nodes   [][]int `json:"nodes"`  // per node (arrival order): [version of the contested point or 0, version of the second series' point or 0]
	Batch   int     `json:"batch"`  // vectorized batch size
	Desc    bool    `json:"desc"`   // order_by time desc
	Merge   bool    `json:"merge"`  // marks the artefact for --replay
	// round 2: nullable field. When FieldType != "" every node entry is [contested, second, before, after] and the
	// field of a data point is null or valued as a function of (series, instant, version) — see mergeFieldNull.
	FieldType string `json:"field_type,omitempty"` // int | float | str
}

// mergeFieldNull: which data points of the nullable-field universe carry a NULL field value. Null-ness is a function
// of the data point's identity (series, instant, version), never of the node: replicas at the same version are
// identical, so the merged answer is well defined.
func mergeFieldNull(sid uint64, tsMs, ver int64) bool {
	switch {
	case tsMs == 1000: // "before" point
		return false
	case tsMs == 3000: // "after" point
		return true
	case sid == 7: // contested point: v1 null, v2 valued, v3 null
		return ver != 2
	default: // second series at the contested instant: v1 null, v2 valued
		return ver != 2
	}
}

func mergeFieldValue(ftype string, sid uint64, tsMs, ver int64) *modelv1.FieldValue {
	if ftype == "" {
		return e2e.FI(ver*100 + int64(sid))
	}
	if mergeFieldNull(sid, tsMs, ver) {
		return e2e.FNull()
	}
	switch ftype {
	case "float":
		return e2e.FF(float64(ver*100+int64(sid)) + 0.5)
	case "str":
		return e2e.FS(fmt.Sprintf("s%d-%d", ver, sid))
	}
	return e2e.FI(ver*100 + int64(sid))
}

type sliceMIterator struct {
	rows []*measurev1.InternalDataPoint
	pos  int
}

func (s *sliceMIterator) Next() bool {
	if s.pos >= len(s.rows) {
		return false
	}
	s.pos++
	return true
}

func (s *sliceMIterator) Current() []*measurev1.InternalDataPoint {
	return []*measurev1.InternalDataPoint{s.rows[s.pos-1]}
}

func (s *sliceMIterator) Close() error { return nil }

func mergeMeasureSchema(ftype string) *databasev1.Measure {
	ft := databasev1.FieldType_FIELD_TYPE_INT
	switch ftype {
	case "float":
		ft = databasev1.FieldType_FIELD_TYPE_FLOAT
	case "str":
		ft = databasev1.FieldType_FIELD_TYPE_STRING
	}
	return &databasev1.Measure{
		Metadata: &commonv1.Metadata{Group: "g", Name: "m"},
		TagFamilies: []*databasev1.TagFamilySpec{{Name: "default", Tags: []*databasev1.TagSpec{
			{Name: "svc", Type: databasev1.TagType_TAG_TYPE_STRING}, {Name: "region", Type: databasev1.TagType_TAG_TYPE_STRING},
		}}},
		Fields: []*databasev1.FieldSpec{{Name: "vi", FieldType: ft,
			EncodingMethod: databasev1.EncodingMethod_ENCODING_METHOD_GORILLA, CompressionMethod: databasev1.CompressionMethod_COMPRESSION_METHOD_ZSTD}},
		Entity: &databasev1.Entity{TagNames: []string{"svc"}},
	}
}

func mergeIDP(ftype string, sid uint64, svc string, tsMs int64, ver int64, shard uint32) *measurev1.InternalDataPoint {
	region := e2e.Str(fmt.Sprintf("r%d", ver))
	if ver == 2 {
		region = e2e.Null()
	}
	return &measurev1.InternalDataPoint{ShardId: shard, DataPoint: &measurev1.DataPoint{
		Timestamp: timestamppb.New(e2e.Base().Add(timeMs(tsMs))), Sid: sid, Version: ver,
		TagFamilies: []*modelv1.TagFamily{{Name: "default", Tags: []*modelv1.Tag{{Key: "svc", Value: e2e.Str(svc)}, {Key: "region", Value: region}}}},
		Fields:      []*measurev1.DataPoint_Field{{Name: "vi", Value: mergeFieldValue(ftype, sid, tsMs, ver)}},
	}}
}

// nodeRows: what one data node answers (already collapsed to one version per point, sorted by time in the requested
// direction): a point before (every node), the contested point of series 7, the point of series 8 at the same
// instant, a point after (first node only).
//
// Nullable-field universe (ftype != ""): the "before" and "after" points are part of the per-node assignment too
// (assign[2], assign[3] in {0 absent, 1 present}), so a node may answer with nothing, with only NULL-field rows
// (its field column then stays a FieldValue passthrough column on the typed wire) or with a mix.
func nodeRows(ftype string, node int, assign []int, desc bool) []*measurev1.InternalDataPoint {
	before, after := true, node == 0
	if ftype != "" {
		before, after = assign[2] > 0, assign[3] > 0
	}
	var rows []*measurev1.InternalDataPoint
	if before {
		rows = append(rows, mergeIDP(ftype, 7, "a", 1000, 1, 0))
	}
	if assign[0] > 0 {
		rows = append(rows, mergeIDP(ftype, 7, "a", 2000, int64(assign[0]), 0))
	}
	if assign[1] > 0 {
		rows = append(rows, mergeIDP(ftype, 8, "b", 2000, int64(assign[1]), 1))
	}
	if after {
		rows = append(rows, mergeIDP(ftype, 8, "b", 3000, 1, 1))
	}
	if desc {
		for i, j := 0, len(rows)-1; i < j; i, j = i+1, j-1 {
			rows[i], rows[j] = rows[j], rows[i]
		}
	}
	return rows
}

func mergeOne(mc mergeCase) (msg string, contested bool) {
	defer func() {
		if p := recover(); p != nil {
			msg = fmt.Sprintf("panic: %v", p)
		}
	}()
	// nolint:staticcheck // the row path's schema builder
	ls, err := logicalmeasure.BuildSchema(mergeMeasureSchema(mc.FieldType), nil)
	if err != nil {
		return "harness: BuildSchema: " + err.Error(), false
	}
	req := &measurev1.QueryRequest{}
	if mc.Desc {
		req.OrderBy = &modelv1.QueryOrder{Sort: modelv1.Sort_SORT_DESC}
	}
	order, err := logicalmeasure.ResolveCrossGroupMergeOrder(req, []logical.Schema{ls})
	if err != nil {
		return "harness: ResolveCrossGroupMergeOrder: " + err.Error(), false
	}
	var iters []executor.MIterator
	var frames [][]byte
	versions := map[int]bool{}
	for n, a := range mc.Nodes {
		rows := nodeRows(mc.FieldType, n, a, mc.Desc)
		if a[0] > 0 {
			versions[a[0]] = true
		}
		cp := make([]*measurev1.InternalDataPoint, len(rows))
		for i, r := range rows {
			cp[i] = proto.Clone(r).(*measurev1.InternalDataPoint)
		}
		iters = append(iters, &sliceMIterator{rows: cp})
		var body []byte
		if mc.Variant == "typed" {
			body, err = vmeasure.VerifC15EmitTyped(rows)
		} else {
			body, err = vmeasure.SerializeDataPointsToFrame(rows)
		}
		if err != nil {
			return "emit: " + err.Error(), false
		}
		frames = append(frames, body)
	}
	contested = len(versions) > 1
	merged := logicalmeasure.MergeGroupMIterators(iters, order)
	var want []*measurev1.DataPoint
	for merged.Next() {
		for _, idp := range merged.Current() {
			want = append(want, idp.GetDataPoint())
		}
	}
	_ = merged.Close()
	gotIDP, err := vecplan.VerifC15MergeRows(frames, mc.Desc, mc.Batch)
	if err != nil {
		return "vectorized merge: " + err.Error(), contested
	}
	got := make([]*measurev1.DataPoint, len(gotIDP))
	for i, idp := range gotIDP {
		got[i] = idp.GetDataPoint()
	}
	// windows of equal timestamps must come in the same order and hold the same data points (the order of different
	// series inside one instant is a tie)
	type win struct {
		ts   int64
		rows []string
	}
	split := func(dps []*measurev1.DataPoint) (out []win) {
		det := proto.MarshalOptions{Deterministic: true}
		for _, dp := range dps {
			b, _ := det.Marshal(dp)
			ts := dp.GetTimestamp().AsTime().UnixNano()
			if len(out) == 0 || out[len(out)-1].ts != ts {
				out = append(out, win{ts: ts})
			}
			out[len(out)-1].rows = append(out[len(out)-1].rows, string(b))
		}
		for i := range out {
			sort.Strings(out[i].rows)
		}
		return
	}
	w, g := split(want), split(got)
	if len(w) != len(g) {
		return fmt.Sprintf("rows: row path %d instants (%d data points), vectorized %d instants (%d data points)", len(w), len(want), len(g), len(got)), contested
	}
	for i := range w {
		if w[i].ts != g[i].ts {
			return fmt.Sprintf("order: instant %d differs", i), contested
		}
		if len(w[i].rows) != len(g[i].rows) {
			return fmt.Sprintf("dedup: instant %d holds %d data points on the row path, %d on the vectorized path", i, len(w[i].rows), len(g[i].rows)), contested
		}
		for j := range w[i].rows {
			if w[i].rows[j] != g[i].rows[j] {
				wd, gd := &measurev1.DataPoint{}, &measurev1.DataPoint{}
				_ = proto.Unmarshal([]byte(w[i].rows[j]), wd)
				_ = proto.Unmarshal([]byte(g[i].rows[j]), gd)
				if wd.GetVersion() != gd.GetVersion() {
					return fmt.Sprintf("version: series %d keeps version %d on the row path, %d on the vectorized path", wd.GetSid(), wd.GetVersion(), gd.GetVersion()), contested
				}
				return fmt.Sprintf("values: series %d version %d differs: row %s vec %s", wd.GetSid(), wd.GetVersion(), trunc(wd.String(), 200), trunc(gd.String(), 200)), contested
			}
		}
	}
	return "", contested
}

func timeMs(ms int64) time.Duration { return time.Duration(ms) * time.Millisecond }

func coordinatorMerge(r *ev.Run) {
	n, bad, contested := 0, 0, 0
	var assigns func(k int, cur [][]int, f func([][]int))
	assigns = func(k int, cur [][]int, f func([][]int)) {
		if len(cur) == k {
			f(cur)
			return
		}
		for a := 0; a <= 3; a++ {
			for b := 0; b <= 2; b++ {
				assigns(k, append(append([][]int(nil), cur...), []int{a, b}), f)
			}
		}
	}
	for k := 1; k <= 3; k++ {
		assigns(k, nil, func(nodes [][]int) {
			for _, variant := range []string{"passthrough", "typed"} {
				for _, desc := range []bool{false, true} {
					for _, batch := range []int{1, 8} {
						mc := mergeCase{Variant: variant, Nodes: nodes, Batch: batch, Desc: desc, Merge: true}
						n++
						msg, c := mergeOne(mc)
						if c {
							contested++
						}
						if msg != "" {
							bad++
							r.Violation(fmt.Sprintf("coordinator merge (%s frames, desc=%v): %s", variant, desc, msgClass(msg)), map[string]any{"merge": mc, "message": msg})
						}
						if n%9000 == 1 {
							r.Sample(map[string]any{"merge": mc})
						}
					}
				}
			}
		})
	}
	t0 := time.Now()
	nn, nbad, ndiv, nfirst := coordinatorMergeNullable(r)
	fmt.Printf("C15: nullable-field merges took %.1fs (informational)\n", time.Since(t0).Seconds())
	n += nn
	bad += nbad
	r.Set("coordinator_merges_nullable_field", nn)
	r.Set("coordinator_merges_field_wire_type_differs_between_nodes", ndiv)
	r.Set("coordinator_merges_typed_frame_before_all_null_frame", nfirst)
	r.Set("coordinator_merge_nullable_bounds", "1..2 nodes: every node answers any subset of {before(valued), contested v1(null)|v2(valued)|v3(null), second series v1(null)|v2(valued), after(null)} = 48 answers per node incl. the empty one, field type {int,float,str}; 3 nodes: {contested absent|v1|v2} x {second absent|v1|v2} x {before absent|present}, field type int; x asc/desc x batch {1,8} x {proto-bytes, typed} frames")
	r.Set("coordinator_merges", n)
	r.Set("coordinator_merges_with_replicas_at_different_versions", contested)
	r.Set("coordinator_merge_failures", bad)
	fmt.Printf("C15: coordinator merges (row MergeGroupMIterators vs vectorized mergeDistributedRows): %d (%d with replicas at different versions), failures %d\n", n, contested, bad)
}

// coordinatorMergeNullable: the same differential over the nullable-field universe (round 2). A data node whose rows
// all carry a NULL field ships the field as a FieldValue passthrough column on the typed wire while a node with values
// ships a typed column: the coordinator has to reconcile frame schemas that differ per node, in every arrival order.
func coordinatorMergeNullable(r *ev.Run) (n, bad, diverging, typedFirst int) {
	type alpha struct{ c, s, b, a []int }
	full := alpha{[]int{0, 1, 2, 3}, []int{0, 1, 2}, []int{0, 1}, []int{0, 1}}
	small := alpha{[]int{0, 1, 2}, []int{0, 1, 2}, []int{0, 1}, []int{0}}
	var assigns func(al alpha, k int, cur [][]int, f func([][]int))
	assigns = func(al alpha, k int, cur [][]int, f func([][]int)) {
		if len(cur) == k {
			f(cur)
			return
		}
		for _, c := range al.c {
			for _, s := range al.s {
				for _, b := range al.b {
					for _, a := range al.a {
						assigns(al, k, append(append([][]int(nil), cur...), []int{c, s, b, a}), f)
					}
				}
			}
		}
	}
	// wire-type facts of one assignment (typed frames): 0 = node answers nothing, 1 = all field cells NULL, 2 = has a value
	nodeKind := func(a []int) int {
		rows, valued := 0, false
		if a[2] > 0 {
			rows, valued = rows+1, true
		}
		if a[0] > 0 {
			rows++
			valued = valued || !mergeFieldNull(7, 2000, int64(a[0]))
		}
		if a[1] > 0 {
			rows++
			valued = valued || !mergeFieldNull(8, 2000, int64(a[1]))
		}
		if a[3] > 0 {
			rows++
		}
		switch {
		case rows == 0:
			return 0
		case valued:
			return 2
		}
		return 1
	}
	for k := 1; k <= 3; k++ {
		al, ftypes := full, []string{"int", "float", "str"}
		if k == 3 {
			al, ftypes = small, []string{"int"}
		}
		assigns(al, k, nil, func(nodes [][]int) {
			hasNull, hasVal, first, tf := false, false, 0, false
			for _, a := range nodes {
				switch nodeKind(a) {
				case 1:
					hasNull = true
					if first == 2 {
						tf = true
					}
					if first == 0 {
						first = 1
					}
				case 2:
					hasVal = true
					if first == 0 {
						first = 2
					}
				}
			}
			for _, ft := range ftypes {
				for _, variant := range []string{"passthrough", "typed"} {
					for _, desc := range []bool{false, true} {
						for _, batch := range []int{1, 8} {
							mc := mergeCase{Variant: variant, Nodes: nodes, Batch: batch, Desc: desc, Merge: true, FieldType: ft}
							n++
							if variant == "typed" && hasNull && hasVal {
								diverging++
								if tf {
									typedFirst++
								}
							}
							msg, _ := mergeOne(mc)
							if msg != "" {
								bad++
								r.Violation(fmt.Sprintf("coordinator merge (%s frames, desc=%v, nullable %s field): %s", variant, desc, ft, msgClass(msg)), map[string]any{"merge": mc, "message": msg})
							}
							if n%30000 == 1 {
								r.Sample(map[string]any{"merge": mc})
							}
						}
					}
				}
			}
		})
	}
	fmt.Printf("C15: coordinator merges with a nullable field: %d (%d with per-node field wire types that differ, %d of them typed frame first), failures %d\n", n, diverging, typedFirst, bad)
	return
}
