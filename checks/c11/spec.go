package main

import (
	"encoding/json"
	"fmt"
	"math"
	"strings"
)

// Spec is one enumerated input: explicit values, or a generator (Gen,N,A,B) that expand() turns into values.
// It is the replayable artefact of a case.
type Spec struct {
	Codec   string   `json:"codec"`
	Ints    []int64  `json:"ints,omitempty"`
	U64     []uint64 `json:"u64,omitempty"`  // unsigned values, or float64 bit patterns for float codecs
	Strs    [][]byte `json:"strs,omitempty"` // base64; null = nil slice, "" = empty non-nil slice
	Toks    []string `json:"toks,omitempty"` // tag values (tagvalue codec)
	Gen     string   `json:"gen,omitempty"`
	N       int      `json:"n,omitempty"`
	A       int64    `json:"a,omitempty"`
	B       int64    `json:"b,omitempty"`
	Opt     int      `json:"opt,omitempty"`
	NoFault bool     `json:"nofault,omitempty"`
}

func (s *Spec) clone() *Spec {
	b, _ := json.Marshal(s)
	var c Spec
	_ = json.Unmarshal(b, &c)
	return &c
}

// short returns a printable form (generator specs stay compact, explicit ones are small by construction).
func (s *Spec) short() any {
	if s.Gen != "" {
		return map[string]any{"codec": s.Codec, "gen": s.Gen, "n": s.N, "a": s.A, "b": s.B, "opt": s.Opt}
	}
	m := map[string]any{"codec": s.Codec}
	if s.Ints != nil {
		m["ints"] = s.Ints
	}
	if s.U64 != nil {
		if strings.Contains(s.Codec, "float") || s.Codec == "xor" {
			h := make([]string, len(s.U64))
			for i, u := range s.U64 {
				h[i] = fmt.Sprintf("%016x(%g)", u, math.Float64frombits(u))
			}
			m["f64bits"] = h
		} else {
			m["u64"] = s.U64
		}
	}
	if s.Strs != nil {
		h := make([]any, len(s.Strs))
		for i, b := range s.Strs {
			switch {
			case b == nil:
				h[i] = nil
			case len(b) > 24:
				h[i] = fmt.Sprintf("%q...(%d bytes)", b[:8], len(b))
			default:
				h[i] = fmt.Sprintf("%q", b)
			}
		}
		m["strs"] = h
	}
	if s.Toks != nil {
		m["toks"] = s.Toks
	}
	if s.Opt != 0 {
		m["opt"] = s.Opt
	}
	return m
}

func patBytes(n int, seed int) []byte {
	b := make([]byte, n)
	for i := range b {
		b[i] = byte((i*31 + seed*7 + (i>>8)*13) % 251)
	}
	return b
}

func rep(b byte, n int) []byte {
	out := make([]byte, n)
	for i := range out {
		out[i] = b
	}
	return out
}

// expand materialises generator specs. Generators are fixed deterministic patterns (no randomness).
func expand(s *Spec) *Spec {
	if s.Gen == "" {
		return s
	}
	o := *s
	n := s.N
	g := s.Gen
	switch {
	case strings.HasPrefix(g, "i:"):
		a := make([]int64, n)
		for i := range a {
			k := int64(i)
			switch g {
			case "i:const":
				a[i] = s.A
			case "i:ramp":
				a[i] = s.A + k*s.B // wraps on purpose for large steps
			case "i:quad":
				a[i] = s.A + s.B*k*k
			case "i:reset":
				a[i] = (k % s.A) * s.B
			case "i:alt":
				if i%2 == 0 {
					a[i] = s.A
				} else {
					a[i] = s.B
				}
			case "i:noise":
				a[i] = int64((uint64(i)*2654435761+uint64(s.A))%1000003)*s.B - 500000*s.B
			default:
				panic("gen " + g)
			}
		}
		o.Ints = a
	case strings.HasPrefix(g, "u:"):
		a := make([]uint64, n)
		for i := range a {
			k := uint64(i)
			switch g {
			case "u:const":
				a[i] = uint64(s.A)
			case "u:ramp":
				a[i] = uint64(s.A) + k*uint64(s.B)
			case "u:alt":
				if i%2 == 0 {
					a[i] = uint64(s.A)
				} else {
					a[i] = uint64(s.B)
				}
			default:
				panic("gen " + g)
			}
		}
		o.U64 = a
	case strings.HasPrefix(g, "f:"):
		a := make([]uint64, n)
		for i := range a {
			k := float64(i)
			var f float64
			switch g {
			case "f:const":
				f = math.Float64frombits(uint64(s.A))
			case "f:tenth":
				f = k / 10
			case "f:quarter":
				f = k*0.25 - float64(s.A)
			case "f:price":
				f = float64(100000+int64(i)*7) / 100
			case "f:big":
				f = 1e15 + k
			case "f:accum":
				f = 0
				for j := 0; j < i%50; j++ {
					f += 0.1
				}
			case "f:micro":
				f = float64(int64(i)*1009%100000) * 1e-6
			default:
				panic("gen " + g)
			}
			a[i] = math.Float64bits(f)
		}
		o.U64 = a
	case strings.HasPrefix(g, "s:"):
		a := make([][]byte, n)
		for i := range a {
			switch g {
			case "s:nil":
				a[i] = nil
			case "s:empty":
				a[i] = []byte{}
			case "s:const":
				a[i] = []byte("a")
			case "s:distinct":
				a[i] = []byte(fmt.Sprintf("k%05d", i))
			case "s:altnil":
				if i%2 == 0 {
					a[i] = nil
				} else {
					a[i] = []byte{}
				}
			case "s:lenramp":
				a[i] = rep('x', i%300)
			case "s:one": // a single string of length A (N is ignored)
				a[i] = patBytes(int(s.A), i)
			case "s:dict-once", "s:dict-runs", "s:dict-rr", "s:dict-bigrun":
				// handled below
			default:
				panic("gen " + g)
			}
		}
		d := int(s.A) // number of distinct dictionary values
		val := func(j int) []byte {
			switch j {
			case 0:
				return nil
			case 1:
				return []byte{}
			}
			return []byte(fmt.Sprintf("v%03d", j))
		}
		switch g {
		case "s:dict-once":
			a = a[:0]
			for j := 0; j < d; j++ {
				a = append(a, val(j))
			}
		case "s:dict-runs":
			a = a[:0]
			for j := 0; j < d; j++ {
				for r := 0; r <= j%3; r++ {
					a = append(a, val(j))
				}
			}
		case "s:dict-rr":
			for i := range a {
				a[i] = val(i % d)
			}
		case "s:dict-bigrun":
			a = a[:0]
			for i := 0; i < n; i++ {
				a = append(a, val(d-1))
			}
			for j := 0; j < d; j++ {
				a = append(a, val(j))
			}
		}
		o.Strs = a
	case strings.HasPrefix(g, "z:"):
		var b []byte
		switch g {
		case "z:const":
			b = rep(byte(s.A), n)
		case "z:pat":
			b = patBytes(n, int(s.A))
		case "z:text":
			for len(b) < n {
				b = append(b, "skywalking-banyandb|"...)
			}
			b = b[:n]
		default:
			panic("gen " + g)
		}
		o.Strs = [][]byte{b}
	default:
		panic("gen " + g)
	}
	return &o
}
