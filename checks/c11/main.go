// C11: storage codecs round-trip exactly; error-reporting decoders never crash on bad bytes.
//
// Bounded exhaustive enumeration (no sampling): every sequence up to length 4 (quick) / 5 (thorough) over boundary
// alphabets plus fixed runs/ramps at special lengths is pushed through the real encoder and decoder of every codec;
// every produced encoding is then corrupted in every single way of a fault model (each truncation length, each
// single-byte substitution from a small byte set at each offset, each wrong mode byte) and fed to the real decoder
// under recover(), an allocation meter, an address-space limit and a watchdog, in worker subprocesses.
package main

import (
	"bufio"
	"bytes"
	"crypto/sha256"
	"encoding/binary"
	"encoding/json"
	"fmt"
	"os"
	"os/exec"
	"path/filepath"
	"regexp"
	"runtime"
	"runtime/debug"
	"runtime/metrics"
	"runtime/pprof"
	"sort"
	"strconv"
	"strings"
	"sync"
	"sync/atomic"
	"syscall"
	"time"

	kzstd "github.com/klauspost/compress/zstd"

	"github.com/apache/skywalking-banyandb/pkg/logger"
	"github.com/apache/skywalking-banyandb/pkg/verif/ev"
)

const (
	allocLimit         = 64 << 20  // a decoder call on a corrupted encoding of <= ~100 KiB may not allocate more than this
	faultHeadroom      = 192 << 20 // soft RLIMIT_AS of a worker while decoding corrupted bytes = current size + this
	confirmHeadroom    = 96 << 20  // ... of a fresh single-step child (one 64 MiB heap arena + slack): the deciding run
	maxFaultedEncoding = 16 << 10  // the fault model is applied to encodings up to this size (cost is quadratic in the size)
	maxRestarts        = 40        // deaths tolerated per worker before its shard is abandoned (exhaustive=false)
	suspectFCS         = 32 << 20  // steps whose zstd frame header declares more content than this go straight to a child
	tripHeadroom       = 1 << 30   // ... and while encoding/decoding valid input
	doneE              = int64(1) << 40
)

var commonSubst = []byte{0x00, 0x01, 0x7F, 0x80, 0xFF}

// pos orders the work of one worker: case ordinal, encoding index inside the case, fault index inside the encoding.
type pos struct{ Ord, E, F int64 }

func (a pos) less(b pos) bool {
	if a.Ord != b.Ord {
		return a.Ord < b.Ord
	}
	if a.E != b.E {
		return a.E < b.E
	}
	return a.F < b.F
}

type fault struct {
	Kind string `json:"kind"` // trunc | subst | mt
	N    int    `json:"n"`    // length kept
	Off  int    `json:"off"`  // substituted offset (-1: none)
	Val  int    `json:"val"`  // substituted byte / mode byte
}

type artefact struct {
	Spec   *Spec  `json:"spec"`
	Dec    string `json:"dec,omitempty"`
	EncIdx int64  `json:"enc_idx"`
	Fault  *fault `json:"fault,omitempty"`
	Enc    string `json:"enc_hex,omitempty"`
	Meta   *Meta  `json:"meta,omitempty"`
	Detail any    `json:"detail,omitempty"`
}

type violRec struct {
	Key string    `json:"key"`
	Art *artefact `json:"art"`
	N   int       `json:"n"`
}

type delta struct {
	Pos      pos            `json:"pos"`
	Counts   map[string]int `json:"counts"`
	Outcomes map[string]int `json:"outcomes"`
	Viols    []*violRec     `json:"viols,omitempty"`
	Samples  []any          `json:"samples,omitempty"`
}

type ctx struct {
	replay     *artefact
	ord        int64
	spec       *Spec
	encIdx     int64
	faults     bool
	quiet      bool
	inFault    bool
	resume     pos
	skip       map[pos]bool
	counts     map[string]int
	outcomes   map[string]int
	viols      map[string]*violRec
	nontrivial int
	seen       map[string]struct{}
	prog       []byte
	sinceFlush int
	lastFlush  time.Time
	samples    []any
	nSamples   map[string]int
	violCount  int
	lastAlloc  uint64
	pend       [3][5]int
	pendDec    string
}

var progressSeq atomic.Int64

func newCtx() *ctx {
	return &ctx{skip: map[pos]bool{}, counts: map[string]int{}, outcomes: map[string]int{}, viols: map[string]*violRec{}, seen: map[string]struct{}{}, nSamples: map[string]int{}}
}

func (c *ctx) count(s string) {
	if c.quiet && !c.inFault {
		return
	}
	c.counts[s]++
}

func (c *ctx) outcome(s string) {
	if c.quiet && !c.inFault {
		return
	}
	c.outcomes[s]++
}

func (c *ctx) viol(key string, detail any) { c.violArt(key, &artefact{Spec: c.spec, Detail: detail}) }

func (c *ctx) violArt(key string, a *artefact) {
	if c.quiet && !c.inFault {
		return
	}
	c.violCount++
	if v, ok := c.viols[key]; ok {
		v.N++
		return
	}
	a.Spec = a.Spec.clone()
	c.viols[key] = &violRec{Key: key, Art: a, N: 1}
	if c.replay != nil {
		fmt.Printf("replay: violation %s\n", key)
	}
}

var allocSample = []metrics.Sample{{Name: "/gc/heap/allocs:bytes"}}

func heapAllocs() uint64 {
	metrics.Read(allocSample)
	return allocSample[0].Value.Uint64()
}

var digits = regexp.MustCompile(`[0-9]+`)

// panicSite names the innermost repository (or third-party) function on the panicking stack; no line numbers.
func panicSite() string {
	pcs := make([]uintptr, 64)
	n := runtime.Callers(3, pcs)
	fr := runtime.CallersFrames(pcs[:n])
	first := ""
	for {
		f, more := fr.Next()
		fn := f.Function
		if fn != "" && !strings.HasPrefix(fn, "runtime.") && !strings.Contains(fn, "/verif/") && first == "" && strings.Contains(fn, "/") {
			first = fn
		}
		if strings.HasPrefix(fn, "github.com/apache/skywalking-banyandb/") && !strings.Contains(fn, "/verif/") {
			return strings.TrimPrefix(fn, "github.com/apache/skywalking-banyandb/")
		}
		if !more {
			break
		}
	}
	if first == "" {
		return "harness"
	}
	return first
}

func safeDecode(fn func([]byte, Meta) string, data []byte, m Meta) (out string, pmsg string, site string) {
	defer func() {
		if r := recover(); r != nil {
			site = panicSite()
			pmsg = digits.ReplaceAllString(fmt.Sprint(r), "N")
			if len(pmsg) > 120 {
				pmsg = pmsg[:120]
			}
			out = "panic"
		}
	}()
	return fn(data, m), "", ""
}

var zstdMagic = []byte{0x28, 0xB5, 0x2F, 0xFD}

// zoneOf classifies a fault position relative to zstd frames inside the valid encoding.
func zoneOf(orig []byte, at int) string {
	z := "plain"
	for i := 0; ; {
		j := bytes.Index(orig[i:], zstdMagic)
		if j < 0 {
			break
		}
		m := i + j
		if at >= m && at < m+18 {
			return "zstd-frame-header"
		}
		if at >= m {
			z = "zstd-frame-body"
		}
		i = m + 4
	}
	return z
}

var zones = []string{"plain", "zstd-frame-header", "zstd-frame-body"}
var kinds = []string{"trunc", "subst", "mt"}
var outs = []string{"ok", "err", "ok-noprogress", "panic", "overalloc"}

// drain books the per-encoding outcome counters (kept in an array because this is the hot path).
func (c *ctx) drain() {
	for k := range c.pend {
		for o, n := range c.pend[k] {
			if n > 0 {
				c.outcomes[c.pendDec+"/"+kinds[k]+"->"+outs[o]] += n
				c.counts["fault_cases"] += n
				c.counts["fault_cases/"+c.pendDec] += n
				c.pend[k][o] = 0
			}
		}
	}
}

func idxOf(l []string, s string) int64 {
	for i, x := range l {
		if x == s {
			return int64(i)
		}
	}
	return -1
}

func decNames() []string {
	var n []string
	for k := range decoders {
		n = append(n, k)
	}
	sort.Strings(n)
	return n
}

func (c *ctx) setProgress(p pos, dec string, f *fault, zone string) {
	progressSeq.Add(1)
	if c.prog == nil {
		return
	}
	v := [9]int64{p.Ord, p.E, p.F, -1, -1, 0, -1, 0, -1}
	if f != nil {
		v[3] = idxOf(decNames0, dec)
		v[4] = idxOf(kinds, f.Kind)
		v[5], v[6], v[7] = int64(f.N), int64(f.Off), int64(f.Val)
		v[8] = idxOf(zones, zone)
	}
	for i, x := range v {
		binary.LittleEndian.PutUint64(c.prog[i*8:], uint64(x))
	}
}

var decNames0 []string // sorted decoder names, set in main (the decoders map is filled by init functions)

func (c *ctx) runFault(dec string, d *decoder, work, orig []byte, m Meta, e int64, p pos, f fault) {
	buf := work[:f.N:f.N]
	var old byte
	if f.Kind == "subst" {
		old = buf[f.Off]
		buf[f.Off] = byte(f.Val)
	}
	mm := m
	if f.Kind == "mt" {
		mm.MT = f.Val
	}
	c.inFault = true
	if c.replay != nil {
		// the deciding run: no collector, hence no emptied pools and no assist work - the meter becomes reproducible
		debug.SetGCPercent(-1)
		c.lastAlloc = heapAllocs()
	}
	a0 := c.lastAlloc // the meter is read once per step: the few harness bytes between two steps are noise at MiB scale
	out, pmsg, site := safeDecode(d.fn, buf, mm)
	a1 := heapAllocs()
	c.lastAlloc = a1
	if d.mutates {
		copy(work, orig)
	} else if f.Kind == "subst" {
		buf[f.Off] = old
	}
	if dd := a1 - a0; c.replay == nil && out != "panic" && dd > allocLimit/2 && dd < allocLimit*2 {
		// near the limit the worker's meter is too noisy (pools emptied by the collector): let a fresh child decide
		runtime.GC()
		c.delegate(dec, e, f, orig, m)
		c.lastAlloc = heapAllocs()
		return
	}
	if c.replay != nil && os.Getenv("VERIF_C11_DEBUG") != "" {
		fmt.Printf("replay: allocated %d bytes, outcome %s\n", a1-a0, out)
	}
	art := func() *artefact {
		a := &artefact{Spec: c.spec, Dec: dec, EncIdx: e, Fault: &f, Meta: &m}
		if len(orig) <= 512 {
			a.Enc = fmt.Sprintf("%x", orig)
		}
		return a
	}
	if d := a1 - a0; d > 1<<20 {
		c.counts["fault_cases_allocating_over_1MiB/"+dec]++
		c.counts["fault_alloc_MiB/"+dec] += int(d >> 20)
		if d > 4<<20 {
			runtime.GC() // keep garbage of consecutive medium allocations from piling up under the address-space limit
		}
	}
	if out == "panic" {
		a := art()
		a.Detail = map[string]any{"panic": pmsg, "site": site}
		c.violArt(fmt.Sprintf("%s/fault panic in %s: %s", dec, site, pmsg), a)
	}
	if a1-a0 > allocLimit {
		at := f.Off
		if f.Kind != "subst" {
			at = f.N
		}
		a := art()
		a.Detail = map[string]any{"allocated_bytes": a1 - a0, "input_bytes": f.N}
		c.violArt(fmt.Sprintf("%s/fault over-allocation zone=%s", dec, zoneOf(orig, at)), a)
		out = "overalloc"
	}
	c.pendDec = dec
	c.pend[idxOf(kinds, f.Kind)][idxOf(outs, out)]++
	c.inFault = false
}

// suspectAlloc is a scheduling hint only: does a zstd frame header in buf declare a huge content size? Such steps
// are executed (by the same real decoder) in a fresh child process so that the worker neither dies nor spends
// minutes zeroing memory; the verdict always comes from the execution.
func suspectAlloc(buf []byte) bool {
	for i := 0; i < len(buf); {
		j := bytes.Index(buf[i:], zstdMagic)
		if j < 0 {
			return false
		}
		var h kzstd.Header
		if err := h.Decode(buf[i+j:]); err == nil && h.HasFCS && h.FrameContentSize > suspectFCS {
			return true
		}
		i += j + 4
	}
	return false
}

// delegate runs one fault step in a fresh child process and books its result.
func (c *ctx) delegate(dec string, e int64, f fault, orig []byte, m Meta) {
	art := &artefact{Spec: c.spec.clone(), Dec: dec, EncIdx: e, Fault: &f, Meta: &m}
	if len(orig) <= 512 {
		art.Enc = fmt.Sprintf("%x", orig)
	}
	path := os.Getenv("VERIF_C11_PROGRESS")
	if path == "" {
		path = fmt.Sprintf("%s/c11-confirm-%d", os.TempDir(), os.Getpid())
	}
	keys, died, msg, site := confirm(path+".confirm.json", art)
	c.inFault = true
	out := "ok"
	switch {
	case died && (strings.Contains(msg, "out of memory") || strings.Contains(msg, "cannot allocate memory")):
		out = "fatal-out-of-memory"
		art.Detail = map[string]any{"fatal": msg, "stack_top": site, "limit": "address space of a fresh process + 96 MiB"}
		c.violArt(fmt.Sprintf("%s/fault over-allocation zone=%s", dec, zoneOf(orig, f.Off)), art)
	case died:
		out = "fatal"
		art.Detail = map[string]any{"fatal": msg, "stack_top": site}
		c.violArt(fmt.Sprintf("%s/fault fatal: %s", dec, digits.ReplaceAllString(msg, "N")), art)
	case len(keys) > 0:
		out = "violation"
		for _, k := range keys {
			c.violArt(k, art)
		}
	}
	if os.Getenv("VERIF_C11_DEBUG") != "" {
		b, _ := json.Marshal(art)
		fmt.Printf("child %s: %s\n", out, b)
	}
	c.outcomes[dec+"/"+f.Kind+"->child:"+out]++
	c.counts["fault_cases"]++
	c.counts["fault_cases/"+dec]++
	c.counts["fault_cases_run_in_isolated_child(zstd header declares >32MiB, or measured 32..128MiB)"]++
	c.inFault = false
}

// enc registers an encoding produced by a real encoder and runs the whole fault model on its decoder.
func (c *ctx) enc(dec string, data []byte, m Meta) {
	e := c.encIdx
	c.encIdx++
	d := decoders[dec]
	if c.replay != nil {
		if c.replay.Fault != nil && c.replay.EncIdx == e {
			if c.replay.Fault.N > len(data) || c.replay.Fault.Off >= len(data) {
				fmt.Println("replay: the encoding is now shorter than the recorded fault position (encoder changed)")
				return
			}
			work := append([]byte(nil), data...)
			setSoftAS(confirmHeadroom)
			c.lastAlloc = heapAllocs()
			c.runFault(dec, d, work, data, m, e, pos{c.ord, e, 0}, *c.replay.Fault)
			setSoftAS(tripHeadroom)
		}
		return
	}
	if !c.quiet {
		key := dec + "\x00" + strconv.Itoa(m.Count) + "," + strconv.Itoa(m.MT) + "," + strconv.FormatInt(m.First, 10) + "\x00"
		if len(data) <= 128 {
			key += string(data)
		} else {
			h := sha256.Sum256(data)
			key += string(h[:])
		}
		if _, dup := c.seen[key]; dup {
			c.counts["encodings_duplicate"]++
			return
		}
		c.seen[key] = struct{}{}
		c.counts["encodings"]++
		c.counts["encodings/"+dec]++
		c.counts["encoded_bytes"] += len(data)
		if c.nSamples[dec] < 1 && len(data) > 0 && len(data) < 48 {
			c.nSamples[dec]++
			c.samples = append(c.samples, map[string]any{"input": c.spec.clone().short(), "decoder": dec, "meta": m, "encoding_hex": fmt.Sprintf("%x", data), "faults": "every truncation, every single-byte substitution"})
		}
	}
	if !c.faults {
		c.counts["encodings_roundtrip_only(big,quick tier)"]++
		return
	}
	if len(data) > maxFaultedEncoding {
		c.counts["encodings_roundtrip_only(longer than 16 KiB)"]++
		return
	}
	work := append([]byte(nil), data...)
	hasMagic := bytes.Contains(data, zstdMagic[:3])
	setSoftAS(faultHeadroom)
	defer setSoftAS(tripHeadroom)
	defer c.drain()
	c.lastAlloc = heapAllocs()
	fi := int64(0)
	one := func(f fault) {
		fi++
		p := pos{c.ord, e, fi}
		if c.quiet && !c.resume.less(p) {
			return
		}
		if c.skip[p] {
			c.counts["fault_cases_skipped(fatal,reported)"]++
			return
		}
		at := f.Off
		if f.Kind != "subst" {
			at = f.N
		}
		zone := ""
		if c.prog != nil && len(data) > 8 {
			zone = zoneOf(data, at)
		}
		c.setProgress(p, dec, &f, zone)
		if hasMagic && f.Kind == "subst" {
			old := work[f.Off]
			work[f.Off] = byte(f.Val)
			sus := suspectAlloc(work[:f.N])
			work[f.Off] = old
			if sus {
				c.delegate(dec, e, f, data, m)
				c.lastAlloc = heapAllocs()
				c.maybeFlush(p)
				return
			}
		}
		c.runFault(dec, d, work, data, m, e, p, f)
		c.maybeFlush(p)
	}
	for n := 0; n < len(data); n++ {
		one(fault{Kind: "trunc", N: n, Off: -1})
	}
	subst := commonSubst
	if len(d.extra) > 0 {
		subst = append(append([]byte(nil), commonSubst...), d.extra...)
	}
	for off := range data {
		for _, v := range subst {
			if data[off] != v {
				one(fault{Kind: "subst", N: len(data), Off: off, Val: int(v)})
			}
		}
	}
	if dec == "int64list" && m.Count >= 2 {
		// wrong mode byte from the block metadata (Count >= 2 keeps inside the documented preconditions of the modes)
		for mt := 0; mt <= 11; mt++ {
			if mt != m.MT {
				one(fault{Kind: "mt", N: len(data), Off: -1, Val: mt})
			}
		}
	}
}

func (c *ctx) runCase(ord int64, s *Spec) {
	c.ord, c.spec, c.encIdx = ord, s, 0
	c.quiet = (c.replay == nil && ord == c.resume.Ord) || (c.replay != nil && c.replay.Fault != nil)
	c.faults = !s.NoFault
	p := pos{ord, -1, -1}
	if c.skip[p] {
		c.counts["cases_skipped(fatal,reported)"]++
		return
	}
	c.setProgress(p, "", nil, "")
	fn := codecs[s.Codec]
	if fn == nil {
		panic("no codec " + s.Codec)
	}
	x := expand(s)
	func() {
		defer func() {
			if r := recover(); r != nil {
				site := panicSite()
				c.inFault = false
				c.viol(fmt.Sprintf("%s/roundtrip panic in %s: %s", s.Codec, site, digits.ReplaceAllString(fmt.Sprint(r), "N")), nil)
			}
		}()
		fn(x, c)
	}()
	// a case is counted when it completes (after a mid-case resume its round-trip part was reported by the dead worker)
	c.counts["cases"]++
	c.counts["cases/"+strings.SplitN(s.Codec, ":", 2)[0]]++
}

func (c *ctx) maybeFlush(p pos) {
	c.sinceFlush++
	if c.sinceFlush < 2048 {
		return
	}
	if c.sinceFlush < 1<<20 && time.Since(c.lastFlush) < 400*time.Millisecond {
		c.sinceFlush -= 256 // look at the clock again in 256 steps; the clock only paces checkpoints
		return
	}
	c.flush(p)
}

func (c *ctx) flush(p pos) {
	c.drain()
	d := delta{Pos: p, Counts: c.counts, Outcomes: c.outcomes, Samples: c.samples}
	keys := make([]string, 0, len(c.viols))
	for k := range c.viols {
		keys = append(keys, k)
	}
	sort.Strings(keys)
	for _, k := range keys {
		d.Viols = append(d.Viols, c.viols[k])
	}
	b, err := json.Marshal(d)
	if err != nil {
		fmt.Println("HARNESS json:", err)
		os.Exit(2)
	}
	os.Stdout.Write(append(append([]byte("DELTA "), b...), '\n'))
	c.counts, c.outcomes, c.viols, c.samples = map[string]int{}, map[string]int{}, map[string]*violRec{}, nil
	c.sinceFlush = 0
	c.lastFlush = time.Now()
}

// ---------------------------------------------------------------------------------------------------------------
// worker

func parsePos(s string) (pos, bool) {
	f := strings.Split(s, ".")
	if len(f) != 3 {
		return pos{}, false
	}
	a, _ := strconv.ParseInt(f[0], 10, 64)
	b, _ := strconv.ParseInt(f[1], 10, 64)
	cc, _ := strconv.ParseInt(f[2], 10, 64)
	return pos{a, b, cc}, true
}

func (p pos) String() string { return fmt.Sprintf("%d.%d.%d", p.Ord, p.E, p.F) }

func cpuTime() time.Duration {
	var ru syscall.Rusage
	if syscall.Getrusage(syscall.RUSAGE_SELF, &ru) != nil {
		return 0
	}
	return time.Duration(ru.Utime.Sec+ru.Stime.Sec)*time.Second + time.Duration(ru.Utime.Usec+ru.Stime.Usec)*time.Microsecond
}

var statmFd = -1

func vsz() uint64 {
	if statmFd < 0 {
		statmFd, _ = syscall.Open("/proc/self/statm", syscall.O_RDONLY, 0)
	}
	var b [64]byte
	if n, err := syscall.Pread(statmFd, b[:], 0); err == nil && n > 0 {
		if f := strings.Fields(string(b[:n])); len(f) > 0 {
			if pages, err := strconv.ParseUint(f[0], 10, 64); err == nil {
				return pages * uint64(os.Getpagesize())
			}
		}
	}
	return 2 << 30
}

// setSoftAS caps the address space at the current size + headroom (soft limit only, so it can be moved again): a
// decoder that asks for more dies at once - observed and then confirmed in a fresh single-case child by the parent -
// instead of zeroing gigabytes (first-touch of memory is very slow in this sandbox) or starving the machine.
func setSoftAS(headroom uint64) {
	if os.Getenv("VERIF_C11_NOLIMIT") != "" { // profiling aid
		return
	}
	const inf = ^uint64(0)
	_ = syscall.Setrlimit(syscall.RLIMIT_AS, &syscall.Rlimit{Cur: vsz() + headroom, Max: inf})
}

func worker(spec string) {
	f := strings.Split(spec, "/")
	wi, _ := strconv.ParseInt(f[0], 10, 64)
	wn, _ := strconv.ParseInt(f[1], 10, 64)
	setSoftAS(tripHeadroom)
	c := newCtx()
	c.resume, _ = parsePos(os.Getenv("VERIF_C11_RESUME"))
	for _, s := range strings.Split(os.Getenv("VERIF_C11_SKIP"), ",") {
		if p, ok := parsePos(s); ok {
			c.skip[p] = true
		}
	}
	if pf := os.Getenv("VERIF_C11_PROGRESS"); pf != "" {
		fd, err := os.OpenFile(pf, os.O_RDWR|os.O_CREATE, 0o644)
		if err == nil {
			_ = fd.Truncate(128)
			c.prog, err = syscall.Mmap(int(fd.Fd()), 0, 128, syscall.PROT_READ|syscall.PROT_WRITE, syscall.MAP_SHARED)
		}
		if err != nil {
			fmt.Println("HARNESS progress file:", err)
			os.Exit(2)
		}
	}
	// watchdog: one step that burns this much CPU time of this process (not wall time: the machine is shared) without
	// finishing is reported as not explored; 15 min of wall time without progress is treated the same.
	cpuLimit := 60 * time.Second
	if ev.Thorough() {
		cpuLimit = 180 * time.Second
	}
	go func() {
		last, since, cpu0 := progressSeq.Load(), time.Now(), cpuTime()
		for {
			time.Sleep(500 * time.Millisecond)
			if cur := progressSeq.Load(); cur != last {
				last, since, cpu0 = cur, time.Now(), cpuTime()
			} else if cpuTime()-cpu0 > cpuLimit || time.Since(since) > 15*time.Minute {
				os.Stdout.Write([]byte("WATCHDOG\n"))
				os.Exit(3)
			}
		}
	}()
	c.lastFlush = time.Now()
	if pf := os.Getenv("VERIF_C11_CPUPROFILE"); pf != "" && wi == 0 {
		if fd, err := os.Create(pf); err == nil {
			_ = pprof.StartCPUProfile(fd)
			defer pprof.StopCPUProfile()
		}
	}
	ord := int64(0)
	enumAll(func(s *Spec) {
		ord++
		if ord%wn != wi {
			return
		}
		if ord < c.resume.Ord || (ord == c.resume.Ord && c.resume.E == doneE) {
			return
		}
		c.runCase(ord, s)
		c.maybeFlush(pos{ord, doneE, 0})
	})
	var ru syscall.Rusage
	if syscall.Getrusage(syscall.RUSAGE_SELF, &ru) == nil {
		c.counts["worker_cpu_ms(last incarnations)"] += int(ru.Utime.Sec+ru.Stime.Sec)*1000 + int(ru.Utime.Usec+ru.Stime.Usec)/1000
	}
	c.flush(pos{ord + 1, doneE, 0})
	os.Stdout.Write([]byte("DONE\n"))
}

// ---------------------------------------------------------------------------------------------------------------
// parent

type merged struct {
	mu        sync.Mutex
	counts    map[string]int
	outcomes  map[string]int
	samples   []any
	keys      map[string]int
	abandoned int
	fatal     int
	hang      int
	restarts  int
}

// enumAll is enumerate for the current tier, optionally restricted to some codecs (debugging aid VERIF_C11_ONLY=a,b;
// a restricted run is marked not exhaustive).
func enumAll(emit func(*Spec)) {
	only := os.Getenv("VERIF_C11_ONLY")
	if only == "" {
		enumerate(ev.Thorough(), emit)
		return
	}
	set := map[string]bool{}
	for _, c := range strings.Split(only, ",") {
		set[c] = true
	}
	enumerate(ev.Thorough(), func(s *Spec) {
		if set[strings.SplitN(s.Codec, ":", 2)[0]] {
			emit(s)
		}
	})
}

func specAt(target int64) *Spec {
	var out *Spec
	ord := int64(0)
	enumAll(func(s *Spec) {
		ord++
		if ord == target {
			out = s.clone()
		}
	})
	return out
}

func runWorker(r *ev.Run, m *merged, i, n int, dir string) error {
	runtime.LockOSThread() // Pdeathsig is tied to the creating thread: keep it for the lifetime of the worker
	resume := pos{}
	var skip []string
	progFile := fmt.Sprintf("%s/w%d", dir, i)
	for attempt := 0; ; attempt++ {
		if attempt > maxRestarts {
			// every death so far was judged on its own; the rest of this shard is given up, not guessed
			m.mu.Lock()
			m.abandoned++
			r.NotExhaustive(fmt.Sprintf("worker %d died %d times (each death judged separately); the rest of its shard after step %s was not explored", i, attempt, resume))
			m.mu.Unlock()
			return nil
		}
		_ = os.WriteFile(progFile, make([]byte, 128), 0o644)
		cmd := exec.Command(os.Args[0], os.Args[1:]...)
		cmd.Env = append(os.Environ(), fmt.Sprintf("VERIF_C11_WORKER=%d/%d", i, n), "GOMAXPROCS=1", "VERIF_C11_RESUME="+resume.String(),
			"VERIF_C11_SKIP="+strings.Join(skip, ","), "VERIF_C11_PROGRESS="+progFile)
		cmd.SysProcAttr = &syscall.SysProcAttr{Pdeathsig: syscall.SIGKILL}
		var stderr bytes.Buffer
		cmd.Stderr = &stderr
		out, err := cmd.StdoutPipe()
		if err != nil {
			return err
		}
		if err := cmd.Start(); err != nil {
			return err
		}
		done, watchdog := false, false
		sc := bufio.NewScanner(out)
		sc.Buffer(make([]byte, 1<<20), 1<<28)
		for sc.Scan() {
			l := sc.Text()
			switch {
			case strings.HasPrefix(l, "DELTA "):
				var d delta
				jd := json.NewDecoder(strings.NewReader(l[6:]))
				jd.UseNumber() // keep 64-bit integers inside samples and artefact details exact
				if err := jd.Decode(&d); err != nil {
					return fmt.Errorf("worker %d: bad delta: %w", i, err)
				}
				resume = d.Pos
				m.mu.Lock()
				for k, v := range d.Counts {
					m.counts[k] += v
				}
				for k, v := range d.Outcomes {
					m.outcomes[k] += v
				}
				if len(m.samples) < 400 {
					m.samples = append(m.samples, d.Samples...)
				}
				for _, v := range d.Viols {
					m.counts["violating_observations"] += v.N
					if m.keys[v.Key] == 0 { // one report per distinct key: counts do not depend on checkpoint pacing
						r.Violation(v.Key, v.Art)
					}
					m.keys[v.Key] += v.N
				}
				m.mu.Unlock()
			case l == "DONE":
				done = true
			case l == "WATCHDOG":
				watchdog = true
			case strings.HasPrefix(l, `{"level":`):
			default:
				fmt.Printf("[w%d] %s\n", i, l)
			}
		}
		werr := cmd.Wait()
		if done && werr == nil {
			return nil
		}
		// the worker died inside a case: attribute, report, skip that single step, resume from the last checkpoint
		pb, _ := os.ReadFile(progFile)
		if len(pb) < 72 {
			return fmt.Errorf("worker %d died (%v) and left no progress record; stderr: %s", i, werr, tail(stderr.String(), 600))
		}
		var v [9]int64
		for k := range v {
			v[k] = int64(binary.LittleEndian.Uint64(pb[k*8:]))
		}
		p := pos{v[0], v[1], v[2]}
		if p.Ord == 0 {
			return fmt.Errorf("worker %d died before its first case (%v); stderr: %s", i, werr, tail(stderr.String(), 600))
		}
		sp := specAt(p.Ord)
		if sp == nil {
			return fmt.Errorf("worker %d: progress record names unknown case %d", i, p.Ord)
		}
		art := &artefact{Spec: sp, EncIdx: p.E}
		what := sp.Codec + "/roundtrip"
		zone := ""
		if v[3] >= 0 && v[4] >= 0 {
			art.Dec = decNames0[v[3]]
			art.Fault = &fault{Kind: kinds[v[4]], N: int(v[5]), Off: int(v[6]), Val: int(v[7])}
			what = art.Dec + "/fault"
			if v[8] >= 0 {
				zone = zones[v[8]]
			}
		}
		m.mu.Lock()
		m.restarts++
		m.mu.Unlock()
		if watchdog {
			m.mu.Lock()
			m.hang++
			r.NotExhaustive(fmt.Sprintf("watchdog: %s step %s of %v made no progress within the guard; skipped, not judged", what, p, sp.short()))
			m.mu.Unlock()
			skip = append(skip, p.String())
			continue
		}
		// A death is only a suspicion (the address-space limit is relative to a heap that may have grown): the verdict
		// comes from re-running exactly this step alone in a fresh process under the same limit.
		keys, died, msg, site := confirm(fmt.Sprintf("%s/confirm-w%d.json", dir, i), art)
		m.mu.Lock()
		switch {
		case died && (strings.Contains(msg, "out of memory") || strings.Contains(msg, "cannot allocate memory")):
			m.fatal++
			m.counts["violating_observations"]++
			m.counts["fault_cases"]++
			m.outcomes[what+":->fatal-out-of-memory"]++
			art.Detail = map[string]any{"fatal": msg, "stack_top": site, "limit": "address space of a fresh process + 96 MiB"}
			if k := fmt.Sprintf("%s over-allocation zone=%s", what, zone); m.keys[k] == 0 {
				r.Violation(k, art)
			}
			m.keys[fmt.Sprintf("%s over-allocation zone=%s", what, zone)]++
		case died:
			m.fatal++
			m.counts["violating_observations"]++
			m.counts["fault_cases"]++
			m.outcomes[what+":->fatal"]++
			art.Detail = map[string]any{"fatal": msg, "stack_top": site}
			if k := fmt.Sprintf("%s fatal: %s", what, digits.ReplaceAllString(msg, "N")); m.keys[k] == 0 {
				r.Violation(k, art)
			}
			m.keys[fmt.Sprintf("%s fatal: %s", what, digits.ReplaceAllString(msg, "N"))]++
		case len(keys) > 0:
			m.counts["fault_cases"]++
			for _, k := range keys {
				m.counts["violating_observations"]++
				if m.keys[k] == 0 {
					r.Violation(k, art)
				}
				m.keys[k]++
			}
		default:
			m.counts["fault_cases"]++
			m.counts["worker_deaths_not_confirmed(step passes alone)"]++
			fmt.Printf("[w%d] died at %s (%s) but the step passes alone; first stderr line: %s\n", i, p, what, fatalLine(stderr.String()))
		}
		m.mu.Unlock()
		skip = append(skip, p.String())
	}
}

func tail(s string, n int) string {
	if len(s) > n {
		return s[len(s)-n:]
	}
	return s
}

func fatalLine(stderr string) string {
	for _, l := range strings.Split(stderr, "\n") {
		if strings.HasPrefix(l, "fatal error:") || strings.HasPrefix(l, "panic:") || strings.HasPrefix(l, "runtime:") || strings.HasPrefix(l, "SIG") {
			if len(l) > 100 {
				l = l[:100]
			}
			return l
		}
	}
	return "worker died without a Go fatal message: " + tail(strings.TrimSpace(stderr), 80)
}

func fatalSite(stderr string) string {
	in := false
	for _, l := range strings.Split(stderr, "\n") {
		if strings.HasPrefix(l, "goroutine ") && strings.Contains(l, "running") {
			in = true
			continue
		}
		if in && strings.Contains(l, "/") && !strings.HasPrefix(l, "runtime.") && !strings.HasPrefix(l, "\t") {
			if i := strings.LastIndex(l, "("); i > 0 {
				l = l[:i]
			}
			return l
		}
	}
	return ""
}

// confirm re-runs one recorded step in a fresh child; returns the violation keys it reported, or that it died.
func confirm(path string, art *artefact) (keys []string, died bool, msg, site string) {
	b, _ := json.Marshal(map[string]any{"property": "C11", "key": "", "artefact": art})
	if err := os.WriteFile(path, b, 0o644); err != nil {
		return nil, true, "harness: " + err.Error(), ""
	}
	cmd := exec.Command(os.Args[0], "--tier", ev.Tier(), "--replay", path)
	cmd.Env = append(os.Environ(), "VERIF_C11_REPLAYCHILD=1", "GOMAXPROCS=1")
	var stdout, stderr bytes.Buffer
	cmd.Stdout, cmd.Stderr = &stdout, &stderr
	err := cmd.Run()
	for _, l := range strings.Split(stdout.String(), "\n") {
		if strings.HasPrefix(l, "replay: violation ") {
			keys = append(keys, strings.TrimPrefix(l, "replay: violation "))
		}
	}
	if err != nil {
		if ee, ok := err.(*exec.ExitError); !ok || ee.ExitCode() != 1 {
			return keys, true, fatalLine(stderr.String()), fatalSite(stderr.String())
		}
	}
	return keys, false, "", ""
}

func replayMain(path string) {
	b, err := os.ReadFile(path)
	if err != nil {
		fmt.Fprintln(os.Stderr, err)
		os.Exit(2)
	}
	var rec struct {
		Key string    `json:"key"`
		Art *artefact `json:"artefact"`
	}
	if err := json.Unmarshal(b, &rec); err != nil || rec.Art == nil || rec.Art.Spec == nil {
		fmt.Fprintln(os.Stderr, "replay: not a C11 artefact:", err)
		os.Exit(2)
	}
	if os.Getenv("VERIF_C11_REPLAYCHILD") == "" {
		// run the case in a child so that a fatal runtime error (address-space limit) is observed, not suffered
		cmd := exec.Command(os.Args[0], os.Args[1:]...)
		cmd.Env = append(os.Environ(), "VERIF_C11_REPLAYCHILD=1")
		cmd.Stdout = os.Stdout
		var stderr bytes.Buffer
		cmd.Stderr = &stderr
		err := cmd.Run()
		fmt.Printf("replay: recorded key: %s\n", rec.Key)
		if err == nil {
			fmt.Println("replay: the case no longer fails")
			os.Exit(0)
		}
		if ee, ok := err.(*exec.ExitError); ok && ee.ExitCode() == 1 {
			fmt.Println("replay: still fails")
			os.Exit(1)
		}
		fmt.Printf("replay: still fails, the process died: %s (%s)\n", fatalLine(stderr.String()), fatalSite(stderr.String()))
		os.Exit(1)
	}
	setSoftAS(tripHeadroom)
	c := newCtx()
	c.replay = rec.Art
	c.runCase(1, rec.Art.Spec)
	if c.violCount > 0 {
		os.Exit(1)
	}
	os.Exit(0)
}

func main() {
	_ = logger.Init(logger.Logging{Env: "prod", Level: "fatal"})
	decNames0 = decNames()
	if rp := ev.Arg("--replay"); rp != "" {
		replayMain(rp)
		return
	}
	if w := os.Getenv("VERIF_C11_WORKER"); w != "" {
		worker(w)
		return
	}
	r := ev.New("C11", "exploration")
	nw := 16
	if s := os.Getenv("VERIF_C11_WORKERS"); s != "" {
		nw, _ = strconv.Atoi(s)
	}
	// scratch directory named after this process; directories of dead runs (killed by a timeout) are collected here
	if old, _ := filepath.Glob("/dev/shm/c11-*"); len(old) > 0 {
		for _, d := range old {
			f := strings.Split(filepath.Base(d), "-")
			if len(f) >= 2 {
				if pid, err := strconv.Atoi(f[1]); err == nil && syscall.Kill(pid, 0) == syscall.ESRCH {
					_ = os.RemoveAll(d)
				}
			}
		}
	}
	dir, err := os.MkdirTemp("/dev/shm", fmt.Sprintf("c11-%d-", os.Getpid()))
	if err != nil {
		fmt.Fprintln(os.Stderr, err)
		os.Exit(2)
	}
	go func() { // an orphaned run (driver killed) stops by itself; workers carry a parent-death signal
		pp := os.Getppid()
		for {
			time.Sleep(2 * time.Second)
			if os.Getppid() != pp {
				_ = os.RemoveAll(dir)
				os.Exit(2)
			}
		}
	}()
	m := &merged{counts: map[string]int{}, outcomes: map[string]int{}, keys: map[string]int{}}
	var wg sync.WaitGroup
	errs := make([]error, nw)
	for i := 0; i < nw; i++ {
		wg.Add(1)
		go func(i int) {
			defer wg.Done()
			errs[i] = runWorker(r, m, i, nw, dir)
		}(i)
	}
	wg.Wait()
	_ = os.RemoveAll(dir)
	for _, e := range errs {
		if e != nil {
			fmt.Fprintln(os.Stderr, "harness error:", e)
			os.Exit(2)
		}
	}
	total := 0
	enumAll(func(*Spec) { total++ })
	if m.abandoned == 0 && m.counts["cases"]+m.counts["cases_skipped(fatal,reported)"] != total {
		fmt.Fprintf(os.Stderr, "harness error: %d cases enumerated but %d executed\n", total, m.counts["cases"])
		os.Exit(2)
	}
	keys := make([]string, 0, len(m.counts))
	for k := range m.counts {
		keys = append(keys, k)
	}
	sort.Strings(keys)
	for _, k := range keys {
		r.Set(k, m.counts[k])
	}
	r.Set("evaluations", m.counts["cases"]+m.counts["fault_cases"])
	r.Set("distinct_nontrivial", m.counts["encodings"])
	r.Set("outcomes", m.outcomes)
	r.Set("distinct_outcomes", len(m.outcomes))
	r.Set("worker_restarts_after_fatal_or_watchdog", m.restarts)
	r.Set("fatal_cases", m.fatal)
	r.Set("watchdog_cases", m.hang)
	r.Set("alphabets", map[string]any{"int64": intA, "uint64": uintA, "float64_bits": hexList(floatA), "float64_pairs_alphabet": len(floatWide()), "byte_strings": len(strA), "vararray": len(varA), "tag_values": tagA, "special_lengths": specialLens, "substitution_bytes": commonSubst})
	r.Set("rule", "every sequence of length <=4 (quick) / <=5 (thorough) over the boundary alphabets plus fixed runs/ramps/dictionaries at the special lengths is encoded and decoded by the real functions (evaluations = round-trip cases + fault cases); distinct_nontrivial = number of distinct (decoder, block metadata, encoded bytes) encodings produced, deduplicated by content, each of which got the complete fault model (every truncation length, every single-byte substitution from the byte set at every offset, every wrong mode byte for int lists) under recover()+allocation meter+address-space limit; refusals and codecs without byte-level decoders (fixed, buffer, tag column encoder) are counted in cases/* only")
	// one sample per decoder (deterministic choice: longest encoding among the workers' first ones)
	best := map[string]any{}
	for _, s := range m.samples {
		d := fmt.Sprint(s.(map[string]any)["decoder"])
		rank := func(x any) string {
			return fmt.Sprintf("%04d %v", len(fmt.Sprint(x.(map[string]any)["encoding_hex"])), x)
		}
		if b, ok := best[d]; !ok || rank(s) > rank(b) {
			best[d] = s
		}
	}
	for _, d := range []string{"int64list", "dictionary", "bytesblock", "tagvalue", "uint64block", "varint", "vararray", "zstd", "xor", "bytes", "varuint"} {
		if s, ok := best[d]; ok {
			r.Sample(s)
		}
	}
	if os.Getenv("VERIF_C11_ONLY") != "" {
		r.NotExhaustive("restricted to codecs " + os.Getenv("VERIF_C11_ONLY"))
	}
	r.Assume("values and lengths outside the alphabets are not covered; multi-byte corruptions are not covered")
	r.Assume("decoders that panic on corruption by contract (DecodeTagValues and the fixed-width BytesTo* helpers) are exercised on valid input only")
	r.Assume("a decoder call that makes no progress within the watchdog guard is reported as not explored (exhaustive=false), never as a verdict")
	// summary of every violation key class (float keys folded by cause), known or not
	fold := map[string]int{}
	foldRe := regexp.MustCompile(`bits=[0-9a-f]+ got=[0-9a-f]+( ulps=\S+ mant=-?[0-9]+ exp=-?[0-9]+)?`)
	for k, n := range m.keys {
		fold[foldRe.ReplaceAllString(k, "bits=* got=*")] += n
	}
	fk := make([]string, 0, len(fold))
	for k := range fold {
		fk = append(fk, k)
	}
	sort.Strings(fk)
	for _, k := range fk {
		fmt.Printf("  key class: %-110s observations=%d\n", k, fold[k])
	}
	r.Set("violation_key_classes", fold)
	r.Set("distinct_violation_keys", len(m.keys))
	fmt.Printf("C11: %d cases, %d distinct encodings, %d fault cases, %d distinct outcomes, %d worker restarts\n", m.counts["cases"], m.counts["encodings"], m.counts["fault_cases"], len(m.outcomes), m.restarts)
	r.Finish()
}

func hexList(u []uint64) []string {
	out := make([]string, len(u))
	for i, x := range u {
		out[i] = fmt.Sprintf("%016x", x)
	}
	return out
}
