package main

import (
	"fmt"
	"math"

	"github.com/apache/skywalking-banyandb/pkg/convert"
	pbv1 "github.com/apache/skywalking-banyandb/pkg/pb/v1"
)

// ---- alphabets (boundary values of the formats: 1-byte varint limit 0x40, 7-bit groups, 8/16/32-bit block widths,
// 2^53 float mantissa limit, int64 limits)

var intA = []int64{0, 1, -1, 2, 63, 64, -64, -65, 1 << 31, -(1 << 31), 1<<53 + 1, -(1<<53 + 1), math.MaxInt64, math.MinInt64}

var uintA = []uint64{0, 1, 127, 128, 255, 256, 16383, 16384, 65535, 65536, 1<<32 - 1, 1 << 32, 1 << 63, math.MaxUint64}

// 16 float64 bit patterns for sequences.
var floatA = []uint64{
	0x0000000000000000,                     // +0
	0x8000000000000000,                     // -0
	math.Float64bits(1),                    //
	math.Float64bits(-1.5),                 //
	math.Float64bits(0.1),                  //
	math.Float64bits(123456789.123456789),  // 17 significant digits
	math.Float64bits(9007199254740993e-3),  // decimal mantissa 2^53+1
	math.Float64bits(9007199254740994),     // integer above 2^53
	math.Float64bits(1e23),                 // positive exponent > 22
	0x0000000000000001,                     // smallest subnormal 5e-324
	0x0010000000000000,                     // smallest normal
	math.Float64bits(math.MaxFloat64),      //
	0x7FF8000000000001,                     // quiet NaN with payload
	0xFFF0000000000001,                     // negative signalling NaN
	0x7FF0000000000000, 0xFFF0000000000000, // +-Inf
}

// wider float alphabet, enumerated as singles and ordered pairs only.
func floatWide() []uint64 {
	vals := []float64{0.3, 4.35, 0.07, 1.0 / 3, 2.0 / 3, 1e-5, 1e-7, 1e-22, 1e-23, 3e-23, 1e22, 3e22, 3e23, 7e22, 1e15, 1e16, 1e17, 1e18, 1e19,
		9.223372036854775807e18, -9.223372036854775808e18, 9.2233720368547e18, 1 << 53, 1<<53 - 1, 1<<53 + 2, -(1 << 53), 1 << 60, 1 << 62,
		123456.789e3, 1234567890123456.7, 0.1234567890123456, 1.7976931348623157e308, 8.98846567431158e307, 1e308, 1e-308, 1e-310, 4.9e-324, 1e-320,
		2.2250738585072009e-308, 2.2250738585072014e-308, 5e-1, 25e-2, 99.99, -99.99, 100, 1000000, 0.001, 1e-3 + 1e-9, 65.125, 1.1, 2.2, 3.3,
		9007199254740.992, 900719925474099.3, 90071992547409.93, 4503599627370497.5, 0.30000000000000004, 1.0000000000000002, 255, 256, 1e300, 1e-300}
	out := append([]uint64(nil), floatA...)
	for _, v := range vals {
		out = append(out, math.Float64bits(v))
	}
	return out
}

func s(b string) []byte { return []byte(b) }

// byte strings for sequences: all short, so that sequences stay below the 128-byte limit of plain data blocks;
// blocks with zstd frames come from strMixes and the special-length generators (a corrupted zstd frame header makes
// the decoder allocate hundreds of MiB, which is too slow to do for every sequence).
var strA = [][]byte{nil, {}, s("a"), s("ab"), {0}, s("null"), s("|\\"), s("12345678")}

var s127, s300 = rep('x', 127), patBytes(300, 1)

var strMixes = [][][]byte{{s127}, {s127, {}}, {s127, nil}, {s127, s("a")}, {nil, s127, s("a")}, {s("a"), s127}, {s300}, {s300, nil, {}, s300}, {s("a"), s127, s127},
	{s127, s127, s127, s127}, {s300, s("null"), s300}, {patBytes(127, 2), patBytes(1, 3)}, {patBytes(64, 2), patBytes(64, 3)}, {patBytes(64, 2), patBytes(63, 3)}}

var varA = [][]byte{{}, s("a"), s("|"), s("\\"), s("\\|"), s("|\\"), s("a|b"), {0}, s("ab\\")}

var tagA = []string{"null", "s:", "s:a", "s:|", "s:\\", "s:a|b\\", "i:0", "i:-1", "i:9223372036854775807", "i:-9223372036854775808",
	"i:4480587047612857902", // zigzag bytes are 7c5c7c5c7c5c7c5c: delimiter and escape inside an int
	"bn", "b:", "b:00", "b:7c5c", "t:0:0", "t:1:1", "t:9223372036:854775807", "t:-1:0", "sa", "ia"}

var specialLens = []int{0, 1, 2, 255, 256, 257, 8192}

// seqs calls f with every index sequence of length 1..maxLen over an alphabet of size k (shortest first).
func seqs(k, maxLen int, f func(idx []int)) {
	for l := 1; l <= maxLen; l++ {
		idx := make([]int, l)
		for {
			f(idx)
			i := l - 1
			for i >= 0 {
				idx[i]++
				if idx[i] < k {
					break
				}
				idx[i] = 0
				i--
			}
			if i < 0 {
				break
			}
		}
	}
}

// enumerate emits every case of the tier, in a fixed order. The emitted *Spec is only valid during the call.
func enumerate(thorough bool, emit func(*Spec)) {
	L := 4
	if thorough {
		L = 5
	}
	bigFaults := thorough // faults on the 8192-element encodings only in the thorough tier
	sp := &Spec{}
	reset := func(codec string) { *sp = Spec{Codec: codec} }

	genB := func(codec, g string, n int, a, b int64, opt int, big bool) {
		reset(codec)
		sp.Gen, sp.N, sp.A, sp.B, sp.Opt = g, n, a, b, opt
		sp.NoFault = big && !bigFaults
		emit(sp)
	}
	gen := func(codec, g string, n int, a, b int64, opt int) { genB(codec, g, n, a, b, opt, n > 1024) }

	// ---- empty lists where the codec accepts them
	for _, cdc := range []string{"varint", "varuint", "fixed", "uint64block", "float-decimal", "bytes", "bytesblock", "dictionary", "vararray", "buffer", "xor"} {
		reset(cdc)
		emit(sp)
	}

	// ---- integer sequences
	ints := make([]int64, 0, 8)
	for _, cdc := range []string{"int64list", "varint", "fixed"} {
		seqs(len(intA), L, func(idx []int) {
			ints = ints[:0]
			for _, i := range idx {
				ints = append(ints, intA[i])
			}
			reset(cdc)
			sp.Ints = ints
			emit(sp)
		})
	}
	for _, n := range specialLens {
		if n == 0 {
			continue
		}
		for _, cdc := range []string{"int64list", "varint"} {
			gen(cdc, "i:const", n, 0, 0, 0)
			gen(cdc, "i:const", n, -1, 0, 0)
			gen(cdc, "i:const", n, math.MaxInt64, 0, 0)
			gen(cdc, "i:ramp", n, 0, 1, 0)
			gen(cdc, "i:ramp", n, 0, -1, 0)
			gen(cdc, "i:ramp", n, math.MinInt64, 1, 0)
			gen(cdc, "i:ramp", n, math.MaxInt64-100, 1, 0) // wraps
			gen(cdc, "i:ramp", n, 1<<53, 1<<10, 0)
			gen(cdc, "i:ramp", n, 0, 1<<55, 0) // wraps after 256 steps
			gen(cdc, "i:ramp", n, 1600000000000, 1000, 0)
			gen(cdc, "i:quad", n, 0, 1, 0)
			gen(cdc, "i:quad", n, 5, -3, 0)
			gen(cdc, "i:reset", n, 100, 1000, 0)
			gen(cdc, "i:reset", n, 3, 7, 0)
			gen(cdc, "i:alt", n, 0, math.MaxInt64, 0)
			gen(cdc, "i:alt", n, math.MinInt64, math.MaxInt64, 0)
			gen(cdc, "i:alt", n, 10, 11, 0)
			gen(cdc, "i:noise", n, 7, 1, 0)
			gen(cdc, "i:noise", n, 11, 1<<40, 0)
		}
	}

	// ---- unsigned sequences
	us := make([]uint64, 0, 8)
	for _, cdc := range []string{"uint64block", "varuint"} {
		seqs(len(uintA), L, func(idx []int) {
			us = us[:0]
			for _, i := range idx {
				us = append(us, uintA[i])
			}
			reset(cdc)
			sp.U64 = us
			emit(sp)
		})
		for _, n := range specialLens[1:] {
			for _, v := range []int64{0, 255, 256, 65535, 65536, 1<<32 - 1, 1 << 32, -1} {
				gen(cdc, "u:const", n, v, 0, 0)
			}
			gen(cdc, "u:ramp", n, 0, 1, 0)
			gen(cdc, "u:ramp", n, 0, 257, 0)
			gen(cdc, "u:ramp", n, 1<<32-100, 1, 0)
			gen(cdc, "u:alt", n, 0, -1, 0)
			gen(cdc, "u:alt", n, 127, 128, 0)
		}
	}

	// ---- float sequences (decimal codec, XOR codec)
	for _, cdc := range []string{"float-decimal", "xor"} {
		fl := L
		if cdc == "xor" {
			fl = L - 1 // the XOR codec has no caller in the repository; one element less keeps it from dominating the run
		}
		seqs(len(floatA), fl, func(idx []int) {
			us = us[:0]
			for _, i := range idx {
				us = append(us, floatA[i])
			}
			reset(cdc)
			sp.U64 = us
			emit(sp)
		})
		fw := floatWide()
		seqs(len(fw), 2, func(idx []int) {
			us = us[:0]
			for _, i := range idx {
				if i < len(floatA) && len(idx) == 1 {
					return // already covered above
				}
				us = append(us, fw[i])
			}
			reset(cdc)
			sp.U64 = us
			emit(sp)
		})
		for _, n := range specialLens[1:] {
			gen(cdc, "f:const", n, int64(math.Float64bits(0.1)), 0, 0)
			gen(cdc, "f:const", n, int64(math.Float64bits(-2.5)), 0, 0)
			gen(cdc, "f:tenth", n, 0, 0, 0)
			gen(cdc, "f:quarter", n, 100, 0, 0)
			gen(cdc, "f:price", n, 0, 0, 0)
			gen(cdc, "f:big", n, 0, 0, 0)
			gen(cdc, "f:accum", n, 0, 0, 0)
			gen(cdc, "f:micro", n, 0, 0, 0)
		}
	}

	// ---- byte-string lists
	strs := make([][]byte, 0, 8)
	strSeqs := func(cdc string, alpha [][]byte, opt int) {
		seqs(len(alpha), L, func(idx []int) {
			strs = strs[:0]
			for _, i := range idx {
				strs = append(strs, alpha[i])
			}
			reset(cdc)
			sp.Strs = strs
			sp.Opt = opt
			emit(sp)
		})
	}
	dictGens := func(cdc string, opt int) {
		rr := 1024
		if thorough {
			rr = 8192
		}
		for _, d := range []int64{1, 2, 255, 256, 257} {
			gen(cdc, "s:dict-once", int(d), d, 0, opt)
			gen(cdc, "s:dict-runs", int(d), d, 0, opt)
			gen(cdc, "s:dict-rr", rr, d, 0, opt)
			gen(cdc, "s:dict-bigrun", rr, d, 0, opt)
		}
	}
	listGens := func(cdc string, opt int) {
		for _, n := range specialLens[1:] {
			for _, g := range []string{"s:nil", "s:empty", "s:const", "s:distinct", "s:altnil", "s:lenramp"} {
				gen(cdc, g, n, 0, 0, opt)
			}
		}
		for _, l := range []int64{126, 127, 128, 254, 255, 256, 65534, 65535} { // data-block 128 limit; length-block width limits
			genB(cdc, "s:one", 1, l, 0, opt, l > 1024)
		}
	}
	mixes := func(cdc string, opt int) {
		for _, m := range strMixes {
			reset(cdc)
			sp.Strs, sp.Opt = m, opt
			emit(sp)
		}
	}
	for _, cdc := range []string{"bytes", "bytesblock", "dictionary"} {
		strSeqs(cdc, strA, 0)
		mixes(cdc, 0)
		listGens(cdc, 0)
	}
	dictGens("dictionary", 0)
	dictGens("bytesblock", 0)
	strSeqs("vararray", varA, 0)
	for _, n := range []int{255, 256, 257} {
		gen("vararray", "s:distinct", n, 0, 0, 0)
		gen("vararray", "s:lenramp", n, 0, 0, 0)
		gen("vararray", "s:empty", n, 0, 0, 0)
	}
	strSeqs("buffer", [][]byte{{}, s("a"), s("bc"), rep('x', 127)}, 0)

	// ---- zstd
	zl := []int{1, 3} // the repository only uses level 1
	if thorough {
		zl = []int{1, 3, 7}
	}
	for _, lvl := range zl {
		for _, n := range []int{0, 1, 2, 127, 128, 129, 255, 256, 257, 8192, 65537} {
			genB("zstd", "z:const", n, 0, 0, lvl, false)
			genB("zstd", "z:const", n, 0xFF, 0, lvl, false)
			genB("zstd", "z:text", n, 0, 0, lvl, false)
			// the pattern data hardly compresses; its encodings are as long as the input
			genB("zstd", "z:pat", n, int64(lvl), 0, lvl, n > 1024)
		}
	}

	// ---- tag column encoder (valid input only: its decoder panics on corruption by contract)
	tagInt := [][]byte{nil, s("null")}
	for _, v := range intA {
		tagInt = append(tagInt, convert.Int64ToBytes(v))
	}
	tagFloat := [][]byte{nil, s("null")}
	for _, u := range floatA {
		tagFloat = append(tagFloat, convert.Uint64ToBytes(u))
	}
	strSeqs("tagenc", tagInt, int(pbv1.ValueTypeInt64))
	strSeqs("tagenc", tagFloat, int(pbv1.ValueTypeFloat64))
	strSeqs("tagenc", strA, int(pbv1.ValueTypeStr))
	strSeqs("tagenc", strA[:6], int(pbv1.ValueTypeBinaryData))
	reset("tagenc")
	sp.Opt = int(pbv1.ValueTypeStr)
	emit(sp)
	mixes("tagenc", int(pbv1.ValueTypeStr))
	listGens("tagenc", int(pbv1.ValueTypeStr))
	dictGens("tagenc", int(pbv1.ValueTypeStr))
	for _, n := range specialLens[1:] {
		gen("tagenc:i", "i:ramp", n, 1600000000000, 1000, int(pbv1.ValueTypeInt64))
		gen("tagenc:i", "i:noise", n, 7, 1, int(pbv1.ValueTypeInt64))
		gen("tagenc:i", "i:const", n, -1, 0, int(pbv1.ValueTypeInt64))
		gen("tagenc:f", "f:tenth", n, 0, 0, int(pbv1.ValueTypeFloat64))
		gen("tagenc:f", "f:price", n, 0, 0, int(pbv1.ValueTypeFloat64))
		gen("tagenc:f", "f:const", n, int64(math.Float64bits(0.1)), 0, int(pbv1.ValueTypeFloat64))
	}

	// ---- tag value marshaling (pbv1)
	tl := 3
	if thorough {
		tl = 4
	}
	toks := make([]string, 0, 8)
	seqs(len(tagA), tl, func(idx []int) {
		toks = toks[:0]
		for _, i := range idx {
			toks = append(toks, tagA[i])
		}
		reset("tagvalue")
		sp.Toks = toks
		emit(sp)
	})
}

func init() {
	// tagenc:i / tagenc:f take generated ints / floats and present them as 8-byte column values
	wrap := func(float bool) func(sx *Spec, c *ctx) {
		return func(sx *Spec, c *ctx) {
			o := *sx
			if float {
				for _, u := range sx.U64 {
					o.Strs = append(o.Strs, convert.Uint64ToBytes(u))
				}
			} else {
				for _, v := range sx.Ints {
					o.Strs = append(o.Strs, convert.Int64ToBytes(v))
				}
			}
			codecs["tagenc"](&o, c)
		}
	}
	codecs["tagenc:i"] = wrap(false)
	codecs["tagenc:f"] = wrap(true)
	for k := range codecs {
		if _, ok := codecs[k]; !ok {
			panic(fmt.Sprint("codec ", k))
		}
	}
}
