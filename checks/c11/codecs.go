package main

import (
	"bytes"
	"fmt"
	"io"
	"math"
	"strconv"
	"strings"

	"google.golang.org/protobuf/types/known/timestamppb"

	modelv1 "github.com/apache/skywalking-banyandb/api/proto/banyandb/model/v1"
	tagenc "github.com/apache/skywalking-banyandb/banyand/internal/encoding"
	pbytes "github.com/apache/skywalking-banyandb/pkg/bytes"
	"github.com/apache/skywalking-banyandb/pkg/compress/zstd"
	"github.com/apache/skywalking-banyandb/pkg/convert"
	"github.com/apache/skywalking-banyandb/pkg/encoding"
	"github.com/apache/skywalking-banyandb/pkg/encoding/vararray"
	pbv1 "github.com/apache/skywalking-banyandb/pkg/pb/v1"
)

// Meta is the out-of-band part of an encoding (stored by callers in block metadata).
type Meta struct {
	Count int   `json:"count"`
	MT    int   `json:"mt,omitempty"`
	First int64 `json:"first,omitempty"`
}

// decoder runs one error-reporting decoder on (possibly corrupted) bytes; returns "err" or "ok".
type decoder struct {
	fn      func(data []byte, m Meta) string
	extra   []byte // codec-specific substitution bytes in addition to the common set
	mutates bool   // decoder may write into its input
}

var decoders = map[string]*decoder{}

func okErr(err error) string {
	if err != nil {
		return "err"
	}
	return "ok"
}

func init() {
	decoders["varint"] = &decoder{fn: func(d []byte, m Meta) string {
		dst := make([]int64, m.Count)
		_, err := encoding.BytesToVarInt64List(dst, d)
		return okErr(err)
	}}
	decoders["varuint"] = &decoder{fn: func(d []byte, m Meta) string {
		dst := make([]uint64, m.Count)
		_, err := encoding.BytesToVarUint64s(dst, d)
		// the single-value form reports failure as "nothing consumed"
		tail, _ := encoding.BytesToVarUint64(d)
		if len(tail) > len(d) {
			panic("BytesToVarUint64 returned a longer tail")
		}
		return okErr(err)
	}}
	decoders["int64list"] = &decoder{fn: func(d []byte, m Meta) string {
		_, err := encoding.BytesToInt64List(nil, d, encoding.EncodeType(m.MT), m.First, m.Count)
		return okErr(err)
	}}
	decoders["bytes"] = &decoder{fn: func(d []byte, m Meta) string {
		for i := 0; i <= m.Count+1 && len(d) > 0; i++ {
			tail, _, err := encoding.DecodeBytes(d)
			if err != nil {
				return "err"
			}
			if len(tail) >= len(d) {
				return "ok-noprogress"
			}
			d = tail
		}
		return "ok"
	}}
	decoders["bytesblock"] = &decoder{fn: func(d []byte, m Meta) string {
		var dec encoding.BytesBlockDecoder
		_, err := dec.Decode(nil, d, uint64(m.Count))
		return okErr(err)
	}}
	decoders["bytesblock-tail"] = &decoder{fn: func(d []byte, m Meta) string {
		var dec encoding.BytesBlockDecoder
		_, _, err := dec.DecodeWithTail(nil, d, uint64(m.Count))
		return okErr(err)
	}}
	decoders["uint64block"] = &decoder{fn: func(d []byte, m Meta) string {
		_, _, err := encoding.DecodeUint64Block(nil, d, uint64(m.Count))
		return okErr(err)
	}}
	decoders["dictionary"] = &decoder{fn: func(d []byte, m Meta) string {
		dict := encoding.NewDictionary()
		_, err := dict.Decode(nil, d, uint64(m.Count))
		return okErr(err)
	}}
	decoders["dictvalues"] = &decoder{fn: func(d []byte, m Meta) string {
		_, err := encoding.DecodeDictionaryValues(d)
		return okErr(err)
	}}
	decoders["vararray"] = &decoder{mutates: true, extra: []byte{'|', '\\'}, fn: func(d []byte, m Meta) string {
		idx := 0
		for i := 0; i <= len(d)+1 && idx < len(d); i++ {
			end, next, err := vararray.UnmarshalVarArray(d, idx)
			if err != nil {
				return "err"
			}
			if end < idx || end > len(d) || next <= idx || next > len(d) {
				panic(fmt.Sprintf("UnmarshalVarArray returned indexes outside the buffer: idx=%d end=%d next=%d len=%d", idx, end, next, len(d)))
			}
			_ = d[idx:end]
			idx = next
		}
		return "ok"
	}}
	decoders["zstd"] = &decoder{fn: func(d []byte, m Meta) string {
		_, err := zstd.Decompress(nil, d)
		return okErr(err)
	}}
	decoders["tagvalue"] = &decoder{extra: []byte{'|', '\\', 2, 4, 7}, fn: func(d []byte, m Meta) string {
		_, _, err := pbv1.UnmarshalTagValues(nil, nil, d)
		return okErr(err)
	}}
	decoders["xor"] = &decoder{fn: func(d []byte, m Meta) string {
		dec := encoding.NewXORDecoder(encoding.NewReader(bytes.NewReader(d)))
		for i := 0; i < m.Count; i++ {
			if !dec.Next() {
				if dec.Err() == nil {
					panic("XORDecoder.Next returned false without an error")
				}
				return "err"
			}
		}
		return "ok"
	}}
}

// ---------------------------------------------------------------------------------------------------------------
// round trips

var codecs = map[string]func(s *Spec, c *ctx){}

var prefix = []byte{0xEE, 0x01}

func bEq(a, b []byte) bool { return bytes.Equal(a, b) && (a == nil) == (b == nil) }

func hexs(b []byte) string {
	if len(b) > 64 {
		return fmt.Sprintf("%x...(%d bytes)", b[:64], len(b))
	}
	return fmt.Sprintf("%x", b)
}

func listEq(a, b [][]byte) int {
	if len(a) != len(b) {
		return -2
	}
	for i := range a {
		if !bEq(a[i], b[i]) {
			return i
		}
	}
	return -1
}

func describe(b []byte) string {
	if b == nil {
		return "nil"
	}
	if len(b) == 0 {
		return "empty"
	}
	return fmt.Sprintf("%dB", len(b))
}

func init() {
	codecs["varint"] = func(s *Spec, c *ctx) {
		a := s.Ints
		enc := encoding.VarInt64ListToBytes(nil, a)
		got := make([]int64, len(a))
		tail, err := encoding.BytesToVarInt64List(got, enc)
		if err != nil || len(tail) != 0 {
			c.viol("varint/roundtrip error-or-tail", map[string]any{"err": fmt.Sprint(err), "tail": len(tail)})
		} else {
			for i := range a {
				if got[i] != a[i] {
					c.viol(fmt.Sprintf("varint/roundtrip v=%d got=%d", a[i], got[i]), nil)
					break
				}
			}
		}
		// append semantics and the single-value forms
		if e2 := encoding.VarInt64ListToBytes(append([]byte(nil), prefix...), a); !bytes.Equal(e2[:2], prefix) || !bytes.Equal(e2[2:], enc) {
			c.viol("varint/append-to-dst", nil)
		}
		var cat []byte
		for _, v := range a {
			one := encoding.VarInt64ToBytes(nil, v)
			cat = append(cat, one...)
			tail, g, err := encoding.BytesToVarInt64(one)
			if err != nil || len(tail) != 0 || g != v {
				c.viol(fmt.Sprintf("varint1/roundtrip v=%d got=%d", v, g), nil)
			}
			if len(one) > 10 {
				c.viol(fmt.Sprintf("varint1/too-long v=%d", v), nil)
			}
			c.outcome(fmt.Sprintf("varint/len=%d", len(one)))
		}
		if !bytes.Equal(cat, enc) {
			c.viol("varint/list-differs-from-singles", nil)
		}
		c.enc("varint", enc, Meta{Count: len(a)})
	}

	codecs["varuint"] = func(s *Spec, c *ctx) {
		a := s.U64
		enc := encoding.VarUint64sToBytes(nil, a)
		got := make([]uint64, len(a))
		tail, err := encoding.BytesToVarUint64s(got, enc)
		if err != nil || len(tail) != 0 {
			c.viol("varuint/roundtrip error-or-tail", map[string]any{"err": fmt.Sprint(err)})
		} else {
			for i := range a {
				if got[i] != a[i] {
					c.viol(fmt.Sprintf("varuint/roundtrip v=%d got=%d", a[i], got[i]), nil)
					break
				}
			}
		}
		var cat []byte
		for _, v := range a {
			one := encoding.VarUint64ToBytes(nil, v)
			cat = append(cat, one...)
			tail, g := encoding.BytesToVarUint64(append(append([]byte(nil), one...), 0x55))
			if len(tail) != 1 || tail[0] != 0x55 || g != v {
				c.viol(fmt.Sprintf("varuint1/roundtrip v=%d got=%d", v, g), nil)
			}
			c.outcome(fmt.Sprintf("varuint/len=%d", len(one)))
		}
		if !bytes.Equal(cat, enc) {
			c.viol("varuint/list-differs-from-singles", nil)
		}
		c.enc("varuint", enc, Meta{Count: len(a)})
	}

	codecs["fixed"] = func(s *Spec, c *ctx) {
		var cat []byte
		for _, v := range s.Ints {
			cat = encoding.Int64ToBytes(cat, v)
			cat = encoding.Uint64ToBytes(cat, uint64(v))
			cat = encoding.Uint32ToBytes(cat, uint32(v))
			cat = encoding.Uint16ToBytes(cat, uint16(v))
		}
		p := cat
		for _, v := range s.Ints {
			if g := encoding.BytesToInt64(p); g != v {
				c.viol(fmt.Sprintf("fixed/Int64ToBytes v=%d got=%d", v, g), nil)
			}
			if g := encoding.BytesToUint64(p[8:]); g != uint64(v) {
				c.viol(fmt.Sprintf("fixed/Uint64ToBytes v=%d got=%d", uint64(v), g), nil)
			}
			if g := encoding.BytesToUint32(p[16:]); g != uint32(v) {
				c.viol(fmt.Sprintf("fixed/Uint32ToBytes v=%d got=%d", uint32(v), g), nil)
			}
			if g := encoding.BytesToUint16(p[20:]); g != uint16(v) {
				c.viol(fmt.Sprintf("fixed/Uint16ToBytes v=%d got=%d", uint16(v), g), nil)
			}
			p = p[22:]
		}
		c.outcome("fixed/ok")
	}

	codecs["int64list"] = func(s *Spec, c *ctx) { int64list(s.Ints, c, "int64list") }

	codecs["float-decimal"] = func(s *Spec, c *ctx) {
		f := make([]float64, len(s.U64))
		for i, u := range s.U64 {
			f[i] = math.Float64frombits(u)
		}
		ints, exp, err := encoding.Float64ListToDecimalIntList(nil, f)
		if err != nil {
			c.outcome("float-decimal/refused")
			return
		}
		if len(ints) != len(f) {
			c.viol(fmt.Sprintf("float-decimal/length in=%d ints=%d", len(f), len(ints)), nil)
			return
		}
		got, err := encoding.DecimalIntListToFloat64List(nil, ints, exp, len(ints))
		if err != nil || len(got) != len(f) {
			c.viol("float-decimal/decode error-or-length", map[string]any{"err": fmt.Sprint(err), "got": len(got)})
			return
		}
		bad := false
		for i := range f {
			if math.Float64bits(got[i]) != s.U64[i] {
				bad = true
				c.viol("float-decimal/roundtrip "+floatDiff(s.U64[i], math.Float64bits(got[i]), ints[i], exp),
					map[string]any{"index": i, "value": strconv.FormatFloat(f[i], 'g', -1, 64), "got": strconv.FormatFloat(got[i], 'g', -1, 64), "scaled_mantissa": ints[i], "exp": exp})
			}
		}
		if bad {
			c.outcome("float-decimal/accepted-lossy")
		} else {
			c.outcome("float-decimal/accepted-exact")
		}
		c.count("float_lists_accepted_by_decimal_codec")
		if len(ints) > 0 {
			int64list(ints, c, "float-decimal>int64list")
		}
	}

	codecs["bytes"] = func(s *Spec, c *ctx) {
		var cat []byte
		for _, b := range s.Strs {
			one := encoding.EncodeBytes(nil, b)
			tail, g, err := encoding.DecodeBytes(one)
			if err != nil || len(tail) != 0 || !bytes.Equal(g, b) {
				c.viol(fmt.Sprintf("bytes/roundtrip len=%d", len(b)), map[string]any{"err": fmt.Sprint(err)})
			}
			cat = encoding.EncodeBytes(cat, b)
		}
		p := cat
		for i, b := range s.Strs {
			var g []byte
			var err error
			p, g, err = encoding.DecodeBytes(p)
			if err != nil || !bytes.Equal(g, b) {
				c.viol(fmt.Sprintf("bytes/roundtrip-concat item=%d len=%d", i, len(b)), map[string]any{"err": fmt.Sprint(err)})
				return
			}
		}
		if len(p) != 0 {
			c.viol("bytes/roundtrip-concat tail", nil)
		}
		c.outcome("bytes/ok")
		c.enc("bytes", cat, Meta{Count: len(s.Strs)})
	}

	codecs["bytesblock"] = func(s *Spec, c *ctx) {
		a := s.Strs
		enc := encoding.EncodeBytesBlock(nil, a)
		var dec encoding.BytesBlockDecoder
		got, err := dec.Decode(nil, enc, uint64(len(a)))
		if err != nil {
			c.viol("bytesblock/roundtrip error", map[string]any{"err": err.Error()})
			return
		}
		if i := listEq(a, got); i != -1 {
			k := "bytesblock/roundtrip length"
			if i >= 0 {
				k = fmt.Sprintf("bytesblock/roundtrip item want=%s got=%s", describe(a[i]), describe(got[i]))
			}
			c.viol(k, map[string]any{"index": i})
		}
		// decoder reuse without Reset must not disturb earlier results; Reset must allow reuse
		other := encoding.EncodeBytesBlock(nil, [][]byte{[]byte("zzzz"), nil, {}, rep('q', 200)})
		if _, err := dec.Decode(nil, other, 4); err != nil {
			c.viol("bytesblock/reuse error", nil)
		}
		if i := listEq(a, got); i != -1 {
			c.viol("bytesblock/reuse clobbers earlier result", map[string]any{"index": i})
		}
		dec.Reset()
		got2, err := dec.Decode(nil, enc, uint64(len(a)))
		if err != nil || listEq(a, got2) != -1 {
			c.viol("bytesblock/decode after Reset", nil)
		}
		// DecodeWithTail
		withTail := append(append([]byte(nil), enc...), "TAIL"...)
		var dec2 encoding.BytesBlockDecoder
		got3, tail, err := dec2.DecodeWithTail(nil, withTail, uint64(len(a)))
		if err != nil || listEq(a, got3) != -1 || string(tail) != "TAIL" {
			c.viol("bytesblock/DecodeWithTail", map[string]any{"err": fmt.Sprint(err), "tail": hexs(tail)})
		}
		// Decode (without tail) must reject trailing bytes
		var dec3 encoding.BytesBlockDecoder
		if _, err := dec3.Decode(nil, withTail, uint64(len(a))); err == nil {
			c.viol("bytesblock/Decode accepts trailing bytes", nil)
		}
		// append to dst
		if e2 := encoding.EncodeBytesBlock(append([]byte(nil), prefix...), a); !bytes.Equal(e2[:2], prefix) || !bytes.Equal(e2[2:], enc) {
			c.viol("bytesblock/append-to-dst", nil)
		}
		c.outcome(fmt.Sprintf("bytesblock/lens=%d,data=%d", blockKind(enc, 0), blockKind(enc, 1)))
		c.enc("bytesblock", enc, Meta{Count: len(a)})
		c.enc("bytesblock-tail", withTail, Meta{Count: len(a)})
	}

	codecs["uint64block"] = func(s *Spec, c *ctx) {
		a := s.U64
		enc := encoding.EncodeUint64Block(nil, a)
		got, tail, err := encoding.DecodeUint64Block(nil, enc, uint64(len(a)))
		if err != nil || len(tail) != 0 || len(got) != len(a) {
			c.viol("uint64block/roundtrip error-or-tail-or-length", map[string]any{"err": fmt.Sprint(err), "tail": len(tail), "got": len(got)})
		} else {
			for i := range a {
				if got[i] != a[i] {
					c.viol(fmt.Sprintf("uint64block/roundtrip v=%d got=%d", a[i], got[i]), nil)
					break
				}
			}
		}
		got, tail, err = encoding.DecodeUint64Block([]uint64{7}, append(append([]byte(nil), enc...), 9, 9), uint64(len(a)))
		if err != nil || len(tail) != 2 || len(got) != len(a)+1 || got[0] != 7 {
			c.viol("uint64block/dst-append-or-tail", nil)
		}
		c.outcome(fmt.Sprintf("uint64block/kind=%d", blockKind(enc, 0)))
		c.enc("uint64block", enc, Meta{Count: len(a)})
	}

	codecs["dictionary"] = func(s *Spec, c *ctx) {
		a := s.Strs
		d := encoding.NewDictionary()
		var distinct [][]byte
		seen := map[string]bool{}
		for i, v := range a {
			k := "v" + string(v)
			if v == nil {
				k = "n"
			}
			wantOK := seen[k] || len(distinct) < 256
			ok := d.Add(v)
			if ok != wantOK {
				c.viol(fmt.Sprintf("dictionary/Add returned %v with %d distinct values present=%v", ok, len(distinct), seen[k]), map[string]any{"index": i})
				return
			}
			if !ok {
				c.outcome("dictionary/refused(>256 distinct)")
				return
			}
			if !seen[k] {
				seen[k] = true
				distinct = append(distinct, v)
			}
		}
		enc := d.Encode(nil)
		d2 := encoding.NewDictionary()
		got, err := d2.Decode(nil, enc, uint64(len(a)))
		if err != nil {
			c.viol("dictionary/roundtrip error", map[string]any{"err": err.Error()})
			return
		}
		if i := listEq(a, got); i != -1 {
			k := "dictionary/roundtrip length"
			if i >= 0 {
				k = fmt.Sprintf("dictionary/roundtrip item want=%s got=%s", describe(a[i]), describe(got[i]))
			}
			c.viol(k, map[string]any{"index": i, "distinct": len(distinct)})
		}
		vals, err := encoding.DecodeDictionaryValues(enc)
		if err != nil || listEq(distinct, vals) != -1 {
			c.viol("dictionary/DecodeDictionaryValues", map[string]any{"err": fmt.Sprint(err), "distinct": len(distinct), "got": len(vals)})
		}
		// Reset + reuse of both sides gives the same bytes / values
		d.Reset()
		for _, v := range a {
			d.Add(v)
		}
		if e2 := d.Encode(nil); !bytes.Equal(e2, enc) {
			c.viol("dictionary/encode after Reset differs", nil)
		}
		d2.Reset()
		got, err = d2.Decode(nil, enc, uint64(len(a)))
		if err != nil || listEq(a, got) != -1 {
			c.viol("dictionary/decode after Reset", map[string]any{"err": fmt.Sprint(err)})
		}
		c.outcome(fmt.Sprintf("dictionary/distinct=%s", bucket(len(distinct))))
		c.enc("dictionary", enc, Meta{Count: len(a)})
		c.enc("dictvalues", enc, Meta{Count: len(a)})
	}

	codecs["vararray"] = func(s *Spec, c *ctx) {
		var buf []byte
		for _, v := range s.Strs {
			buf = vararray.MarshalVarArray(buf, v)
		}
		if b2 := func() []byte {
			var b []byte
			for _, v := range s.Strs {
				b = encoding.MarshalVarArray(b, v)
			}
			return b
		}(); !bytes.Equal(b2, buf) {
			c.viol("vararray/encoding.MarshalVarArray differs", nil)
		}
		enc := append([]byte(nil), buf...)
		idx := 0
		for i, v := range s.Strs {
			end, next, err := vararray.UnmarshalVarArray(buf, idx)
			if err != nil || end < idx || end > len(buf) || !bytes.Equal(buf[idx:end], v) {
				c.viol(fmt.Sprintf("vararray/roundtrip item=%q", v), map[string]any{"index": i, "err": fmt.Sprint(err)})
				return
			}
			idx = next
		}
		if idx != len(buf) {
			c.viol("vararray/roundtrip tail", nil)
		}
		c.outcome("vararray/ok")
		c.enc("vararray", enc, Meta{Count: len(s.Strs)})
	}

	codecs["zstd"] = func(s *Spec, c *ctx) {
		data := s.Strs[0]
		enc := zstd.Compress(nil, data, s.Opt)
		got, err := zstd.Decompress(nil, enc)
		if err != nil || !bytes.Equal(got, data) {
			c.viol(fmt.Sprintf("zstd/roundtrip level=%d", s.Opt), map[string]any{"err": fmt.Sprint(err), "len": len(data)})
		}
		e2 := zstd.Compress(append([]byte(nil), prefix...), data, s.Opt)
		if !bytes.Equal(e2[:2], prefix) {
			c.viol("zstd/compress append-to-dst", nil)
		}
		got, err = zstd.Decompress(append([]byte(nil), prefix...), e2[2:])
		if err != nil || len(got) < 2 || !bytes.Equal(got[:2], prefix) || !bytes.Equal(got[2:], data) {
			c.viol("zstd/decompress append-to-dst", map[string]any{"err": fmt.Sprint(err)})
		}
		c.outcome(fmt.Sprintf("zstd/level=%d ratio<%d", s.Opt, ratioBucket(len(enc), len(data))))
		c.enc("zstd", enc, Meta{Count: len(data)})
	}

	codecs["buffer"] = func(s *Spec, c *ctx) {
		b := &pbytes.Buffer{}
		var want []byte
		for _, ch := range s.Strs {
			if len(ch) == 1 {
				_ = b.WriteByte(ch[0])
			} else if n, err := b.Write(ch); n != len(ch) || err != nil {
				c.viol("buffer/Write result", nil)
			}
			want = append(want, ch...)
		}
		if !bytes.Equal(b.Bytes(), want) {
			c.viol("buffer/Bytes", nil)
		}
		for off := 0; off <= len(want); off++ {
			for _, n := range []int{0, 1, 3, len(want) + 1} {
				p := make([]byte, n)
				k, err := b.Read(int64(off), p)
				exp := len(want) - off
				if exp > n {
					exp = n
				}
				if k != exp || !bytes.Equal(p[:k], want[off:off+k]) || (err == io.EOF) != (k < n) || (err != nil && err != io.EOF) {
					c.viol(fmt.Sprintf("buffer/Read short=%v err=%v", k < n, err), map[string]any{"off": off, "n": n})
				}
			}
		}
		for _, step := range []int{1, 3, 128} {
			r := b.SequentialRead()
			var got []byte
			p := make([]byte, step)
			for i := 0; i <= len(want)+1; i++ {
				k, err := r.Read(p)
				got = append(got, p[:k]...)
				if err != nil {
					if err != io.EOF {
						c.viol("buffer/SequentialRead error", nil)
					}
					break
				}
			}
			if !bytes.Equal(got, want) {
				c.viol(fmt.Sprintf("buffer/SequentialRead step=%d", step), nil)
			}
			_ = r.Close()
		}
		cp := pbytes.Copy(want)
		if !bytes.Equal(cp, want) || (len(cp) > 0 && &cp[0] == &want[0]) {
			c.viol("buffer/Copy", nil)
		}
		for _, n := range []int{0, 1, len(want), len(want) + 1, 2*len(want) + 3} {
			src := append(make([]byte, 0, len(want)), want...)
			ro := pbytes.ResizeOver(src, n)
			re := pbytes.ResizeExact(src, n)
			if len(ro) != n || len(re) != n {
				c.viol("buffer/Resize length", nil)
			}
			if n <= cap(src) && n > 0 && len(want) > 0 && (&ro[0] != &src[:1][0] || &re[0] != &src[:1][0]) {
				c.viol("buffer/Resize reallocates within capacity", nil)
			}
		}
		b.Reset()
		if len(b.Bytes()) != 0 {
			c.viol("buffer/Reset", nil)
		}
		c.outcome("buffer/ok")
	}

	codecs["tagenc"] = func(s *Spec, c *ctx) {
		vt := pbv1.ValueType(s.Opt)
		vals := s.Strs
		bb := &pbytes.Buffer{}
		et, err := tagenc.EncodeTagValues(bb, vals, vt)
		if err != nil {
			c.viol(fmt.Sprintf("tagenc/encode error vt=%d", vt), map[string]any{"err": err.Error()})
			return
		}
		stored := append([]byte(nil), bb.Buf...)
		var dec encoding.BytesBlockDecoder
		got, err := tagenc.DecodeTagValues(nil, &dec, &pbytes.Buffer{Buf: stored}, vt, len(vals))
		if err != nil {
			c.viol(fmt.Sprintf("tagenc/decode error vt=%d", vt), map[string]any{"err": err.Error()})
			return
		}
		c.outcome(fmt.Sprintf("tagenc/vt=%d et=%d", vt, et))
		if len(vals) == 0 {
			if len(got) != 0 {
				c.viol("tagenc/roundtrip empty", nil)
			}
			return
		}
		i := listEq(vals, got)
		if i == -1 {
			return
		}
		if i == -2 {
			c.viol(fmt.Sprintf("tagenc/roundtrip length vt=%d et=%d", vt, et), map[string]any{"want": len(vals), "got": len(got)})
			return
		}
		if vt == pbv1.ValueTypeFloat64 && et != encoding.EncodeTypePlain && len(vals[i]) == 8 && len(got[i]) == 8 {
			// classify like the float-decimal codec so that the known decimal defect keeps one key shape
			f := make([]float64, len(vals))
			for j, v := range vals {
				f[j] = convert.BytesToFloat64(v)
			}
			ints, exp, _ := encoding.Float64ListToDecimalIntList(nil, f)
			for j := range vals {
				if !bytes.Equal(vals[j], got[j]) && j < len(ints) {
					c.viol("tagenc-float64/roundtrip "+floatDiff(convert.BytesToUint64(vals[j]), convert.BytesToUint64(got[j]), ints[j], exp),
						map[string]any{"index": j, "value": strconv.FormatFloat(f[j], 'g', -1, 64), "got": strconv.FormatFloat(convert.BytesToFloat64(got[j]), 'g', -1, 64), "et": int(et)})
				}
			}
			return
		}
		c.viol(fmt.Sprintf("tagenc/roundtrip vt=%d et=%d want=%s got=%s", vt, et, describe(vals[i]), describe(got[i])), map[string]any{"index": i, "want": hexs(vals[i]), "got": hexs(got[i])})
	}

	codecs["tagvalue"] = func(s *Spec, c *ctx) {
		tags := make([]*modelv1.TagValue, len(s.Toks))
		canon := make([]string, len(s.Toks))
		supported := true
		for i, t := range s.Toks {
			tags[i], canon[i] = tokToTag(t)
			if canon[i] == "unsupported" {
				supported = false
			}
		}
		enc, err := pbv1.MarshalTagValues(nil, tags)
		if (err == nil) != supported {
			c.viol(fmt.Sprintf("tagvalue/marshal err=%v supported=%v", err != nil, supported), nil)
			return
		}
		if err != nil {
			c.outcome("tagvalue/refused(unsupported type)")
			return
		}
		stored := append([]byte(nil), enc...)
		_, got, err := pbv1.UnmarshalTagValues(nil, nil, enc)
		if err != nil {
			c.viol("tagvalue/unmarshal error", map[string]any{"err": err.Error()})
			return
		}
		if !bytes.Equal(stored, enc) {
			c.viol("tagvalue/unmarshal modified its input", nil)
		}
		if len(got) != len(tags) {
			c.viol("tagvalue/roundtrip length", map[string]any{"want": len(tags), "got": len(got)})
			return
		}
		for i := range got {
			if g := tagCanon(got[i]); g != canon[i] {
				c.viol(fmt.Sprintf("tagvalue/roundtrip tok=%s got=%s", s.Toks[i], g), map[string]any{"index": i})
			}
		}
		c.outcome("tagvalue/ok")
		c.enc("tagvalue", stored, Meta{Count: len(tags)})
	}

	codecs["xor"] = func(s *Spec, c *ctx) {
		var buf bytes.Buffer
		bw := encoding.NewWriter()
		bw.Reset(&buf)
		e := encoding.NewXOREncoder(bw)
		for _, v := range s.U64 {
			e.Write(v)
		}
		bw.Flush()
		enc := append([]byte(nil), buf.Bytes()...)
		d := encoding.NewXORDecoder(encoding.NewReader(bytes.NewReader(enc)))
		for i, v := range s.U64 {
			if !d.Next() || d.Value() != v {
				c.viol(fmt.Sprintf("xor/roundtrip v=%016x got=%016x", v, d.Value()), map[string]any{"index": i, "err": fmt.Sprint(d.Err())})
				return
			}
		}
		c.outcome("xor/ok")
		c.enc("xor", enc, Meta{Count: len(s.U64)})
	}
}

func int64list(a []int64, c *ctx, name string) {
	enc, mt, first := encoding.Int64ListToBytes(nil, a)
	got, err := encoding.BytesToInt64List(nil, enc, mt, first, len(a))
	if err != nil {
		c.viol(fmt.Sprintf("%s/roundtrip error mt=%d", name, mt), map[string]any{"err": err.Error()})
		return
	}
	if len(got) != len(a) {
		c.viol(fmt.Sprintf("%s/roundtrip length mt=%d", name, mt), map[string]any{"want": len(a), "got": len(got)})
		return
	}
	for i := range a {
		if got[i] != a[i] {
			c.viol(fmt.Sprintf("%s/roundtrip mt=%d", name, mt), map[string]any{"index": i, "want": a[i], "got": got[i], "first": first, "enc": hexs(enc)})
			break
		}
	}
	if first != a[0] {
		c.viol(fmt.Sprintf("%s/firstValue mt=%d", name, mt), nil)
	}
	// the versioned twin of the mode must map back (block metadata stores either)
	if vtp := encoding.GetVersionType(mt); vtp == encoding.EncodeTypeUnknown || encoding.GetCommonType(vtp) != mt {
		c.viol(fmt.Sprintf("%s/version-type mapping mt=%d", name, mt), nil)
	}
	e2, mt2, f2 := encoding.Int64ListToBytes(append([]byte(nil), prefix...), a)
	if mt2 != mt || f2 != first || !bytes.Equal(e2[:2], prefix) || !bytes.Equal(e2[2:], enc) {
		c.viol(name+"/append-to-dst", nil)
	}
	got, err = encoding.BytesToInt64List([]int64{7}, enc, mt, first, len(a))
	if err != nil || len(got) != len(a)+1 || got[0] != 7 || got[len(a)] != a[len(a)-1] {
		c.viol(name+"/decode append-to-dst", nil)
	}
	c.outcome(fmt.Sprintf("%s/mt=%d", name, mt))
	c.enc("int64list", enc, Meta{Count: len(a), MT: int(mt), First: first})
}

// floatDiff renders the stable part of a float round-trip violation key.
func floatDiff(want, got uint64, mant int64, exp int16) string {
	cause := "other"
	am := mant
	if am < 0 {
		am = -am
	}
	if want == 0x8000000000000000 && got == 0 {
		return "bits=8000000000000000 got=0000000000000000 cause=negzero"
	}
	switch {
	case mant == math.MinInt64 || am > 1<<53:
		cause = "mantissa>2^53"
	case exp > 22 || exp < -22:
		cause = "pow10-inexact"
	}
	ulps := "n/a"
	if want>>63 == got>>63 && want<<1>>53 != 0x7FF && got<<1>>53 != 0x7FF {
		d := int64(got&^(1<<63)) - int64(want&^(1<<63))
		if d < 0 {
			d = -d
		}
		ulps = strconv.FormatInt(d, 10)
	}
	return fmt.Sprintf("bits=%016x got=%016x ulps=%s mant=%d exp=%d cause=%s", want, got, ulps, mant, exp, cause)
}

func blockKind(enc []byte, which int) int {
	// first byte of a compressBlock: 0 plain, 1 zstd; which=1 skips the first block when it is plain
	if len(enc) == 0 {
		return -1
	}
	if which == 0 {
		return int(enc[0])
	}
	if enc[0] == 0 && len(enc) > 2+int(enc[1]) {
		return int(enc[2+int(enc[1])])
	}
	return 9
}

func bucket(n int) string {
	switch {
	case n <= 2:
		return strconv.Itoa(n)
	case n < 255:
		return "3..254"
	case n <= 257:
		return strconv.Itoa(n)
	}
	return ">257"
}

func ratioBucket(enc, raw int) int {
	if raw == 0 {
		return 0
	}
	r := enc * 4 / raw
	if r > 5 {
		r = 5
	}
	return r + 1
}

// ---- tag value tokens: null | s:<text> | i:<dec> | b:<hex> | bn | t:<sec>:<nanos> | sa | ia

func tokToTag(t string) (*modelv1.TagValue, string) {
	switch {
	case t == "null":
		return &modelv1.TagValue{Value: &modelv1.TagValue_Null{}}, "N"
	case strings.HasPrefix(t, "s:"):
		v := t[2:]
		c := "S:" + v
		if v == "" {
			c = "N" // empty string is stored as null (same convention as C12)
		}
		return &modelv1.TagValue{Value: &modelv1.TagValue_Str{Str: &modelv1.Str{Value: v}}}, c
	case strings.HasPrefix(t, "i:"):
		v, _ := strconv.ParseInt(t[2:], 10, 64)
		return &modelv1.TagValue{Value: &modelv1.TagValue_Int{Int: &modelv1.Int{Value: v}}}, fmt.Sprintf("I:%d", v)
	case t == "bn":
		return &modelv1.TagValue{Value: &modelv1.TagValue_BinaryData{BinaryData: nil}}, "N"
	case strings.HasPrefix(t, "b:"):
		var b []byte
		_, _ = fmt.Sscanf(t[2:], "%x", &b)
		if b == nil {
			b = []byte{}
		}
		c := "B:" + string(b)
		if len(b) == 0 {
			c = "N"
		}
		return &modelv1.TagValue{Value: &modelv1.TagValue_BinaryData{BinaryData: b}}, c
	case strings.HasPrefix(t, "t:"):
		p := strings.Split(t, ":")
		sec, _ := strconv.ParseInt(p[1], 10, 64)
		ns, _ := strconv.ParseInt(p[2], 10, 32)
		return &modelv1.TagValue{Value: &modelv1.TagValue_Timestamp{Timestamp: &timestamppb.Timestamp{Seconds: sec, Nanos: int32(ns)}}}, fmt.Sprintf("T:%d", sec*1e9+ns)
	case t == "sa":
		return &modelv1.TagValue{Value: &modelv1.TagValue_StrArray{StrArray: &modelv1.StrArray{Value: []string{"a"}}}}, "unsupported"
	case t == "ia":
		return &modelv1.TagValue{Value: &modelv1.TagValue_IntArray{IntArray: &modelv1.IntArray{Value: []int64{1}}}}, "unsupported"
	}
	panic("bad token " + t)
}

func tagCanon(t *modelv1.TagValue) string {
	switch x := t.Value.(type) {
	case *modelv1.TagValue_Null:
		return "N"
	case *modelv1.TagValue_Str:
		if x.Str.Value == "" {
			return "N"
		}
		return "S:" + x.Str.Value
	case *modelv1.TagValue_Int:
		return fmt.Sprintf("I:%d", x.Int.Value)
	case *modelv1.TagValue_BinaryData:
		if len(x.BinaryData) == 0 {
			return "N"
		}
		return "B:" + string(x.BinaryData)
	case *modelv1.TagValue_Timestamp:
		// instant equality: Seconds*1e9+Nanos (the decoder does not normalise negative nanos)
		return fmt.Sprintf("T:%d", x.Timestamp.Seconds*1e9+int64(x.Timestamp.Nanos))
	}
	return "?" + t.String()
}
