// C02 — highest version wins: one point per (series, timestamp), the greatest version, whatever the arrival order,
// batch split or part layout. Engine O over the real measure tsTable (see NOTES.md).
package main

import (
	"encoding/json"
	"fmt"
	"os"
	"regexp"
	"runtime/pprof"
	"sort"
	"strconv"
	"strings"
	"time"

	"github.com/apache/skywalking-banyandb/banyand/measure"
	"github.com/apache/skywalking-banyandb/pkg/logger"
	"github.com/apache/skywalking-banyandb/pkg/verif/ev"
	opsearch "github.com/apache/skywalking-banyandb/pkg/verif/opsearch2"
	"github.com/apache/skywalking-banyandb/pkg/verif/par"
)

// ---- alphabet ------------------------------------------------------------------------------------------------------

const (
	t1 = int64(1000)
	t2 = int64(2000)
)

// point i in [0,12): series 1+i/6, timestamp t1/t2 by (i/3)%2, version 1+i%3. Payload 100+i (slot a), 200+i (slot b =
// second copy of the same point inside one batch). Every row carries tag family tf = [k, c] (projected by the queries).
func point(i int, slotB bool) measure.VRow {
	r := measure.VRow{S: uint64(1 + i/6), T: t1, V: int64(1 + i%3), P: int64(100 + i), TagT: 1}
	if (i/3)%2 == 1 {
		r.T = t2
	}
	if slotB {
		r.P = int64(200 + i)
	}
	return r
}

func keyOf(i int) int { return i / 3 }

// wide alphabet: every batch B over the 12 points with |B| <= 2:
//   - 12 singles
//   - same (series, ts), different versions: both input orders (24)
//   - different keys: one input order, descending by (series, ts), so that the batch sort has to act (54)
//   - the same point twice (equal version, different payloads) (12)
func wideAlphabet() []string {
	var ops []string
	for i := 0; i < 12; i++ {
		ops = append(ops, fmt.Sprintf("w:%d", i))
	}
	for i := 0; i < 12; i++ {
		for j := 0; j < 12; j++ {
			switch {
			case i == j:
				ops = append(ops, fmt.Sprintf("w:%d,%d", i, j))
			case keyOf(i) == keyOf(j):
				ops = append(ops, fmt.Sprintf("w:%d,%d", i, j))
			case keyOf(i) > keyOf(j):
				ops = append(ops, fmt.Sprintf("w:%d,%d", i, j))
			}
		}
	}
	return ops
}

// deep alphabet: batches over 7 points — series 1 x {t1,t2} x {1,2,3} and (series 2, t1, version 2): 7 singles and all 21
// pairs of distinct points (same key: ascending-version input order; different keys: descending key order), plus one
// single "w:1n" = point 1 (s1,t1,v2) written WITHOUT the tag family and with its own payload: an equal-version competitor
// of w:1 whose block has no tag family (a row-replacement path that assumes the family exists would crash on it).
func deepAlphabet() []string {
	pts := []int{0, 1, 2, 3, 4, 5, 7}
	var ops []string
	for _, i := range pts {
		ops = append(ops, fmt.Sprintf("w:%d", i))
	}
	ops = append(ops, "w:1n")
	for a := 0; a < len(pts); a++ {
		for b := a + 1; b < len(pts); b++ {
			i, j := pts[a], pts[b]
			if keyOf(i) == keyOf(j) {
				ops = append(ops, fmt.Sprintf("w:%d,%d", i, j)) // lower version first
			} else {
				ops = append(ops, fmt.Sprintf("w:%d,%d", j, i)) // higher key first
			}
		}
	}
	return ops
}

// probe batches: "W:<n>:<v>" = series 1, timestamps 1..n, version v; "w1:<t>:<v>" = one row of series 1.
// triple alphabet: batches of 3 (and 4) points that carry one (series,ts) twice (or three times) together with a companion
// point p, so that the duplicate is NOT on the first timestamp / first series of the batch:
//   - for every key K, every duplicate kind (versions (1,2), (1,3), (2,3), equal versions with two payloads) and every
//     companion p in {same series at the other timestamp, other series at t1, other series at t2}: the batch
//     [q_low, p, q_high] (unsorted on purpose). Quick: p has version 2; thorough: p in all three versions.
//   - for every key K: [q2, q1, q3] (three versions of one point) and [q2, p, q1, q3] with p in the same series.
//   - the 12 singles, so that a second write can compete with what the triple left behind.
func tripleAlphabet(thorough bool) []string {
	var ops []string
	for i := 0; i < 12; i++ {
		ops = append(ops, fmt.Sprintf("w:%d", i))
	}
	pvs := []int{1}
	if thorough {
		pvs = []int{0, 1, 2}
	}
	for k := 0; k < 4; k++ {
		base := 3 * k
		// key k = 2*(series-1) + timestamp index; point index = 3*k + (version-1)
		sameSeriesOther := 3 * (k ^ 1)
		otherT1 := 3 * ((k ^ 2) &^ 1)
		otherT2 := 3 * ((k ^ 2) | 1)
		for _, dup := range [][2]int{{0, 1}, {0, 2}, {1, 2}, {1, 1}} {
			for _, pk := range []int{sameSeriesOther, otherT1, otherT2} {
				for _, pv := range pvs {
					ops = append(ops, fmt.Sprintf("w:%d,%d,%d", base+dup[0], pk+pv, base+dup[1]))
				}
			}
		}
		ops = append(ops, fmt.Sprintf("w:%d,%d,%d", base+1, base, base+2))
		ops = append(ops, fmt.Sprintf("w:%d,%d,%d,%d", base+1, sameSeriesOther+1, base, base+2))
	}
	return ops
}

func rowsOfWrite(op string) []measure.VRow {
	var rows []measure.VRow
	if strings.HasPrefix(op, "W:") || strings.HasPrefix(op, "w1:") {
		f := strings.Split(op, ":")
		a, _ := strconv.Atoi(f[1])
		v, _ := strconv.Atoi(f[2])
		if f[0] == "w1" {
			return []measure.VRow{{S: 1, T: int64(a), V: int64(v), P: int64(v*1000000 + a)}}
		}
		for t := 1; t <= a; t++ {
			rows = append(rows, measure.VRow{S: 1, T: int64(t), V: int64(v), P: int64(v*1000000 + t)})
		}
		return rows
	}
	if op == "w:1n" {
		r := point(1, false)
		r.P, r.TagT = 301, 0
		return []measure.VRow{r}
	}
	seen := map[int]bool{}
	for _, f := range strings.Split(strings.TrimPrefix(op, "w:"), ",") {
		i, err := strconv.Atoi(f)
		if err != nil || i < 0 || i >= 12 {
			panic("bad write op " + op)
		}
		rows = append(rows, point(i, seen[i]))
		seen[i] = true
	}
	return rows
}

// ---- model ---------------------------------------------------------------------------------------------------------

type info struct {
	Mem    int `json:"m"`
	File   int `json:"f"`
	Writes int `json:"w"`
}

type model struct {
	name      string
	alphabet  []string
	maxWrites int
	base      string
	seq       int
}

func subsets(n, minSize int) [][]int {
	var out [][]int
	for m := 1; m < 1<<n; m++ {
		var s []int
		for i := 0; i < n; i++ {
			if m&(1<<i) != 0 {
				s = append(s, i)
			}
		}
		if len(s) >= minSize {
			out = append(out, s)
		}
	}
	return out
}

func (m *model) applicable(in info) []string {
	var ops []string
	if in.Writes < m.maxWrites {
		ops = append(ops, m.alphabet...)
	}
	if in.Mem > 0 {
		ops = append(ops, "f")
	}
	if in.Mem >= 2 {
		ops = append(ops, "mm")
	}
	for _, s := range subsets(in.File, 2) {
		ss := make([]string, len(s))
		for i := range s {
			ss[i] = strconv.Itoa(s[i])
		}
		ops = append(ops, "m:"+strings.Join(ss, ","))
	}
	return ops
}

func (m *model) expand(it opsearch.Item) []opsearch.Succ {
	var in info
	if len(it.Info) > 0 {
		if err := json.Unmarshal(it.Info, &in); err != nil {
			panic(err)
		}
	}
	var out []opsearch.Succ
	for _, op := range m.applicable(in) {
		h := append(append([]string(nil), it.Hist...), op)
		m.seq++
		r := execute(fmt.Sprintf("%s/%d", m.base, m.seq), h)
		s := opsearch.Succ{Op: op, State: r.state, Viol: r.viol, Outcome: r.outcome, Nontrivial: r.contended > 0}
		b, _ := json.Marshal(r.info)
		s.Info = b
		out = append(out, s)
	}
	return out
}

var series = []uint64{1, 2}

func isWrite(op string) bool {
	return strings.HasPrefix(op, "w:") || strings.HasPrefix(op, "W:") || strings.HasPrefix(op, "w1:")
}

func apply(t *measure.VTable, op string) {
	switch {
	case isWrite(op):
		t.Write(rowsOfWrite(op))
	case op == "f":
		if !t.FlushA() || !t.FlushB() {
			panic("flush not applicable")
		}
	case op == "mm":
		if !t.MemMergeA() || !t.MemMergeB() {
			panic("mem merge not applicable")
		}
	case strings.HasPrefix(op, "m:"):
		fp := t.FileParts()
		var ids []uint64
		for _, f := range strings.Split(op[2:], ",") {
			i, err := strconv.Atoi(f)
			if err != nil || i >= len(fp) {
				panic("bad merge op " + op)
			}
			ids = append(ids, fp[i])
		}
		if !t.MergeA(ids) || !t.MergeB() {
			panic("merge not applicable")
		}
	default:
		panic("unknown op " + op)
	}
}

type result struct {
	state     string
	info      info
	viol      []opsearch.Viol
	outcome   string
	contended int // keys written more than once
	queries   int
	observed  map[string][]measure.VOut
	dump      []measure.VPart
}

type kkey struct {
	s uint64
	t int64
}

var numRe = regexp.MustCompile(`[0-9a-f]{8,}|/dev/shm/[^ :"]+|\d+`)

func panicKey(op string, r any) string {
	s := fmt.Sprint(r)
	if i := strings.IndexByte(s, '\n'); i >= 0 {
		s = s[:i]
	}
	if len(s) > 160 {
		s = s[:160]
	}
	kind := op
	if i := strings.IndexByte(kind, ':'); i >= 0 {
		kind = kind[:i]
	}
	return "panic in " + kind + ": " + numRe.ReplaceAllString(s, "#")
}

type queryVariant struct {
	name string
	q    measure.VQuery
}

var queryVariants = []queryVariant{
	{"pull/ts-asc", measure.VQuery{Sids: []uint64{1, 2}, Min: 0, Max: 1 << 40, Mode: 0, Schema: 1}},
	{"pull/ts-desc", measure.VQuery{Sids: []uint64{1, 2}, Min: 0, Max: 1 << 40, Mode: 1, Schema: 1}},
	{"pull/by-series", measure.VQuery{Sids: []uint64{1, 2}, Min: 0, Max: 1 << 40, Mode: 2, Schema: 1}},
	{"pull/by-series-rev", measure.VQuery{Sids: []uint64{2, 1}, Min: 0, Max: 1 << 40, Mode: 2, Schema: 1}},
	{"batch/ts-asc", measure.VQuery{Sids: []uint64{1, 2}, Min: 0, Max: 1 << 40, Mode: 0, Batch: true, Schema: 1}},
	{"batch/ts-desc", measure.VQuery{Sids: []uint64{1, 2}, Min: 0, Max: 1 << 40, Mode: 1, Batch: true, Schema: 1}},
	{"batch/by-series", measure.VQuery{Sids: []uint64{1, 2}, Min: 0, Max: 1 << 40, Mode: 2, Batch: true, Schema: 1}},
	{"pull/range-t1", measure.VQuery{Sids: []uint64{1, 2}, Min: t1, Max: t1, Mode: 0, Schema: 1}},
	{"pull/range-t2", measure.VQuery{Sids: []uint64{1, 2}, Min: t2, Max: t2, Mode: 0, Schema: 1}},
	{"pull/series1", measure.VQuery{Sids: []uint64{1}, Min: 0, Max: 1 << 40, Mode: 0, Schema: 1}},
	{"pull/series2", measure.VQuery{Sids: []uint64{2}, Min: 0, Max: 1 << 40, Mode: 0, Schema: 1}},
	{"batch/series1", measure.VQuery{Sids: []uint64{1}, Min: 0, Max: 1 << 40, Mode: 0, Batch: true, Schema: 1}},
	{"batch/series2", measure.VQuery{Sids: []uint64{2}, Min: 0, Max: 1 << 40, Mode: 0, Batch: true, Schema: 1}},
}

type exp struct {
	maxV     int64
	payloads map[int64]bool
	n        int
}

func (e *exp) add(v, p int64) {
	e.n++
	if e.n == 1 || v > e.maxV {
		e.maxV = v
		e.payloads = map[int64]bool{}
	}
	if v == e.maxV {
		e.payloads[p] = true
	}
}

// partQueries: for every part of the snapshot, scan that part alone (all series, and each series on its own = one block):
// what a query sees whose time range prunes the other parts. The reference is the content of that part.
func partQueries(dump []measure.VPart) (qs []queryVariant, wants []map[kkey]*exp) {
	nth := map[string]int{}
	for _, p := range dump {
		kind := "file"
		if p.Mem {
			kind = "mem"
		}
		nth[kind]++
		want := map[kkey]*exp{}
		for _, r := range p.Rows {
			k := kkey{r.S, r.T}
			if want[k] == nil {
				want[k] = &exp{}
			}
			want[k].add(r.V, rawPayloadOf(r.F))
		}
		for _, v := range []struct {
			n    string
			sids []uint64
			b    bool
		}{{"pull/all", []uint64{1, 2}, false}, {"pull/series1", []uint64{1}, false}, {"pull/series2", []uint64{2}, false},
			{"batch/series1", []uint64{1}, true}, {"batch/series2", []uint64{2}, true}} {
			qs = append(qs, queryVariant{fmt.Sprintf("single-%s-part/%s", kind, v.n),
				measure.VQuery{Sids: v.sids, Min: 0, Max: 1 << 40, Mode: 0, Schema: 1, Batch: v.b, Part: p.ID}})
			wants = append(wants, want)
		}
	}
	return
}

func rawPayloadOf(f string) int64 {
	n, err := strconv.ParseInt(strings.TrimPrefix(f, "int64:"), 10, 64)
	if err != nil {
		return -1
	}
	return n
}

// execute replays h on a fresh table in dir, evaluates the oracle in the final state and reads back the canonical state.
func execute(dir string, h []string) (res result) {
	var t *measure.VTable
	cur := ""
	defer func() {
		if r := recover(); r != nil {
			res.viol = append(res.viol, opsearch.Viol{Key: panicKey(cur, r), Detail: fmt.Sprint(r)})
			res.outcome = "panic"
			res.state = ""
		}
		if t != nil {
			func() {
				defer func() { _ = recover() }()
				t.Close()
			}()
		}
		_ = os.RemoveAll(dir)
	}()
	t = measure.VOpen(dir, series)
	want := map[kkey]*exp{}
	for _, op := range h {
		cur = op
		apply(t, op)
		if isWrite(op) {
			res.info.Writes++
			for _, r := range rowsOfWrite(op) {
				k := kkey{r.S, r.T}
				if want[k] == nil {
					want[k] = &exp{}
				}
				want[k].add(r.V, r.P)
			}
		}
	}
	cur = "dump"
	res.dump = t.Dump()
	// canonical state: multiset of parts, each = kind + sorted logical rows (ids, order of parts and layout dropped)
	var ps []string
	where := map[kkey][]string{}
	for _, p := range res.dump {
		kind := "F"
		if p.Mem {
			kind = "M"
			res.info.Mem++
		} else {
			res.info.File++
		}
		rows := make([]string, len(p.Rows))
		for i, r := range p.Rows {
			rows[i] = fmt.Sprintf("%d,%d,%d,%s", r.S, r.T, r.V, r.F)
			where[kkey{r.S, r.T}] = append(where[kkey{r.S, r.T}], kind)
		}
		sort.Strings(rows)
		ps = append(ps, kind+"|"+strings.Join(rows, ";"))
	}
	sort.Strings(ps)
	res.state = strings.Join(ps, "\n")
	for _, e := range want {
		if e.n > 1 {
			res.contended++
		}
	}
	layout := func(k kkey) string {
		w := append([]string(nil), where[k]...)
		sort.Strings(w)
		return strings.Join(w, "+")
	}
	res.observed = map[string][]measure.VOut{}
	outc := map[string]bool{}
	pq, pwants := partQueries(res.dump)
	allQ := append(append([]queryVariant(nil), queryVariants...), pq...)
	for qi, qv := range allQ {
		want := want
		if qi >= len(queryVariants) {
			want = pwants[qi-len(queryVariants)]
		}
		inQuery := func(k kkey) bool {
			for _, s := range qv.q.Sids {
				if s == k.s {
					return k.t >= qv.q.Min && k.t <= qv.q.Max
				}
			}
			return false
		}
		cur = "query " + qv.name
		rows, err := t.Query(qv.q)
		res.queries++
		res.observed[qv.name] = rows
		if err != nil {
			res.viol = append(res.viol, opsearch.Viol{Key: "query error " + qv.name + ": " + numRe.ReplaceAllString(err.Error(), "#"), Detail: err.Error()})
			continue
		}
		got := map[kkey]int{}
		for ri, r := range rows {
			k := kkey{r.S, r.T}
			got[k]++
			e := want[k]
			inRange := inQuery(k)
			switch {
			case e == nil || !inRange:
				res.viol = append(res.viol, opsearch.Viol{Key: qv.name + ": row for a key never written / outside the range", Detail: r})
			case got[k] > 1:
				key := fmt.Sprintf("%s: two rows for one (series,ts); key stored in parts %s", qv.name, layout(k))
				var detail any = rows
				if len(rows) > 64 {
					detail = map[string]any{"row": r, "index_in_result": ri, "result_rows": len(rows)}
				}
				if qv.q.Batch && ri > 0 && ri%measure.VBatchCap == 0 {
					key += fmt.Sprintf(" [PullBatch: the rows of one (series,ts) are split by the %d-row cap of a batch]", measure.VBatchCap)
				}
				res.viol = append(res.viol, opsearch.Viol{Key: key, Detail: detail})
			case r.V != e.maxV:
				res.viol = append(res.viol, opsearch.Viol{Key: fmt.Sprintf("%s: lower version returned; key stored in parts %s", qv.name, layout(k)),
					Detail: map[string]any{"row": r, "max_version_written": e.maxV, "rows": clip(rows)}})
			case !e.payloads[payloadOf(r.F)]:
				res.viol = append(res.viol, opsearch.Viol{Key: fmt.Sprintf("%s: payload is not one written with the winning version; key stored in parts %s", qv.name, layout(k)),
					Detail: map[string]any{"row": r, "rows": clip(rows)}})
			}
			if e != nil && qv.q.Part == 0 {
				if e.n > 1 {
					outc[fmt.Sprintf("v%d-of-%d@%s", r.V, e.n, layout(k))] = true
				}
			}
		}
		for k := range want {
			if inQuery(k) && got[k] == 0 {
				res.viol = append(res.viol, opsearch.Viol{Key: fmt.Sprintf("%s: written key missing from the result; key stored in parts %s", qv.name, layout(k)),
					Detail: map[string]any{"series": k.s, "ts": k.t, "rows": clip(rows)}})
			}
		}
	}
	var oc []string
	for k := range outc {
		oc = append(oc, k)
	}
	sort.Strings(oc)
	res.outcome = strings.Join(oc, " ")
	if res.outcome == "" {
		res.outcome = "uncontended"
	}
	if len(res.viol) > 0 {
		res.outcome = "violation"
	}
	return res
}

func clip(rows []measure.VOut) []measure.VOut {
	if len(rows) > 64 {
		return rows[:64]
	}
	return rows
}

// probeHistories: a run of n rows of one series plus one competing row at its first or last timestamp, in every write
// order and part layout, for n around the row cap of one PullBatch result.
func probeHistories() [][]string {
	var hs [][]string
	for _, n := range []int{measure.VBatchCap - 1, measure.VBatchCap, measure.VBatchCap + 1} {
		for _, at := range []int{1, n} {
			for _, w := range [][]string{
				{fmt.Sprintf("W:%d:1", n), fmt.Sprintf("w1:%d:2", at)},
				{fmt.Sprintf("W:%d:2", n), fmt.Sprintf("w1:%d:1", at)},
				{fmt.Sprintf("w1:%d:2", at), fmt.Sprintf("W:%d:1", n)},
			} {
				for _, tail := range [][]string{{}, {"f"}, {"mm"}, {"f", "m:0,1"}} {
					hs = append(hs, append(append([]string(nil), w...), tail...))
				}
			}
		}
	}
	return hs
}

func payloadOf(f string) int64 {
	if !strings.HasPrefix(f, "i:") {
		return -1
	}
	n, err := strconv.ParseInt(f[2:], 10, 64)
	if err != nil {
		return -1
	}
	return n
}

// ---- main ----------------------------------------------------------------------------------------------------------

type artefact struct {
	Search string   `json:"search"`
	Hist   []string `json:"hist"`
	Detail any      `json:"detail,omitempty"`
}

func main() {
	_ = logger.Init(logger.Logging{Env: "prod", Level: "fatal"})
	if rp := ev.Arg("--replay"); rp != "" {
		replay(rp)
		return
	}
	if n := ev.Arg("--bench"); n != "" {
		bench(n)
		return
	}
	thorough := ev.Thorough()
	depth := 4
	if thorough {
		depth = 5
	}
	base, err := os.MkdirTemp("/dev/shm", "c02-")
	if err != nil {
		panic(err)
	}
	defer os.RemoveAll(base)
	_, _, isWorker := par.Worker()
	wide := &model{name: "wide", alphabet: wideAlphabet(), maxWrites: 2, base: base}
	deepWrites := 3
	if thorough {
		deepWrites = 4
	}
	deep := &model{name: "deep", alphabet: deepAlphabet(), maxWrites: deepWrites, base: base}
	triple := &model{name: "triple", alphabet: tripleAlphabet(thorough), maxWrites: 2, base: base}
	var r *ev.Run
	if !isWorker {
		r = ev.New("C02", "model_checking")
		fmt.Printf("C02 wide search: %d write ops, <=2 writes, depth %d\n", len(wide.alphabet), depth)
	}
	sw := opsearch.Run(opsearch.Config{Name: "c02wide", MaxDepth: depth, Workers: 16, Cleanup: func() { os.RemoveAll(base) }}, wide.expand)
	if !isWorker {
		fmt.Printf("C02 deep search: %d write ops, <=%d writes, depth %d\n", len(deep.alphabet), deepWrites, depth)
	}
	sd := opsearch.Run(opsearch.Config{Name: "c02deep", MaxDepth: depth, Workers: 16, Cleanup: func() { os.RemoveAll(base) }}, deep.expand)
	if !isWorker {
		fmt.Printf("C02 triple search: %d write ops (3- and 4-point batches with an in-batch duplicate + singles), <=2 writes, depth 4\n", len(triple.alphabet))
	}
	st := opsearch.Run(opsearch.Config{Name: "c02triple", MaxDepth: 4, Workers: 16, Cleanup: func() { os.RemoveAll(base) }}, triple.expand)
	if isWorker {
		os.RemoveAll(base)
		return
	}
	// batch-cap probe (driver process)
	probes := probeHistories()
	probeOutcomes := map[string]int{}
	for i, h := range probes {
		res := execute(fmt.Sprintf("%s/probe-%d", base, i), h)
		probeOutcomes[res.outcome]++
		for _, v := range res.viol {
			r.Violation(v.Key, artefact{Search: "batch-cap-probe", Hist: h, Detail: v.Detail})
		}
	}
	fmt.Printf("C02 batch-cap probe: %d histories (runs of %d/%d/%d rows + one competing row)\n", len(probes), measure.VBatchCap-1, measure.VBatchCap, measure.VBatchCap+1)
	r.Set("batch_cap_probe", map[string]any{"histories": len(probes), "outcomes": probeOutcomes})
	for _, sv := range []struct {
		n string
		s opsearch.Stats
	}{{"wide", sw}, {"deep", sd}, {"triple", st}} {
		for _, v := range sv.s.Violations {
			r.Violation(v.Key, artefact{Search: sv.n, Hist: v.Hist, Detail: v.Detail})
		}
	}
	nTrans := sw.Transitions + sd.Transitions + st.Transitions
	r.Set("states", sw.States+sd.States+st.States)
	r.Set("transitions", nTrans)
	r.Set("traces_validated_against_impl", nTrans+len(probes))
	r.Set("queries_per_state", fmt.Sprintf("%d over the whole snapshot + 5 per part of the snapshot (that part scanned alone)", len(queryVariants)))
	r.Set("query_evaluations_whole_snapshot", nTrans*len(queryVariants))
	r.Set("search_wide", sw)
	r.Set("search_deep", sd)
	r.Set("search_triple", st)
	r.Set("nontrivial_transitions", sw.Nontrivial+sd.Nontrivial+st.Nontrivial)
	oc := map[string]bool{}
	for k := range sw.Outcomes {
		oc[k] = true
	}
	for k := range sd.Outcomes {
		oc[k] = true
	}
	for k := range st.Outcomes {
		oc[k] = true
	}
	r.Set("distinct_outcomes", len(oc))
	r.Set("rule", "a transition is non-trivial when its history wrote some (series,ts) more than once; an outcome class = for every contended key, which version was returned out of how many writes and in which kinds of parts (mem/file) its rows lived at query time")
	r.Set("bounds", map[string]any{
		"depth":           depth,
		"wide_alphabet":   fmt.Sprintf("%d write ops = every batch of <=2 of the 12 points {s1,s2}x{t1,t2}x{v1,v2,v3} (same-key pairs in both input orders, equal-version twins with different payloads); <=2 writes per history", len(wide.alphabet)),
		"deep_alphabet":   fmt.Sprintf("%d write ops = every batch of <=2 of 7 points (s1 x {t1,t2} x {v1,v2,v3}, (s2,t1,v2)); <=%d writes per history", len(deep.alphabet), deepWrites),
		"triple_alphabet": fmt.Sprintf("%d write ops = batches [q_low, p, q_high] with q_low,q_high on one (series,ts) (versions (1,2),(1,3),(2,3) or equal versions with two payloads) and a companion p (same series other timestamp / other series t1 / other series t2; version 2 in quick, all versions in thorough), [q2,q1,q3], [q2,p,q1,q3], and the 12 singles; <=2 writes per history, depth 4", len(triple.alphabet)),
		"maintenance":     "flush (all memory parts), merge of every subset (>=2) of file parts, merge of all memory parts (flusher path)",
	})
	for _, sv := range []struct {
		n string
		s opsearch.Stats
		k int
	}{{"wide", sw, 2}, {"triple", st, 3}, {"deep", sd, 3}} {
		for i, h := range sv.s.SampleHistories {
			if i > 0 && i <= sv.k {
				r.Sample(map[string]any{"search": sv.n, "history": h})
			}
		}
	}
	r.Assume("states with equal multisets of parts (kind + logical rows) have equal futures: part ids, directory names and the order of parts in the snapshot are not part of the state")
	r.Assume("the step functions called by the introducer/flusher/merger loops are driven one at a time (no concurrency; C05 covers snapshots under concurrency)")
	fmt.Printf("C02: states=%d transitions=%d nontrivial=%d distinct_outcomes=%d\n", sw.States+sd.States+st.States, nTrans, sw.Nontrivial+sd.Nontrivial+st.Nontrivial, len(oc))
	os.RemoveAll(base) // Finish exits the process, deferred calls do not run
	r.Finish()
}

func bench(n string) {
	k, _ := strconv.Atoi(n)
	base, _ := os.MkdirTemp("/dev/shm", "c02b-")
	defer os.RemoveAll(base)
	if pf := os.Getenv("VERIF_CPUPROFILE"); pf != "" {
		f, _ := os.Create(pf)
		_ = pprof.StartCPUProfile(f)
		defer pprof.StopCPUProfile()
	}
	for _, h := range [][]string{{"w:0", "w:1,4", "w:2"}, {"w:0", "w:1,4", "f", "m:0,1"}} {
		t0 := time.Now()
		for i := 0; i < k; i++ {
			execute(fmt.Sprintf("%s/%d", base, i), h)
		}
		fmt.Printf("%v: %v per execution\n", h, time.Since(t0)/time.Duration(k))
	}
}

func replay(p string) {
	b, err := os.ReadFile(p)
	if err != nil {
		fmt.Println(err)
		os.Exit(2)
	}
	var a struct {
		Key      string   `json:"key"`
		Artefact artefact `json:"artefact"`
	}
	if err := json.Unmarshal(b, &a); err != nil {
		fmt.Println(err)
		os.Exit(2)
	}
	base, _ := os.MkdirTemp("/dev/shm", "c02r-")
	defer os.RemoveAll(base)
	res := execute(base+"/t", a.Artefact.Hist)
	fmt.Println("history:", a.Artefact.Hist)
	for _, op := range a.Artefact.Hist {
		if strings.HasPrefix(op, "w:") {
			fmt.Printf("  %s = %+v\n", op, rowsOfWrite(op))
		}
	}
	short := func(rows []measure.VOut) string {
		if len(rows) > 12 {
			return fmt.Sprintf("%v ... (%d rows)", rows[:12], len(rows))
		}
		return fmt.Sprint(rows)
	}
	for _, p := range res.dump {
		fmt.Printf("  part %d mem=%v rows=%s\n", p.ID, p.Mem, short(p.Rows))
	}
	var names []string
	for n := range res.observed {
		names = append(names, n)
	}
	sort.Strings(names)
	for _, n := range names {
		fmt.Printf("  %-32s %s\n", n, short(res.observed[n]))
	}
	hit := false
	for _, v := range res.viol {
		fmt.Println("violation:", v.Key)
		if v.Key == a.Key {
			hit = true
		}
	}
	if len(res.viol) > 0 {
		if !hit {
			fmt.Println("(recorded key not reproduced, other violations present)")
		}
		os.RemoveAll(base)
		os.Exit(1)
	}
	fmt.Println("no violation")
}
