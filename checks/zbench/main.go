// zbench: scratch timing program (not a check).
package main

import (
	"fmt"
	"os"
	"time"

	"github.com/apache/skywalking-banyandb/banyand/internal/storage"
	"github.com/apache/skywalking-banyandb/pkg/logger"
)

func main() {
	_ = logger.Init(logger.Logging{Env: "prod", Level: "fatal"})
	base, _ := os.MkdirTemp("/dev/shm", "zb-")
	defer os.RemoveAll(base)
	var tOpen, tCreate, tClose, tRm time.Duration
	n := 300
	for i := 0; i < n; i++ {
		dir := fmt.Sprintf("%s/%d", base, i)
		t0 := time.Now()
		db, err := storage.VOpenDB(dir, storage.VOpts{Now: time.Date(2026, 9, 10, 12, 0, 0, 0, time.Local), Interval: storage.IntervalRule{Unit: storage.DAY, Num: 1}, TTL: storage.IntervalRule{Unit: storage.DAY, Num: 7}, DisableRetention: os.Getenv("DR") != ""})
		if err != nil {
			panic(err)
		}
		t1 := time.Now()
		s, _ := db.Create(time.Date(2026, 9, 5, 10, 0, 0, 0, time.Local))
		s.DecRef()
		s, _ = db.Create(time.Date(2026, 9, 6, 10, 0, 0, 0, time.Local))
		s.DecRef()
		t2 := time.Now()
		db.Close()
		t3 := time.Now()
		os.RemoveAll(dir)
		t4 := time.Now()
		tOpen += t1.Sub(t0)
		tCreate += t2.Sub(t1)
		tClose += t3.Sub(t2)
		tRm += t4.Sub(t3)
	}
	fmt.Println("open", tOpen/time.Duration(n), "create2", tCreate/time.Duration(n), "close", tClose/time.Duration(n), "rm", tRm/time.Duration(n))
}
