// C06: time segments partition the timeline; each accepted timestamp lives in exactly one segment.
//
// Engine O (mc/opsearch) on the real storage.database / segmentController: per configuration (time zone x interval rule
// x legacy seed x scene) all operation sequences over {create(ts), UpdateOptions(Num'), close+reopen} up to a depth,
// deduplicated on the segment list read back from the implementation, checked against an interval-set oracle.
package main

import (
	"encoding/json"
	"fmt"
	"os"
	"os/exec"
	"path/filepath"
	"runtime/pprof"
	"sort"
	"strings"
	"time"
	_ "time/tzdata"

	"github.com/apache/skywalking-banyandb/banyand/internal/storage"
	"github.com/apache/skywalking-banyandb/pkg/logger"
	"github.com/apache/skywalking-banyandb/pkg/timestamp"
	"github.com/apache/skywalking-banyandb/pkg/verif/ev"
	"github.com/apache/skywalking-banyandb/pkg/verif/opsearch"
)

var zones = []string{"UTC", "Asia/Kolkata", "America/New_York", "Australia/Lord_Howe", "Europe/London"}

var numsOf = map[string][]int{"HOUR": {1, 2, 3, 6}, "DAY": {1, 2, 3, 7}}

type cfg struct {
	Zone  string `json:"zone"`
	Unit  string `json:"unit"`
	Scene string `json:"scene"`
	Num   int    `json:"num"`
	Seed  int    `json:"seed_legacy_num"` // 0 = no pre-seeded legacy segment
}

func (c cfg) String() string {
	return fmt.Sprintf("%s/%sx%d/seed%d/%s", c.Zone, c.Unit, c.Num, c.Seed, c.Scene)
}

func unitOf(u string) storage.IntervalUnit {
	if u == "DAY" {
		return storage.DAY
	}
	return storage.HOUR
}

func (c cfg) rule(n int) storage.IntervalRule {
	return storage.IntervalRule{Unit: unitOf(c.Unit), Num: n}
}

// ---------------------------------------------------------------------------------------------------------------
// reference calendar arithmetic (independent of the code under test)

func floorDiv(a, b int) int {
	q := a / b
	if a%b != 0 && (a < 0) != (b < 0) {
		q--
	}
	return q
}

// daysFromCivil: days since 1970-01-01 of a proleptic Gregorian civil date (pure integer arithmetic).
func daysFromCivil(y, m, d int) int {
	if m <= 2 {
		y--
	}
	era := floorDiv(y, 400)
	yoe := y - era*400
	mp := (m + 9) % 12
	doy := (153*mp+2)/5 + d - 1
	doe := yoe*365 + yoe/4 - yoe/100 + doy
	return era*146097 + doe - 719468
}

func offsetAt(t time.Time) int { _, o := t.In(time.Local).Zone(); return o }

// calm: the zone offset does not change within n+1 hours around t.
func calm(t time.Time, n int) bool {
	d := time.Duration(n+1) * time.Hour
	return offsetAt(t.Add(-d)) == offsetAt(t) && offsetAt(t.Add(d)) == offsetAt(t)
}

// refBucket is the configured grid bucket of ts: DAY x n = n civil days counted from civil 1970-01-01, local midnights;
// HOUR x n (n | 24) = local hours of the day aligned to multiples of n. For HOUR the grid is only defined (ok) away
// from offset transitions.
func refBucket(unit string, n int, ts time.Time) (rs, re time.Time, ok bool) {
	l := ts.In(time.Local)
	y, m, d := l.Date()
	if unit == "DAY" {
		b := floorDiv(daysFromCivil(y, int(m), d), n) * n
		return time.Date(1970, 1, 1+b, 0, 0, 0, 0, time.Local), time.Date(1970, 1, 1+b+n, 0, 0, 0, 0, time.Local), true
	}
	if !calm(ts, n) {
		return rs, re, false
	}
	h := l.Hour()
	rs = time.Date(y, m, d, h-h%n, 0, 0, 0, time.Local)
	return rs, rs.Add(time.Duration(n) * time.Hour), true
}

// transitions2026 lists the instants in 2026 at which the local offset changes.
func transitions2026() []time.Time {
	var out []time.Time
	t := time.Date(2026, 1, 1, 0, 0, 0, 0, time.UTC)
	end := time.Date(2027, 1, 1, 0, 0, 0, 0, time.UTC)
	for ; t.Before(end); t = t.Add(30 * time.Minute) {
		if offsetAt(t) != offsetAt(t.Add(30*time.Minute)) {
			// refine to the second
			lo, hi := t, t.Add(30*time.Minute)
			for hi.Sub(lo) > time.Second {
				mid := lo.Add(hi.Sub(lo) / 2).Truncate(time.Second)
				if offsetAt(mid) == offsetAt(lo) {
					lo = mid
				} else {
					hi = mid
				}
			}
			out = append(out, hi)
		}
	}
	return out
}

// ---------------------------------------------------------------------------------------------------------------
// alphabet

type instant struct {
	T    time.Time
	Name string
}

func scenesOf(zone string, thorough bool) []string {
	sc := []string{"winter", "summer", "far"}
	if !thorough && len(transitions2026()) == 0 {
		sc = sc[1:] // no offset changes in this zone: winter and summer are the same scene up to translation
	}
	_ = zone
	for i := range transitions2026() {
		sc = append(sc, fmt.Sprintf("dst%d", i+1))
	}
	return sc
}

func (c cfg) instants() []instant {
	var out []instant
	add := func(n string, t time.Time) {
		for _, o := range out {
			if o.T.Equal(t) {
				return
			}
		}
		// every production caller hands the storage layer time.Unix(0, ns), i.e. a time in time.Local
		out = append(out, instant{Name: n, T: time.Unix(0, t.UnixNano())})
	}
	ns := time.Nanosecond
	anchor := func(tag string, a time.Time) {
		rs, re, ok := refBucket(c.Unit, c.Num, a)
		if !ok {
			panic("anchor is not calm: " + a.String())
		}
		span := re.Sub(rs)
		add(tag+":start-1ns", rs.Add(-ns))
		add(tag+":start", rs)
		add(tag+":start+1ns", rs.Add(ns))
		add(tag+":q1", rs.Add(span/4+7*time.Minute))
		add(tag+":mid", rs.Add(span/2+17*time.Minute))
		add(tag+":q3", rs.Add(3*span/4+7*time.Minute))
		add(tag+":end-1ns", re.Add(-ns))
		add(tag+":end", re)
	}
	switch c.Scene {
	case "winter":
		anchor("W", time.Date(2026, 1, 20, 10, 0, 0, 0, time.Local))
	case "summer":
		anchor("S", time.Date(2026, 9, 15, 10, 0, 0, 0, time.Local))
	case "far":
		rs, re, _ := refBucket(c.Unit, c.Num, time.Date(2026, 9, 15, 10, 0, 0, 0, time.Local))
		add("far-past", time.Unix(0, 1_000_000_000_000_000_000))
		add("S:start", rs)
		add("S:mid", rs.Add(re.Sub(rs)/2+17*time.Minute))
		add("S:end", re)
		add("far-future", time.Date(2099, 12, 31, 23, 59, 59, 999999999, time.Local))
	default:
		var i int
		fmt.Sscanf(c.Scene, "dst%d", &i)
		tr := transitions2026()[i-1]
		if c.Unit == "HOUR" {
			add("T-90m", tr.Add(-90*time.Minute))
			add("T-30m", tr.Add(-30*time.Minute))
			add("T-1ns", tr.Add(-ns))
			add("T", tr)
			add("T+30m", tr.Add(30*time.Minute))
			add("T+90m", tr.Add(90*time.Minute))
			add("T+150m", tr.Add(150*time.Minute))
		} else {
			l := tr.Add(-time.Second).In(time.Local)
			m0 := time.Date(l.Year(), l.Month(), l.Day(), 0, 0, 0, 0, time.Local)
			m1 := time.Date(l.Year(), l.Month(), l.Day()+1, 0, 0, 0, 0, time.Local)
			add("Tday:midnight-1ns", m0.Add(-ns))
			add("Tday:midnight", m0)
			add("T-1ns", tr.Add(-ns))
			add("T", tr)
			add("Tday:noon", time.Date(l.Year(), l.Month(), l.Day(), 12, 0, 0, 0, time.Local))
			add("Tday+1:midnight-1ns", m1.Add(-ns))
			add("Tday+1:midnight", m1)
			add("Tday+1:noon", time.Date(l.Year(), l.Month(), l.Day()+1, 12, 0, 0, 0, time.Local))
		}
	}
	return out
}

// seedInstant is where the legacy segment of a seeded configuration is created (under the legacy rule).
func (c cfg) seedInstant() time.Time {
	ins := c.instants()
	for _, i := range ins {
		if strings.HasSuffix(i.Name, ":mid") || i.Name == "T+30m" || i.Name == "Tday:noon" {
			return i.T
		}
	}
	panic("no seed instant")
}

type op struct {
	Kind string // create | update | reopen
	Name string
	T    time.Time
	Num  int
}

func (c cfg) ops() []op {
	var out []op
	for _, i := range c.instants() {
		out = append(out, op{Kind: "create", T: i.T, Name: fmt.Sprintf("create(%s=%s)", i.Name, i.T.In(time.Local).Format(time.RFC3339Nano))})
	}
	for _, n := range numsOf[c.Unit] {
		out = append(out, op{Kind: "update", Num: n, Name: fmt.Sprintf("UpdateOptions(%sx%d)", c.Unit, n)})
	}
	out = append(out, op{Kind: "reopen", Name: "close+reopen"})
	return out
}

// ---------------------------------------------------------------------------------------------------------------
// instance

type rng struct{ S, E int64 }

func (r rng) String() string {
	return "[" + time.Unix(0, r.S).In(time.Local).Format(time.RFC3339Nano) + "," + time.Unix(0, r.E).In(time.Local).Format(time.RFC3339Nano) + ")"
}

type system struct {
	c    cfg
	base string
	ops  []op
	ins  []instant
	seq  int
}

func (s *system) NumOps() int          { return len(s.ops) }
func (s *system) OpName(op int) string { return s.ops[op].Name }

type instance struct {
	sys      *system
	db       *storage.VDB
	dir      string
	num      int
	poisoned bool
	closed   bool
}

var ttl = storage.IntervalRule{Unit: storage.DAY, Num: 7}

func (s *system) open(dir string, num int) (db *storage.VDB, err error) {
	defer func() {
		if r := recover(); r != nil {
			err = fmt.Errorf("panic: %v", r)
		}
	}()
	return storage.VOpenDB(dir, storage.VOpts{
		Now: time.Date(2026, 9, 20, 0, 0, 0, 0, time.Local), Interval: s.c.rule(num), TTL: ttl, DisableRetention: true,
	})
}

func (s *system) Fresh() (opsearch.Inst, []opsearch.Finding) {
	s.seq++
	in := &instance{sys: s, dir: filepath.Join(s.base, fmt.Sprintf("i%d", s.seq)), num: s.c.Num}
	var fs []opsearch.Finding
	if s.c.Seed != 0 {
		db, err := s.open(in.dir, s.c.Seed)
		if err != nil {
			panic(err)
		}
		in.db, in.num = db, s.c.Seed
		fs = append(fs, in.create(s.c.seedInstant())...)
		for i := range fs {
			fs[i].Key = "seed-" + fs[i].Key
		}
		if in.poisoned || len(fs) > 0 {
			return in, fs
		}
		before := ranges(db)
		cause := in.reopenCause(before)
		if err := db.Close(); err != nil {
			panic(err)
		}
		in.num = s.c.Num
		db, err = s.open(in.dir, s.c.Num)
		if err != nil {
			in.db, in.poisoned = nil, true
			return in, append(fs, in.finding("seed-reopen", "open-failed", cause, err.Error()))
		}
		in.db = db
		if after := ranges(db); !sameRanges(before, after) {
			fs = append(fs, in.finding("seed-reopen", "boundaries-changed", cause, fmt.Sprintf("before %v after %v", before, after)))
		}
		return in, append(fs, in.checkList("seed-reopen", cause)...)
	}
	db, err := s.open(in.dir, s.c.Num)
	if err != nil {
		panic(err)
	}
	in.db = db
	return in, nil
}

func ranges(db *storage.VDB) []rng {
	var out []rng
	for _, s := range db.List() {
		a, b := s.Range()
		out = append(out, rng{a.UnixNano(), b.UnixNano()})
	}
	return out
}

func sameRanges(a, b []rng) bool {
	if len(a) != len(b) {
		return false
	}
	for i := range a {
		if a[i] != b[i] {
			return false
		}
	}
	return true
}

func (in *instance) Poisoned() bool { return in.poisoned }

func (in *instance) Close() {
	if in.closed {
		return
	}
	in.closed = true
	func() {
		defer func() { _ = recover() }()
		if in.db != nil {
			_ = in.db.Close()
		}
	}()
	_ = os.RemoveAll(in.dir)
}

func (in *instance) Digest() string {
	if in.poisoned {
		return "poisoned"
	}
	var sb strings.Builder
	fmt.Fprintf(&sb, "n=%d", in.num)
	for _, r := range ranges(in.db) {
		fmt.Fprintf(&sb, " %d-%d", r.S, r.E)
	}
	es, _ := os.ReadDir(in.dir)
	for _, e := range es {
		if strings.HasPrefix(e.Name(), "seg-") {
			sb.WriteString(" " + e.Name())
		}
	}
	return sb.String()
}

func (in *instance) finding(opk, inv, cause, detail string) opsearch.Finding {
	c := in.sys.c
	return opsearch.Finding{
		Key:    fmt.Sprintf("%s/%s unit=%s num=%d zone=%s %s", opk, inv, c.Unit, in.num, c.Zone, cause),
		Detail: detail,
	}
}

var offset1970 = offsetAt(time.Date(1970, 1, 1, 0, 0, 0, 0, time.Local))

// createCause classifies the circumstances of a create(ts) for the violation key:
//
//	legacy=none | gap-then-legacy-before-ts | in-bucket     (segments of the pre-state inside ts's grid bucket)
//	dst=none | offset-differs-from-1970 | offset-transition | dst-day
func (in *instance) createCause(ts time.Time, pre []rng) string {
	c := in.sys.c
	legacy, dst := "none", "none"
	rs, re, ok := refBucket(c.Unit, in.num, ts)
	if ok {
		// walk the bucket from its start: cur = first instant not yet known to be covered
		cur, gapBeforeLegacy := rs.UnixNano(), false
		for _, r := range pre { // pre is sorted
			if r.S < re.UnixNano() && r.E > rs.UnixNano() {
				legacy = "in-bucket"
				if r.S > cur && r.E <= ts.UnixNano() {
					gapBeforeLegacy = true // an uncovered stretch, then a legacy segment, then ts
				}
				if r.E > cur {
					cur = r.E
				}
			}
		}
		if gapBeforeLegacy {
			legacy = "gap-then-legacy-before-ts"
		}
	}
	if c.Unit == "HOUR" {
		switch {
		case !ok:
			dst = "offset-transition"
		case offsetAt(ts) != offset1970 && in.num > 1:
			dst = "offset-differs-from-1970"
		}
	} else if re.Sub(rs) != time.Duration(in.num)*24*time.Hour {
		dst = "dst-day"
	}
	return "legacy=" + legacy + " dst=" + dst
}

func (in *instance) layout() string {
	if in.sys.c.Unit == "DAY" {
		return "20060102"
	}
	return "2006010215"
}

// reopenCause classifies the segment list for a reopen finding:
//
//	names=ok | start-not-representable   (does the directory name, local wall-clock at unit granularity, parse back to the start)
//	spans=regular | legacy               (does every segment have the span of the current rule)
func (in *instance) reopenCause(pre []rng) string {
	names, spans := "ok", "regular"
	for _, r := range pre {
		s := time.Unix(0, r.S).In(time.Local)
		if p, err := time.ParseInLocation(in.layout(), s.Format(in.layout()), time.Local); err != nil || !p.Equal(s) {
			names = "start-not-representable"
		}
		if want := in.sys.c.rule(in.num).NextTime(s); want.UnixNano() != r.E {
			spans = "legacy"
		}
	}
	return "names=" + names + " spans=" + spans
}

// invariants of the segment list.
func (in *instance) checkList(opk, cause string) []opsearch.Finding {
	var fs []opsearch.Finding
	rs := ranges(in.db)
	for i, r := range rs {
		if r.E <= r.S {
			fs = append(fs, in.finding(opk, "list-empty-segment", cause, r.String()))
		}
		if i > 0 {
			switch p := rs[i-1]; {
			case p.S > r.S:
				fs = append(fs, in.finding(opk, "list-unsorted", cause, fmt.Sprintf("%v before %v", p, r)))
			case p.E > r.S:
				fs = append(fs, in.finding(opk, "list-overlap", cause, fmt.Sprintf("%v and %v", p, r)))
			}
		}
	}
	// any pair, not just neighbours (an unsorted list could hide an overlap)
	for i := range rs {
		for j := i + 2; j < len(rs); j++ {
			if rs[i].S < rs[j].E && rs[j].S < rs[i].E {
				fs = append(fs, in.finding(opk, "list-overlap", cause, fmt.Sprintf("%v and %v", rs[i], rs[j])))
			}
		}
	}
	for _, s := range in.db.List() {
		if !s.State().DirExists {
			fs = append(fs, in.finding(opk, "segment-dir-missing", cause, s.Suffix()))
		}
	}
	return fs
}

func (in *instance) Apply(o int) (fs []opsearch.Finding) {
	if in.poisoned {
		return nil
	}
	p := in.sys.ops[o]
	switch p.Kind {
	case "create":
		return in.create(p.T)
	case "update":
		pre := ranges(in.db)
		func() {
			defer func() {
				if r := recover(); r != nil {
					in.poisoned = true
					fs = append(fs, in.finding("update", "panic", "-", fmt.Sprint(r)))
				}
			}()
			in.db.UpdateOptions(in.sys.c.rule(p.Num), ttl)
		}()
		if in.poisoned {
			return fs
		}
		in.num = p.Num
		if got := in.db.CurrentInterval().Num; got != p.Num {
			fs = append(fs, in.finding("update", "interval-not-applied", "-", fmt.Sprint(got)))
		}
		if post := ranges(in.db); !sameRanges(pre, post) {
			fs = append(fs, in.finding("update", "boundaries-changed", "-", fmt.Sprintf("before %v after %v", pre, post)))
		}
		return append(fs, in.checkList("update", "-")...)
	case "reopen":
		pre := ranges(in.db)
		cause := in.reopenCause(pre)
		if err := in.db.Close(); err != nil {
			in.poisoned = true
			return append(fs, in.finding("reopen", "close-failed", cause, err.Error()))
		}
		db, err := in.sys.open(in.dir, in.num)
		if err != nil {
			in.poisoned = true
			in.db = nil
			return append(fs, in.finding("reopen", "open-failed", cause, err.Error()))
		}
		in.db = db
		if post := ranges(db); !sameRanges(pre, post) {
			fs = append(fs, in.finding("reopen", "boundaries-changed", cause, fmt.Sprintf("before %v after %v", pre, post)))
		}
		return append(fs, in.checkList("reopen", cause)...)
	}
	panic("unknown op")
}

func (in *instance) create(ts time.Time) (fs []opsearch.Finding) {
	c := in.sys.c
	pre := ranges(in.db)
	cause := in.createCause(ts, pre)
	n := ts.UnixNano()
	var s *storage.VSeg
	var err error
	func() {
		defer func() {
			if r := recover(); r != nil {
				in.poisoned = true
				fs = append(fs, in.finding("create", "panic", cause, fmt.Sprintf("ts=%s: %v", ts.Format(time.RFC3339Nano), r)))
			}
		}()
		s, err = in.db.Create(ts)
	}()
	if in.poisoned {
		return fs
	}
	if err != nil {
		return append(fs, in.finding("create", "rejected", cause, fmt.Sprintf("ts=%s: %v", ts.Format(time.RFC3339Nano), err)))
	}
	defer s.DecRef()
	a, b := s.Range()
	got := rng{a.UnixNano(), b.UnixNano()}
	post := ranges(in.db)
	contains := func(r rng) bool { return r.S <= n && n < r.E }
	wasThere := false
	for _, r := range pre {
		if contains(r) {
			wasThere = true
			if r != got {
				fs = append(fs, in.finding("create", "existing-segment-not-returned", cause, fmt.Sprintf("ts=%s in %v, returned %v", ts.Format(time.RFC3339Nano), r, got)))
			}
		}
	}
	if !contains(got) {
		fs = append(fs, in.finding("create", "returned-segment-does-not-contain-ts", cause,
			fmt.Sprintf("ts=%s returned %v, segments before %v", ts.In(time.Local).Format(time.RFC3339Nano), got, pre)))
	}
	k, listed := 0, false
	for _, r := range post {
		if contains(r) {
			k++
		}
		if r == got {
			listed = true
		}
	}
	if !listed {
		fs = append(fs, in.finding("create", "returned-segment-not-in-list", cause, got.String()))
	}
	if k != 1 && contains(got) {
		fs = append(fs, in.finding("create", fmt.Sprintf("ts-in-%d-segments", k), cause, fmt.Sprintf("ts=%s list %v", ts.Format(time.RFC3339Nano), post)))
	}
	if wasThere {
		if !sameRanges(pre, post) {
			fs = append(fs, in.finding("create", "list-changed-by-create-of-covered-ts", cause, fmt.Sprintf("before %v after %v", pre, post)))
		}
	} else {
		// every earlier segment keeps its boundaries
		for _, r := range pre {
			kept := false
			for _, q := range post {
				if q == r {
					kept = true
				}
			}
			if !kept {
				fs = append(fs, in.finding("create", "existing-boundaries-changed", cause, fmt.Sprintf("%v gone; after %v", r, post)))
			}
		}
		if len(post) != len(pre)+1 {
			fs = append(fs, in.finding("create", "list-length", cause, fmt.Sprintf("before %v after %v", pre, post)))
		}
		// grid
		if contains(got) {
			rs, re, ok := refBucket(c.Unit, in.num, ts)
			switch {
			case ok && strings.Contains(cause, "legacy=none") && strings.Contains(cause, "dst=offset-differs-from-1970"):
				// HOUR x N>1 in a zone whose offset changed since 1970: "anchored at local 1970-01-01" can be read on the
				// wall clock or in absolute hours; demand only what both readings share: N hours long, on a local hour.
				st := time.Unix(0, got.S).In(time.Local)
				if got.E-got.S != int64(in.num)*int64(time.Hour) || st.Minute() != 0 || st.Second() != 0 || st.Nanosecond() != 0 {
					fs = append(fs, in.finding("create", "new-segment-off-grid", cause, fmt.Sprintf("ts=%s got %v: want %d hours starting on a local hour", ts.Format(time.RFC3339Nano), got, in.num)))
				}
			case ok && strings.Contains(cause, "legacy=none"):
				if got.S != rs.UnixNano() || got.E != re.UnixNano() {
					fs = append(fs, in.finding("create", "new-segment-off-grid", cause, fmt.Sprintf("ts=%s got %v want %v", ts.Format(time.RFC3339Nano), got, rng{rs.UnixNano(), re.UnixNano()})))
				}
			case ok:
				if got.S < rs.UnixNano() || got.E > re.UnixNano() {
					fs = append(fs, in.finding("create", "new-segment-exceeds-grid-bucket", cause, fmt.Sprintf("got %v bucket %v", got, rng{rs.UnixNano(), re.UnixNano()})))
				}
			default:
				if got.E-got.S > int64(in.num+1)*int64(time.Hour) {
					fs = append(fs, in.finding("create", "new-segment-too-long", cause, got.String()))
				}
			}
		}
	}
	fs = append(fs, in.checkList("create", cause)...)
	if len(fs) > 0 {
		return fs
	}
	// idempotence: the same ts again gives the same segment object and changes nothing
	func() {
		defer func() {
			if r := recover(); r != nil {
				in.poisoned = true
				fs = append(fs, in.finding("create-again", "panic", cause, fmt.Sprint(r)))
			}
		}()
		s2, err2 := in.db.Create(ts)
		if err2 != nil {
			fs = append(fs, in.finding("create-again", "rejected", cause, err2.Error()))
			return
		}
		defer s2.DecRef()
		if !s2.Same(s) {
			a2, b2 := s2.Range()
			fs = append(fs, in.finding("create-again", "different-segment", cause, fmt.Sprintf("first %v second %v", got, rng{a2.UnixNano(), b2.UnixNano()})))
		}
		if !sameRanges(post, ranges(in.db)) {
			fs = append(fs, in.finding("create-again", "list-changed", cause, ""))
		}
	}()
	return fs
}

// observe: read-only selection oracle in one state.
func (s *system) observe(oi opsearch.Inst, _ []int) (fs []opsearch.Finding) {
	in := oi.(*instance)
	if in.poisoned {
		return nil
	}
	rs := ranges(in.db)
	sel := 0
	for i := range s.ins {
		for j := i; j < len(s.ins); j++ {
			a, b := s.ins[i].T, s.ins[j].T
			if b.Before(a) {
				a, b = b, a
			}
			for _, inclEnd := range []bool{true, false} {
				if !inclEnd && a.Equal(b) {
					continue
				}
				tr := timestamp.NewTimeRange(a, b, true, inclEnd)
				var want []rng
				for _, r := range rs {
					hi := b.UnixNano()
					if !inclEnd {
						hi--
					}
					if a.UnixNano() < r.E && hi >= r.S {
						want = append(want, r)
					}
				}
				for _, reopen := range []bool{false, true} {
					got, err := in.db.ControllerSelect(tr, reopen)
					sel++
					var g []rng
					for _, x := range got {
						p, q := x.Range()
						g = append(g, rng{p.UnixNano(), q.UnixNano()})
						x.DecRef()
					}
					sort.Slice(g, func(i, j int) bool { return g[i].S < g[j].S })
					if err != nil || !sameRanges(g, want) {
						fs = append(fs, in.finding("select", fmt.Sprintf("wrong-set reopen=%v inclEnd=%v", reopen, inclEnd), "-",
							fmt.Sprintf("range %s got %v want %v err %v list %v", tr, g, want, err, rs)))
					}
				}
				pk := in.db.Peek(tr)
				var g []rng
				for _, x := range pk {
					g = append(g, rng{x.Start.UnixNano(), x.End.UnixNano()})
				}
				sort.Slice(g, func(i, j int) bool { return g[i].S < g[j].S })
				if !sameRanges(g, want) {
					fs = append(fs, in.finding("peek", fmt.Sprintf("wrong-set inclEnd=%v", inclEnd), "-", fmt.Sprintf("range %s got %v want %v", tr, g, want)))
				}
			}
		}
	}
	selects += sel
	if len(rs) >= 2 {
		nontrivial++
	}
	return fs
}

var selects, nontrivial int

// ---------------------------------------------------------------------------------------------------------------
// driver

type result struct {
	Cfg        cfg            `json:"cfg"`
	Stats      opsearch.Stats `json:"stats"`
	Selects    int            `json:"selects"`
	Nontrivial int            `json:"nontrivial_states"`
	Instants   int            `json:"instants"`
	Skipped    bool           `json:"skipped,omitempty"`
}

func allConfigs(zone string, thorough bool) []cfg {
	var out []cfg
	for _, u := range []string{"HOUR", "DAY"} {
		for _, n := range numsOf[u] {
			var seeds []int
			seeds = append(seeds, 0)
			for _, l := range numsOf[u] {
				if l == n {
					continue
				}
				if thorough || (n == 1 && l == 3) || (n != 1 && l == 1) {
					seeds = append(seeds, l)
				}
			}
			for _, sd := range seeds {
				for _, sc := range scenesOf(zone, thorough) {
					if !thorough && sd != 0 && sc != "summer" {
						continue // quick: legacy seeds only in the summer scene (UpdateOptions ops still build legacy layouts everywhere)
					}
					out = append(out, cfg{Zone: zone, Unit: u, Num: n, Seed: sd, Scene: sc})
				}
			}
		}
	}
	return out
}

func depth(thorough bool) int {
	if d := ev.Arg("--depth"); d != "" {
		var n int
		fmt.Sscan(d, &n)
		return n
	}
	if thorough {
		return 5
	}
	return 4
}

func checkZone(zone string) {
	if time.Local.String() != zone && !(zone == "UTC" && time.Local.String() == "UTC") {
		fmt.Printf("HARNESS-ERROR: time.Local is %q, want %q\n", time.Local.String(), zone)
		os.Exit(2)
	}
	want := map[string][2]int{ // offsets on 2026-01-20 and 2026-09-15 (UTC noon)
		"UTC": {0, 0}, "Asia/Kolkata": {19800, 19800}, "America/New_York": {-18000, -14400},
		"Australia/Lord_Howe": {39600, 37800}, "Europe/London": {0, 3600},
	}[zone]
	got := [2]int{offsetAt(time.Date(2026, 1, 20, 12, 0, 0, 0, time.UTC)), offsetAt(time.Date(2026, 9, 15, 12, 0, 0, 0, time.UTC))}
	if got != want {
		fmt.Printf("HARNESS-ERROR: zone %s offsets %v, want %v (zoneinfo not loaded?)\n", zone, got, want)
		os.Exit(2)
	}
}

func runConfig(c cfg, base string, d int) result {
	sys := &system{c: c, base: base, ops: c.ops(), ins: c.instants()}
	selects, nontrivial = 0, 0
	st := opsearch.Explore(sys, d, sys.observe)
	return result{Cfg: c, Stats: st, Selects: selects, Nontrivial: nontrivial, Instants: len(sys.ins)}
}

type artefact struct {
	Cfg     cfg      `json:"cfg"`
	Detail  string   `json:"detail"`
	History []string `json:"history"`
	Ops     []int    `json:"ops"`
}

func main() {
	_ = logger.Init(logger.Logging{Env: "prod", Level: "fatal"})
	thorough := ev.Thorough()
	if rp := ev.Arg("--replay"); rp != "" {
		replay(rp)
		return
	}
	if job, ok := opsearch.WorkerJob(); ok {
		var zone string
		var wi, wn int
		parts := strings.Split(job, "#")
		zone = parts[0]
		fmt.Sscanf(parts[1], "%d/%d", &wi, &wn)
		checkZone(zone)
		if pf := os.Getenv("VERIF_CPUPROFILE"); pf != "" {
			f, _ := os.Create(pf)
			_ = pprof.StartCPUProfile(f)
			defer pprof.StopCPUProfile()
		}
		base, err := os.MkdirTemp("/dev/shm", "c06-")
		if err != nil {
			panic(err)
		}
		defer os.RemoveAll(base)
		only := ev.Arg("--config")
		budget := 12 * time.Minute
		if thorough {
			budget = 50 * time.Minute
		}
		deadline := time.Now().Add(budget)
		for i, c := range allConfigs(zone, thorough) {
			if i%wn != wi || (only != "" && c.String() != only) {
				continue
			}
			if time.Now().After(deadline) {
				b, _ := json.Marshal(result{Cfg: c, Skipped: true})
				fmt.Printf("RESULT %s\n", b)
				continue
			}
			r := runConfig(c, base, depth(thorough))
			b, _ := json.Marshal(r)
			fmt.Printf("RESULT %s\n", b)
		}
		return
	}
	r := ev.New("C06", "model_checking")
	shards := map[string]int{"UTC": 3, "Asia/Kolkata": 3, "America/New_York": 3, "Australia/Lord_Howe": 3, "Europe/London": 4}
	var jobs []opsearch.Job
	for _, z := range zones {
		for i := 0; i < shards[z]; i++ {
			jobs = append(jobs, opsearch.Job{Name: fmt.Sprintf("%s#%d/%d", z, i, shards[z]), Env: []string{"TZ=" + z}})
		}
	}
	res, err := opsearch.RunWorkers(jobs, 16)
	if err != nil {
		fmt.Println("HARNESS-ERROR:", err)
		os.Exit(2)
	}
	var tot opsearch.Stats
	nCfg, sel, nontriv, maxDepth, seedFailed := 0, 0, 0, 0, 0
	perZone := map[string]int{}
	violCount := map[string]int{}
	for _, k := range opsearch.SortedKeys(res) {
		for _, b := range res[k] {
			var x result
			if err := json.Unmarshal(b, &x); err != nil {
				fmt.Println("HARNESS-ERROR: bad worker result:", err)
				os.Exit(2)
			}
			if x.Stats.HarnessErr != "" {
				fmt.Println("HARNESS-ERROR:", x.Cfg, x.Stats.HarnessErr)
				os.Exit(2)
			}
			if x.Skipped {
				r.NotExhaustive("worker budget exhausted before configuration " + x.Cfg.String())
				continue
			}
			nCfg++
			if x.Stats.SeedFailed {
				seedFailed++
			}
			perZone[x.Cfg.Zone] += x.Stats.States
			tot.States += x.Stats.States
			tot.Transitions += x.Stats.Transitions
			tot.Changing += x.Stats.Changing
			tot.Replays += x.Stats.Replays
			tot.ReplayedOps += x.Stats.ReplayedOps
			tot.Pruned += x.Stats.Pruned
			sel += x.Selects
			nontriv += x.Nontrivial
			if x.Stats.MaxDepth > maxDepth {
				maxDepth = x.Stats.MaxDepth
			}
			for _, v := range x.Stats.Violations {
				if dp := ev.Arg("--dump"); dp != "" {
					f, _ := os.OpenFile(dp, os.O_APPEND|os.O_CREATE|os.O_WRONLY, 0o644)
					b, _ := json.Marshal(map[string]any{"cfg": x.Cfg.String(), "key": v.Key, "detail": v.Detail, "history": v.History})
					f.Write(append(b, '\n'))
					f.Close()
				}
				violCount[v.Key]++
				r.Violation(v.Key, artefact{Cfg: x.Cfg, Detail: v.Detail, History: v.History, Ops: v.Ops})
			}
			if nCfg%37 == 1 {
				r.Sample(map[string]any{"config": x.Cfg.String(), "states": x.Stats.States, "transitions": x.Stats.Transitions,
					"states_by_depth": x.Stats.ByDepth, "selects": x.Selects})
			}
		}
	}
	if ev.Arg("--keys") != "" || len(violCount) > 0 {
		for _, k := range opsearch.SortedKeys(violCount) {
			fmt.Printf("FINDING-CLASS configs=%-3d %s\n", violCount[k], k)
		}
	}
	r.Set("configurations", nCfg)
	r.Set("configurations_whose_seed_hit_a_finding", seedFailed)
	r.Set("states", tot.States)
	r.Set("transitions", tot.Transitions)
	r.Set("state_changing_transitions", tot.Changing)
	r.Set("traces_validated_against_impl", tot.Replays)
	r.Set("replayed_ops", tot.ReplayedOps)
	r.Set("transitions_not_expanded_after_finding", tot.Pruned)
	r.Set("select_and_peek_evaluations", sel)
	r.Set("states_with_2plus_segments", nontriv)
	r.Set("states_per_zone", perZone)
	r.Set("depth", depth(thorough))
	r.Set("max_depth_reached", maxDepth)
	r.Set("distinct_violation_keys", len(violCount))
	r.Set("rule", "a state is the segment list [start,end)* + seg-* directory names + current interval Num read back from a real database; non-trivial = at least two segments")
	r.Assume("segments interact only within one scene (winter anchor, summer anchor + far past/future, each 2026 offset transition); scenes are explored separately")
	r.Assume("near-epoch timestamps (segment start <= 1970-01-01T00:00Z) are outside the alphabet: open() deliberately drops such segments")
	r.Finish()
}

func replay(p string) {
	b, err := os.ReadFile(p)
	if err != nil {
		fmt.Println(err)
		os.Exit(2)
	}
	var a struct {
		Key      string   `json:"key"`
		Artefact artefact `json:"artefact"`
	}
	if err := json.Unmarshal(b, &a); err != nil {
		fmt.Println(err)
		os.Exit(2)
	}
	c := a.Artefact.Cfg
	if os.Getenv("TZ") != c.Zone {
		cmd := exec.Command(os.Args[0], os.Args[1:]...)
		cmd.Env = append(os.Environ(), "TZ="+c.Zone)
		cmd.Stdout, cmd.Stderr = os.Stdout, os.Stderr
		if err := cmd.Run(); err != nil {
			if ee, ok := err.(*exec.ExitError); ok {
				os.Exit(ee.ExitCode())
			}
			os.Exit(2)
		}
		return
	}
	checkZone(c.Zone)
	base, _ := os.MkdirTemp("/dev/shm", "c06r-")
	defer os.RemoveAll(base)
	sys := &system{c: c, base: base, ops: c.ops(), ins: c.instants()}
	in, fs := sys.Fresh()
	bad := 0
	show := func(step string, fs []opsearch.Finding) {
		fmt.Printf("%s\n   list: %v\n", step, func() any {
			if in.Poisoned() {
				return "(poisoned)"
			}
			return ranges(in.(*instance).db)
		}())
		if es, err := os.ReadDir(in.(*instance).dir); err == nil {
			for _, e := range es {
				if strings.HasPrefix(e.Name(), "seg-") {
					md, _ := os.ReadFile(filepath.Join(in.(*instance).dir, e.Name(), "metadata"))
					pt, perr := storage.ParseSegmentTime(strings.TrimPrefix(e.Name(), "seg-"), c.rule(1))
					fmt.Printf("   dir %s metadata=%s name parses to %s (%v)\n", e.Name(), md, pt.Format(time.RFC3339Nano), perr)
				}
			}
		}
		for _, f := range fs {
			bad++
			fmt.Printf("   FINDING %s\n           %s\n", f.Key, f.Detail)
		}
	}
	show("seed "+c.String(), fs)
	for _, o := range a.Artefact.Ops {
		if o < 0 || o >= len(sys.ops) {
			fmt.Println("bad op index")
			os.Exit(2)
		}
		fs := in.Apply(o)
		show(sys.ops[o].Name, fs)
	}
	if !in.Poisoned() {
		show("observe", sys.observe(in, nil))
	}
	in.Close()
	if bad > 0 {
		os.RemoveAll(base)
		os.Exit(1)
	}
}
