// C13 "scale" family: the same oracle as the two-trace search (each trace whole or gone; sidx rows == keys of the visible
// spans; the sampler's verdict for a trace applies to THAT trace; a trace the sampler was never asked about is kept),
// on fixed linear histories whose defects only show at scale:
//
//	(a) many-trace sampling merges: N traces x drop pattern x history shape (drop sets with colliding slots, decision
//	    batches with many traces, long sidx blocks);
//	(b) oversized traces: one trace at/above an assembler limit (>= one 2 MiB block -> stored as several blocks, staged as a
//	    decoded head + raw tail that cannot be projected; or above the per-trace staging budget -> bypassed) placed
//	    first / middle / last among 3..5 traces, with a projecting sampler and every keep/drop pattern over the others.
//
// No search: the grid is enumerated completely, every step of every history is observed and checked.
package main

import (
	"fmt"
	"strconv"
	"strings"
	"time"

	"github.com/apache/skywalking-banyandb/banyand/trace"
)

func scaleTraceID(i int) string { return fmt.Sprintf("t%04d", i) }

func scaleIndex(t string) int {
	i, err := strconv.Atoi(strings.TrimPrefix(t, "t"))
	if err != nil {
		return -1
	}
	return i
}

// universeTraces is the trace universe of a configuration.
func universeTraces(c Cfg) []string {
	if c.N == 0 {
		return []string{"A", "B"}
	}
	out := make([]string, c.N)
	for i := range out {
		out[i] = scaleTraceID(i)
	}
	return out
}

// bigSpans is the number of 2 MiB spans of the oversized trace.
func bigSpans(c Cfg) int {
	if c.BigKind == "budget" {
		return int(trace.C13TraceBudget(c.MemLimit)/trace.C13MaxBlockSpanBytes) + 1
	}
	return 1
}

// scaleSpanDef: "t0007.2" = span 2 of trace 7.  Timestamps stay inside a few milliseconds (everything is mature and
// inside the guard window); sidx keys are unique.
func scaleSpanDef(c Cfg, name string) trace.C13Span {
	t := traceOf(name)
	idx := scaleIndex(t)
	no, _ := strconv.Atoi(name[len(t)+1:])
	d := trace.C13Span{Trace: t, ID: name, TS: t0 + int64(no)*int64(time.Millisecond) + int64(idx)*int64(time.Microsecond), Key: int64(idx)*100 + int64(no)}
	if t == c.Big && c.Big != "" && no <= bigSpans(c) {
		d.Size = trace.C13MaxBlockSpanBytes
	}
	if c.BigKind == "batch-edge" {
		// incompressible payloads: raw-staged blocks are accounted with their encoded size
		if idx < c.Fillers && no == 1 {
			d.Size = trace.C13MaxBlockSpanBytes
		}
		d.Rand = d.Size > 0
	}
	return d
}

var patterns = []string{"every2", "every3", "first-half", "last-half", "all-but-one", "one"}

func patternDrops(pattern string, n int, t string) bool {
	i := scaleIndex(t)
	switch pattern {
	case "every2":
		return i%2 == 0
	case "every3":
		return i%3 == 0
	case "first-half":
		return i < n/2
	case "last-half":
		return i >= n/2
	case "all-but-one":
		return i != n/2
	case "one":
		return i == n/2
	}
	return false
}

// traceRole keeps violation keys stable and few: the two-trace alphabet names the trace, the scale family its role.
func traceRole(c Cfg, t string) string {
	switch {
	case c.N == 0:
		return t
	case t == c.Big && c.Big != "":
		return "<oversized>"
	case t == "*":
		return t
	case c.BigKind == "batch-edge" && scaleIndex(t) >= 0 && scaleIndex(t) < c.Fillers:
		return "<filler>"
	case c.BigKind == "batch-edge":
		return "<trailing>"
	case wouldDrop(c, t):
		return "<drop-verdict>"
	default:
		return "<keep-verdict>"
	}
}

func samplerName(c Cfg) string {
	s := c.Sampler
	if c.N == 0 {
		return s
	}
	if c.Pattern != "" {
		s += ":" + c.Pattern
	}
	if c.Sampler == "short" {
		s += fmt.Sprintf(":%dus", c.Thresh/1000)
	}
	s += fmt.Sprintf("/n=%d", c.N)
	if c.Big != "" {
		s += fmt.Sprintf("/oversized=%s@%d", c.BigKind, scaleIndex(c.Big))
		if c.TailB {
			s += "+tail-in-2nd-part"
		}
	}
	if c.FullProj {
		s += "/proj"
	}
	return s
}

func gen(traces []string, g int, has func(i int) bool) []string {
	var out []string
	for i, t := range traces {
		if has(i) {
			out = append(out, fmt.Sprintf("%s.%d", t, g))
		}
	}
	return out
}

// scaleUnits enumerates the grid.
func scaleUnits(thorough bool) []unit {
	var us []unit
	add := func(name string, c Cfg, ops []Op) {
		h := Hist{Cfg: c, Ops: ops}
		us = append(us, unit{Cfg: c, Depth: len(ops), Scale: &h, Name: name})
	}
	// (a) many-trace merges
	ns := []int{8, 64, 256}
	if thorough {
		ns = append(ns, 1024)
	}
	for _, n := range ns {
		for _, proj := range []bool{false, true} {
			if proj && !thorough && n != 64 {
				continue
			}
			for _, pat := range patterns {
				c := Cfg{Sampler: "pattern", Pattern: pat, N: n, Clock: "mature", Mode: "scale", FullProj: proj}
				tr := universeTraces(c)
				all := func(int) bool { return true }
				multi := func(i int) bool { return i%4 != 3 } // every 4th trace lives in one part only (raw fast path)
				add("many/hot2", c, []Op{{K: "W", Batch: gen(tr, 1, all)}, {K: "F"}, {K: "W", Batch: gen(tr, 2, multi)}, {K: "F"}, {K: "M", Parts: []int{0, 1}}})
				add("many/flush3", c, []Op{{K: "W", Batch: gen(tr, 1, all)}, {K: "W", Batch: gen(tr, 2, multi)}, {K: "W", Batch: gen(tr, 3, multi)}, {K: "F"},
					{K: "M", Parts: []int{0, 1, 2}}})
			}
		}
	}
	// (b) oversized traces
	type variant struct {
		kind string
		proj bool
		ks   []int
		ops  []string
	}
	vs := []variant{
		{"split", true, []int{3, 4, 5}, []string{"M", "FIN", "MM"}},
		{"split", false, []int{3}, []string{"M", "FIN", "MM"}},
		{"budget", true, []int{3}, []string{"M"}},
	}
	if thorough {
		vs[2].ops = []string{"M", "FIN", "MM"}
		vs = append(vs, variant{"budget", true, []int{4}, []string{"M"}})
	}
	for _, v := range vs {
		for _, k := range v.ks {
			for _, pos := range []int{0, k / 2, k - 1} {
				big := scaleTraceID(pos)
				for mask := 0; mask < 1<<(k-1); mask++ {
					drops := []string{big} // the sampler would drop the oversized trace if it were asked
					o := 0
					for i := 0; i < k; i++ {
						if i == pos {
							continue
						}
						if mask&(1<<o) != 0 {
							drops = append(drops, scaleTraceID(i))
						}
						o++
					}
					c := Cfg{Sampler: "list", Drops: strings.Join(drops, ","), N: k, Big: big, BigKind: v.kind, Clock: "mature", Mode: "scale", FullProj: v.proj}
					if v.kind == "budget" {
						c.MemLimit = 1 // smallest limit: budgets clamp to their 16 MiB floor
					}
					// part A: the oversized trace (2 MiB span(s) + one small span) and span 1 of every even other trace;
					// part B: span 2 of the even others, span 1 of the odd others (single-block traces).
					var a, b []string
					for i := 0; i < k; i++ {
						t := scaleTraceID(i)
						switch {
						case i == pos:
							for s := 1; s <= bigSpans(c)+1; s++ {
								a = append(a, fmt.Sprintf("%s.%d", t, s))
							}
						case i%2 == 0:
							a = append(a, t+".1")
							b = append(b, t+".2")
						default:
							b = append(b, t+".1")
						}
					}
					if len(b) == 0 {
						continue
					}
					for _, op := range v.ops {
						var ops []Op
						switch op {
						case "M":
							ops = []Op{{K: "W", Batch: a}, {K: "F"}, {K: "W", Batch: b}, {K: "F"}, {K: "M", Parts: []int{0, 1}}}
						case "FIN":
							ops = []Op{{K: "W", Batch: a}, {K: "F"}, {K: "W", Batch: b}, {K: "F"}, {K: "FIN"}}
						case "MM":
							ops = []Op{{K: "W", Batch: a}, {K: "W", Batch: b}, {K: "MM"}}
						}
						add(fmt.Sprintf("oversized/%s/%s", v.kind, op), c, ops)
					}
				}
			}
		}
	}
	return us
}

// batchEdgeUnits (round 2): the decision-batch budget of a sampling merge is reached before / INSIDE / after a trace
// that is stored as several blocks.  Fillers = j single-block traces of one 2 MiB (incompressible) span each, sorted
// before the split trace X = [2 MiB span | two small spans] and a trailing small two-part trace Z; the engine resolves
// a 16 MiB decision batch from the smallest memory limit, so with j0 = budget/2 MiB - 1 fillers the budget is reached
// exactly when X's size-closed first block is staged; j in {j0-1, j0, j0+1} puts the edge after / inside / before X.
// Samplers: "short" (verdict = f(time bounds handed to it): thresholds between every pair of distinct durations a
// whole trace or a piece of X can have) and the id-based "list" sampler dropping X; X wholly in the first part or with
// its last span in the second part; hot merge / finalize round / mem-part merge.
func batchEdgeUnits(thorough bool) []unit {
	var us []unit
	const limit = 1
	j0 := int(trace.C13StageBudget(limit)/trace.C13MaxBlockSpanBytes) - 1
	type smp struct {
		kind   string
		thresh int64
	}
	smps := []smp{{"short", 500_000}, {"short", 1_500_000}, {"short", 2_500_000}, {"list", 0}}
	projs := []bool{false}
	if thorough {
		projs = []bool{false, true}
	}
	for _, j := range []int{j0 - 1, j0, j0 + 1} {
		for _, tailB := range []bool{false, true} {
			for _, sm := range smps {
				for _, proj := range projs {
					big := scaleTraceID(j)
					c := Cfg{Sampler: sm.kind, Thresh: sm.thresh, N: j + 2, Big: big, BigKind: "batch-edge", Fillers: j, TailB: tailB, Clock: "mature",
						Mode: "scale", MemLimit: limit, FullProj: proj}
					if sm.kind == "list" {
						c.Drops = big
					}
					var a, b []string
					for i := 0; i < j; i++ {
						a = append(a, scaleTraceID(i)+".1")
					}
					a = append(a, big+".1", big+".2")
					if tailB {
						b = append(b, big+".3")
					} else {
						a = append(a, big+".3")
					}
					z := scaleTraceID(j + 1)
					a = append(a, z+".1")
					b = append(b, z+".2")
					for _, op := range []string{"M", "FIN", "MM"} {
						// quick tier (each history moves ~18 MiB; 8 histories): hot merge with short:500us at all three edge positions; at the
						// "inside" position also short:1500us and list (M), and short:500us with FIN, MM and tail-in-second-part (M)
						if !thorough {
							base := !tailB && op == "M"
							switch {
							case base && sm.thresh == 500_000:
							case base && j == j0 && sm.thresh != 2_500_000:
							case j == j0 && sm.thresh == 500_000 && ((tailB && op == "M") || (!tailB && op != "M")):
							default:
								continue
							}
						}
						var ops []Op
						switch op {
						case "M":
							ops = []Op{{K: "W", Batch: a}, {K: "F"}, {K: "W", Batch: b}, {K: "F"}, {K: "M", Parts: []int{0, 1}}}
						case "FIN":
							ops = []Op{{K: "W", Batch: a}, {K: "F"}, {K: "W", Batch: b}, {K: "F"}, {K: "FIN"}}
						case "MM":
							ops = []Op{{K: "W", Batch: a}, {K: "W", Batch: b}, {K: "MM"}}
						}
						h := Hist{Cfg: c, Ops: ops}
						us = append(us, unit{Cfg: c, Depth: len(ops), Scale: &h, Name: "batch-edge/" + op})
					}
				}
			}
		}
	}
	return us
}

// runScaleUnit executes one fixed history, checking every step.
func runScaleUnit(u unit) unitResult {
	r := unitResult{Unit: u.String(), Cfg: "scale " + u.Name, Outcomes: map[string]int{}, Notes: map[string]int{}, OpKinds: map[string]int{}, ByDepth: make([]int, u.Depth+1)}
	res, err := execute(*u.Scale, nil, "", true)
	if err != nil {
		r.HarnessErr = err.Error()
		return r
	}
	r.Scale = 1
	r.Transitions = len(u.Scale.Ops)
	r.OpsExecuted = len(u.Scale.Ops)
	r.States = len(u.Scale.Ops)
	for d := 1; d <= u.Depth; d++ {
		r.ByDepth[d]++
	}
	for _, op := range u.Scale.Ops {
		r.OpKinds["scale:"+op.K]++
	}
	r.Outcomes["scale "+res.outcome]++
	if strings.HasSuffix(res.outcome, "ERROR") {
		r.OpErrors++
	}
	for _, n := range res.notes {
		addNote(r.Notes, "scale:", n)
	}
	if res.post != nil {
		r.ScaleDigest = digest(res.model, res.post)
	}
	seen := map[string]bool{}
	r.ViolCount = len(res.viols)
	for _, v := range res.viols {
		if !seen[v.Key] {
			seen[v.Key] = true
			r.Viols = append(r.Viols, v)
		}
	}
	return r
}
