// C13: a trace is stored, returned and sampled as a whole.
//
// Engine O: explicit-state breadth-first search over operation histories of ONE real trace tsTable (banyand/trace)
// with its real attached secondary index (banyand/internal/sidx).  A state is the history that reaches it; a successor
// is built by replaying the history on a fresh real instance and applying one more real operation; states are
// de-duplicated on a canonical digest read back from the implementation.  Every transition is checked by the oracle.
package main

import (
	"crypto/sha256"
	"encoding/hex"
	"encoding/json"
	"errors"
	"fmt"
	"math"
	"os"
	"path/filepath"
	"runtime/pprof"
	"sort"
	"strconv"
	"strings"
	"time"

	"github.com/apache/skywalking-banyandb/banyand/trace"
	"github.com/apache/skywalking-banyandb/pkg/logger"
	"github.com/apache/skywalking-banyandb/pkg/pipeline/sdk"
	"github.com/apache/skywalking-banyandb/pkg/verif/ev"
	"github.com/apache/skywalking-banyandb/pkg/verif/par"
)

// ---------------------------------------------------------------------------------------------------------------
// Alphabet

const (
	hour  = int64(time.Hour)
	t0    = 10 * hour // base span time; segment covers [0h,24h]
	grace = time.Hour // merge grace == enforced maximum fragment gap
)

// traceIDs is the trace universe of the history being executed and curCfg its configuration (set by execute; a worker
// process executes one history at a time).
var (
	traceIDs = []string{"A", "B"}
	curCfg   Cfg
)

// traceOf returns the trace id of a span name: "A2" -> "A" (two-trace alphabet), "t0007.2" -> "t0007" (scale family).
func traceOf(span string) string {
	if i := strings.IndexByte(span, '.'); i >= 0 {
		return span[:i]
	}
	return span[:1]
}

// span "A2" = trace A, number 2.  Timestamps are distinct; B lies 30 min after A so that a clock exists for which A is
// mature and B is not.  Secondary-index keys of A and B interleave (11 12 .. 31 32) and collide once (A2 and B2: 20).
func spanDef(name string) trace.C13Span {
	if strings.IndexByte(name, '.') >= 0 {
		return scaleSpanDef(curCfg, name)
	}
	tr := name[:1]
	n := int64(name[1] - '0')
	ts := t0 + n*int64(time.Millisecond)
	k := n*10 + 1
	if tr == "B" {
		ts += 30 * int64(time.Minute)
		k = n*10 + 2
	}
	if n == 2 {
		k = 20
	}
	return trace.C13Span{Trace: tr, ID: name, TS: ts, Key: k}
}

func keyOf(name string) int64 { return spanDef(name).Key }

// spanDefSafe is spanDef for names read back from the implementation (which may be garbage).
func spanDefSafe(name string) (d trace.C13Span) {
	defer func() {
		if recover() != nil {
			d = trace.C13Span{ID: name}
		}
	}()
	if len(name) < 2 {
		return trace.C13Span{ID: name}
	}
	return spanDef(name)
}

// clocks (logical merge clock, tsTable.setMergeNow)
var clocks = map[string]int64{
	"immature": t0,                                    // frontier 9h: nothing is mature
	"partial":  t0 + hour + int64(time.Second),        // frontier 10h+1s: A mature, B immature
	"mature":   t0 + 5*hour,                           // everything mature
	"boundary": t0 + hour + 3*int64(time.Millisecond), // frontier == max timestamp of A3 exactly (inclusive boundary)
}

// Cfg is the per-history configuration (fault alphabet x time alphabet).
type Cfg struct {
	Sampler   string `json:"sampler"` // none keep-all drop-A drop-B drop-all error panic mismatch drop-all/finalize-only drop-all/pipeline-off
	Clock     string `json:"clock"`
	Mode      string `json:"mode"`  // arrival alphabet: "full" (all orders) or "layout" (fixed out-of-order arrival sequence per trace)
	Spans     string `json:"spans"` // universe, e.g. "A1,A2,A3,B1,B2"
	ForceSlow bool   `json:"force_slow,omitempty"`
	FullProj  bool   `json:"full_projection,omitempty"` // sampler projects tags+span ids+spans (decoded staging instead of raw staging)
	// scale family (scale.go)
	N        int    `json:"n,omitempty"`         // trace universe t0000..t<N-1>
	Pattern  string `json:"pattern,omitempty"`   // sampler "pattern": which trace indexes it drops
	Drops    string `json:"drops,omitempty"`     // sampler "list": comma separated trace ids it drops
	Big      string `json:"big,omitempty"`       // id of the oversized trace
	BigKind  string `json:"big_kind,omitempty"`  // "split": >= one block (2 MiB) -> stored in several blocks; "budget": above the per-trace staging budget
	MemLimit uint64 `json:"mem_limit,omitempty"` // protector memory limit (the staging budgets derive from it)
	// round 2
	Segs    int   `json:"segs,omitempty"`    // > 0: every batch belongs to one of Segs segments (liaison write queue: memory parts of several segments in one table)
	Thresh  int64 `json:"thresh,omitempty"`  // sampler "short": drops a trace iff the view it is handed has MaxTS-MinTS < Thresh (content-dependent verdict)
	Fillers int   `json:"fillers,omitempty"` // big_kind "batch-edge": number of 2 MiB single-block traces sorted before the split trace
	TailB   bool  `json:"tail_b,omitempty"`  // big_kind "batch-edge": the last span of the split trace arrives in the second part
}

func (c Cfg) String() string {
	s := c.Sampler + "/" + c.Clock
	if c.ForceSlow {
		s += "/slow"
	}
	if c.FullProj {
		s += "/proj"
	}
	if c.Segs > 0 {
		s += fmt.Sprintf("/segs=%d", c.Segs)
	}
	if c.Sampler == "short" {
		s += fmt.Sprintf("/thresh=%dus", c.Thresh/1000)
	}
	if c.BigKind == "batch-edge" {
		s += fmt.Sprintf("/fillers=%d/tailB=%v", c.Fillers, c.TailB)
	}
	if c.N > 0 {
		s += fmt.Sprintf("/n=%d", c.N)
		if c.Pattern != "" {
			s += "/" + c.Pattern
		}
		if c.Big != "" {
			s += fmt.Sprintf("/big=%s:%s/drops=%s", c.Big, c.BigKind, c.Drops)
		}
	}
	return s
}

// Op is one operation of a history.
type Op struct {
	K     string   `json:"k"`               // W F MM M FIN
	Batch []string `json:"batch,omitempty"` // W: spans in arrival order
	Parts []int    `json:"parts,omitempty"` // M: ordinals (snapshot order) of the file parts to merge
	Mid   string   `json:"mid,omitempty"`   // merge-like ops: "" | "W2" (a part is introduced after the merge produced its files and revalidated, before its
	//                                          introduction is applied) | "W1" (a part is introduced while the merge is running: inside the sampler call)
	MidBatch []string `json:"mid_batch,omitempty"`
	Seg      int      `json:"seg,omitempty"`     // W: segment of the batch (configurations with segs > 0)
	MidSeg   int      `json:"mid_seg,omitempty"` // segment of the mid batch
}

func (o Op) String() string {
	s := o.K
	switch o.K {
	case "W":
		if o.Seg > 0 {
			s += fmt.Sprintf("@s%d", o.Seg)
		}
		s += "[" + strings.Join(o.Batch, " ") + "]"
	case "M":
		s += fmt.Sprint(o.Parts)
	}
	if o.Mid != "" {
		s += "+" + o.Mid
		if o.MidSeg > 0 {
			s += fmt.Sprintf("@s%d", o.MidSeg)
		}
		s += "[" + strings.Join(o.MidBatch, " ") + "]"
	}
	return s
}

// Hist is a replayable history.
type Hist struct {
	Cfg Cfg  `json:"cfg"`
	Ops []Op `json:"ops"`
}

func (h Hist) String() string {
	ss := make([]string, len(h.Ops))
	for i, o := range h.Ops {
		ss[i] = o.String()
	}
	return h.Cfg.String() + ": " + strings.Join(ss, " ")
}

// ---------------------------------------------------------------------------------------------------------------
// Sampler decision functions (the fault alphabet)

type sampler struct {
	cfg   Cfg
	kind  string
	proj  bool
	hook  func() // W1: fired once inside Decide
	calls int
	seen  map[string]int // trace id -> number of Decide calls that contained it
	views []view         // what the sampler was handed in this step, one entry per (Decide call, trace)
}

// view is what one Decide call was shown of one trace.
type view struct {
	Trace   string   `json:"trace"`
	SpanIDs []string `json:"span_ids,omitempty"` // only with a projecting sampler
	MinTS   int64    `json:"min_ts"`
	MaxTS   int64    `json:"max_ts"`
	Call    int      `json:"call"`
	Keep    bool     `json:"keep"`
}

func (s *sampler) Kind() sdk.Kind { return sdk.KindSampler }
func (s *sampler) Close() error   { return nil }
func (s *sampler) Project() sdk.Projection {
	if s.proj {
		return sdk.Projection{Tags: []string{"t"}, SpanIDs: true, Spans: true}
	}
	return sdk.Projection{}
}

func (s *sampler) Decide(b *sdk.TraceBatch) (_ sdk.Verdict, _ error) {
	var keep []bool
	s.calls++
	first := len(s.views)
	for i := range b.Traces {
		s.seen[b.Traces[i].TraceID]++
		// deep copies: the batch's strings alias engine buffers that are recycled after the call
		ids := make([]string, len(b.Traces[i].SpanIDs))
		for k, id := range b.Traces[i].SpanIDs {
			ids[k] = strings.Clone(id)
		}
		s.views = append(s.views, view{Trace: strings.Clone(b.Traces[i].TraceID), MinTS: b.Traces[i].MinTS, MaxTS: b.Traces[i].MaxTS, Call: s.calls, SpanIDs: ids})
	}
	defer func() { // record the verdicts of a call that returns normally
		for i := range keep {
			if first+i < len(s.views) {
				s.views[first+i].Keep = keep[i]
			}
		}
	}()
	if h := s.hook; h != nil {
		s.hook = nil
		h()
	}
	n := len(b.Traces)
	keep = make([]bool, n)
	kind := s.kind
	if i := strings.IndexByte(kind, '/'); i >= 0 {
		kind = kind[:i]
	}
	switch kind {
	case "keep-all":
		for i := range keep {
			keep[i] = true
		}
	case "drop-A", "drop-B":
		for i := range keep {
			keep[i] = b.Traces[i].TraceID != kind[5:]
		}
	case "drop-all":
	case "short": // content-dependent: the verdict is a function of the time bounds the sampler is handed
		for i := range keep {
			keep[i] = b.Traces[i].MaxTS-b.Traces[i].MinTS >= s.cfg.Thresh
		}
	case "pattern", "list":
		for i := range keep {
			keep[i] = !wouldDrop(s.cfg, b.Traces[i].TraceID)
		}
	case "error": // a failing sampler that ALSO returns an all-drop mask: the mask must be ignored
		return sdk.Verdict{Keep: keep}, errors.New("c13: sampler failure")
	case "panic":
		panic("c13: sampler panic")
	case "mismatch": // all-drop mask of the wrong length
		return sdk.Verdict{Keep: make([]bool, n+1)}, nil
	}
	return sdk.Verdict{Keep: keep}, nil
}

// wouldDrop: the decision function proposes to drop trace t.
func wouldDrop(c Cfg, t string) bool {
	kind := c.Sampler
	if i := strings.IndexByte(kind, '/'); i >= 0 {
		kind = kind[:i]
	}
	switch kind {
	case "pattern":
		return patternDrops(c.Pattern, c.N, t)
	case "list":
		for _, d := range strings.Split(c.Drops, ",") {
			if d == t {
				return true
			}
		}
		return false
	case "drop-all", "short": // "short": may drop any trace (whether it does is read from the recorded verdicts)
		return true
	case "drop-A":
		return t == "A"
	case "drop-B":
		return t == "B"
	}
	return false
}

// samplerActive: a sampler verdict may legitimately take effect in this kind of operation.
func samplerActive(c Cfg, op string) bool {
	if c.Sampler == "none" {
		return false
	}
	switch op {
	case "FIN":
		return true
	default: // hot merges need the native pipeline flag and the MERGE event
		return !strings.HasSuffix(c.Sampler, "/finalize-only") && !strings.HasSuffix(c.Sampler, "/pipeline-off")
	}
}

// ---------------------------------------------------------------------------------------------------------------
// Observation of the implementation state

type partObs struct {
	Traces map[string][]string `json:"traces"`
	Bloom  map[string]bool     `json:"bloom"`
	Sidx   []string            `json:"sidx"` // "trace:key" sorted
	ID     uint64              `json:"-"`
	MinTS  int64               `json:"min"`
	MaxTS  int64               `json:"max"`
	Gen    uint64              `json:"gen"`
	Total  uint64              `json:"total"`
	Blocks int                 `json:"blocks"`
	Mem    bool                `json:"mem"`
	Seg    int64               `json:"seg,omitempty"` // memory parts: segment id
}

type obs struct {
	Visible  map[string][]string `json:"visible"` // trace -> span ids as returned by the query path, sorted
	Corrupt  []string            `json:"corrupt,omitempty"`
	Sidx     map[string][]int64  `json:"sidx"`    // trace -> keys (sorted, with multiplicity)
	Ordered  map[string][]string `json:"ordered"` // trace -> span ids returned by the ordered (sidx-driven) query, sorted
	OrdSeq   []string            `json:"ord_seq"` // trace ids in the order the ordered query produced them
	SidxBad  []string            `json:"sidx_bad,omitempty"`
	Parts    []partObs           `json:"parts"`
	TableGen uint64              `json:"table_gen"`
	InFlight int                 `json:"in_flight,omitempty"`
}

// observe reads the state back through the real read paths.  light skips the two query pipelines (the state before a
// step is needed only for its parts and secondary-index rows: digest, survivors).
func observe(tb *trace.C13Table, light bool) (*obs, error) {
	o := &obs{Visible: map[string][]string{}, Sidx: map[string][]int64{}, TableGen: tb.FinalizeGen(), InFlight: tb.InFlight()}
	var q map[string][]trace.C13Obs
	var err error
	if !light {
		q, err = tb.Query(traceIDs)
		if err != nil {
			return nil, fmt.Errorf("query: %w", err)
		}
	}
	for t, spans := range q {
		for _, s := range spans {
			o.Visible[t] = append(o.Visible[t], s.ID)
			def := spanDefSafe(s.ID)
			want := def.Size
			if h := len("payload-" + s.ID); want < h {
				want = h
			}
			tailOK := s.ZeroTail
			if def.Rand && want > len("payload-"+s.ID) {
				tailOK = s.RandTail
			}
			if s.Payload != "payload-"+s.ID || s.Tag != s.ID || !strings.HasPrefix(s.ID, t) || s.PayloadLen != want || !tailOK {
				o.Corrupt = append(o.Corrupt, fmt.Sprintf("%s:%s payload=%q len=%d (want %d) tag=%q", t, s.ID, s.Payload, s.PayloadLen, want, s.Tag))
			}
		}
		sort.Strings(o.Visible[t])
	}
	if !light {
		o.OrdSeq, o.Ordered, err = tb.QueryOrdered()
		if err != nil {
			return nil, fmt.Errorf("ordered query: %w", err)
		}
	}
	for t := range o.Ordered {
		sort.Strings(o.Ordered[t])
	}
	rows, err := tb.SidxScan()
	if err != nil {
		return nil, fmt.Errorf("sidx scan: %w", err)
	}
	parts := tb.Parts(traceIDs)
	byID := map[uint64]int{}
	for i, p := range parts {
		byID[p.ID] = i
		o.Parts = append(o.Parts, partObs{ID: p.ID, Mem: p.Mem, MinTS: p.MinTS, MaxTS: p.MaxTS, Gen: p.FinalizeGen, Total: p.TotalCount,
			Blocks: p.Blocks, Traces: p.Traces, Bloom: p.Bloom, Seg: p.Seg})
	}
	for _, r := range rows {
		o.Sidx[r.Trace] = append(o.Sidx[r.Trace], r.Key)
		if r.Series != uint64(trace.C13Series) {
			o.SidxBad = append(o.SidxBad, fmt.Sprintf("series %d", r.Series))
		}
		i, ok := byID[r.PartID]
		if !ok {
			o.SidxBad = append(o.SidxBad, fmt.Sprintf("entry %s:%d in sidx part %d that has no core part", r.Trace, r.Key, r.PartID))
			continue
		}
		o.Parts[i].Sidx = append(o.Parts[i].Sidx, fmt.Sprintf("%s:%d", r.Trace, r.Key))
	}
	for t := range o.Sidx {
		sort.Slice(o.Sidx[t], func(i, j int) bool { return o.Sidx[t][i] < o.Sidx[t][j] })
	}
	for i := range o.Parts {
		sort.Strings(o.Parts[i].Sidx)
	}
	return o, nil
}

// ---------------------------------------------------------------------------------------------------------------
// Harness-side model of a state (what the oracle and the op enumeration need)

type model struct {
	Expect  map[string][]string `json:"expect"`  // trace -> span ids that must be visible (sorted)
	Written []string            `json:"written"` // spans acknowledged so far (arrival order)
	Batches int                 `json:"batches"` // batches used
}

func (m model) clone() model {
	n := model{Expect: map[string][]string{}, Written: append([]string(nil), m.Written...), Batches: m.Batches}
	for k, v := range m.Expect {
		n.Expect[k] = append([]string(nil), v...)
	}
	return n
}

func digest(m model, o *obs) string {
	b, _ := json.Marshal(struct {
		M model
		P []partObs
		G uint64
	}{m, o.Parts, o.TableGen})
	h := sha256.Sum256(b)
	return hex.EncodeToString(h[:12])
}

func sortedCopy(s []string) []string {
	c := append([]string(nil), s...)
	sort.Strings(c)
	return c
}

func eqStr(a, b []string) bool {
	if len(a) != len(b) {
		return false
	}
	for i := range a {
		if a[i] != b[i] {
			return false
		}
	}
	return true
}

// subMultiset: every element of a (with multiplicity) is in b.
func subMultiset(a, b []string) bool {
	cnt := map[string]int{}
	for _, x := range b {
		cnt[x]++
	}
	for _, x := range a {
		cnt[x]--
		if cnt[x] < 0 {
			return false
		}
	}
	return true
}

// ---------------------------------------------------------------------------------------------------------------
// Executing a history on a fresh real instance

type viol struct {
	Key    string `json:"key"`
	Detail string `json:"detail"`
	Hist   Hist   `json:"hist"`
	At     int    `json:"at"` // index of the op after which the oracle failed
}

type stepInfo struct {
	outcome  string
	midFired bool
	opErr    string
}

var (
	scratch string
	dirSeq  int
)

func openTable(c Cfg) (*trace.C13Table, *sampler, string) {
	dirSeq++
	dir := filepath.Join(scratch, fmt.Sprintf("h%d", dirSeq))
	cfg := trace.C13Cfg{
		Group: "c13", Grace: grace, SegStart: time.Unix(0, 0), SegEnd: time.Unix(0, 24*hour), ForceSlow: c.ForceSlow,
		Pipeline: !strings.HasSuffix(c.Sampler, "/pipeline-off"), MergeEvent: !strings.HasSuffix(c.Sampler, "/finalize-only"),
		MemLimit: c.MemLimit,
	}
	var smp *sampler
	if c.Sampler != "none" {
		smp = &sampler{cfg: c, kind: c.Sampler, proj: c.FullProj, seen: map[string]int{}}
		cfg.Samplers = []sdk.Sampler{smp}
	}
	tb := trace.C13Open(dir, cfg)
	tb.SetNow(time.Unix(0, clocks[c.Clock]))
	return tb, smp, dir
}

func toSpans(names []string) []trace.C13Span {
	out := make([]trace.C13Span, len(names))
	for i, n := range names {
		out[i] = spanDef(n)
	}
	return out
}

// partIDs maps the ordinals of an M op to part ids of the current snapshot.
func partIDs(o *obs, ords []int) ([]uint64, error) {
	var ids []uint64
	for _, i := range ords {
		if i < 0 || i >= len(o.Parts) || o.Parts[i].Mem {
			return nil, fmt.Errorf("ordinal %d is not a file part", i)
		}
		ids = append(ids, o.Parts[i].ID)
	}
	return ids, nil
}

// apply executes one op.  cur is the observation before the op (needed to resolve part ordinals); it may be nil for ops
// other than M.
func apply(tb *trace.C13Table, smp *sampler, op Op, cur *obs) (stepInfo, error) {
	var si stepInfo
	arm := func() {
		if op.Mid == "" {
			return
		}
		f := func() { si.midFired = true; tb.WriteSeg(toSpans(op.MidBatch), segID(op.MidSeg)) }
		switch op.Mid {
		case "W2":
			tb.SetMid(f)
		case "W1":
			if smp != nil {
				smp.hook = f
			}
		}
	}
	disarm := func() {
		tb.SetMid(nil)
		if smp != nil {
			smp.hook = nil
		}
	}
	intro0, rej0 := tb.Counters()
	if smp != nil {
		smp.seen = map[string]int{} // "was the sampler asked about this trace" is per step
		smp.views = nil
	}
	switch op.K {
	case "W":
		tb.WriteSeg(toSpans(op.Batch), segID(op.Seg))
		si.outcome = "W"
	case "F":
		if tb.Flush() {
			si.outcome = "F:flushed"
		} else {
			si.outcome = "F:noop"
		}
	case "MM":
		arm()
		merged, err := tb.MergeMem()
		disarm()
		si.outcome = fmt.Sprintf("MM:merged=%v", merged)
		if err != nil {
			si.opErr = err.Error()
		}
	case "M":
		if cur == nil {
			return si, errors.New("M needs the current observation")
		}
		ids, err := partIDs(cur, op.Parts)
		if err != nil {
			return si, err
		}
		arm()
		err = tb.Merge(ids, "fast")
		disarm()
		si.outcome = "M"
		if err != nil {
			si.opErr = err.Error()
		}
	case "FIN":
		arm()
		committed, err := tb.Finalize(0)
		disarm()
		si.outcome = fmt.Sprintf("FIN:committed=%v", committed)
		if err != nil {
			si.opErr = err.Error()
		}
	default:
		return si, fmt.Errorf("unknown op %q", op.K)
	}
	if op.K == "MM" || op.K == "M" || op.K == "FIN" {
		intro1, rej1 := tb.Counters()
		si.outcome += fmt.Sprintf(" introduced=%d rejected=%d", intro1-intro0, rej1-rej0)
		if op.Mid != "" {
			si.outcome += fmt.Sprintf(" %s-fired=%v", op.Mid, si.midFired)
		}
		if si.opErr != "" {
			si.outcome += " ERROR"
		}
	}
	return si, nil
}

func needsObs(op Op) bool { return op.K == "M" }

// segID maps a segment ordinal of the alphabet to the id the liaison write path would pass (the segment's start time).
func segID(k int) int64 {
	if k <= 0 {
		return 0
	}
	return int64(k) * 24 * hour
}

// checkStep is the oracle for one transition pre --op--> post.  It returns the violations and the model after the op.
func checkStep(c Cfg, op Op, si stepInfo, m model, pre, post *obs, smp *sampler) ([]viol, model, []string) {
	var vs []viol
	var notes []string
	nm := m.clone()
	opName := op.K
	if op.Mid != "" {
		opName += "+" + op.Mid
	}
	add := func(class, t, reason, detail string) {
		vs = append(vs, viol{Key: fmt.Sprintf("%s op=%s trace=%s sampler=%s clock=%s%s", class, opName, traceRole(c, t), samplerName(c), c.Clock, reason),
			Detail: fmt.Sprintf("trace %s: %s", t, detail)})
	}
	written := map[string][]string{}
	switch {
	case op.K == "W":
		nm.Batches++
		nm.Written = append(nm.Written, op.Batch...)
		for _, s := range op.Batch {
			written[traceOf(s)] = append(written[traceOf(s)], s)
		}
	case si.midFired:
		nm.Batches++
		nm.Written = append(nm.Written, op.MidBatch...)
		for _, s := range op.MidBatch {
			written[traceOf(s)] = append(written[traceOf(s)], s)
		}
	}
	mergeLike := op.K == "MM" || op.K == "M" || op.K == "FIN"
	// parts that exist before and after the op: fragments "outside the parts being merged"
	survivors := map[uint64]bool{}
	if mergeLike {
		after := map[uint64]bool{}
		for _, p := range post.Parts {
			after[p.ID] = true
		}
		for _, p := range pre.Parts {
			if after[p.ID] {
				survivors[p.ID] = true
			}
		}
	}
	if mergeLike && c.Big != "" && smp != nil && samplerActive(c, op.K) {
		if smp.seen[c.Big] == 0 {
			notes = append(notes, "oversized-trace-never-offered-to-sampler")
		} else {
			notes = append(notes, "oversized-trace-offered-to-sampler")
		}
		if smp.calls == 0 {
			notes = append(notes, "oversized-merge-without-decide-call")
		}
	}
	if mergeLike && smp != nil {
		for _, bad := range checkViews(pre, smp.views) {
			add(bad.class, bad.trace, "", bad.detail)
		}
		notes = append(notes, fmt.Sprintf("sampler-views-checked=%d", len(smp.views)))
	}
	for _, t := range traceIDs {
		full := sortedCopy(append(append([]string(nil), m.Expect[t]...), written[t]...))
		got := post.Visible[t]
		dropOK := false
		why := ""
		proposes := wouldDrop(c, t)
		if c.Sampler == "short" { // content-dependent sampler: it proposed a drop iff it returned one for a view of t in this step
			proposes = false
			if smp != nil {
				for _, v := range smp.views {
					if v.Trace == t && !v.Keep {
						proposes = true
					}
				}
			}
		}
		if mergeLike {
			outside := len(written[t]) > 0
			if outside {
				why = " reason=arrived-during-merge"
			}
			for _, p := range pre.Parts {
				if survivors[p.ID] && len(p.Traces[t]) > 0 {
					outside = true
					if why == "" {
						why = " reason=fragment-outside-merged-parts"
						if p.Mem {
							why = " reason=fragment-in-outside-mem-part"
						}
					}
				}
			}
			switch {
			case c.Sampler == "none":
				why = " reason=no-sampler"
			case !samplerActive(c, op.K):
				why = " reason=sampler-not-active-for-this-event"
			case !proposes:
				if why == "" {
					why = " reason=sampler-did-not-drop"
					if strings.HasPrefix(c.Sampler, "error") || strings.HasPrefix(c.Sampler, "panic") || strings.HasPrefix(c.Sampler, "mismatch") {
						why = " reason=sampler-failed"
					}
				}
			case outside:
			case smp != nil && smp.seen[t] == 0:
				// fail open: a trace the sampler was never asked about in this step (immature, oversized, not assemblable)
				why = " reason=sampler-never-asked"
			default:
				dropOK = true
			}
			// vacuity bookkeeping
			if proposes && samplerActive(c, op.K) && len(m.Expect[t]) > 0 {
				switch {
				case len(got) == 0 && dropOK:
					notes = append(notes, "dropped-whole-trace")
					if c.Clock == "immature" || (t == "B" && (c.Clock == "partial" || c.Clock == "boundary")) {
						// not a violation (the property text does not state merge_grace semantics); expected 0
						notes = append(notes, "dropped-whole-trace-while-immature")
					}
				case outside && smp != nil && smp.seen[t] > 0:
					notes = append(notes, "drop-proposed-kept-by-guard-or-revalidation")
				case dropOK && smp != nil && smp.seen[t] > 0:
					notes = append(notes, "drop-proposed-kept-conservatively")
				}
			}
		}
		switch {
		case eqStr(got, full):
			nm.Expect[t] = full
		case len(got) == 0 && dropOK:
			nm.Expect[t] = nil
		case len(got) == 0:
			add("lost-trace", t, why, fmt.Sprintf("expected %v, query returned nothing", full))
			nm.Expect[t] = nil
		case subMultiset(got, full):
			add("partial-trace", t, why, fmt.Sprintf("expected %v (or nothing: %v), query returned the strict subset %v", full, dropOK, got))
			nm.Expect[t] = got
		default:
			add("extra-span", t, "", fmt.Sprintf("expected %v, query returned %v", full, got))
			nm.Expect[t] = got
		}
		// secondary index: entries exist iff the spans do
		var wantKeys []int64
		for _, s := range nm.Expect[t] {
			wantKeys = append(wantKeys, keyOf(s))
		}
		sort.Slice(wantKeys, func(i, j int) bool { return wantKeys[i] < wantKeys[j] })
		gotKeys := post.Sidx[t]
		if fmt.Sprint(wantKeys) != fmt.Sprint(gotKeys) {
			class := "sidx-mismatch"
			switch {
			case len(gotKeys) > len(wantKeys):
				class = "sidx-orphan-entries"
			case len(gotKeys) < len(wantKeys):
				class = "sidx-lost-entries"
			}
			add(class, t, "", fmt.Sprintf("visible spans %v need sidx keys %v, sidx holds %v", nm.Expect[t], wantKeys, gotKeys))
		}
	}
	// the ordered (secondary-index driven) query must return exactly the visible traces, each whole, once (its order is C09's business)
	{
		a, _ := json.Marshal(post.Visible)
		b, _ := json.Marshal(post.Ordered)
		if len(post.Visible) == 0 && len(post.Ordered) == 0 {
			a, b = nil, nil
		}
		if string(a) != string(b) {
			add("ordered-query-differs", "*", "", fmt.Sprintf("query by trace id returns %s, ordered query returns %s", a, b))
		}
	}
	known := map[string]bool{}
	for _, t := range traceIDs {
		known[t] = true
	}
	for t := range post.Visible {
		if !known[t] {
			add("extra-span", t, "", "unknown trace id returned")
		}
	}
	for t := range post.Sidx {
		if !known[t] {
			add("sidx-orphan-entries", t, "", fmt.Sprintf("sidx entries %v of an unknown trace", post.Sidx[t]))
		}
	}
	if len(post.Corrupt) > 0 {
		add("span-corrupt", "*", "", strings.Join(post.Corrupt, "; "))
	}
	if len(post.SidxBad) > 0 {
		add("sidx-part-mismatch", "*", "", strings.Join(post.SidxBad, "; "))
	}
	if post.InFlight != 0 {
		add("in-flight-leak", "*", "", fmt.Sprintf("%d parts still pinned after the operation", post.InFlight))
	}
	// parts outside the operation must be untouched
	if mergeLike || op.K == "W" {
		postByID := map[uint64]partObs{}
		for _, p := range post.Parts {
			postByID[p.ID] = p
		}
		for _, p := range pre.Parts {
			if q, ok := postByID[p.ID]; ok {
				a, _ := json.Marshal(p)
				b, _ := json.Marshal(q)
				if string(a) != string(b) {
					add("bystander-part-changed", "*", "", fmt.Sprintf("part %d before %s after %s", p.ID, a, b))
				}
			}
		}
	}
	return vs, nm, notes
}

type viewViol struct{ class, trace, detail string }

// checkViews is the "sampled as a whole" clause: whatever a Decide call is shown of a trace must be ALL spans that
// trace has in some set of whole parts of the state before the step (the merge's inputs; which parts a finalize round
// or a mem-merge selects is left to the implementation), never a piece of a part's portion of the trace, and one
// Decide call must not contain the same trace twice.  Views are compared by time bounds (always handed to the
// sampler) and, with a projecting sampler, by span ids.
func checkViews(pre *obs, views []view) []viewViol {
	var out []viewViol
	type key struct {
		t string
		c int
	}
	inCall := map[key]int{}
	reported := map[string]bool{}
	for _, v := range views {
		inCall[key{v.Trace, v.Call}]++
		if inCall[key{v.Trace, v.Call}] == 2 && !reported["twice:"+v.Trace] {
			reported["twice:"+v.Trace] = true
			out = append(out, viewViol{"sampler-saw-trace-twice-in-one-batch", v.Trace, fmt.Sprintf("Decide call %d contains the trace more than once", v.Call)})
		}
		var holders [][]string // per part that holds the trace: its spans
		for _, p := range pre.Parts {
			if len(p.Traces[v.Trace]) > 0 {
				holders = append(holders, p.Traces[v.Trace])
			}
		}
		if len(holders) > 12 {
			holders = holders[:12]
		}
		ok := false
		var cands []string
		for mask := 1; mask < 1<<len(holders) && !ok; mask++ {
			var ids []string
			for i := range holders {
				if mask&(1<<i) != 0 {
					ids = append(ids, holders[i]...)
				}
			}
			sort.Strings(ids)
			lo, hi := int64(math.MaxInt64), int64(math.MinInt64)
			for _, id := range ids {
				ts := spanDefSafe(id).TS
				lo, hi = min(lo, ts), max(hi, ts)
			}
			ok = lo == v.MinTS && hi == v.MaxTS && (len(v.SpanIDs) == 0 || eqStr(sortedCopy(v.SpanIDs), ids))
			cands = append(cands, fmt.Sprintf("%v[%d..%d]", ids, lo, hi))
		}
		if !ok && !reported["frag:"+v.Trace] {
			reported["frag:"+v.Trace] = true
			out = append(out, viewViol{"sampler-saw-trace-fragment", v.Trace, fmt.Sprintf("Decide call %d was handed spans %v time bounds [%d..%d] (verdict keep=%v); the whole-part portions of the trace before the step are %v",
				v.Call, v.SpanIDs, v.MinTS, v.MaxTS, v.Keep, cands)})
		}
	}
	return out
}

type execResult struct {
	model   model
	post    *obs
	digest  string
	viols   []viol
	notes   []string
	outcome string
	nondet  string
}

// execute replays h on a fresh instance.  With m0/preDigest given (BFS transition) only the last op is checked and the
// state before it is compared with the digest recorded when that state was first reached (determinism check); with
// checkAll (replay mode) every op is observed and checked and the model is rebuilt from scratch.
func execute(h Hist, m0 *model, preDigest string, checkAll bool) (res execResult, err error) {
	curCfg = h.Cfg
	traceIDs = universeTraces(h.Cfg)
	tb, smp, dir := openTable(h.Cfg)
	defer func() {
		tb.Close()
		_ = os.RemoveAll(dir)
	}()
	m := model{Expect: map[string][]string{}}
	var pre *obs
	if checkAll {
		if pre, err = observe(tb, false); err != nil {
			return res, err
		}
	}
	for i, op := range h.Ops {
		last := i == len(h.Ops)-1
		if last && !checkAll {
			if pre, err = observe(tb, true); err != nil {
				return res, err
			}
			m = m0.clone()
			if d := digest(m, pre); preDigest != "" && d != preDigest {
				res.nondet = fmt.Sprintf("replaying %s: state before the last op has digest %s, recorded %s", h, d, preDigest)
				return res, nil
			}
		} else if !checkAll && needsObs(op) {
			if pre, err = observe(tb, true); err != nil {
				return res, err
			}
		}
		si, aerr := apply(tb, smp, op, pre)
		if aerr != nil {
			return res, fmt.Errorf("%s: op %d: %w", h, i, aerr)
		}
		if last || checkAll {
			post, oerr := observe(tb, false)
			if oerr != nil {
				return res, fmt.Errorf("%s: after op %d: %w", h, i, oerr)
			}
			vs, nm, notes := checkStep(h.Cfg, op, si, m, pre, post, smp)
			for k := range vs {
				vs[k].Hist = Hist{Cfg: h.Cfg, Ops: append([]Op(nil), h.Ops[:i+1]...)}
				vs[k].At = i
			}
			res.viols = append(res.viols, vs...)
			res.notes = append(res.notes, notes...)
			res.outcome = si.outcome
			m = nm
			pre = post
			res.post = post
		} else {
			pre = nil
		}
	}
	res.model = m
	if res.post != nil {
		res.digest = digest(m, res.post)
	}
	return res, nil
}

// ---------------------------------------------------------------------------------------------------------------
// Enumeration of enabled operations

// orderedSelections: all ordered selections (including the empty one) of the given items.
func orderedSelections(items []string) [][]string {
	out := [][]string{{}}
	var rec func(cur []string, used []bool)
	rec = func(cur []string, used []bool) {
		for i, it := range items {
			if used[i] {
				continue
			}
			used[i] = true
			nxt := append(append([]string(nil), cur...), it)
			out = append(out, nxt)
			rec(nxt, used)
			used[i] = false
		}
	}
	rec(nil, make([]bool, len(items)))
	return out
}

// layoutSeq is the fixed, deliberately out-of-timestamp-order arrival sequence of a trace in "layout" mode.
func layoutSeq(universe []string, t string) []string {
	var have []string
	for _, s := range universe {
		if s[:1] == t {
			have = append(have, s)
		}
	}
	sort.Strings(have)
	if len(have) >= 2 {
		have[0], have[1] = have[1], have[0] // 2,1,3
	}
	return have
}

func remaining(universe, written []string) map[string][]string {
	w := map[string]bool{}
	for _, s := range written {
		w[s] = true
	}
	out := map[string][]string{}
	for _, s := range universe {
		if !w[s] {
			out[s[:1]] = append(out[s[:1]], s)
		}
	}
	return out
}

// nextBatches lists the batches that may arrive next.  A batch is canonical: spans of A (in arrival order) then spans
// of B; the interleaving of different traces inside one batch is not an independent dimension because the batch is
// turned into one part holding one block per trace.
func nextBatches(c Cfg, m model, small bool) [][]string {
	universe := strings.Split(c.Spans, ",")
	var perTrace [][][]string
	for _, t := range traceIDs {
		var opts [][]string
		if c.Mode == "full" && !small {
			opts = orderedSelections(remaining(universe, m.Written)[t])
		} else {
			seq := layoutSeq(universe, t)
			w := map[string]bool{}
			for _, s := range m.Written {
				w[s] = true
			}
			var rest []string
			for _, s := range seq {
				if !w[s] {
					rest = append(rest, s)
				}
			}
			if c.Mode == "full" { // small batches in full mode: one unwritten span of the trace, any
				opts = [][]string{{}}
				for _, s := range remaining(universe, m.Written)[t] {
					opts = append(opts, []string{s})
				}
			} else {
				for k := 0; k <= len(rest); k++ {
					if small && k > 1 {
						break
					}
					opts = append(opts, rest[:k])
				}
			}
		}
		perTrace = append(perTrace, opts)
	}
	var out [][]string
	for _, a := range perTrace[0] {
		for _, b := range perTrace[1] {
			if len(a)+len(b) == 0 {
				continue
			}
			out = append(out, append(append([]string(nil), a...), b...))
		}
	}
	return out
}

func subsets2(items []int) [][]int {
	var out [][]int
	n := len(items)
	for mask := 1; mask < 1<<n; mask++ {
		var s []int
		for i := 0; i < n; i++ {
			if mask&(1<<i) != 0 {
				s = append(s, items[i])
			}
		}
		if len(s) >= 2 {
			out = append(out, s)
		}
	}
	return out
}

const maxBatches = 3

func enabledOps(c Cfg, m model, o *obs) []Op {
	var ops []Op
	var memN int
	var files []int
	for i, p := range o.Parts {
		if p.Mem {
			memN++
		} else if p.Total > 0 {
			files = append(files, i)
		}
	}
	segs := []int{0}
	if c.Segs > 0 {
		segs = segs[:0]
		for k := 1; k <= c.Segs; k++ {
			segs = append(segs, k)
		}
	}
	if m.Batches < maxBatches {
		for _, b := range nextBatches(c, m, false) {
			for _, k := range segs {
				ops = append(ops, Op{K: "W", Batch: b, Seg: k})
			}
		}
	}
	if memN > 0 {
		ops = append(ops, Op{K: "F"})
	}
	var mids []Op // merge-like op decorations
	mids = append(mids, Op{})
	if m.Batches < maxBatches {
		for _, b := range nextBatches(c, m, true) {
			for _, k := range segs {
				mids = append(mids, Op{Mid: "W2", MidBatch: b, MidSeg: k})
				if c.Sampler != "none" {
					mids = append(mids, Op{Mid: "W1", MidBatch: b, MidSeg: k})
				}
			}
		}
	}
	var bases []Op
	if memN >= 2 {
		bases = append(bases, Op{K: "MM"})
	}
	for _, s := range subsets2(files) {
		bases = append(bases, Op{K: "M", Parts: s})
	}
	if c.Sampler != "none" && len(files) > 0 {
		bases = append(bases, Op{K: "FIN"})
	}
	for _, b := range bases {
		for _, d := range mids {
			op := b
			op.Mid, op.MidBatch, op.MidSeg = d.Mid, d.MidBatch, d.MidSeg
			ops = append(ops, op)
		}
	}
	return ops
}

// ---------------------------------------------------------------------------------------------------------------
// BFS over one unit = (configuration, first batch)

type unit struct {
	Scale *Hist    `json:"scale,omitempty"` // scale family: one fixed history instead of a search
	Name  string   `json:"name,omitempty"`
	Cfg   Cfg      `json:"cfg"`
	First []string `json:"first"`
	Depth int      `json:"depth"`
}

func (u unit) String() string {
	if u.Scale != nil {
		return fmt.Sprintf("scale %s %s", u.Name, u.Cfg)
	}
	return fmt.Sprintf("%s first=%v depth=%d", u.Cfg, u.First, u.Depth)
}

type unitResult struct {
	ScaleDigest string         `json:"scale_digest,omitempty"`
	Scale       int            `json:"scale,omitempty"`
	Unit        string         `json:"unit"`
	Cfg         string         `json:"cfg"`
	HarnessErr  string         `json:"harness_err,omitempty"`
	Outcomes    map[string]int `json:"outcomes"`
	Notes       map[string]int `json:"notes"`
	OpKinds     map[string]int `json:"op_kinds"`
	ByDepth     []int          `json:"by_depth"`
	Viols       []viol         `json:"viols,omitempty"`
	Samples     []string       `json:"samples,omitempty"`
	States      int            `json:"states"`
	Transitions int            `json:"transitions"`
	OpsExecuted int            `json:"ops_executed"`
	DedupHits   int            `json:"dedup_hits"`
	ViolCount   int            `json:"viol_count"`
	OpErrors    int            `json:"op_errors"`
	MultiFrag   int            `json:"multi_fragment_transitions"`
	Cut         bool           `json:"cut,omitempty"`
}

type node struct {
	ops    []Op
	model  model
	digest string
	obs    *obs
}

func runUnit(u unit, deadline time.Time) unitResult {
	r := unitResult{Unit: u.String(), Cfg: fmt.Sprintf("%s mode=%s spans=%s depth<=%d", u.Cfg, u.Cfg.Mode, u.Cfg.Spans, u.Depth), Outcomes: map[string]int{}, Notes: map[string]int{}, OpKinds: map[string]int{}, ByDepth: make([]int, u.Depth+1)}
	seen := map[string]bool{}
	seenViol := map[string]bool{}
	var frontier []node
	step := func(parent *node, op Op) {
		var h Hist
		h.Cfg = u.Cfg
		var pm *model
		pd := ""
		if parent != nil {
			h.Ops = append(append([]Op(nil), parent.ops...), op)
			pm, pd = &parent.model, parent.digest
		} else {
			h.Ops = []Op{op}
			pm = &model{Expect: map[string][]string{}}
		}
		res, err := execute(h, pm, pd, false)
		r.Transitions++
		r.OpsExecuted += len(h.Ops)
		if err != nil {
			r.HarnessErr = err.Error()
			return
		}
		if res.nondet != "" {
			r.HarnessErr = "nondeterminism: " + res.nondet
			return
		}
		k := op.K
		if op.Mid != "" {
			k += "+" + op.Mid
		}
		r.OpKinds[k]++
		r.Outcomes[res.outcome]++
		for _, n := range res.notes {
			addNote(r.Notes, "", n)
		}
		if strings.HasSuffix(res.outcome, "ERROR") {
			r.OpErrors++
		}
		// non-trivial: the op is merge-like and some trace has fragments in >= 2 parts before it
		if parent != nil && (op.K == "M" || op.K == "MM" || op.K == "FIN") {
			for _, t := range traceIDs {
				n := 0
				for _, p := range parent.obs.Parts {
					if len(p.Traces[t]) > 0 {
						n++
					}
				}
				if n >= 2 {
					r.MultiFrag++
					break
				}
			}
		}
		if len(res.viols) > 0 {
			r.ViolCount += len(res.viols)
			for _, v := range res.viols {
				if !seenViol[v.Key] {
					seenViol[v.Key] = true
					r.Viols = append(r.Viols, v)
				}
			}
			return // a violating state is a counterexample; it is not extended
		}
		if seen[res.digest] {
			r.DedupHits++
			return
		}
		seen[res.digest] = true
		r.States++
		r.ByDepth[len(h.Ops)]++
		if len(r.Samples) < 2 && len(h.Ops) >= 4 && (op.K == "M" || op.K == "FIN") {
			r.Samples = append(r.Samples, h.String()+" => "+res.outcome)
		}
		frontier = append(frontier, node{ops: h.Ops, model: res.model, digest: res.digest, obs: res.post})
	}
	firstSeg := 0
	if u.Cfg.Segs > 0 {
		firstSeg = 1 // segment ids are only compared for equality (both non-zero): the first batch is in segment 1 w.l.o.g.
	}
	step(nil, Op{K: "W", Batch: u.First, Seg: firstSeg})
	for depth := 1; depth < u.Depth && r.HarnessErr == ""; depth++ {
		cur := frontier
		frontier = nil
		for i := range cur {
			for _, op := range enabledOps(u.Cfg, cur[i].model, cur[i].obs) {
				if time.Now().After(deadline) {
					r.Cut = true
					return r
				}
				step(&cur[i], op)
				if r.HarnessErr != "" {
					return r
				}
			}
		}
	}
	return r
}

// ---------------------------------------------------------------------------------------------------------------
// Configurations per tier

// cfgSpec is one configuration explored to a depth.  The list is in priority order: units are dealt round-robin to the
// workers in this order, so an internal deadline (reported, exhaustive=false) cuts the least important ones.
type cfgSpec struct {
	c Cfg
	d int
}

func specs(thorough bool) []cfgSpec {
	const s4, s5, s22 = "A1,A2,A3,B1", "A1,A2,A3,B1,B2", "A1,A2,B1,B2"
	lay := func(smp, clk string) Cfg { return Cfg{Sampler: smp, Clock: clk, Mode: "layout", Spans: s5} }
	slow := func(c Cfg) Cfg { c.ForceSlow = true; return c }
	proj := func(c Cfg) Cfg { c.FullProj = true; return c }
	if !thorough {
		return []cfgSpec{
			// stage 2 core: whole-trace sampling with a selective sampler, every layout, depth 5
			{lay("drop-A", "mature"), 5},
			// stage 1 core: no sampler, every arrival order of 4 spans over <= 3 batches, depth 5
			{Cfg{Sampler: "none", Clock: "mature", Mode: "full", Spans: s4}, 5},
			// the rest of the fault x time alphabet, depth 4
			{lay("drop-all", "mature"), 4},
			{lay("error", "mature"), 4},
			{lay("panic", "mature"), 4},
			{lay("keep-all", "mature"), 4},
			{lay("drop-A", "partial"), 4},
			{lay("drop-A", "immature"), 4},
			{lay("drop-B", "mature"), 4},
			{lay("drop-all/finalize-only", "mature"), 4},
			{lay("drop-all/pipeline-off", "mature"), 4},
			{lay("drop-A", "boundary"), 4},
			{proj(lay("drop-A", "mature")), 4},
			{slow(Cfg{Sampler: "none", Clock: "mature", Mode: "full", Spans: s4}), 4},
			{lay("none", "mature"), 4},
			// round 2: memory parts of two segments in one table (liaison write queue), every assignment of batches to segments
			{Cfg{Sampler: "none", Clock: "mature", Mode: "layout", Spans: s22, Segs: 2}, 5},
			{Cfg{Sampler: "drop-A", Clock: "mature", Mode: "layout", Spans: s22, Segs: 2}, 4},
		}
	}
	var out []cfgSpec
	out = append(out, cfgSpec{lay("drop-A", "mature"), 6}, cfgSpec{Cfg{Sampler: "none", Clock: "mature", Mode: "full", Spans: s5}, 5})
	for _, smp := range []string{"drop-all", "error", "panic", "mismatch", "keep-all", "drop-B", "drop-all/finalize-only", "drop-all/pipeline-off"} {
		out = append(out, cfgSpec{lay(smp, "mature"), 6})
	}
	for _, smp := range []string{"drop-A", "drop-all", "drop-B", "error", "keep-all"} {
		out = append(out, cfgSpec{lay(smp, "partial"), 6})
	}
	out = append(out,
		cfgSpec{lay("drop-A", "boundary"), 6},
		cfgSpec{lay("drop-A", "immature"), 6},
		cfgSpec{lay("drop-all", "immature"), 6},
		cfgSpec{proj(lay("drop-A", "mature")), 6},
		cfgSpec{proj(lay("drop-all", "partial")), 6},
		cfgSpec{slow(lay("drop-all", "mature")), 6},
		cfgSpec{slow(lay("drop-A", "partial")), 6},
		cfgSpec{slow(Cfg{Sampler: "none", Clock: "mature", Mode: "full", Spans: s5}), 5},
		cfgSpec{lay("none", "mature"), 6},
		cfgSpec{Cfg{Sampler: "none", Clock: "mature", Mode: "full", Spans: s4}, 6},
		cfgSpec{Cfg{Sampler: "none", Clock: "mature", Mode: "layout", Spans: s5, Segs: 2}, 6},
		cfgSpec{Cfg{Sampler: "drop-A", Clock: "mature", Mode: "layout", Spans: s5, Segs: 2}, 5},
		cfgSpec{Cfg{Sampler: "drop-all", Clock: "partial", Mode: "layout", Spans: s22, Segs: 3}, 5},
	)
	return out
}

func units(thorough bool) []unit {
	us := scaleUnits(thorough) // first: the heaviest single histories start early
	for _, sp := range specs(thorough) {
		for _, b := range nextBatches(sp.c, model{}, false) {
			us = append(us, unit{Cfg: sp.c, First: b, Depth: sp.d})
		}
	}
	// last: these histories are heavy (18 MiB each) and not subject to the search deadline; they must not starve the search
	us = append(us, batchEdgeUnits(thorough)...)
	return us
}

// ---------------------------------------------------------------------------------------------------------------

// addNote counts a note; "name=N" notes are summed.
func addNote(m map[string]int, prefix, n string) {
	if i := strings.IndexByte(n, '='); i > 0 {
		if v, err := strconv.Atoi(n[i+1:]); err == nil {
			m[prefix+n[:i]] += v
			return
		}
	}
	m[prefix+n]++
}

func replay(path string) int {
	b, err := os.ReadFile(path)
	if err != nil {
		fmt.Println("HARNESS-ERROR:", err)
		return 2
	}
	var doc struct {
		Artefact struct {
			Hist Hist `json:"hist"`
		} `json:"artefact"`
		Key string `json:"key"`
	}
	if err := json.Unmarshal(b, &doc); err != nil {
		fmt.Println("HARNESS-ERROR:", err)
		return 2
	}
	res, err := execute(doc.Artefact.Hist, nil, "", true)
	if err != nil {
		fmt.Println("HARNESS-ERROR:", err)
		return 2
	}
	fmt.Println("replay:", doc.Artefact.Hist)
	for _, v := range res.viols {
		fmt.Printf("  after op %d: %s\n    %s\n", v.At, v.Key, v.Detail)
	}
	if len(res.viols) > 0 {
		fmt.Printf("VIOLATION property=C13 replay=%s\n", path)
		return 1
	}
	fmt.Println("replay: no violation")
	return 0
}

func main() {
	_ = logger.Init(logger.Logging{Env: "prod", Level: "fatal"})
	thorough := ev.Thorough()
	var err error
	scratch, err = os.MkdirTemp("/dev/shm", "c13-")
	if err != nil {
		fmt.Println("HARNESS-ERROR:", err)
		os.Exit(2)
	}
	cleanup := func() { _ = os.RemoveAll(scratch) }
	if rp := ev.Arg("--replay"); rp != "" {
		code := func() int {
			defer cleanup()
			return replay(rp)
		}()
		os.Exit(code)
	}
	us := units(thorough)
	if only := ev.Arg("--only"); only != "" {
		var f []unit
		for _, u := range us {
			if strings.Contains(u.String(), only) {
				f = append(f, u)
			}
		}
		us = f
	}
	budget := 140 * time.Second
	if thorough {
		budget = 17 * time.Minute
	}
	if wi, wn, ok := par.Worker(); ok {
		if pf := os.Getenv("VERIF_CPUPROFILE"); pf != "" {
			f, _ := os.Create(pf)
			_ = pprof.StartCPUProfile(f)
			defer pprof.StopCPUProfile()
		}
		deadline := time.Now().Add(budget)
		for i, u := range us {
			if i%wn != wi {
				continue
			}
			var ur unitResult
			if u.Scale != nil {
				ur = runScaleUnit(u)
			} else {
				ur = runUnit(u, deadline)
			}
			b, _ := json.Marshal(ur)
			par.Emit(b)
		}
		cleanup()
		return
	}
	cleanup()
	r := ev.New("C13", "model_checking")
	results, perr := par.Run(16)
	if perr != nil {
		fmt.Println("HARNESS-ERROR:", perr)
		os.Exit(2)
	}
	states, trans, opsx, dedup, violCount, opErr, multi, cut := 0, 0, 0, 0, 0, 0, 0, 0
	outcomes, notes, kinds := map[string]int{}, map[string]int{}, map[string]int{}
	byDepth := map[string]int{}
	scaleHist, scaleSteps := 0, 0
	var scaleDigests []string
	byCfg := map[string]map[string]int{}
	best := map[string]viol{}
	var samples []string
	if len(results) != len(us) {
		fmt.Printf("HARNESS-ERROR: %d unit results for %d units\n", len(results), len(us))
		os.Exit(2)
	}
	for _, b := range results {
		var ur unitResult
		if err := json.Unmarshal(b, &ur); err != nil {
			fmt.Println("HARNESS-ERROR: bad worker result:", err)
			os.Exit(2)
		}
		if ur.HarnessErr != "" {
			fmt.Println("HARNESS-ERROR:", ur.Unit, ur.HarnessErr)
			os.Exit(2)
		}
		if byCfg[ur.Cfg] == nil {
			byCfg[ur.Cfg] = map[string]int{}
		}
		byCfg[ur.Cfg]["units"]++
		byCfg[ur.Cfg]["states"] += ur.States
		byCfg[ur.Cfg]["transitions"] += ur.Transitions
		if ur.Cut {
			byCfg[ur.Cfg]["units_cut"]++
		}
		if ur.Scale > 0 {
			scaleHist++
			scaleSteps += ur.Transitions
			scaleDigests = append(scaleDigests, ur.Unit+"="+ur.ScaleDigest)
		}
		states += ur.States
		trans += ur.Transitions
		opsx += ur.OpsExecuted
		dedup += ur.DedupHits
		violCount += ur.ViolCount
		opErr += ur.OpErrors
		multi += ur.MultiFrag
		if ur.Cut {
			cut++
		}
		for k, v := range ur.Outcomes {
			outcomes[k] += v
		}
		for k, v := range ur.Notes {
			notes[k] += v
		}
		for k, v := range ur.OpKinds {
			kinds[k] += v
		}
		for d, v := range ur.ByDepth {
			byDepth[fmt.Sprint(d)] += v
		}
		for _, v := range ur.Viols {
			if cur, ok := best[v.Key]; !ok || len(v.Hist.Ops) < len(cur.Hist.Ops) || (len(v.Hist.Ops) == len(cur.Hist.Ops) && v.Hist.String() < cur.Hist.String()) {
				best[v.Key] = v
			}
		}
		samples = append(samples, ur.Samples...)
	}
	sort.Strings(samples)
	for i, s := range samples {
		if i%(len(samples)/8+1) == 0 {
			r.Sample(s)
		}
	}
	keys := make([]string, 0, len(best))
	for k := range best {
		keys = append(keys, k)
	}
	sort.Strings(keys)
	for _, k := range keys {
		v := best[k]
		r.Violation(k, map[string]any{"hist": v.Hist, "at": v.At, "detail": v.Detail, "history": v.Hist.String()})
	}
	r.Set("units", len(us))
	r.Set("states", states)
	r.Set("transitions", trans)
	r.Set("traces_validated_against_impl", trans)
	r.Set("real_ops_executed", opsx)
	r.Set("dedup_hits", dedup)
	r.Set("states_by_depth", byDepth)
	r.Set("transitions_by_op", kinds)
	r.Set("distinct_outcomes", len(outcomes))
	r.Set("outcomes", outcomes)
	r.Set("sampler_effects", notes)
	r.Set("merge_transitions_with_multi_part_trace", multi)
	r.Set("op_errors", opErr)
	r.Set("oracle_failures_total", violCount)
	r.Set("rule", "a transition is non-trivial when it is a merge/finalize and some trace has fragments in >= 2 parts before it (merge_transitions_with_multi_part_trace)")
	var cfgList []string
	for _, sp := range specs(thorough) {
		cfgList = append(cfgList, fmt.Sprintf("%s mode=%s spans=%s depth<=%d", sp.c, sp.c.Mode, sp.c.Spans, sp.d))
	}
	r.Set("bounds", map[string]any{"max_batches": maxBatches, "traces": traceIDs, "configurations": cfgList})
	r.Set("by_configuration", byCfg)
	sort.Strings(scaleDigests)
	sd := sha256.Sum256([]byte(strings.Join(scaleDigests, "\n")))
	r.Set("scale_family", map[string]any{"histories": scaleHist, "steps_checked": scaleSteps, "final_states_digest": hex.EncodeToString(sd[:8]),
		"grid": "many-trace: N in {8,64,256[,1024 thorough]} x {every2,every3,first-half,last-half,all-but-one,one} x {W F W F M[0 1], W W W F M[0 1 2]} (+ projecting sampler: N=64 quick, all thorough); oversized: k in {3,4,5} traces x oversized at first/middle/last x every keep/drop pattern over the others x {M,FIN,MM}, kinds split(>= 2 MiB block limit, projecting; k=3 also non-projecting) and budget(> 16 MiB per-trace staging budget, k=3[,4 thorough])"})
	if cut > 0 {
		r.NotExhaustive(fmt.Sprintf("%d of %d units cut by the internal deadline", cut, len(us)))
	}
	r.Assume("the introducer loop is replaced by a stand-in that applies flusher/merger introductions with the real introduce* functions in the order they are sent; a mem-part introduction may be served before a pending merger introduction (W2)")
	r.Assume("sampler Decide timeouts (wall clock) are excluded: decideTimeout=1h")
	r.Assume("bloom filters of the two trace ids do not collide (false positives only make the guard more conservative)")
	fmt.Printf("C13 scale-family histories=%d steps=%d digest=%s\n", scaleHist, scaleSteps, hex.EncodeToString(sd[:8]))
	fmt.Printf("C13 units=%d states=%d transitions=%d real-ops=%d dedup=%d outcomes=%d multi-fragment-merges=%d op-errors=%d\n",
		len(us), states, trans, opsx, dedup, len(outcomes), multi, opErr)
	nk := make([]string, 0, len(notes))
	for k := range notes {
		nk = append(nk, fmt.Sprintf("%s=%d", k, notes[k]))
	}
	sort.Strings(nk)
	fmt.Println("  sampler effects:", strings.Join(nk, " "))
	r.Finish()
}
