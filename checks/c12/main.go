// C12: sort-key encodings preserve order; series identity is unambiguous.
// Bounded exhaustive enumeration: all ordered pairs over boundary alphabets; all entity tuples of arity <= 3.
package main

import (
	"bytes"
	"fmt"
	"math"

	modelv1 "github.com/apache/skywalking-banyandb/api/proto/banyandb/model/v1"
	"github.com/apache/skywalking-banyandb/pkg/convert"
	"github.com/apache/skywalking-banyandb/pkg/index"
	pbv1 "github.com/apache/skywalking-banyandb/pkg/pb/v1"
	"github.com/apache/skywalking-banyandb/pkg/verif/ev"
)

func int64Alphabet() []int64 {
	base := []int64{0, 1, -1, 2, -2, 127, 128, -128, -129, 255, 256, -255, -256, 1 << 31, -(1 << 31), 1<<31 - 1, 1 << 32,
		1 << 53, 1<<53 + 1, -(1 << 53), -(1<<53 + 1), 1 << 62, -(1 << 62), math.MaxInt64, math.MaxInt64 - 1, math.MinInt64, math.MinInt64 + 1,
		0x7C, 0x5C, 0x7C7C7C7C7C7C7C7C, 0x5C5C5C5C5C5C5C5C, -0x7C, 1 << 8, 1 << 16, 1 << 24, 1 << 40, 1 << 48, 1 << 56, -(1 << 56), 1000000007}
	return base
}

func float64Alphabet() []float64 {
	bits := []uint64{
		0x0000000000000000, 0x8000000000000000, // +0 -0
		0x0000000000000001, 0x8000000000000001, // smallest subnormals
		0x000FFFFFFFFFFFFF, 0x800FFFFFFFFFFFFF, // largest subnormals
		0x0010000000000000, 0x8010000000000000, // smallest normals
		0x3FF0000000000000, 0xBFF0000000000000, // +-1
		0x3FF0000000000001, 0xBFF0000000000001,
		0x3FEFFFFFFFFFFFFF, 0xBFEFFFFFFFFFFFFF,
		0x4000000000000000, 0xC000000000000000, // +-2
		0x3FB999999999999A, 0xBFB999999999999A, // +-0.1
		0x4340000000000000, 0xC340000000000000, // +-2^53
		0x4340000000000001, 0xC340000000000001,
		0x7FEFFFFFFFFFFFFF, 0xFFEFFFFFFFFFFFFF, // +-MaxFloat64
		0x7FF0000000000000, 0xFFF0000000000000, // +-Inf
		0x3FD5555555555555, 0xBFD5555555555555,
		0x4059000000000000, 0xC059000000000000, // +-100
		0x7FE0000000000000, 0xFFE0000000000000,
		0x0020000000000000, 0x8020000000000000,
		0x405EDD2F1A9FBE77, 0xC05EDD2F1A9FBE77, // +-123.456
		0x3E7AD7F29ABCAF48, 0xBE7AD7F29ABCAF48, // +-1e-7
	}
	out := make([]float64, len(bits))
	for i, b := range bits {
		out[i] = math.Float64frombits(b)
	}
	return out
}

func nanAlphabet() []float64 {
	bits := []uint64{0x7FF8000000000000, 0xFFF8000000000000, 0x7FF0000000000001, 0xFFF0000000000001, 0x7FFFFFFFFFFFFFFF, 0xFFFFFFFFFFFFFFFF}
	out := make([]float64, len(bits))
	for i, b := range bits {
		out[i] = math.Float64frombits(b)
	}
	return out
}

type tv struct {
	v    *modelv1.TagValue
	name string
	// canonical form under "empty string / empty bytes read back as null"
	canon string
}

func str(s string) tv {
	c := "S:" + s
	if s == "" {
		c = "N"
	}
	return tv{v: &modelv1.TagValue{Value: &modelv1.TagValue_Str{Str: &modelv1.Str{Value: s}}}, name: fmt.Sprintf("str(%q)", s), canon: c}
}

func num(i int64) tv {
	return tv{v: &modelv1.TagValue{Value: &modelv1.TagValue_Int{Int: &modelv1.Int{Value: i}}}, name: fmt.Sprintf("int(%d)", i), canon: fmt.Sprintf("I:%d", i)}
}

func bin(b []byte) tv {
	c := "B:" + string(b)
	if len(b) == 0 {
		c = "N"
	}
	return tv{v: &modelv1.TagValue{Value: &modelv1.TagValue_BinaryData{BinaryData: b}}, name: fmt.Sprintf("bin(%q)", b), canon: c}
}

func null() tv {
	return tv{v: &modelv1.TagValue{Value: &modelv1.TagValue_Null{}}, name: "null", canon: "N"}
}

func canonOf(t *modelv1.TagValue) string {
	switch x := t.Value.(type) {
	case *modelv1.TagValue_Null:
		return "N"
	case *modelv1.TagValue_Str:
		if x.Str.Value == "" {
			return "N"
		}
		return "S:" + x.Str.Value
	case *modelv1.TagValue_Int:
		return fmt.Sprintf("I:%d", x.Int.Value)
	case *modelv1.TagValue_BinaryData:
		if len(x.BinaryData) == 0 {
			return "N"
		}
		return "B:" + string(x.BinaryData)
	}
	return "?" + t.String()
}

func main() {
	r := ev.New("C12", "exploration")
	if rp := ev.Arg("--replay"); rp != "" {
		// the whole enumeration takes under a second: replay = run it again and look for the artefact's key
		r.ReplayWholeRun(rp)
	}
	thorough := ev.Thorough()
	evals, nontrivial := 0, 0

	// ---- int64 order + round trip: all ordered pairs
	ia := int64Alphabet()
	if thorough {
		// add neighbours of every alphabet value
		seen := map[int64]bool{}
		var ext []int64
		for _, v := range ia {
			for _, d := range []int64{-1, 0, 1} {
				w := v + d
				if (d > 0 && w < v) || (d < 0 && w > v) {
					continue
				}
				if !seen[w] {
					seen[w] = true
					ext = append(ext, w)
				}
			}
		}
		ia = ext
	}
	for _, a := range ia {
		ea := convert.Int64ToBytes(a)
		evals++
		if got := convert.BytesToInt64(ea); got != a {
			r.Violation(fmt.Sprintf("Int64ToBytes/roundtrip v=%d got=%d", a, got), map[string]any{"fn": "Int64ToBytes", "v": a, "got": got})
		}
		for _, b := range ia {
			eb := convert.Int64ToBytes(b)
			evals++
			c := bytes.Compare(ea, eb)
			want := 0
			if a < b {
				want = -1
			} else if a > b {
				want = 1
			}
			if a != b {
				nontrivial++
			}
			if c != want {
				r.Violation(fmt.Sprintf("Int64ToBytes/order a=%d b=%d cmp=%d want=%d", a, b, c, want), map[string]any{"fn": "Int64ToBytes", "a": a, "b": b})
			}
		}
	}
	r.Sample(map[string]any{"fn": "Int64ToBytes", "a": ia[25], "b": ia[2], "enc_a": fmt.Sprintf("%x", convert.Int64ToBytes(ia[25])), "enc_b": fmt.Sprintf("%x", convert.Int64ToBytes(ia[2]))})
	// int32
	var i32 []int32
	for _, v := range ia {
		if v >= math.MinInt32 && v <= math.MaxInt32 {
			i32 = append(i32, int32(v))
		}
	}
	i32 = append(i32, math.MinInt32, math.MaxInt32, math.MinInt32+1)
	for _, a := range i32 {
		ea := convert.Int32ToBytes(a)
		evals++
		if got := convert.BytesToInt32(ea); got != a {
			r.Violation(fmt.Sprintf("Int32ToBytes/roundtrip v=%d got=%d", a, got), map[string]any{"fn": "Int32ToBytes", "v": a, "got": got})
		}
		for _, b := range i32 {
			evals++
			c := bytes.Compare(ea, convert.Int32ToBytes(b))
			want := 0
			if a < b {
				want = -1
			} else if a > b {
				want = 1
			}
			if c != want {
				r.Violation(fmt.Sprintf("Int32ToBytes/order a=%d b=%d", a, b), map[string]any{"fn": "Int32ToBytes", "a": a, "b": b})
			}
		}
	}
	// int16 / uint round trips
	for _, v := range []int16{0, 1, -1, math.MaxInt16, math.MinInt16, 0x7C, 0x5C} {
		evals++
		if got := convert.BytesToInt16(convert.Int16ToBytes(v)); got != v {
			r.Violation(fmt.Sprintf("Int16ToBytes/roundtrip v=%d", v), v)
		}
	}
	for _, a := range ia {
		evals++
		if got := convert.BytesToUint64(convert.Uint64ToBytes(uint64(a))); got != uint64(a) {
			r.Violation(fmt.Sprintf("Uint64ToBytes/roundtrip v=%d", a), a)
		}
		for _, b := range ia {
			c := bytes.Compare(convert.Uint64ToBytes(uint64(a)), convert.Uint64ToBytes(uint64(b)))
			want := 0
			if uint64(a) < uint64(b) {
				want = -1
			} else if uint64(a) > uint64(b) {
				want = 1
			}
			evals++
			if c != want {
				r.Violation(fmt.Sprintf("Uint64ToBytes/order a=%d b=%d", uint64(a), uint64(b)), nil)
			}
		}
	}

	// ---- float64 ordered encoding: all ordered pairs; NaNs only in the round trip
	fa := float64Alphabet()
	for _, a := range fa {
		ea := convert.Float64ToOrderedBytes(a)
		evals++
		if got := convert.OrderedBytesToFloat64(ea); math.Float64bits(got) != math.Float64bits(a) {
			r.Violation(fmt.Sprintf("Float64ToOrderedBytes/roundtrip bits=%016x got=%016x", math.Float64bits(a), math.Float64bits(got)),
				map[string]any{"fn": "Float64ToOrderedBytes", "bits": fmt.Sprintf("%016x", math.Float64bits(a)), "got": fmt.Sprintf("%016x", math.Float64bits(got))})
		}
		if got := convert.BytesToFloat64(convert.Float64ToBytes(a)); math.Float64bits(got) != math.Float64bits(a) {
			r.Violation(fmt.Sprintf("Float64ToBytes/roundtrip bits=%016x", math.Float64bits(a)), nil)
		}
		for _, b := range fa {
			evals++
			c := bytes.Compare(ea, convert.Float64ToOrderedBytes(b))
			switch {
			case a < b:
				nontrivial++
				if c >= 0 {
					r.Violation(fmt.Sprintf("Float64ToOrderedBytes/order a=%016x b=%016x cmp=%d want<0", math.Float64bits(a), math.Float64bits(b), c),
						map[string]any{"fn": "Float64ToOrderedBytes", "a": fmt.Sprintf("%016x", math.Float64bits(a)), "b": fmt.Sprintf("%016x", math.Float64bits(b))})
				}
			case a > b:
				nontrivial++
				if c <= 0 {
					r.Violation(fmt.Sprintf("Float64ToOrderedBytes/order a=%016x b=%016x cmp=%d want>0", math.Float64bits(a), math.Float64bits(b), c),
						map[string]any{"fn": "Float64ToOrderedBytes", "a": fmt.Sprintf("%016x", math.Float64bits(a)), "b": fmt.Sprintf("%016x", math.Float64bits(b))})
				}
			default:
				// numerically equal (+0/-0 or identical): unconstrained relative to each other
			}
		}
	}
	for _, a := range nanAlphabet() {
		evals++
		nontrivial++
		if got := convert.OrderedBytesToFloat64(convert.Float64ToOrderedBytes(a)); math.Float64bits(got) != math.Float64bits(a) {
			r.Violation(fmt.Sprintf("Float64ToOrderedBytes/roundtrip bits=%016x got=%016x", math.Float64bits(a), math.Float64bits(got)),
				map[string]any{"fn": "Float64ToOrderedBytes", "bits": fmt.Sprintf("%016x", math.Float64bits(a))})
		}
	}
	r.Sample(map[string]any{"fn": "Float64ToOrderedBytes", "a": -1.0, "b": 0.1, "enc_a": fmt.Sprintf("%x", convert.Float64ToOrderedBytes(-1)), "enc_b": fmt.Sprintf("%x", convert.Float64ToOrderedBytes(0.1))})

	// ---- index term values round trip
	for _, a := range fa {
		evals++
		b, err := index.FloatTermValue{Value: a}.Marshal()
		var back index.FloatTermValue
		if err != nil || back.Unmarshal(b) != nil || math.Float64bits(back.Value) != math.Float64bits(a) {
			r.Violation(fmt.Sprintf("FloatTermValue/roundtrip bits=%016x", math.Float64bits(a)), nil)
		}
	}
	strs := []string{"a", "|", "\\", "\\|", "", "|a", "a|", "\\\\", "a\x00b", "\xff", "ab"}
	for _, s := range strs {
		evals++
		b, err := index.BytesTermValue{Value: []byte(s)}.Marshal()
		var back index.BytesTermValue
		if err != nil || back.Unmarshal(b) != nil || string(back.Value) != s {
			r.Violation(fmt.Sprintf("BytesTermValue/roundtrip %q", s), nil)
		}
	}

	// ---- series key: injective, round trips; all tuples of arity <= 3 (quick) / <= 4 over a reduced alphabet (thorough adds arity 4)
	vals := []tv{}
	for _, s := range strs[:8] {
		vals = append(vals, str(s))
	}
	vals = append(vals, num(0), num(-1), num(math.MaxInt64), num(math.MinInt64), num(0x7C), num(0x5C), num(0x7C5C7C5C7C5C7C5C))
	vals = append(vals, bin(nil), bin([]byte{}), bin([]byte{0}), bin([]byte{'|'}), bin([]byte{'\\'}), bin([]byte{1, '|'}), null())
	subjects := []string{"s", "", "s|", "s\\", "|"}
	maxAr := 3
	if thorough {
		maxAr = 4
	}
	seen := map[string]string{}
	var tuple []tv
	var rec func(depth int)
	tuples := 0
	collide := 0
	rec = func(depth int) {
		for _, subj := range subjects {
			if depth == 4 && subj != "s" && subj != "s|" {
				continue
			}
			s := pbv1.Series{Subject: subj}
			canon := fmt.Sprintf("%q", subj)
			name := fmt.Sprintf("%q", subj)
			for _, t := range tuple {
				s.EntityValues = append(s.EntityValues, t.v)
				canon += "\x1f" + t.canon
				name += "," + t.name
			}
			evals++
			tuples++
			if err := s.Marshal(); err != nil {
				r.Violation("Series.Marshal/error "+name, name)
				continue
			}
			key := string(s.Buffer)
			if prev, ok := seen[key]; ok && prev != canon {
				collide++
				r.Violation(fmt.Sprintf("Series.Marshal/not-injective %q vs %q", prev, canon), map[string]any{"a": prev, "b": name, "bytes": fmt.Sprintf("%x", key)})
			}
			seen[key] = canon
			var back pbv1.Series
			if err := back.Unmarshal(s.Buffer); err != nil {
				r.Violation("Series.Unmarshal/error "+name, map[string]any{"tuple": name, "err": err.Error()})
				continue
			}
			got := fmt.Sprintf("%q", back.Subject)
			for _, t := range back.EntityValues {
				got += "\x1f" + canonOf(t)
			}
			if got != canon || back.ID != s.ID {
				r.Violation(fmt.Sprintf("Series.Unmarshal/mismatch tuple=%s", name), map[string]any{"tuple": name, "got": got, "want": canon})
			}
			if tuples == 777 {
				r.Sample(map[string]any{"fn": "Series.Marshal", "tuple": name, "bytes": fmt.Sprintf("%x", key)})
			}
		}
		if depth == maxAr {
			return
		}
		for _, v := range vals {
			if depth >= 3 && len(v.canon) > 4 && v.canon[0] == 'I' {
				continue // arity 4: drop the large ints to keep the space at ~10^6
			}
			tuple = append(tuple, v)
			rec(depth + 1)
			tuple = tuple[:len(tuple)-1]
		}
	}
	rec(0)
	nontrivial += len(seen)
	// ---- users of the encodings that build distributed sort keys
	{
		floats := append(append([]float64{}, float64Alphabet()...), nanAlphabet()...)
		e, n := checkSortKeyUsers(r, int64Alphabet(), floats)
		evals += e
		nontrivial += n
	}
	r.Set("evaluations", evals)
	r.Set("distinct_nontrivial", nontrivial)
	r.Set("series_tuples", tuples)
	r.Set("distinct_series_keys", len(seen))
	r.Set("int64_alphabet", len(ia))
	r.Set("float64_alphabet", len(fa))
	r.Set("rule", "all ordered pairs over the int64/int32/uint64/float64 boundary alphabets (non-trivial = numerically different pair); all (subject, entity tuple) of arity<=3 (4 in thorough) over 22 values x 5 subjects (non-trivial = distinct marshaled key); injectivity decided by exact collision lookup over all tuples")
	r.Assume("values outside the alphabets are not covered")
	r.Finish()
}
