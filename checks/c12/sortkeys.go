package main

import (
	"bytes"
	"fmt"
	"math"

	modelv1 "github.com/apache/skywalking-banyandb/api/proto/banyandb/model/v1"
	"github.com/apache/skywalking-banyandb/banyand/dquery"
	pbv1 "github.com/apache/skywalking-banyandb/pkg/pb/v1"
	"github.com/apache/skywalking-banyandb/pkg/verif/ev"
)

func sign(c int) int {
	switch {
	case c < 0:
		return -1
	case c > 0:
		return 1
	}
	return 0
}

// checkSortKeyUsers judges the places that BUILD distributed sort keys from values (not the convert functions
// themselves): the distributed top-N merge key (banyand/dquery comparableTopNItem.SortedField) for float and int
// items, and the key the distributed measure merge sorts by when ordering on a tag (pbv1.MarshalTagValue of an int
// tag value). All ordered pairs over the boundary alphabets; NaN excluded from the order relation; -0/+0 unconstrained
// relative to each other.
func checkSortKeyUsers(r *ev.Run, ints []int64, floats []float64) (evals, nontrivial int) {
	for _, a := range floats {
		ka := dquery.VerifC12TopNSortKeyFloat(a)
		for _, b := range floats {
			evals++
			if a == b || math.IsNaN(a) || math.IsNaN(b) {
				continue
			}
			nontrivial++
			want := -1
			if a > b {
				want = 1
			}
			if got := sign(bytes.Compare(ka, dquery.VerifC12TopNSortKeyFloat(b))); got != want {
				r.Violation(fmt.Sprintf("dquery.topN-sort-key(float)/order a=%016x b=%016x cmp=%d want=%d", math.Float64bits(a), math.Float64bits(b), got, want),
					map[string]any{"fn": "dquery.comparableTopNItem.SortedField(float)", "a_bits": fmt.Sprintf("%016x", math.Float64bits(a)), "b_bits": fmt.Sprintf("%016x", math.Float64bits(b))})
			}
		}
	}
	for _, a := range ints {
		ka := dquery.VerifC12TopNSortKeyInt(a)
		ta, errA := pbv1.MarshalTagValue(&modelv1.TagValue{Value: &modelv1.TagValue_Int{Int: &modelv1.Int{Value: a}}})
		for _, b := range ints {
			evals += 2
			if a == b {
				continue
			}
			nontrivial++
			want := -1
			if a > b {
				want = 1
			}
			if got := sign(bytes.Compare(ka, dquery.VerifC12TopNSortKeyInt(b))); got != want {
				r.Violation(fmt.Sprintf("dquery.topN-sort-key(int)/order a=%d b=%d cmp=%d want=%d", a, b, got, want),
					map[string]any{"fn": "dquery.comparableTopNItem.SortedField(int)", "a": a, "b": b})
			}
			tb, errB := pbv1.MarshalTagValue(&modelv1.TagValue{Value: &modelv1.TagValue_Int{Int: &modelv1.Int{Value: b}}})
			if errA != nil || errB != nil {
				r.Violation(fmt.Sprintf("MarshalTagValue(int)/error a=%d b=%d", a, b), map[string]any{"fn": "pbv1.MarshalTagValue", "a": a, "b": b})
				continue
			}
			if got := sign(bytes.Compare(ta, tb)); got != want {
				r.Violation(fmt.Sprintf("MarshalTagValue(int)-as-sort-key/order a=%d b=%d cmp=%d want=%d", a, b, got, want),
					map[string]any{"fn": "pbv1.MarshalTagValue(int) used by the distributed sort-by-tag merge", "a": a, "b": b})
			}
		}
	}
	r.Sample(map[string]any{"fn": "dquery.comparableTopNItem.SortedField", "a": floats[9], "b": floats[8],
		"key_a": fmt.Sprintf("%x", dquery.VerifC12TopNSortKeyFloat(floats[9])), "key_b": fmt.Sprintf("%x", dquery.VerifC12TopNSortKeyFloat(floats[8]))})
	return evals, nontrivial
}
