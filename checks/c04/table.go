package main

import (
	"encoding/json"
	"fmt"
	"os"
	"path/filepath"
	"sort"
	"strconv"
	"strings"

	"github.com/apache/skywalking-banyandb/pkg/verif/crashfs"
	"github.com/apache/skywalking-banyandb/pkg/verif/vos"
)

// driver is one table (sidx instance, stream tsTable) driven step by step; the same history alphabet, recording,
// recovery and oracle as for the measure tsTable (history.go / recover.go) run against it.
type driver interface {
	Write(batch int)  // introduce batch as a memory part (acknowledged on return)
	FlushBegin() bool // flusher's half: part files of every memory part
	FlushEnd()        // introducer's half: introduce the flushed parts and publish the manifest
	GC()              // remove superseded manifests
	Merge(ids []uint64) (bool, error)
	Drain() // run queued background removals (late histories)
	FileParts() []uint64
	AllParts() (ids []uint64, mem []bool)
	Content() (canon string, rows int, err error)
	Live() (live uint64, pendingGC []uint64) // manifests that may legitimately be on disk
	Loaded() uint64                           // epoch of the manifest loaded at open (0 = none)
	Close()
}

type tableKind struct {
	open      func(dir string, freshEpoch uint64, queued, recording bool) driver
	validate  func(partDir string) error
	reference func(n int, extra bool) string // content of batches 1..n (+ the post-recovery batch)
	partName  func(id uint64) string
	snapName  func(epoch uint64) string
	allowed   map[string]bool // further legitimate entries of the shard directory ("sidx/", ...)
	name      string
}

// checker is implemented by drivers with kind-specific consistency checks; phase is "open" (right after recovery) or
// "post" (after the post-recovery write+flush+gc+reopen).
type checker interface {
	Check(phase string) []string
}

var tableKinds = map[string]*tableKind{}

// recordTable runs h once on the real write path of kind k with the I/O log switched on.
func recordTable(h *history, k *tableKind, scratch string) *recording {
	root, err := os.MkdirTemp(scratch, "rec-")
	if err != nil {
		fatal("%v", err)
	}
	defer os.RemoveAll(root)
	dir := filepath.Join(root, shardDir)
	vos.VerifStart(h.Queued)
	var t driver
	nBatch := 0
	partBatches := map[uint64][]int{}
	known := map[uint64]bool{}
	newPart := func() uint64 { // the part id that appeared in the snapshot
		ids, _ := t.AllParts()
		for _, id := range ids {
			if !known[id] {
				known[id] = true
				return id
			}
		}
		return 0
	}
	covered := func() int {
		ids, mem := t.AllParts()
		in := map[int]bool{}
		for i, id := range ids {
			if !mem[i] {
				for _, b := range partBatches[id] {
					in[b] = true
				}
			}
		}
		n := 0
		for in[n+1] {
			n++
		}
		return n
	}
	func() {
		defer func() {
			if p := recover(); p != nil {
				vos.VerifStop()
				fatal("history %s panicked while recording: %v", h.Name, p)
			}
		}()
		for i, s := range h.Steps {
			vos.VerifMark(fmt.Sprintf("begin:%d:%s", i, s))
			switch s {
			case "init":
				t = k.open(dir, historyBase, h.Queued, true)
			case "w":
				nBatch++
				t.Write(nBatch)
				partBatches[newPart()] = []int{nBatch}
				vos.VerifMark(fmt.Sprintf("acked:%d", nBatch))
			case "f", "fb", "fe":
				if s != "fe" && !t.FlushBegin() {
					fatal("history %s step %d: nothing to flush", h.Name, i)
				}
				if s != "fb" {
					t.FlushEnd()
					vos.VerifMark(fmt.Sprintf("published:%d", covered()))
				}
			case "m", "p":
				ids := t.FileParts()
				if s == "p" {
					ids = ids[:2]
				}
				ok, merr := t.Merge(ids)
				if merr != nil || !ok {
					fatal("history %s step %d: merge did not run (%v)", h.Name, i, merr)
				}
				np := newPart()
				for _, id := range ids {
					partBatches[np] = append(partBatches[np], partBatches[id]...)
				}
				vos.VerifMark(fmt.Sprintf("published:%d", covered()))
			case "gc":
				t.GC()
			case "drain":
				t.Drain()
			default:
				fatal("unknown step %q", s)
			}
			vos.VerifMark(fmt.Sprintf("end:%d", i))
		}
	}()
	raw := vos.VerifStop()
	if t != nil {
		got, _, cerr := t.Content()
		if cerr != nil || got != k.reference(nBatch, false) {
			fatal("history %s: live table content differs from the reference model (%v)", h.Name, cerr)
		}
		t.Close()
	}
	return finishRecording(h, root, raw, nil)
}

// recoverTable materialises the crash state and runs the real start-up path of kind k on it.
func recoverTable(k *tableKind, tree *crashfs.Tree, scratch string) *observation {
	ob := &observation{Prefix: -1}
	root, err := os.MkdirTemp(scratch, "st-")
	if err != nil {
		fatal("%v", err)
	}
	defer os.RemoveAll(root)
	if err := tree.Materialize(root); err != nil {
		fatal("materialize: %v", err)
	}
	dir := filepath.Join(root, shardDir)
	before := listDir(dir)
	var newestSnp uint64
	for _, n := range before {
		if strings.HasSuffix(n, ".snp") && len(n) == 20 {
			if e, perr := strconv.ParseUint(n[:16], 16, 64); perr == nil && e > newestSnp {
				newestSnp = e
			}
		}
	}
	var t driver
	if ob.Panic = guard(func() { t = k.open(dir, recoverBase, false, false) }); ob.Panic != "" {
		ob.Shape = "recovery panicked"
		ob.Problems = append(ob.Problems, "recovery panic: "+ob.Panic)
		return ob
	}
	ob.LoadedEpoch = t.Loaded()
	var got string
	if msg := guard(func() {
		var rerr error
		if got, ob.Rows, rerr = t.Content(); rerr != nil {
			panic(rerr)
		}
	}); msg != "" {
		ob.ReadError = msg
		ob.Problems = append(ob.Problems, "recovered table cannot be read: "+msg)
	}
	for j := 0; j <= maxHist && ob.ReadError == ""; j++ {
		if got == k.reference(j, false) {
			ob.Prefix = j
			break
		}
	}
	if ob.Prefix < 0 && ob.ReadError == "" {
		ob.Problems = append(ob.Problems, fmt.Sprintf("recovered content (%d rows) is not the content of any prefix of the batches", ob.Rows))
	}
	ids, mem := t.AllParts()
	served := map[string]bool{}
	for i, id := range ids {
		name := k.partName(id)
		served[name] = true
		ob.Served = append(ob.Served, name)
		if mem[i] {
			ob.Problems = append(ob.Problems, "recovery produced a memory part")
		}
	}
	live, pendingGC := t.Live()
	okSnp := map[string]bool{}
	if live != 0 {
		okSnp[k.snapName(live)] = true
	}
	for _, e := range pendingGC {
		okSnp[k.snapName(e)] = true
	}
	ob.After = listDir(dir)
	afterSet := map[string]bool{}
	for _, n := range ob.After {
		afterSet[n] = true
		base := strings.TrimSuffix(n, "/")
		switch {
		case k.allowed[n]:
		case strings.HasSuffix(n, "/") && hex16.MatchString(base):
			if !served[base] {
				ob.Problems = append(ob.Problems, "leftover: part directory not referenced by the live snapshot survives recovery")
			}
		case strings.HasSuffix(n, "/"):
			ob.Problems = append(ob.Problems, "leftover: unknown directory "+n)
		case strings.HasSuffix(n, ".snp.tmp"):
			ob.Problems = append(ob.Problems, "leftover: *.snp.tmp survives recovery")
		case strings.HasSuffix(n, ".tmp"):
			ob.Problems = append(ob.Problems, "leftover: *.tmp survives recovery in the shard directory")
		case strings.HasSuffix(n, ".snp"):
			if !okSnp[n] {
				e, _ := strconv.ParseUint(strings.TrimSuffix(n, ".snp"), 16, 64)
				switch {
				case live == 0:
					ob.Problems = append(ob.Problems, "leftover: *.snp survives recovery although no manifest was loaded")
				case e < live:
					ob.Problems = append(ob.Problems, "leftover: older *.snp next to the loaded manifest survives recovery and is not pending GC")
				default:
					ob.Problems = append(ob.Problems, "leftover: *.snp newer than the loaded manifest survives recovery")
				}
			}
		default:
			ob.Problems = append(ob.Problems, "leftover: unknown file "+n)
		}
	}
	for _, n := range before {
		if !afterSet[n] {
			ob.Removed = append(ob.Removed, n)
		}
	}
	for name := range served {
		pd := filepath.Join(dir, name)
		if !afterSet[name+"/"] {
			ob.Problems = append(ob.Problems, "served part has no directory")
			continue
		}
		if verr := k.validate(pd); verr != nil {
			ob.Problems = append(ob.Problems, "served part does not validate")
		}
		for _, f := range listDir(pd) {
			if strings.HasSuffix(f, ".tmp") {
				ob.Problems = append(ob.Problems, "leftover: *.tmp inside a served part survives recovery")
			}
		}
	}
	if live != 0 {
		var names []string
		b, rerr := os.ReadFile(filepath.Join(dir, k.snapName(live)))
		if rerr != nil || json.Unmarshal(b, &names) != nil {
			ob.Problems = append(ob.Problems, "live manifest is missing or unreadable after recovery")
		}
		listed := map[string]bool{}
		for _, n := range names {
			listed[n] = true
			if !served[n] {
				ob.Dangling = append(ob.Dangling, n)
			}
		}
		for n := range served {
			if !listed[n] {
				ob.Problems = append(ob.Problems, "served part is not listed by the live manifest")
			}
		}
	} else if len(served) > 0 {
		ob.Problems = append(ob.Problems, "parts served without a live manifest")
	}
	openClean := true
	if c, ok := t.(checker); ok {
		pr := c.Check("open")
		openClean = len(pr) == 0
		ob.Problems = append(ob.Problems, pr...)
	}
	sort.Strings(ob.Served)
	switch {
	case len(ob.Removed) > 0 && ob.LoadedEpoch != 0 && ob.LoadedEpoch < newestSnp:
		ob.Nontrivial = "fell back to an older manifest and removed entries"
	case ob.LoadedEpoch != 0 && ob.LoadedEpoch < newestSnp:
		ob.Nontrivial = "fell back to an older manifest"
	case len(ob.Removed) > 0:
		ob.Nontrivial = "removed entries"
	}
	ob.Shape = fmt.Sprintf("parts=%d dangling=%d work=%q", len(served), len(ob.Dangling), ob.Nontrivial)

	// the recovered table must be usable: one more batch, flush, gc, reopen
	if ob.ReadError == "" && ob.Prefix >= 0 {
		want := k.reference(ob.Prefix, true)
		ob.Post = guard(func() {
			t.Write(maxHist + 1)
			if !t.FlushBegin() {
				panic("nothing to flush after a write")
			}
			t.FlushEnd()
			t.GC()
			r2, _, e2 := t.Content()
			if e2 != nil || r2 != want {
				panic(fmt.Sprintf("content after write+flush on the recovered table is wrong (%v)", e2))
			}
			t.Close()
			t = nil
			t2 := k.open(dir, recoverBase+0x1000, false, false)
			defer t2.Close()
			r3, _, e3 := t2.Content()
			if e3 != nil || r3 != want {
				panic(fmt.Sprintf("content after reopening the recovered table is wrong (%v)", e3))
			}
			if c, ok := t2.(checker); ok && openClean {
				if pr := c.Check("post"); len(pr) > 0 {
					panic(pr[0])
				}
			}
		})
		if ob.Post != "" {
			ob.Problems = append(ob.Problems, "recovered table is not usable: "+ob.Post)
		}
	}
	if t != nil {
		_ = guard(t.Close)
	}
	// round 2: the same crash state once more, recovered and then only shut down gracefully and restarted (lives.go)
	lp, trail := gracefulLives(func(d string, e uint64) lifeTable { return k.open(d, e, false, false) }, tree, scratch)
	ob.Problems, ob.Lives = append(ob.Problems, lp...), trail
	ob.Problems = uniq(ob.Problems)
	return ob
}
