package main

import (
	"fmt"
	"sort"
	"strings"

	"github.com/apache/skywalking-banyandb/banyand/internal/sidx"
	"github.com/apache/skywalking-banyandb/banyand/trace"
	"github.com/apache/skywalking-banyandb/pkg/fs"
)

// Table kind "trace": the REAL trace tsTable (banyand/trace) with one attached secondary index. A batch is one core
// memory part plus one sidx memory part under the same id (introducePart: one multi-manager snapshot transaction);
// flush = core part files, then sidx.Flush of the same ids, then introduceFlushed (transaction + persistSnapshot);
// merge = mergeParts + sidx.Merge + introduceMerged (no sampler, no fragment guard); gc.clean; recovery = the real
// initTSTable, which loads the sidx instances with the part ids of the loaded manifest (loadSidxMap).
// Both removal goroutines (core partWrapper.decRef `go`, sidx partWrapper.cleanup run.GoOrDie) end in
// fileSystem.MustRMAll of the table's file system, which is the queueing wrapper of sidx.go (eager = drained right
// after the merge introduction returned, late = at `drain`).

type traceDriver struct {
	t       *trace.C04Table
	lfs     *queueFS
	pending int
	queued  bool
}

func openTrace(dir string, freshEpoch uint64, queued, recording bool) driver {
	d := &traceDriver{lfs: &queueFS{FileSystem: fs.NewLocalFileSystem()}, queued: queued}
	d.t = trace.C04Open(d.lfs, dir, freshEpoch)
	d.lfs.mu.Lock()
	d.lfs.capture = recording // removals are queued only while a history is being recorded
	d.lfs.mu.Unlock()
	return d
}

// batch b: two traces of its own plus one span of the trace shared by all batches (its index entries accumulate).
func traceBatch(b int) []trace.C04Span {
	var out []trace.C04Span
	add := func(tr string, j int) {
		out = append(out, trace.C04Span{Trace: tr, ID: fmt.Sprintf("s%d-%d", b, j), TS: 1_000_000*int64(b) + int64(j), Key: int64(b*100 + j), Pad: 700})
	}
	add(fmt.Sprintf("t%d-a", b), 0)
	add(fmt.Sprintf("t%d-a", b), 1)
	add(fmt.Sprintf("t%d-b", b), 2)
	add(fmt.Sprintf("t%d-b", b), 3)
	add("shared", 4)
	add(fmt.Sprintf("t%d-a", b), 5)
	return out
}

func traceIDs() []string {
	ids := []string{"shared"}
	for b := 1; b <= maxHist+1; b++ {
		ids = append(ids, fmt.Sprintf("t%d-a", b), fmt.Sprintf("t%d-b", b))
	}
	return ids
}

// reference lines of the core content and of the index for a set of batches
func traceRefParts(n int, extra bool) (core, index []string) {
	add := func(b int) {
		for _, s := range traceBatch(b) {
			p := trace.C04Payload(s)
			h := len("payload-") + len(s.ID)
			core = append(core, fmt.Sprintf("%s/%s/%s/%d/%x", s.Trace, s.ID, s.ID, len(p), p[:h]))
			index = append(index, fmt.Sprintf("%s@%d/%d", s.Trace, s.Key, uint64(trace.C04Series)))
		}
	}
	for b := 1; b <= n; b++ {
		add(b)
	}
	if extra {
		add(maxHist + 1)
	}
	sort.Strings(core)
	sort.Strings(index)
	return
}

var traceRefCache = map[string]string{}

func traceReference(n int, extra bool) string {
	ck := fmt.Sprintf("%d/%v", n, extra)
	if s, ok := traceRefCache[ck]; ok {
		return s
	}
	core, _ := traceRefParts(n, extra)
	s := strings.Join(core, "\n")
	traceRefCache[ck] = s
	return s
}

func (d *traceDriver) Write(b int)                  { d.t.Write(traceBatch(b)) }
func (d *traceDriver) FlushBegin() bool             { return d.t.FlushBegin() }
func (d *traceDriver) FlushEnd()                    { d.t.FlushEnd() }
func (d *traceDriver) GC()                          { d.t.GC() }
func (d *traceDriver) AllParts() ([]uint64, []bool) { return d.t.AllParts() }
func (d *traceDriver) Live() (uint64, []uint64)     { return d.t.LiveEpoch() }
func (d *traceDriver) Loaded() uint64               { return d.t.LoadedEpoch }

func (d *traceDriver) Merge(ids []uint64) (bool, error) {
	ok, err := d.t.Merge(ids)
	if ok {
		d.pending += 2 * len(ids) // one core and one sidx part directory per merged id
		if !d.queued {
			d.Drain()
		}
	}
	return ok, err
}

func (d *traceDriver) Drain() {
	d.lfs.drain(d.pending)
	d.pending = 0
}

func (d *traceDriver) FileParts() []uint64 {
	ids, mem := d.t.AllParts()
	var out []uint64
	for i, id := range ids {
		if !mem[i] {
			out = append(out, id)
		}
	}
	return out
}

func (d *traceDriver) Content() (string, int, error) {
	core, index, err := d.t.Content(traceIDs())
	if err != nil {
		return "", 0, err
	}
	_ = index // the index is judged by Check
	return strings.Join(core, "\n"), len(core), nil
}

func (d *traceDriver) Close() {
	d.lfs.mu.Lock()
	d.lfs.capture = false
	d.lfs.mu.Unlock()
	d.t.Close()
}

// Check: core and index must describe the same batches, every core part has its sidx part and vice versa, sidx parts
// exist and validate, and the sidx directory holds nothing else. When no manifest was loaded the sidx instances are
// not opened by initTSTable (their directories are cleaned by the next getOrCreateSidx), so the directory is judged
// only after the post-recovery write in that case.
func (d *traceDriver) Check(phase string) []string {
	var out []string
	cids, _ := d.t.AllParts()
	sids, smem, loaded := d.t.SidxParts()
	partsAgree := true
	if !loaded && len(cids) > 0 {
		partsAgree = false
		out = append(out, "core parts are served but the index is not loaded")
	}
	if loaded {
		cs, ss := map[uint64]bool{}, map[uint64]bool{}
		for _, id := range cids {
			cs[id] = true
		}
		for i, id := range sids {
			ss[id] = true
			if !cs[id] {
				partsAgree = false
				out = append(out, "index part without its core part is served")
			}
			if phase == "open" && smem[i] {
				out = append(out, "recovery produced a memory index part")
			}
		}
		for _, id := range cids {
			if !ss[id] {
				partsAgree = false
				out = append(out, "core part without its index part is served")
			}
		}
	}
	// content level (only when the part sets agree): no index entry without its spans, no visible span without its entry
	if core, index, err := d.t.Content(traceIDs()); err == nil && partsAgree {
		want := map[string]bool{}
		for _, l := range core { // trace/span/tag/len/head
			f := strings.Split(l, "/")
			want[f[0]] = true
		}
		have := map[string]bool{}
		for _, l := range index { // trace@key/series
			have[l[:strings.IndexByte(l, '@')]] = true
		}
		for tr := range want {
			if !have[tr] {
				out = append(out, "a visible trace has no index entry")
			}
		}
		for tr := range have {
			if !want[tr] {
				out = append(out, "an index entry names a trace without visible spans")
			}
		}
		ci, ii := -1, -2
		for j := 0; j <= maxHist+1; j++ {
			for _, extra := range []bool{false, true} {
				rc, ri := traceRefParts(j, extra)
				if strings.Join(rc, "\n") == strings.Join(core, "\n") {
					ci = j*2 + map[bool]int{false: 0, true: 1}[extra]
				}
				if strings.Join(ri, "\n") == strings.Join(index, "\n") {
					ii = j*2 + map[bool]int{false: 0, true: 1}[extra]
				}
			}
		}
		if ci >= 0 && ci != ii {
			out = append(out, "index entries and core spans belong to different sets of batches")
		}
	}
	if loaded || phase == "post" {
		served := map[string]bool{}
		for _, id := range sids {
			served[sidx.C04PartName(id)] = true
		}
		for _, n := range listDir(d.t.SidxDir()) {
			base := strings.TrimSuffix(n, "/")
			switch {
			case strings.HasSuffix(n, "/") && hex16.MatchString(base):
				if !served[base] {
					out = append(out, "leftover: sidx part directory not referenced by the index snapshot survives")
					continue
				}
				if verr := sidx.ValidatePartMetadata(fs.NewLocalFileSystem(), d.t.SidxDir()+"/"+base); verr != nil {
					out = append(out, "served sidx part does not validate")
				}
				for _, f := range listDir(d.t.SidxDir() + "/" + base) {
					if strings.HasSuffix(f, ".tmp") {
						out = append(out, "leftover: *.tmp inside a served sidx part survives recovery")
					}
				}
			default:
				out = append(out, "leftover: unknown entry in the sidx directory "+n)
			}
		}
		for name := range served {
			found := false
			for _, n := range listDir(d.t.SidxDir()) {
				found = found || n == name+"/"
			}
			if !found {
				out = append(out, "served sidx part has no directory")
			}
		}
	}
	return uniq(out)
}

func init() {
	tableKinds["trace"] = &tableKind{
		name: "trace", open: openTrace, reference: traceReference, partName: trace.C04PartName, snapName: trace.C04SnapshotName,
		validate: trace.C04ValidatePart, allowed: map[string]bool{"sidx/": true, "finalize.json": true},
	}
}
