package main

import (
	"encoding/json"
	"fmt"
	"os"
	"sort"
	"strings"

	"github.com/apache/skywalking-banyandb/pkg/verif/crashfs"
)

type traceViolation struct {
	Key    string
	Detail string
	K      int
}

func dirOf(p string) string {
	if i := strings.LastIndexByte(p, '/'); i >= 0 {
		return p[:i]
	}
	return ""
}

func baseOf(p string) string {
	if i := strings.LastIndexByte(p, '/'); i >= 0 {
		return p[i+1:]
	}
	return p
}

// fileClass names the role of a path so that keys are stable: manifest, metadata.json, tag.type, part data file ...
func fileClass(p string) string {
	b := baseOf(p)
	switch {
	case strings.HasSuffix(b, ".snp"):
		return "manifest (*.snp)"
	case strings.HasSuffix(b, ".snp.tmp"):
		return "manifest tmp (*.snp.tmp)"
	case b == "metadata.json" || b == "manifest.json" || b == "tag.type" || b == "smeta.bin":
		return b
	case strings.HasSuffix(b, ".tmp"):
		return b
	case hex16.MatchString(b):
		return "part directory"
	case hex16.MatchString(baseOf(dirOf(p))):
		return "part data file"
	}
	return b
}

// atomicOnly are the files that must only ever appear by rename of a synced tmp sibling.
func atomicOnly(p string) bool {
	b := baseOf(p)
	return strings.HasSuffix(b, ".snp") || commitRecord(b) || b == "tag.type" || b == "smeta.bin"
}

// commitRecord: the file whose atomic appearance commits a part directory (measure/stream: metadata.json, sidx:
// manifest.json).
func commitRecord(base string) bool {
	return base == "metadata.json" || base == "manifest.json"
}

// nextEffect returns the index of the first op after k that is not open/close/mark (and not one of skip kinds).
func nextEffect(ops []crashfs.Op, k int, skip ...string) int {
outer:
	for i := k + 1; i < len(ops); i++ {
		switch ops[i].Kind {
		case "open", "close", "mark":
			continue
		}
		for _, s := range skip {
			if ops[i].Kind == s {
				continue outer
			}
		}
		return i
	}
	return -1
}

// newestDurableManifest returns the part names listed by the durable, fully synced manifest with the highest epoch.
func newestDurableManifest(fs *crashfs.FS) (name string, parts map[string]bool) {
	ents, ok := fs.DurableDir(shardDir)
	if !ok {
		return "", nil
	}
	sort.Strings(ents)
	for i := len(ents) - 1; i >= 0; i-- {
		if !strings.HasSuffix(ents[i], ".snp") {
			continue
		}
		data, exists, clean := fs.DurableFile(shardDir + "/" + ents[i])
		var names []string
		if !exists || !clean || json.Unmarshal(data, &names) != nil {
			continue
		}
		parts = map[string]bool{}
		for _, n := range names {
			parts[n] = true
		}
		return ents[i], parts
	}
	return "", nil
}

// traceInvariants checks the ordering contracts of every pkg/fs primitive call in the recorded log:
//
//	T1 atomic replace: a "<x>.tmp -> <x>" rename happens only when every byte of the tmp file is synced, and the next
//	   effect after it is the fsync of the directory
//	T2 manifest / metadata.json / tag.type / smeta.bin never come into existence other than by such a rename
//	T3 mkdir is followed by the fsync of the parent before anything else happens
//	T4 a manifest is published (renamed into place) only when every part directory it names that exists on disk is
//	   durable with all its files, including metadata.json
//	T5 a manifest is unlinked only when a newer manifest is durable
//	T6 a part directory is dismantled only when the newest durable manifest does not name it
//	T8 metadata.json is the commit record of a part: once it is renamed into place nothing else is created or written
//	   in that part directory
func traceInvariants(ops []crashfs.Op, counts map[string]int) []traceViolation {
	var out []traceViolation
	seen := map[string]bool{}
	committed := map[string]bool{} // part directories whose metadata.json is in place
	bad := func(k int, key, detail string) {
		if !seen[key] {
			seen[key] = true
			out = append(out, traceViolation{Key: "trace: " + key, K: k, Detail: detail})
		}
	}
	err := crashfs.Enumerate(ops, crashfs.Config{}, func(fs *crashfs.FS, k int) error {
		if k >= len(ops) {
			return nil
		}
		op := ops[k]
		segmentTrace(fs, op, counts, func(key, detail string) { bad(k, key, detail) })
		if (op.Kind == "write" || (op.Kind == "open" && op.Flags&os.O_CREATE != 0)) && committed[dirOf(op.Path)] {
			bad(k, fmt.Sprintf("T8 %s is created or written after the part's commit record is in place", fileClass(op.Path)), op.Path)
		}
		if op.Kind == "rename" && commitRecord(baseOf(op.Path2)) {
			counts["T8_parts_committed"]++
			committed[dirOf(op.Path2)] = true
		}
		if op.Kind == "rmdir" {
			delete(committed, op.Path)
		}
		switch op.Kind {
		case "open":
			if op.Flags&os.O_CREATE != 0 {
				counts["T2_creates_checked"]++
			}
			if op.Flags&os.O_CREATE != 0 && atomicOnly(op.Path) {
				bad(k, fmt.Sprintf("T2 %s is created/truncated in place instead of being replaced atomically", fileClass(op.Path)), op.Path)
			}
			// T9: the tmp sibling of an atomic replace starts empty. A tmp file left behind by a crash between
			// fsync(tmp) and rename may be longer than the next payload for the same name; without O_TRUNC (or O_EXCL)
			// the stale tail survives and the renamed file is torn.
			if op.Flags&os.O_CREATE != 0 && strings.HasSuffix(op.Path, ".tmp") && atomicOnly(strings.TrimSuffix(op.Path, ".tmp")) {
				counts["T9_tmp_opens_checked"]++
				if op.Flags&(os.O_TRUNC|os.O_EXCL) == 0 {
					bad(k, fmt.Sprintf("T9 %s: the tmp file of an atomic replace is opened without O_TRUNC/O_EXCL, a stale longer tmp from an earlier crash would be published torn", fileClass(strings.TrimSuffix(op.Path, ".tmp"))), op.Path)
				}
			}
		case "rename":
			if op.Path != op.Path2+".tmp" {
				counts["other_renames"]++
				return nil
			}
			counts["T1_atomic_renames"]++
			data, exists, clean := durableOfVolatile(fs, op.Path)
			if !exists || !clean || len(data) == 0 {
				bad(k, fmt.Sprintf("T1 %s: tmp file renamed into place before its content is synced", fileClass(op.Path2)), op.Path)
			}
			n := nextEffect(ops, k)
			if n < 0 || ops[n].Kind != "fsync" || ops[n].Path != dirOf(op.Path2) {
				what := "-"
				if n >= 0 {
					what = crashfs.Describe(ops[n])
				}
				bad(k, fmt.Sprintf("T1 %s: rename into place is not followed by fsync of its directory", fileClass(op.Path2)), "next effect: "+what)
			}
			if strings.HasSuffix(op.Path2, ".snp") {
				counts["T4_manifests_published"]++
				vol, _ := fs.VolatileFile(op.Path)
				var names []string
				if json.Unmarshal(vol, &names) != nil {
					bad(k, "T4 manifest content is not a JSON list", string(vol))
					return nil
				}
				for _, pn := range names {
					pd := dirOf(op.Path2) + "/" + pn
					files, onDisk := fs.VolatileDir(pd)
					if !onDisk {
						counts["T4_manifest_names_memory_part"]++
						continue
					}
					counts["T4_parts_checked"]++
					hasMeta := false
					for _, f := range files {
						if commitRecord(f) {
							hasMeta = true
						}
						if _, ex, cl := fs.DurableFile(pd + "/" + f); !ex || !cl {
							bad(k, fmt.Sprintf("T4 manifest published before %s of a part it names is durable", fileClass(pd+"/"+f)), pd+"/"+f)
						}
					}
					if !hasMeta {
						bad(k, "T4 manifest published before the commit record (metadata.json / manifest.json) of a part it names exists", pd)
					}
				}
			}
		case "mkdir":
			counts["T3_mkdirs"]++
			// the parent must be fsynced within the run of mkdirs and directory fsyncs that follows (MkdirAll may create
			// several levels: every level's parent has to be synced, not only the leaf's)
			ok := false
			for i := k + 1; i < len(ops) && !ok; i++ {
				switch ops[i].Kind {
				case "open", "close", "mark", "mkdir":
					continue
				case "fsync":
					if ops[i].Path == dirOf(op.Path) {
						ok = true
					}
					continue
				}
				break
			}
			if !ok {
				bad(k, fmt.Sprintf("T3 mkdir of %s is not followed by fsync of the parent directory", fileClass(op.Path)), op.Path)
			}
		case "unlink", "rmdir":
			switch {
			case strings.HasSuffix(op.Path, ".snp"):
				counts["T5_manifest_unlinks"]++
				newest, _ := newestDurableManifest(fs)
				if newest == "" || newest <= baseOf(op.Path) {
					bad(k, "T5 manifest unlinked before a newer manifest is durable", fmt.Sprintf("%s (newest durable: %q)", op.Path, newest))
				}
			case hex16.MatchString(baseOf(op.Path)) && dirOf(op.Path) == shardDir, hex16.MatchString(baseOf(dirOf(op.Path))) && dirOf(dirOf(op.Path)) == shardDir:
				counts["T6_part_removal_ops"]++
				part := baseOf(op.Path)
				if op.Kind == "unlink" {
					part = baseOf(dirOf(op.Path))
				}
				if newest, parts := newestDurableManifest(fs); parts[part] {
					bad(k, "T6 part directory dismantled while the newest durable manifest still names it", fmt.Sprintf("%s (manifest %s)", op.Path, newest))
				}
			}
		}
		return nil
	}, nil)
	if err != nil {
		fatal("trace: %v", err)
	}
	return out
}

// durableOfVolatile reports whether the file currently visible at p has all its content synced.
func durableOfVolatile(fs *crashfs.FS, p string) ([]byte, bool, bool) {
	return fs.FileSync(p)
}
