package main

import (
	"crypto/sha256"
	"fmt"
	"os"
	"path/filepath"
	"sort"
	"strings"

	"github.com/apache/skywalking-banyandb/banyand/measure"
	"github.com/apache/skywalking-banyandb/pkg/verif/crashfs"
	"github.com/apache/skywalking-banyandb/pkg/verif/vos"
)

const (
	shardDir    = "shard-0"
	historyBase = 0x1000 // first epoch of a fresh table in a recorded history (the real code uses the wall clock)
	recoverBase = 0x9000 // same for a table that recovery found empty
)

// history is a sequence of steps on one measure tsTable:
//
//	init  create the shard directory + initTSTable on it
//	w     write the next batch (memory part; acknowledged when introducePart returns)
//	fb fe the flusher's half (part files) and the introducer's half (introduceFlushed -> manifest) of a flush; f = fb fe
//	m     merge all file parts (mergeParts + introduceMerged -> manifest)
//	p     merge the two oldest file parts only
//	gc    garbageCleaner.clean, as the introducer loop calls it after every flush/merge introduction
//	drain run the queued background removals of merged parts (late histories)
type history struct {
	Name   string
	Kind   string // "" = measure tsTable history, "segment" = storage-level history (segment.go)
	Steps  []string
	Queued bool
}

var allSeries = []uint64{1, 2, 3}

// batch returns the rows of batch i (1-based). Batches overlap: a later batch overwrites (s1,t100) with a higher
// version and carries a lower version of (s2,t100), so "content of a prefix" is not a plain union.
func batch(i int) []measure.C04Row {
	if r, ok := batchCache[i]; ok {
		return r
	}
	r := makeBatch(i)
	batchCache[i] = r
	return r
}

var (
	batchCache = map[int][]measure.C04Row{}
	refCache   = map[int]string{}
)

func makeBatch(i int) []measure.C04Row {
	var rows []measure.C04Row
	add := func(s uint64, ts, ver int64) {
		h := sha256.Sum256([]byte(fmt.Sprintf("pad-%d-%d-%d-%d", i, s, ts, ver)))
		pad := make([]byte, 0, 640)
		for len(pad) < 640 {
			pad = append(pad, h[:]...)
			h = sha256.Sum256(h[:])
		}
		rows = append(rows, measure.C04Row{Series: s, TS: ts, Version: ver, Val: int64(i*1000) + int64(s)*10 + ts%7, Pad: pad})
	}
	for j := 0; j < 6; j++ {
		add(uint64(1+j%3), int64(i*1000+j*10), 1)
	}
	add(1, 100, int64(10+i)) // every batch overwrites (s1,100) with a higher version
	add(2, 100, int64(10-i)) // and loses on (s2,100) against earlier batches
	return rows
}

func rowKey(r measure.C04Row) string { return fmt.Sprintf("%d/%d", r.Series, r.TS) }

func canon(rows []measure.C04Row) string {
	var l []string
	for _, r := range rows {
		l = append(l, fmt.Sprintf("%d/%d/v%d/%d/%x", r.Series, r.TS, r.Version, r.Val, sha256.Sum256(r.Pad)))
	}
	sort.Strings(l)
	return strings.Join(l, "\n")
}

// reference content after batches 1..n (highest version of each (series, timestamp) wins), plus optional extra rows.
func reference(n int, extra ...[]measure.C04Row) string {
	if len(extra) == 0 {
		if s, ok := refCache[n]; ok {
			return s
		}
		s := reference0(n)
		refCache[n] = s
		return s
	}
	return reference0(n, extra...)
}

func reference0(n int, extra ...[]measure.C04Row) string {
	m := map[string]measure.C04Row{}
	put := func(rows []measure.C04Row) {
		for _, r := range rows {
			if o, ok := m[rowKey(r)]; !ok || r.Version > o.Version {
				m[rowKey(r)] = r
			}
		}
	}
	for i := 1; i <= n; i++ {
		put(batch(i))
	}
	for _, e := range extra {
		put(e)
	}
	var rows []measure.C04Row
	for _, r := range m {
		rows = append(rows, r)
	}
	return canon(rows)
}

func histories(thorough bool) []*history {
	mk := func(name string, queued bool, steps string) *history {
		return &history{Name: name, Queued: queued, Steps: strings.Fields(steps)}
	}
	hs := []*history{
		// DESIGN §3 C04: [init, write b1, write b2, flush, write b3, flush, merge(all), gc]
		mk("H1-eager", false, "init w w f gc w f gc m gc"),
		mk("H1-late", true, "init w w f gc w f gc m gc drain"),
		// b3 arrives between the flusher's file writes and the manifest publication: the manifest names a memory part
		mk("H2-interleaved", false, "init w w fb w fe gc f gc m gc"),
		// storage level: OpenTSDB, create a segment and its shard, write two files durably into the shard, close
		{Name: "S1-segment", Kind: "segment", Steps: strings.Fields("open seg tab d d close")},
	}
	depth := 5
	if thorough {
		depth = 7
	}
	hs = append(hs, generated("", "G", depth, "wfmp", thorough)...)
	// the same alphabet on a secondary-index instance (sidx.go)
	hs = append(hs,
		&history{Name: "X1-sidx-eager", Kind: "sidx", Steps: strings.Fields("init w w f gc w f gc m gc")},
		&history{Name: "X1-sidx-late", Kind: "sidx", Queued: true, Steps: strings.Fields("init w w f gc w f gc m gc drain")},
		&history{Name: "X2-sidx-interleaved", Kind: "sidx", Steps: strings.Fields("init w w fb w fe gc f gc m gc")},
	)
	// and on the stream tsTable (stream.go)
	hs = append(hs,
		&history{Name: "R1-stream-eager", Kind: "stream", Steps: strings.Fields("init w w f gc w f gc m gc")},
		&history{Name: "R2-stream-interleaved", Kind: "stream", Steps: strings.Fields("init w w fb w fe gc f gc m gc")},
	)
	// and on the real trace tsTable with one attached index (tracetable.go)
	hs = append(hs,
		&history{Name: "T1-trace-eager", Kind: "trace", Steps: strings.Fields("init w w f gc w f gc m gc")},
		&history{Name: "T1-trace-late", Kind: "trace", Queued: true, Steps: strings.Fields("init w w f gc w f gc m gc drain")},
		&history{Name: "T2-trace-interleaved", Kind: "trace", Steps: strings.Fields("init w w fb w fe gc f gc m gc")},
	)
	if thorough {
		hs = append(hs, generated("trace", "TG", 5, "wfmpi", true)...)
		hs = append(hs, &history{Name: "R1-stream-late", Kind: "stream", Queued: true, Steps: strings.Fields("init w w f gc w f gc m gc drain")})
		hs = append(hs, generated("sidx", "XG", 5, "wfmpi", true)...)
		hs = append(hs, generated("stream", "RG", 5, "wfmpi", true)...)
	}
	return hs
}

// generated returns every history of up to depth steps over the alphabet (w write, f flush, m merge all file parts,
// p merge the two oldest file parts, i = flush with a write landing between the flusher's and the introducer's half) in
// which each step has an effect and the last one publishes a manifest; gc follows every publication as in the
// introducer loop. late adds, for every history that merges, the variant with late background removal.
func generated(kind, tag string, depth int, alphabet string, late bool) []*history {
	var hs []*history
	expand := map[string]string{"w": "w", "f": "f gc", "m": "m gc", "p": "p gc", "i": "fb w fe gc"}
	seen := map[string]bool{}
	var gen func(prefix []string, mem, file int)
	gen = func(prefix []string, mem, file int) {
		if len(prefix) > 0 && prefix[len(prefix)-1] != "w" {
			steps := []string{"init"}
			for _, c := range prefix {
				steps = append(steps, strings.Fields(expand[c])...)
			}
			key := strings.Join(steps, " ")
			if !seen[key] {
				seen[key] = true
				name := strings.Join(prefix, "")
				hs = append(hs, &history{Name: tag + ":" + name, Kind: kind, Steps: steps})
				if late && strings.ContainsAny(name, "mp") {
					hs = append(hs, &history{Name: tag + "L:" + name, Kind: kind, Queued: true, Steps: append(append([]string{}, steps...), "drain")})
				}
			}
		}
		if len(prefix) == depth {
			return
		}
		next := func(c string, m, f int) { gen(append(append([]string{}, prefix...), c), m, f) }
		if strings.Contains(alphabet, "w") {
			next("w", mem+1, file)
		}
		if mem > 0 && strings.Contains(alphabet, "f") {
			next("f", 0, file+mem)
		}
		if mem > 0 && strings.Contains(alphabet, "i") {
			next("i", 1, file+mem)
		}
		if file >= 2 && strings.Contains(alphabet, "m") {
			next("m", mem, 1)
		}
		if file >= 3 && strings.Contains(alphabet, "p") {
			next("p", mem, file-1)
		}
	}
	gen(nil, 0, 0)
	return hs
}

type recording struct {
	digest string
	ops    []crashfs.Op
	approx []string
}

// record runs h once on the real write path with the I/O log switched on.
func record(h *history, scratch string) *recording {
	if h.Kind == "segment" {
		return recordSegment(h, scratch)
	}
	if k := tableKinds[h.Kind]; k != nil {
		return recordTable(h, k, scratch)
	}
	root, err := os.MkdirTemp(scratch, "rec-")
	if err != nil {
		fatal("%v", err)
	}
	defer os.RemoveAll(root)
	dir := filepath.Join(root, shardDir)
	vos.VerifStart(h.Queued)
	var t *measure.C04Table
	nBatch := 0
	partBatches := map[uint64][]int{} // part id -> batches it holds
	nextPart := uint64(0)
	covered := func() int {
		ids, mem := t.AllParts()
		in := map[int]bool{}
		for i, id := range ids {
			if !mem[i] {
				for _, b := range partBatches[id] {
					in[b] = true
				}
			}
		}
		n := 0
		for in[n+1] {
			n++
		}
		return n
	}
	func() {
		defer func() {
			if p := recover(); p != nil {
				vos.VerifStop()
				fatal("history %s panicked while recording: %v", h.Name, p)
			}
		}()
		for i, s := range h.Steps {
			vos.VerifMark(fmt.Sprintf("begin:%d:%s", i, s))
			switch s {
			case "init":
				t = measure.C04Open(dir, historyBase)
			case "w":
				nBatch++
				nextPart++
				partBatches[nextPart] = []int{nBatch}
				t.Write(batch(nBatch))
				vos.VerifMark(fmt.Sprintf("acked:%d", nBatch))
			case "f", "fb", "fe":
				if s != "fe" && !t.FlushBegin() {
					fatal("history %s step %d: nothing to flush", h.Name, i)
				}
				if s != "fb" {
					t.FlushEnd()
					vos.VerifMark(fmt.Sprintf("published:%d", covered()))
				}
			case "m", "p":
				ids := t.FileParts()
				if s == "p" {
					ids = ids[:2]
				}
				ok, merr := t.Merge(ids)
				if merr != nil || !ok {
					fatal("history %s step %d: merge did not run (%v)", h.Name, i, merr)
				}
				nextPart++
				for _, id := range ids {
					partBatches[nextPart] = append(partBatches[nextPart], partBatches[id]...)
				}
				vos.VerifMark(fmt.Sprintf("published:%d", covered()))
			case "gc":
				t.GC()
			case "drain":
				vos.VerifDrain()
			default:
				fatal("unknown step %q", s)
			}
			vos.VerifMark(fmt.Sprintf("end:%d", i))
		}
	}()
	raw := vos.VerifStop()
	if t != nil {
		want := reference(nBatch)
		rows, cerr := t.Content(allSeries)
		if cerr != nil || canon(rows) != want {
			fatal("history %s: live table content differs from the reference model (%v)", h.Name, cerr)
		}
		t.Close()
	}
	return finishRecording(h, root, raw, nil)
}

// finishRecording normalises the log and checks that the model agrees with the real directory at the end.
func finishRecording(h *history, root string, raw []crashfs.Op, ignore func(rel string) bool) *recording {
	ops, err := crashfs.Normalize(root, raw)
	if err != nil {
		fatal("history %s: %v", h.Name, err)
	}
	rec := &recording{ops: ops, digest: digestOps(ops)}
	// the model must agree with the real directory at the end of the recording
	fs := crashfs.New()
	for k, op := range ops {
		if aerr := fs.Apply(op); aerr != nil {
			fatal("history %s op %d: %v", h.Name, k, aerr)
		}
	}
	rec.approx = fs.Approx
	if diff := compareTree(fs.Volatile(), root, ignore); diff != "" {
		fatal("history %s: model file system differs from the real directory after the recording: %s", h.Name, diff)
	}
	return rec
}

// compareTree checks that the real directory below root equals the model tree.
func compareTree(t *crashfs.Tree, root string, ignore func(rel string) bool) string {
	want := map[string]string{}
	for _, d := range t.Dirs {
		want[d] = "dir"
	}
	for _, f := range t.Files {
		want[f.Path] = string(f.Data)
	}
	diff := ""
	_ = filepath.Walk(root, func(p string, info os.FileInfo, err error) error {
		if err != nil || p == root {
			return nil
		}
		rel, _ := filepath.Rel(root, p)
		if ignore != nil && ignore(rel) {
			if info.IsDir() {
				return filepath.SkipDir
			}
			return nil
		}
		w, ok := want[rel]
		if !ok {
			diff = "unexpected " + rel
			return nil
		}
		delete(want, rel)
		if info.IsDir() {
			if w != "dir" {
				diff = rel + " is a directory"
			}
			return nil
		}
		b, _ := os.ReadFile(p)
		if string(b) != w {
			diff = "content of " + rel
		}
		return nil
	})
	if diff == "" && len(want) > 0 {
		for k := range want {
			return "missing " + k
		}
	}
	return diff
}
