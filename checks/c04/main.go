// C04: a crash at any point recovers to a consistent durable prefix (Engine C: crash-point and lost-write enumeration).
//
// driver : records every history once on the real write path (pkg/fs compiled against the vos/vunix logging shims),
//
//	checks the ordering contracts over the whole log (trace.go), then shards the crash states over workers.
//
// worker : rebuilds the same logs, enumerates every crash state (mc/crashfs), materialises each distinct one under
//
//	/dev/shm and hands it to the real recovery code (recover.go), evaluates the oracle for every (position, state).
package main

import (
	"crypto/sha256"
	"encoding/binary"
	"encoding/hex"
	"encoding/json"
	"fmt"
	"os"
	"sort"
	"strings"

	"github.com/apache/skywalking-banyandb/pkg/logger"
	"github.com/apache/skywalking-banyandb/pkg/verif/crashfs"
	"github.com/apache/skywalking-banyandb/pkg/verif/ev"
	"github.com/apache/skywalking-banyandb/pkg/verif/par"
)

const nWorkers = 16

var scratchDir string

func fatal(format string, a ...any) {
	fmt.Fprintf(os.Stderr, "c04: harness error: "+format+"\n", a...)
	if scratchDir != "" {
		os.RemoveAll(scratchDir)
	}
	os.Exit(2)
}

// posInfo is the oracle-relevant context of one log position.
type posInfo struct {
	step    string // token of the history step the position lies in ("" = between steps)
	stepIdx int
	acked   int // batches acknowledged before this position
	durable int // batches covered by the last manifest whose publication had returned before this position
	inside  bool
}

func positions(ops []crashfs.Op) []posInfo {
	out := make([]posInfo, len(ops)+1)
	cur := posInfo{stepIdx: -1}
	for k := 0; k <= len(ops); k++ {
		out[k] = cur
		if k == len(ops) {
			break
		}
		if op := ops[k]; op.Kind == "mark" {
			var a, b int
			var s string
			switch {
			case scan(op.Note, "begin:%d:%s", &a, &s):
				cur.step, cur.stepIdx, cur.inside = s, a, true
			case scan(op.Note, "end:%d", &a):
				cur.inside = false
			case scan(op.Note, "acked:%d", &a):
				cur.acked = a
			case scan(op.Note, "published:%d", &b):
				cur.durable = b
			}
		}
	}
	return out
}

func scan(s, format string, a ...any) bool {
	n, err := fmt.Sscanf(s, format, a...)
	return err == nil && n == len(a)
}

type violation struct {
	Key      string         `json:"key"`
	Artefact map[string]any `json:"artefact"`
	Count    int            `json:"count"`
	K        int            `json:"k"`
	Dev      int            `json:"dev"`
}

type workerResult struct {
	Counts     map[string]int        `json:"counts"`
	Outcomes   map[string]int        `json:"outcomes"`
	Violations map[string]*violation `json:"violations"`
	Samples    []any                 `json:"samples"`
	Nontrivial int                   `json:"nontrivial"`
	Recovered  int                   `json:"recovered"`
}

func newResult() *workerResult {
	return &workerResult{Counts: map[string]int{}, Outcomes: map[string]int{}, Violations: map[string]*violation{}}
}

func (w *workerResult) violate(key string, k, dev int, art map[string]any) {
	v := w.Violations[key]
	if v == nil {
		w.Violations[key] = &violation{Key: key, K: k, Dev: dev, Artefact: art, Count: 1}
		return
	}
	v.Count++
	d, vd := dev, v.Dev
	if d < 0 {
		d = 1 << 20
	}
	if vd < 0 {
		vd = 1 << 20
	}
	if d < vd || (d == vd && k < v.K) {
		v.K, v.Dev, v.Artefact = k, dev, art
	}
}

func cfgFor(thorough bool) crashfs.Config {
	if thorough {
		return crashfs.Config{MaxDev: 3, AllDropped: true, FileIntermediate: true}
	}
	return crashfs.Config{MaxDev: 2, AllDropped: true, FileIntermediate: true}
}

func devName(st *crashfs.State) string {
	switch {
	case st.Model != "powerloss":
		return st.Model
	case st.Dev < 0:
		return "powerloss_all_dropped"
	}
	return fmt.Sprintf("powerloss_dev%d", st.Dev)
}

// explore enumerates the crash states of one recorded history; mine selects the states this process recovers.
func explore(h *history, rec *recording, cfg crashfs.Config, res *workerResult, cache map[[32]byte]*observation, scratch string,
	mine func(d [32]byte) bool, only string,
) {
	pos := positions(rec.ops)
	err := crashfs.Enumerate(rec.ops, cfg, nil, func(st *crashfs.State) error {
		if only != "" && st.ID != only {
			return nil
		}
		d := st.Tree.Digest()
		d[31] ^= byte(len(h.Kind)) // observations of different history kinds are not interchangeable
		if !mine(d) {
			return nil
		}
		res.Counts["states_"+devName(st)]++
		res.Counts["states_total"]++
		ob := cache[d]
		if ob == nil {
			ob = recoverState(h, st.Tree, scratch)
			cache[d] = ob
			res.Recovered++
			if ob.Nontrivial != "" {
				res.Nontrivial++
			}
			if len(res.Samples) < 3 && ob.Nontrivial != "" && len(st.Picks) > 0 {
				res.Samples = append(res.Samples, map[string]any{"history": h.Name, "state": st.ID, "picks": st.Picks,
					"crash_before_op": opAt(rec.ops, st.K), "recovered_batches": ob.Prefix, "recovery_work": ob.Nontrivial})
			}
		}
		p := pos[st.K]
		if p.inside {
			res.Counts["states_inside_a_step"]++
		}
		res.Outcomes[fmt.Sprintf("recovered=b1..b%d acked=%d durable=%d %s", ob.Prefix, p.acked, p.durable, ob.Shape)]++
		for _, class := range judge(ob, p, h) {
			key := fmt.Sprintf("%s: %s | crash in step %q, model=%s", h.Name, class, p.step, modelOf(st))
			res.violate(key, st.K, st.Dev, map[string]any{
				"history": h.Name, "kind": h.Kind, "steps": h.Steps, "queued_background_removal": h.Queued, "state": st.ID, "k": st.K,
				"model": st.Model, "deviation": st.Dev, "torn_bytes": st.Torn, "picks": st.Picks,
				"last_op_applied": opAt(rec.ops, st.K-1), "op_in_flight": opAt(rec.ops, st.K), "acked_batches": p.acked,
				"durably_published_batches": p.durable, "log_digest": rec.digest, "crash_tree": st.Tree.Listing(), "observation": ob,
			})
		}
		return nil
	})
	if err != nil {
		fatal("history %s: %v", h.Name, err)
	}
}

func modelOf(st *crashfs.State) string {
	if st.Model == "powerloss" {
		return "powerloss"
	}
	return "kill9"
}

func opAt(ops []crashfs.Op, k int) string {
	if k < 0 || k >= len(ops) {
		return "-"
	}
	return crashfs.Describe(ops[k])
}

func main() {
	_ = logger.Init(logger.Logging{Env: "prod", Level: "fatal"})
	thorough := ev.Thorough()
	cfg := cfgFor(thorough)
	scratch, err := os.MkdirTemp("/dev/shm", "c04-")
	if err != nil {
		fatal("%v", err)
	}
	scratchDir = scratch
	defer os.RemoveAll(scratch)

	if rp := ev.Arg("--replay"); rp != "" {
		os.Exit(replay(rp, scratch))
	}
	hs := histories(thorough)
	if only := ev.Arg("--history"); only != "" {
		var f []*history
		for _, h := range hs {
			if h.Name == only {
				f = append(f, h)
			}
		}
		hs = f
	}

	if ev.Arg("--dump") != "" {
		for _, h := range hs {
			rec := record(h, scratch)
			fmt.Printf("== %s (%s) digest %s\n", h.Name, strings.Join(h.Steps, " "), rec.digest)
			for k, op := range rec.ops {
				fmt.Printf("%4d %s\n", k, crashfs.Describe(op))
			}
		}
		os.RemoveAll(scratch)
		return
	}
	if wi, wn, ok := par.Worker(); ok {
		res := newResult()
		cache := map[[32]byte]*observation{}
		want := strings.Split(os.Getenv("C04_DIGESTS"), ",")
		for i, h := range hs {
			rec := record(h, scratch)
			if i < len(want) && want[i] != "" && want[i] != rec.digest {
				fatal("worker %d: log of history %s differs from the driver's (nondeterministic recording)", wi, h.Name)
			}
			explore(h, rec, cfg, res, cache, scratch, func(d [32]byte) bool {
				return int(binary.LittleEndian.Uint64(d[:8])%uint64(wn)) == wi
			}, "")
		}
		for k, v := range lifeStats {
			res.Counts[k] += v
		}
		b, _ := json.Marshal(res)
		par.Emit(b)
		os.RemoveAll(scratch)
		return
	}

	r := ev.New("C04", "fault_enumeration")
	var digests []string
	totalOps, totalPos := 0, 0
	traceChecks := map[string]int{}
	for _, h := range hs {
		rec := record(h, scratch)
		again := record(h, scratch)
		if rec.digest != again.digest {
			fatal("history %s: two recordings differ (nondeterministic log)", h.Name)
		}
		digests = append(digests, rec.digest)
		totalOps += len(rec.ops)
		totalPos += len(rec.ops) + 1
		for _, tv := range traceInvariants(rec.ops, traceChecks) {
			r.Violation(fmt.Sprintf("%s: %s", h.Name, tv.Key), map[string]any{"history": h.Name, "kind": h.Kind, "steps": h.Steps, "trace": true,
				"k": tv.K, "op": opAt(rec.ops, tv.K), "detail": tv.Detail, "log_digest": rec.digest})
		}
		if len(rec.approx) > 0 {
			r.Assume("model approximations used: " + strings.Join(rec.approx, "; "))
		}
	}
	results, perr := par.Run(nWorkers, "C04_DIGESTS="+strings.Join(digests, ","))
	if perr != nil {
		fatal("%v", perr)
	}
	if len(results) != nWorkers {
		fatal("expected %d worker results, got %d", nWorkers, len(results))
	}
	total := newResult()
	for _, b := range results {
		var w workerResult
		if err := json.Unmarshal(b, &w); err != nil {
			fatal("worker result: %v", err)
		}
		for k, v := range w.Counts {
			total.Counts[k] += v
		}
		for k, v := range w.Outcomes {
			total.Outcomes[k] += v
		}
		total.Nontrivial += w.Nontrivial
		total.Recovered += w.Recovered
		total.Samples = append(total.Samples, w.Samples...)
		for k, v := range w.Violations {
			for i := 0; i < v.Count; i++ {
				total.violate(k, v.K, v.Dev, v.Artefact)
			}
		}
	}
	keys := make([]string, 0, len(total.Violations))
	for k := range total.Violations {
		keys = append(keys, k)
	}
	sort.Strings(keys)
	classes := map[string]int{}
	for _, k := range keys {
		v := total.Violations[k]
		v.Artefact["states_with_this_key"] = v.Count
		r.Violation(k, v.Artefact)
		c := k[strings.Index(k, ": ")+2:]
		if i := strings.Index(c, " | crash in step"); i > 0 {
			c = c[:i] + " [" + c[strings.LastIndex(c, "model="):] + "]"
		}
		classes[c] += v.Count
	}
	if len(classes) > 0 {
		cl := make([]string, 0, len(classes))
		for c, n := range classes {
			cl = append(cl, fmt.Sprintf("  class: %s (%d crash states, incl. known findings)", c, n))
		}
		sort.Strings(cl)
		fmt.Println(strings.Join(cl, "\n"))
	}
	r.Set("histories", len(hs))
	var hn []string
	for _, h := range hs {
		hn = append(hn, h.Name+"="+strings.Join(h.Steps, " "))
	}
	r.Set("history_list", hn)
	r.Set("log_ops_total", totalOps)
	r.Set("crash_points", totalPos)
	for k, v := range total.Counts {
		r.Set(k, v)
	}
	for k, v := range traceChecks {
		r.Set("trace_"+k, v)
	}
	r.Set("evaluations", total.Counts["states_total"])
	r.Set("distinct_crash_states_recovered", total.Recovered)
	r.Set("distinct_nontrivial", total.Nontrivial)
	r.Set("rule", "distinct crash states (by content digest of the materialised tree) in which the real recovery had to do work: it removed at least one directory entry (orphan part, stale/unreadable manifest, invalid part) or fell back to a manifest older than the newest one present")
	r.Set("distinct_outcomes", len(total.Outcomes))
	ok := make([]string, 0, len(total.Outcomes))
	for k, v := range total.Outcomes {
		ok = append(ok, fmt.Sprintf("%s x%d", k, v))
	}
	sort.Strings(ok)
	r.Set("outcomes", ok)
	r.Set("bounds", fmt.Sprintf("power-loss deviation <= %d + all-dropped extreme; file-intermediate=%v; torn writes at 4 KiB", cfg.MaxDev, cfg.FileIntermediate))
	for _, s := range total.Samples {
		r.Sample(s)
	}
	r.Assume("POSIX-pessimistic durability: file content durable only by fsync/fdatasync of the file, directory entries only by fsync of that directory; per directory pending entry operations persist as a prefix")
	r.Assume("an unsynced file that is reachable after power loss has its last synced content (never garbage)")
	r.Assume("background part removal (partWrapper.decRef goroutine) runs at its spawn point (eager histories) or at the end (late histories)")
	fmt.Printf("C04: %d histories, %d log ops, %d crash points, %d crash states (%d distinct recovered, %d non-trivial), %d outcomes\n",
		len(hs), totalOps, totalPos, total.Counts["states_total"], total.Recovered, total.Nontrivial, len(total.Outcomes))
	os.RemoveAll(scratch)
	r.Finish()
}

func replay(path, scratch string) int {
	b, err := os.ReadFile(path)
	if err != nil {
		fatal("%v", err)
	}
	var doc struct {
		Key      string `json:"key"`
		Artefact struct {
			History   string   `json:"history"`
			State     string   `json:"state"`
			LogDigest string   `json:"log_digest"`
			Steps     []string `json:"steps"`
			Kind      string   `json:"kind"`
			K         int      `json:"k"`
			Queued    bool     `json:"queued_background_removal"`
			Trace     bool     `json:"trace"`
		} `json:"artefact"`
	}
	if err := json.Unmarshal(b, &doc); err != nil {
		fatal("%v", err)
	}
	a := doc.Artefact
	h := &history{Name: a.History, Kind: a.Kind, Steps: a.Steps, Queued: a.Queued}
	rec := record(h, scratch)
	if rec.digest != a.LogDigest {
		fmt.Printf("note: the recorded log differs from the one of the artefact (the code under test changed)\n")
	}
	failed := false
	if a.Trace {
		for _, tv := range traceInvariants(rec.ops, map[string]int{}) {
			fmt.Printf("trace violation: %s (op %d %s) %s\n", tv.Key, tv.K, opAt(rec.ops, tv.K), tv.Detail)
			if fmt.Sprintf("%s: %s", h.Name, tv.Key) == doc.Key {
				failed = true
			}
		}
	} else {
		res := newResult()
		explore(h, rec, cfgFor(true), res, map[[32]byte]*observation{}, scratch, func([32]byte) bool { return true }, a.State)
		if res.Counts["states_total"] == 0 {
			fmt.Printf("state %s no longer exists in the log\n", a.State)
		}
		for k, v := range res.Violations {
			o, _ := json.MarshalIndent(v.Artefact["observation"], "", " ")
			fmt.Printf("violation: %s\n%s\n", k, o)
			failed = true
		}
	}
	os.RemoveAll(scratch)
	if failed {
		fmt.Println("replay: still failing")
		return 1
	}
	fmt.Println("replay: passes")
	return 0
}

func digestOps(ops []crashfs.Op) string {
	h := sha256.New()
	for _, op := range ops {
		fmt.Fprintf(h, "%s|%s|%s|%s|%d|%d|%d|", op.Kind, op.Path, op.Path2, op.Note, op.H, op.Flags, op.Off)
		h.Write(op.Data)
		h.Write([]byte{0})
	}
	return hex.EncodeToString(h.Sum(nil))[:24]
}
