package main

import (
	"encoding/json"
	"fmt"
	"os"
	"path/filepath"
	"regexp"
	"sort"
	"strconv"
	"strings"

	"github.com/apache/skywalking-banyandb/banyand/measure"
	"github.com/apache/skywalking-banyandb/pkg/verif/crashfs"
)

// observation is everything the oracle needs from one recovery of one crash state; it does not depend on the crash
// position, so it is computed once per distinct state.
type observation struct {
	Panic       string   `json:"recovery_panic,omitempty"`
	ReadError   string   `json:"read_error,omitempty"`
	Post        string   `json:"post_recovery_failure,omitempty"`
	Nontrivial  string   `json:"recovery_work,omitempty"`
	Shape       string   `json:"shape"`
	Served      []string `json:"served_parts"`
	Problems    []string `json:"problems,omitempty"` // oracle classes that hold for every crash position
	Removed     []string `json:"removed_by_recovery,omitempty"`
	Dangling    []string `json:"manifest_entries_without_part,omitempty"`
	After       []string `json:"shard_dir_after_recovery"`
	Prefix      int      `json:"recovered_prefix"` // recovered content == batches 1..Prefix; -1 = not a prefix
	Rows        int      `json:"rows"`
	LoadedEpoch uint64   `json:"loaded_epoch"`
	Lives       string   `json:"graceful_restart_chain,omitempty"` // round 2, lives.go
}

var (
	hex16   = regexp.MustCompile(`^[0-9a-f]{16}$`)
	idRe    = regexp.MustCompile(`[0-9a-f]{16}`)
	pathRe  = regexp.MustCompile(`/dev/shm/[^ "]*/(` + shardDir + `)`)
	maxHist = 8
)

func guard(f func()) (msg string) {
	defer func() {
		if p := recover(); p != nil {
			msg = strings.TrimSpace(pathRe.ReplaceAllString(fmt.Sprint(p), "$1"))
			if i := strings.IndexByte(msg, '\n'); i > 0 {
				msg = msg[:i]
			}
			msg = idRe.ReplaceAllString(msg, "<id>")
			if i := strings.Index(msg, ": File system return error"); i > 0 {
				msg = msg[:i]
			}
			if len(msg) > 160 {
				msg = msg[:160]
			}
			if msg == "" {
				msg = "panic"
			}
		}
	}()
	f()
	return ""
}

func listDir(dir string) []string {
	ee, err := os.ReadDir(dir)
	if err != nil {
		return nil
	}
	var out []string
	for _, e := range ee {
		n := e.Name()
		if e.IsDir() {
			n += "/"
		}
		out = append(out, n)
	}
	sort.Strings(out)
	return out
}

// recoverState materialises the crash state and runs the real start-up path on it.
func recoverState(h *history, tree *crashfs.Tree, scratch string) *observation {
	if h.Kind == "segment" {
		return recoverSegment(tree, scratch)
	}
	if k := tableKinds[h.Kind]; k != nil {
		return recoverTable(k, tree, scratch)
	}
	ob := &observation{Prefix: -1}
	root, err := os.MkdirTemp(scratch, "st-")
	if err != nil {
		fatal("%v", err)
	}
	defer os.RemoveAll(root)
	if err := tree.Materialize(root); err != nil {
		fatal("materialize: %v", err)
	}
	dir := filepath.Join(root, shardDir)
	before := listDir(dir)
	var newestSnp uint64
	for _, n := range before {
		if strings.HasSuffix(n, ".snp") && len(n) == 20 {
			if e, perr := strconv.ParseUint(n[:16], 16, 64); perr == nil && e > newestSnp {
				newestSnp = e
			}
		}
	}

	var t *measure.C04Table
	if ob.Panic = guard(func() { t = measure.C04Open(dir, recoverBase) }); ob.Panic != "" {
		ob.Shape = "recovery panicked"
		ob.Problems = append(ob.Problems, "recovery panic: "+ob.Panic)
		return ob
	}
	ob.LoadedEpoch = t.LoadedEpoch
	var rows []measure.C04Row
	if msg := guard(func() {
		var rerr error
		if rows, rerr = t.Content(allSeries); rerr != nil {
			panic(rerr)
		}
	}); msg != "" {
		ob.ReadError = msg
		ob.Problems = append(ob.Problems, "recovered table cannot be read: "+msg)
	}
	ob.Rows = len(rows)
	got := canon(rows)
	for j := 0; j <= maxHist; j++ {
		if got == reference(j) {
			ob.Prefix = j
			break
		}
	}
	if ob.Prefix < 0 && ob.ReadError == "" {
		ob.Problems = append(ob.Problems, fmt.Sprintf("recovered content (%d rows) is not the content of any prefix of the batches", len(rows)))
	}

	// directory after recovery against what the table serves
	ids, mem := t.AllParts()
	served := map[string]bool{}
	for i, id := range ids {
		name := measure.C04PartName(id)
		served[name] = true
		ob.Served = append(ob.Served, name)
		if mem[i] {
			ob.Problems = append(ob.Problems, "recovery produced a memory part")
		}
	}
	live, pendingGC := t.LiveEpoch()
	okSnp := map[string]bool{}
	if live != 0 {
		okSnp[measure.C04SnapshotName(live)] = true
	}
	for _, e := range pendingGC {
		okSnp[measure.C04SnapshotName(e)] = true
	}
	ob.After = listDir(dir)
	afterSet := map[string]bool{}
	for _, n := range ob.After {
		afterSet[n] = true
		base := strings.TrimSuffix(n, "/")
		switch {
		case strings.HasSuffix(n, "/") && hex16.MatchString(base):
			if !served[base] {
				ob.Problems = append(ob.Problems, "leftover: part directory not referenced by the live snapshot survives recovery")
			}
		case strings.HasSuffix(n, "/"):
			ob.Problems = append(ob.Problems, "leftover: unknown directory "+n)
		case strings.HasSuffix(n, ".snp.tmp"):
			ob.Problems = append(ob.Problems, "leftover: *.snp.tmp survives recovery")
		case strings.HasSuffix(n, ".tmp"):
			ob.Problems = append(ob.Problems, "leftover: *.tmp survives recovery in the shard directory")
		case strings.HasSuffix(n, ".snp"):
			if !okSnp[n] {
				e, _ := strconv.ParseUint(strings.TrimSuffix(n, ".snp"), 16, 64)
				switch {
				case live == 0:
					ob.Problems = append(ob.Problems, "leftover: *.snp survives recovery although no manifest was loaded")
				case e < live:
					ob.Problems = append(ob.Problems, "leftover: older *.snp next to the loaded manifest survives recovery and is not pending GC")
				default:
					ob.Problems = append(ob.Problems, "leftover: *.snp newer than the loaded manifest survives recovery")
				}
			}
		default:
			ob.Problems = append(ob.Problems, "leftover: unknown file "+n)
		}
	}
	for _, n := range before {
		if !afterSet[n] {
			ob.Removed = append(ob.Removed, n)
		}
	}
	for name := range served {
		pd := filepath.Join(dir, name)
		if !afterSet[name+"/"] {
			ob.Problems = append(ob.Problems, "served part has no directory")
			continue
		}
		if verr := measure.C04ValidatePart(pd); verr != nil {
			ob.Problems = append(ob.Problems, "served part does not validate")
		}
		for _, f := range listDir(pd) {
			if strings.HasSuffix(f, ".tmp") {
				ob.Problems = append(ob.Problems, "leftover: *.tmp inside a served part survives recovery")
			}
		}
	}
	if live != 0 {
		var names []string
		b, rerr := os.ReadFile(filepath.Join(dir, measure.C04SnapshotName(live)))
		if rerr != nil || json.Unmarshal(b, &names) != nil {
			ob.Problems = append(ob.Problems, "live manifest is missing or unreadable after recovery")
		}
		listed := map[string]bool{}
		for _, n := range names {
			listed[n] = true
			if !served[n] {
				ob.Dangling = append(ob.Dangling, n)
			}
		}
		for n := range served {
			if !listed[n] {
				ob.Problems = append(ob.Problems, "served part is not listed by the live manifest")
			}
		}
	} else if len(served) > 0 {
		ob.Problems = append(ob.Problems, "parts served without a live manifest")
	}
	sort.Strings(ob.Served)
	switch {
	case len(ob.Removed) > 0 && ob.LoadedEpoch != 0 && ob.LoadedEpoch < newestSnp:
		ob.Nontrivial = "fell back to an older manifest and removed entries"
	case ob.LoadedEpoch != 0 && ob.LoadedEpoch < newestSnp:
		ob.Nontrivial = "fell back to an older manifest"
	case len(ob.Removed) > 0:
		ob.Nontrivial = "removed entries"
	}
	ob.Shape = fmt.Sprintf("parts=%d dangling=%d work=%q", len(served), len(ob.Dangling), ob.Nontrivial)

	// the recovered table must be usable: one more batch, flush, gc, reopen
	if ob.ReadError == "" && ob.Prefix >= 0 {
		extra := batch(maxHist + 1)
		want := reference(ob.Prefix, extra)
		ob.Post = guard(func() {
			t.Write(extra)
			if !t.FlushBegin() {
				panic("nothing to flush after a write")
			}
			t.FlushEnd()
			t.GC()
			r2, e2 := t.Content(allSeries)
			if e2 != nil || canon(r2) != want {
				panic(fmt.Sprintf("content after write+flush on the recovered table is wrong (%v)", e2))
			}
			t.Close()
			t = nil
			t2 := measure.C04Open(dir, recoverBase+0x1000)
			defer t2.Close()
			r3, e3 := t2.Content(allSeries)
			if e3 != nil || canon(r3) != want {
				panic(fmt.Sprintf("content after reopening the recovered table is wrong (%v)", e3))
			}
		})
		if ob.Post != "" {
			ob.Problems = append(ob.Problems, "recovered table is not usable: "+ob.Post)
		}
	}
	if t != nil {
		_ = guard(t.Close)
	}
	// round 2: the same crash state once more, recovered and then only shut down gracefully and restarted (lives.go)
	lp, trail := gracefulLives(openMeasureLife, tree, scratch)
	ob.Problems, ob.Lives = append(ob.Problems, lp...), trail
	ob.Problems = uniq(ob.Problems)
	return ob
}

func uniq(l []string) []string {
	sort.Strings(l)
	var out []string
	for i, s := range l {
		if i == 0 || s != l[i-1] {
			out = append(out, s)
		}
	}
	return out
}

// judge returns the violation classes of one (crash position, recovered state) pair.
func judge(ob *observation, p posInfo, h *history) []string {
	if h.Kind == "segment" {
		return judgeSegment(ob, p)
	}
	out := append([]string(nil), ob.Problems...)
	if ob.Prefix >= 0 {
		if ob.Prefix > p.acked {
			out = append(out, fmt.Sprintf("recovered batches 1..%d but only %d were acknowledged", ob.Prefix, p.acked))
		}
		if ob.Prefix < p.durable {
			out = append(out, "durable prefix lost: recovered fewer batches than the last durably published snapshot covers")
		}
	}
	return out
}
