package main

import (
	"crypto/sha256"
	"fmt"
	"sort"
	"strings"

	"github.com/apache/skywalking-banyandb/banyand/stream"
	"github.com/apache/skywalking-banyandb/pkg/verif/vos"
)

// Table kind "stream": the real stream tsTable (initTSTable, introducePart, flush + introduceFlushed/persistSnapshot,
// mergeParts + introduceMerged, gc.clean) driven through inpkg/banyand/stream/c04.go; same structure as measure, no
// versions (an element is identified by series, timestamp, element id), no element index. The background removal of
// merged parts (`go` statement in stream/part.go, rewritten with -mode fsgo) runs at its spawn point or at `drain`.

type streamDriver struct{ t *stream.C04Table }

func openStream(dir string, freshEpoch uint64, _, _ bool) driver {
	return &streamDriver{t: stream.C04Open(dir, freshEpoch)}
}

var streamBatchCache = map[int][]stream.C04Row{}

func streamBatch(b int) []stream.C04Row {
	if r, ok := streamBatchCache[b]; ok {
		return r
	}
	var rows []stream.C04Row
	for j := 0; j < 6; j++ {
		h := sha256.Sum256([]byte(fmt.Sprintf("stream-%d-%d", b, j)))
		pad := make([]byte, 0, 640)
		for len(pad) < 640 {
			pad = append(pad, h[:]...)
			h = sha256.Sum256(h[:])
		}
		rows = append(rows, stream.C04Row{Series: uint64(1 + j%3), TS: int64(b*1000 + j*10), EID: uint64(b*100 + j), Val: int64(b*10 + j), Pad: pad})
	}
	streamBatchCache[b] = rows
	return rows
}

func streamCanon(rows []stream.C04Row) string {
	var l []string
	for _, r := range rows {
		l = append(l, fmt.Sprintf("%d/%d/%d/%d/%x", r.Series, r.TS, r.EID, r.Val, sha256.Sum256(r.Pad)))
	}
	sort.Strings(l)
	return strings.Join(l, "\n")
}

var streamRefCache = map[string]string{}

func streamReference(n int, extra bool) string {
	ck := fmt.Sprintf("%d/%v", n, extra)
	if s, ok := streamRefCache[ck]; ok {
		return s
	}
	var rows []stream.C04Row
	for b := 1; b <= n; b++ {
		rows = append(rows, streamBatch(b)...)
	}
	if extra {
		rows = append(rows, streamBatch(maxHist+1)...)
	}
	s := streamCanon(rows)
	streamRefCache[ck] = s
	return s
}

func (d *streamDriver) Write(b int)                      { d.t.Write(streamBatch(b)) }
func (d *streamDriver) FlushBegin() bool                 { return d.t.FlushBegin() }
func (d *streamDriver) FlushEnd()                        { d.t.FlushEnd() }
func (d *streamDriver) GC()                              { d.t.GC() }
func (d *streamDriver) Merge(ids []uint64) (bool, error) { return d.t.Merge(ids) }
func (d *streamDriver) Drain()                           { vos.VerifDrain() }
func (d *streamDriver) AllParts() ([]uint64, []bool)     { return d.t.AllParts() }
func (d *streamDriver) Live() (uint64, []uint64)         { return d.t.LiveEpoch() }
func (d *streamDriver) Loaded() uint64                   { return d.t.LoadedEpoch }
func (d *streamDriver) Close()                           { d.t.Close() }

func (d *streamDriver) FileParts() []uint64 {
	ids, mem := d.t.AllParts()
	var out []uint64
	for i, id := range ids {
		if !mem[i] {
			out = append(out, id)
		}
	}
	return out
}

func (d *streamDriver) Content() (string, int, error) {
	rows, err := d.t.Content(allSeries)
	if err != nil {
		return "", 0, err
	}
	return streamCanon(rows), len(rows), nil
}

func init() {
	tableKinds["stream"] = &tableKind{
		name: "stream", open: openStream, reference: streamReference, partName: stream.C04PartName, snapName: stream.C04SnapshotName,
		validate: stream.C04ValidatePart,
	}
}
