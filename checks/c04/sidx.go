package main

import (
	"context"
	"crypto/sha256"
	"encoding/json"
	"fmt"
	"path/filepath"
	"sort"
	"strconv"
	"strings"
	"sync"
	"time"

	"github.com/apache/skywalking-banyandb/api/common"
	"github.com/apache/skywalking-banyandb/banyand/internal/sidx"
	"github.com/apache/skywalking-banyandb/banyand/internal/storage"
	"github.com/apache/skywalking-banyandb/banyand/protector"
	"github.com/apache/skywalking-banyandb/pkg/fs"
	pbv1 "github.com/apache/skywalking-banyandb/pkg/pb/v1"
)

// Table kind "sidx": a real secondary-index instance (banyand/internal/sidx) driven through its exported halves
// ConvertToMemPart/IntroduceMemPart, Flush/IntroduceFlushed, Merge/IntroduceMerged, recovery = NewSIDX (init +
// loadSnapshot) with the part ids of the manifest.
//
// sidx does not persist a manifest of its own: the owning trace tsTable writes "<epoch>.snp" (all part ids of its
// snapshot, memory parts included) with fs.MustFlushAtomic after every flush/merge introduction, deletes superseded
// manifests (gc.clean) and at start-up hands the ids of the newest readable manifest to NewSIDX as AvailablePartIDs.
// The driver below does exactly that as a STAND-IN (same primitive, same order: introduce, publish, then release the
// old snapshot so that merged parts are removed only after the new manifest is durable). The manifest lives in the
// sidx directory itself (sidx.init ignores regular files) so that the trace invariants T4-T6 see parts and manifests
// side by side; in the real layout it is one level up.

type queueFS struct {
	fs.FileSystem
	q       []string
	mu      sync.Mutex
	capture bool
}

// MustRMAll is what partWrapper.cleanup calls from its removal goroutine (run.GoOrDie). While a history is being
// recorded the call is queued and executed by the harness in sorted order, which makes the log deterministic.
func (f *queueFS) MustRMAll(path string) {
	f.mu.Lock()
	if f.capture {
		f.q = append(f.q, path)
		f.mu.Unlock()
		return
	}
	f.mu.Unlock()
	f.FileSystem.MustRMAll(path)
}

func (f *queueFS) drain(expected int) {
	deadline := time.Now().Add(3 * time.Second)
	for {
		f.mu.Lock()
		n := len(f.q)
		f.mu.Unlock()
		if n >= expected || time.Now().After(deadline) {
			break
		}
		time.Sleep(200 * time.Microsecond)
	}
	f.mu.Lock()
	q := f.q
	f.q = nil
	f.mu.Unlock()
	sort.Strings(q)
	for _, p := range q {
		f.FileSystem.MustRMAll(p)
	}
}

type sidxDriver struct {
	inst    sidx.SIDX
	lfs     *queueFS
	fi      *sidx.FlusherIntroduction
	dir     string
	old     []uint64
	epoch   uint64
	curPart uint64
	live    uint64
	loaded  uint64
	pending int // removals spawned and not yet drained
	queued  bool
}

func sidxSnapName(e uint64) string { return fmt.Sprintf("%016x.snp", e) }

func openSidx(dir string, freshEpoch uint64, queued, recording bool) driver {
	d := &sidxDriver{lfs: &queueFS{FileSystem: fs.NewLocalFileSystem()}, dir: dir, queued: queued, epoch: freshEpoch}
	d.lfs.MkdirIfNotExist(dir, storage.DirPerm)
	// stand-in for the owner's start-up: newest readable manifest wins, everything else manifest-like is removed
	var epochs []uint64
	for _, e := range d.lfs.ReadDir(dir) {
		n := e.Name()
		if e.IsDir() {
			continue
		}
		if ep, err := strconv.ParseUint(strings.TrimSuffix(n, ".snp"), 16, 64); err == nil && strings.HasSuffix(n, ".snp") && len(n) == 20 {
			epochs = append(epochs, ep)
			continue
		}
		if strings.HasSuffix(n, ".snp.tmp") {
			_ = d.lfs.DeleteFile(filepath.Join(dir, n))
		}
	}
	sort.Slice(epochs, func(i, j int) bool { return epochs[i] > epochs[j] })
	var ids []uint64
	for _, ep := range epochs {
		if d.loaded == 0 {
			if b, err := d.lfs.Read(filepath.Join(dir, sidxSnapName(ep))); err == nil {
				var names []string
				if json.Unmarshal(b, &names) == nil {
					ok := true
					var l []uint64
					for _, n := range names {
						id, perr := strconv.ParseUint(n, 16, 64)
						ok = ok && perr == nil
						l = append(l, id)
					}
					if ok {
						d.loaded, d.live, d.epoch, ids = ep, ep, ep, l
						continue
					}
				}
			}
		}
		_ = d.lfs.DeleteFile(filepath.Join(dir, sidxSnapName(ep)))
	}
	inst, err := sidx.NewSIDX(d.lfs, &sidx.Options{Path: dir, Memory: protector.Nop{}, AvailablePartIDs: ids})
	if err != nil {
		panic(err)
	}
	d.inst = inst
	served, _ := sidx.C04Parts(inst)
	for _, id := range served {
		if id > d.curPart {
			d.curPart = id
		}
	}
	d.lfs.capture = recording // removals are queued only while a history is being recorded
	return d
}

var sidxBatchCache = map[int][]sidx.WriteRequest{}

func sidxBatch(b int) []sidx.WriteRequest {
	if r, ok := sidxBatchCache[b]; ok {
		return r
	}
	var reqs []sidx.WriteRequest
	for j := 0; j < 6; j++ {
		sid := 1 + j%3
		h := sha256.Sum256([]byte(fmt.Sprintf("sidx-%d-%d", b, j)))
		data := make([]byte, 0, 640)
		for len(data) < 640 {
			data = append(data, h[:]...)
			h = sha256.Sum256(h[:])
		}
		reqs = append(reqs, sidx.WriteRequest{
			SeriesID: common.SeriesID(sid), Key: int64(b*1000 + j), Data: data,
			Tags: []sidx.Tag{{Name: "t", Value: []byte(fmt.Sprintf("s%d", sid)), ValueType: pbv1.ValueTypeStr}},
		})
	}
	sidxBatchCache[b] = reqs
	return reqs
}

func sidxRow(sid uint64, key int64, data []byte) string {
	return fmt.Sprintf("%d/%d/%x", sid, key, sha256.Sum256(data))
}

var sidxRefCache = map[string]string{}

func sidxReference(n int, extra bool) string {
	ck := fmt.Sprintf("%d/%v", n, extra)
	if s, ok := sidxRefCache[ck]; ok {
		return s
	}
	var l []string
	add := func(b int) {
		for _, r := range sidxBatch(b) {
			l = append(l, sidxRow(uint64(r.SeriesID), r.Key, r.Data))
		}
	}
	for b := 1; b <= n; b++ {
		add(b)
	}
	if extra {
		add(maxHist + 1)
	}
	sort.Strings(l)
	s := strings.Join(l, "\n")
	sidxRefCache[ck] = s
	return s
}

func (d *sidxDriver) Write(b int) {
	mp, err := d.inst.ConvertToMemPart(sidxBatch(b), 1, nil, nil)
	if err != nil {
		panic(err)
	}
	d.curPart++
	d.inst.IntroduceMemPart(d.curPart, mp)
}

func idSet(ids []uint64) map[uint64]struct{} {
	m := map[uint64]struct{}{}
	for _, id := range ids {
		m[id] = struct{}{}
	}
	return m
}

func (d *sidxDriver) FlushBegin() bool {
	ids, mem := d.AllParts()
	var toFlush []uint64
	for i, id := range ids {
		if mem[i] {
			toFlush = append(toFlush, id)
		}
	}
	if len(toFlush) == 0 {
		return false
	}
	fi, err := d.inst.Flush(idSet(toFlush))
	if err != nil || fi == nil {
		panic(fmt.Sprint("sidx flush: ", err))
	}
	d.fi = fi
	return true
}

func (d *sidxDriver) publish() {
	ids, _ := d.AllParts()
	names := make([]string, 0, len(ids))
	for _, id := range ids {
		names = append(names, sidx.C04PartName(id))
	}
	data, _ := json.Marshal(names)
	d.epoch++
	fs.MustFlushAtomic(d.lfs, data, filepath.Join(d.dir, sidxSnapName(d.epoch)), storage.FilePerm)
	if d.live != 0 {
		d.old = append(d.old, d.live)
	}
	d.live = d.epoch
}

func (d *sidxDriver) FlushEnd() {
	d.inst.IntroduceFlushed(d.fi)
	d.fi.Release()
	d.fi = nil
	d.publish()
}

func (d *sidxDriver) GC() {
	var remaining []uint64
	for _, e := range d.old {
		if err := d.lfs.DeleteFile(filepath.Join(d.dir, sidxSnapName(e))); err != nil {
			remaining = append(remaining, e)
		}
	}
	d.old = remaining
}

func (d *sidxDriver) Merge(ids []uint64) (bool, error) {
	if len(ids) < 2 {
		return false, nil
	}
	d.curPart++
	mi, err := d.inst.Merge(make(chan struct{}), idSet(ids), d.curPart, nil)
	if err != nil || mi == nil {
		return false, err
	}
	release := d.inst.IntroduceMerged(mi)
	d.publish()
	release() // the owner releases the previous snapshot only after the new manifest is durable
	mi.Release()
	d.pending += len(ids)
	if !d.queued {
		d.Drain()
	}
	return true, nil
}

func (d *sidxDriver) Drain() {
	d.lfs.drain(d.pending)
	d.pending = 0
}

func (d *sidxDriver) FileParts() []uint64 {
	ids, mem := d.AllParts()
	var out []uint64
	for i, id := range ids {
		if !mem[i] {
			out = append(out, id)
		}
	}
	return out
}

func (d *sidxDriver) AllParts() ([]uint64, []bool) { return sidx.C04Parts(d.inst) }

func (d *sidxDriver) Content() (string, int, error) {
	resp, err := d.inst.QuerySync(context.Background(), sidx.QueryRequest{SeriesIDs: []common.SeriesID{1, 2, 3}})
	if err != nil {
		return "", 0, err
	}
	var l []string
	for _, r := range resp {
		if r == nil {
			continue
		}
		if r.Error != nil {
			return "", 0, r.Error
		}
		for i := range r.Keys {
			l = append(l, sidxRow(uint64(r.SIDs[i]), r.Keys[i], r.Data[i]))
		}
	}
	sort.Strings(l)
	return strings.Join(l, "\n"), len(l), nil
}

func (d *sidxDriver) Live() (uint64, []uint64) { return d.live, append([]uint64(nil), d.old...) }
func (d *sidxDriver) Loaded() uint64           { return d.loaded }

func (d *sidxDriver) Close() {
	d.lfs.mu.Lock()
	d.lfs.capture = false
	d.lfs.mu.Unlock()
	_ = d.inst.Close()
}

func init() {
	tableKinds["sidx"] = &tableKind{
		name: "sidx", open: openSidx, reference: sidxReference, partName: sidx.C04PartName, snapName: sidxSnapName,
		validate: func(pd string) error { return sidx.ValidatePartMetadata(fs.NewLocalFileSystem(), pd) },
	}
}
