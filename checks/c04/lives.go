package main

import (
	"fmt"
	"os"
	"path/filepath"

	"github.com/apache/skywalking-banyandb/banyand/measure"
	"github.com/apache/skywalking-banyandb/pkg/verif/crashfs"
)

// Round 2: lives after the recovery. The round-1 oracle ends the recovered life with write + flush + gc + reopen, i.e.
// with a PUBLICATION, which re-establishes the garbage cleaner's bookkeeping whatever the recovery left in it. The
// usual fate of a recovered shard (every shard of an older segment) is the opposite: it is opened, serves reads and is
// closed gracefully with no flush/merge in between. So every distinct crash state is materialised a second time and
// taken through the chain
//
//	life 2 = real start-up path on the crash state            (what recoverState/recoverTable judge)
//	graceful shutdown = exit path of the introducer loop (gc.clean) + tsTable.Close
//	life 3 = real start-up path, graceful shutdown, life 4 = real start-up path, ... (gracefulRestarts restarts)
//
// and the property's "the next start opens every shard without error and exposes a prefix including every batch covered
// by the last durably published snapshot" is evaluated for every life of the chain: no life panics/errs, every life is
// readable and serves exactly what life 2 served (a graceful shutdown acknowledges nothing and must lose nothing), and
// a life that had a live manifest is followed by a life that loads a manifest. Classes are number-free and stable.
const gracefulRestarts = 2

// lifeTable is what the chain needs from a table; every `driver` has it, the measure seam gets an adapter.
type lifeTable interface {
	GC()
	Close()
	Content() (canon string, rows int, err error)
	Live() (live uint64, pendingGC []uint64)
	Loaded() uint64
}

// lifeStats is merged into the worker's counts (evidence metrics).
var lifeStats = map[string]int{}

type measureLife struct{ t *measure.C04Table }

func (m measureLife) GC()    { m.t.GC() }
func (m measureLife) Close() { m.t.Close() }
func (m measureLife) Content() (string, int, error) {
	rows, err := m.t.Content(allSeries)
	if err != nil {
		return "", 0, err
	}
	return canon(rows), len(rows), nil
}
func (m measureLife) Live() (uint64, []uint64) { return m.t.LiveEpoch() }
func (m measureLife) Loaded() uint64           { return m.t.LoadedEpoch }

func openMeasureLife(dir string, freshEpoch uint64) lifeTable {
	return measureLife{t: measure.C04Open(dir, freshEpoch)}
}

// gracefulLives returns the violation classes of the chain (nil when life 2 itself is not judged: it panicked or is
// unreadable, which recoverState/recoverTable already report) and a one-line description for the artefact.
func gracefulLives(open func(dir string, freshEpoch uint64) lifeTable, tree *crashfs.Tree, scratch string) (problems []string, trail string) {
	root, err := os.MkdirTemp(scratch, "lv-")
	if err != nil {
		fatal("%v", err)
	}
	defer os.RemoveAll(root)
	if err := tree.Materialize(root); err != nil {
		fatal("materialize: %v", err)
	}
	dir := filepath.Join(root, shardDir)
	var t lifeTable
	closeT := func() {
		if t != nil {
			_ = guard(t.Close)
			t = nil
		}
	}
	defer closeT()
	if guard(func() { t = open(dir, recoverBase) }) != "" {
		return nil, ""
	}
	var first string
	var firstRows int
	if guard(func() {
		var rerr error
		if first, firstRows, rerr = t.Content(); rerr != nil {
			panic(rerr)
		}
	}) != "" {
		return nil, ""
	}
	lifeStats["graceful_chains"]++
	trail = fmt.Sprintf("life2: loaded=%x rows=%d", t.Loaded(), firstRows)
	for life := 3; life < 3+gracefulRestarts; life++ {
		live, pending := t.Live()
		for _, e := range pending {
			if live != 0 && e == live {
				problems = append(problems, "graceful restart chain: the live manifest is queued for deletion by the garbage cleaner")
			}
		}
		// graceful shutdown: introducerLoop's exit path runs gc.clean, then tsTable.Close releases the snapshot
		if msg := guard(func() { t.GC(); t.Close() }); msg != "" {
			t = nil
			problems = append(problems, "graceful restart chain: graceful shutdown of a recovered table panics: "+msg)
			break
		}
		t = nil
		lifeStats["graceful_restarts"]++
		if msg := guard(func() { t = open(dir, recoverBase+uint64(life)*0x100) }); msg != "" {
			t = nil
			problems = append(problems, "graceful restart chain: start after a graceful shutdown of the recovered table panics: "+msg)
			break
		}
		var got string
		var rows int
		if msg := guard(func() {
			var rerr error
			if got, rows, rerr = t.Content(); rerr != nil {
				panic(rerr)
			}
		}); msg != "" {
			problems = append(problems, "graceful restart chain: table cannot be read after a graceful shutdown and restart: "+msg)
			break
		}
		trail += fmt.Sprintf("; life%d: loaded=%x rows=%d", life, t.Loaded(), rows)
		if live != 0 && t.Loaded() == 0 {
			problems = append(problems, "graceful restart chain: a life with a live manifest is followed by a start that loads no manifest")
		}
		if got != first {
			if rows < firstRows {
				problems = append(problems, "graceful restart chain: data served by the recovered table is lost by a graceful shutdown and restart without any publication")
			} else {
				problems = append(problems, "graceful restart chain: content changes across a graceful shutdown and restart without any publication")
			}
			break
		}
	}
	return uniq(problems), trail
}
