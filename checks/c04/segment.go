package main

import (
	"fmt"
	"os"
	"path/filepath"
	"strings"
	"time"

	"github.com/apache/skywalking-banyandb/banyand/internal/storage"
	"github.com/apache/skywalking-banyandb/pkg/fs"
	"github.com/apache/skywalking-banyandb/pkg/verif/crashfs"
	"github.com/apache/skywalking-banyandb/pkg/verif/vos"
)

// Storage-level history (DESIGN §5 suspect 6): the real storage.OpenTSDB -> CreateSegmentIfNotExist ->
// CreateTSTableIfNotExist on a trivial table type; "data" = files written into the shard directory with
// FileSystem.WriteAtomic, i.e. durable by pkg/fs's own contract (stand-in for flushed parts + manifest).
// Recovery = OpenTSDB on the crash state. The series index (bluge) does its own I/O and is not part of the model.

var (
	segNow = time.Date(2026, 9, 10, 12, 0, 0, 0, time.Local)
	segTS  = time.Date(2026, 9, 10, 10, 0, 0, 0, time.Local)
)

func segOpts() storage.VOpts {
	return storage.VOpts{
		Now: segNow, Interval: storage.IntervalRule{Unit: storage.DAY, Num: 1}, TTL: storage.IntervalRule{Unit: storage.DAY, Num: 7},
		IdleTimeout: time.Hour, DisableRetention: true,
	}
}

func segData(i int) []byte { return []byte(fmt.Sprintf("durable shard data item %d\n", i)) }

func ignoreIndex(rel string) bool {
	for _, c := range strings.Split(rel, "/") {
		if c == "sidx" || c == "external-segment-temp" { // created by the inverted index, bypassing pkg/fs
			return true
		}
	}
	return false
}

func recordSegment(h *history, scratch string) *recording {
	root, err := os.MkdirTemp(scratch, "rec-")
	if err != nil {
		fatal("%v", err)
	}
	defer os.RemoveAll(root)
	lfs := fs.NewLocalFileSystem()
	vos.VerifStart(false)
	var db *storage.VDB
	var seg *storage.VSeg
	var tab *storage.VTable
	n := 0
	func() {
		defer func() {
			if p := recover(); p != nil {
				vos.VerifStop()
				fatal("history %s panicked while recording: %v", h.Name, p)
			}
		}()
		for i, s := range h.Steps {
			vos.VerifMark(fmt.Sprintf("begin:%d:%s", i, s))
			var serr error
			switch s {
			case "open":
				db, serr = storage.VOpenDB(filepath.Join(root, "db"), segOpts())
			case "seg":
				seg, serr = db.Create(segTS)
			case "tab":
				tab, serr = seg.Table()
			case "d":
				n++
				vos.VerifMark(fmt.Sprintf("acked:%d", n))
				_, serr = lfs.WriteAtomic(segData(n), filepath.Join(tab.Loc, fmt.Sprintf("data-%d", n)), storage.FilePerm)
				if serr == nil {
					vos.VerifMark(fmt.Sprintf("published:%d", n))
				}
			case "close":
				seg.DecRef()
				serr = db.Close()
			default:
				fatal("unknown step %q", s)
			}
			if serr != nil {
				fatal("history %s step %d (%s): %v", h.Name, i, s, serr)
			}
			vos.VerifMark(fmt.Sprintf("end:%d", i))
		}
	}()
	raw := vos.VerifStop()
	return finishRecording(h, root, raw, ignoreIndex)
}

func recoverSegment(tree *crashfs.Tree, scratch string) *observation {
	ob := &observation{Prefix: 0}
	root, err := os.MkdirTemp(scratch, "st-")
	if err != nil {
		fatal("%v", err)
	}
	defer os.RemoveAll(root)
	if err := tree.Materialize(root); err != nil {
		fatal("materialize: %v", err)
	}
	dbDir := filepath.Join(root, "db")
	before := listDir(dbDir)
	var db *storage.VDB
	if ob.Panic = guard(func() {
		var oerr error
		if db, oerr = storage.VOpenDB(dbDir, segOpts()); oerr != nil {
			panic("OpenTSDB: " + oerr.Error())
		}
	}); ob.Panic != "" {
		ob.Shape = "recovery failed"
		ob.Problems = append(ob.Problems, "recovery failed: "+ob.Panic)
		return ob
	}
	ob.After = listDir(dbDir)
	after := map[string]bool{}
	for _, n := range ob.After {
		after[n] = true
	}
	for _, n := range before {
		if !after[n] {
			ob.Removed = append(ob.Removed, n)
		}
	}
	// data items that survived, anywhere below a segment's shard directory
	found := map[int]bool{}
	matches, _ := filepath.Glob(filepath.Join(dbDir, "seg-*", "shard-*", "data-*"))
	for _, m := range matches {
		var i int
		if _, serr := fmt.Sscanf(filepath.Base(m), "data-%d", &i); serr == nil && filepath.Base(m) == fmt.Sprintf("data-%d", i) {
			if b, rerr := os.ReadFile(m); rerr == nil && string(b) == string(segData(i)) {
				found[i] = true
			} else {
				ob.Problems = append(ob.Problems, "shard data file is torn after recovery")
			}
		}
	}
	for found[ob.Prefix+1] {
		ob.Prefix++
	}
	segs := 0
	for _, n := range ob.After {
		if strings.HasPrefix(n, "seg-") {
			segs++
		}
	}
	if len(ob.Removed) > 0 {
		ob.Nontrivial = "removed " + strings.Join(ob.Removed, ",")
	}
	ob.Shape = fmt.Sprintf("segments=%d work=%q", segs, ob.Nontrivial)
	// the recovered database must be usable: same time bucket again, shard, one more durable file, reopen
	ob.Post = guard(func() {
		s, cerr := db.Create(segTS)
		if cerr != nil {
			panic("CreateSegmentIfNotExist: " + cerr.Error())
		}
		t, terr := s.Table()
		if terr != nil {
			panic("CreateTSTableIfNotExist: " + terr.Error())
		}
		if _, werr := fs.NewLocalFileSystem().WriteAtomic(segData(99), filepath.Join(t.Loc, "data-99"), storage.FilePerm); werr != nil {
			panic(werr)
		}
		s.DecRef()
		if cerr = db.Close(); cerr != nil {
			panic("Close: " + cerr.Error())
		}
		db = nil
		db2, oerr := storage.VOpenDB(dbDir, segOpts())
		if oerr != nil {
			panic("reopen: " + oerr.Error())
		}
		defer db2.Close()
		if m, _ := filepath.Glob(filepath.Join(dbDir, "seg-*", "shard-*", "data-99")); len(m) != 1 {
			panic("data written after recovery is gone after a clean reopen")
		}
	})
	if ob.Post != "" {
		ob.Problems = append(ob.Problems, "recovered database is not usable: "+ob.Post)
	}
	if db != nil {
		_ = guard(func() { _ = db.Close() })
	}
	ob.Problems = uniq(ob.Problems)
	return ob
}

func judgeSegment(ob *observation, p posInfo) []string {
	out := append([]string(nil), ob.Problems...)
	if ob.Panic == "" && ob.Prefix < p.durable {
		c := "durable shard data lost at restart"
		for _, r := range ob.Removed {
			if strings.HasPrefix(r, "seg-") {
				c = "segment directory holding durable shard data is removed at restart"
			}
		}
		out = append(out, c)
	}
	return out
}

// segmentTrace is trace invariant T7: when shard data is published, the segment's `metadata` file (without which
// segmentController.open discards the whole segment directory) is durable.
func segmentTrace(fs *crashfs.FS, op crashfs.Op, counts map[string]int, bad func(key, detail string)) {
	if op.Kind != "mark" || !strings.HasPrefix(op.Note, "published:") {
		return
	}
	dirs, _ := fs.VolatileDir("db")
	for _, d := range dirs {
		if !strings.HasPrefix(d, "seg-") {
			continue
		}
		counts["T7_segment_metadata_checked"]++
		p := "db/" + d + "/metadata"
		if data, exists, clean := fs.DurableFile(p); !exists || !clean || len(data) == 0 {
			bad("T7 segment metadata file is not durable when data of its shards is published", fmt.Sprintf("%s durable-entry=%v synced=%v durable-bytes=%d", p, exists, clean, len(data)))
		}
	}
}
