// C05, family "sidx": queries over the ordered secondary index (banyand/internal/sidx) see one consistent snapshot
// while parts are introduced, flushed, merged and removed by a sync introduction.
//
// The real sidx.go, snapshot.go, part_wrapper.go, introducer.go run with sync and sync/atomic redirected to the
// scheduler shims; the directory removal a released part spawns (run.GoOrDie in partWrapper.cleanup) is a scheduled
// thread (pkg/run/goroutine.go is compiled from an fsgo rewrite, see inpkg/banyand/internal/sidx/c05sidx.go).
// Threads: queries (pin = sidx.currentSnapshot; hold; read the pinned snapshot through the real QuerySync or
// streaming path; unpin), whole real QuerySync / ScanQuery calls, the single introducer (exported Introduce* API, or
// the Prepare* transitions committed through banyand/internal/snapshot as the trace introducer loop does), Close.
package main

import (
	"context"
	"fmt"
	"os"
	"path/filepath"
	"reflect"
	"sort"
	"strings"

	"github.com/apache/skywalking-banyandb/api/common"
	"github.com/apache/skywalking-banyandb/banyand/internal/sidx"
	snapshotpkg "github.com/apache/skywalking-banyandb/banyand/internal/snapshot"
	"github.com/apache/skywalking-banyandb/pkg/verif/sched"
)

// Element alphabet: batch i (= the content of part i) holds keys i, i+10, i+20 over two series, so that the ordered
// result interleaves all parts; the merged part 5 holds batches 1 and 2. Data is unique per element.
type selem struct {
	data string
	sid  uint64
	key  int64
}

func sbatch(i int64) []selem {
	return []selem{{sid: 1, key: i, data: fmt.Sprintf("d%d", i)}, {sid: 2, key: i + 10, data: fmt.Sprintf("d%d", i+10)},
		{sid: 1, key: i + 20, data: fmt.Sprintf("d%d", i+20)}}
}

func sreqs(i int64) []sidx.WriteRequest {
	var out []sidx.WriteRequest
	for _, e := range sbatch(i) {
		out = append(out, sidx.WriteRequest{SeriesID: common.SeriesID(e.sid), Key: e.key, Data: []byte(e.data)})
	}
	return out
}

const smergedID = 5

// batchesOf: which batches a part holds.
func batchesOf(id uint64) []int64 {
	if id == smergedID {
		return []int64{1, 2}
	}
	return []int64{int64(id)}
}

// sexpected: the ordered result of a full query over the given parts, rows rendered as "series,key,data@part".
func sexpected(ids []uint64) []string {
	type row struct {
		s   string
		key int64
	}
	var rs []row
	for _, id := range ids {
		for _, b := range batchesOf(id) {
			for _, e := range sbatch(b) {
				rs = append(rs, row{key: e.key, s: fmt.Sprintf("%d,%d,%s@%d", e.sid, e.key, e.data, id)})
			}
		}
	}
	sort.Slice(rs, func(i, j int) bool { return rs[i].key < rs[j].key })
	out := make([]string, len(rs))
	for i := range rs {
		out[i] = rs[i].s
	}
	return out
}

func sflatten(resp []*sidx.QueryResponse) ([]string, error) {
	var rows []string
	for _, qr := range resp {
		if qr.Error != nil {
			return nil, qr.Error
		}
		if err := qr.Validate(); err != nil {
			return nil, err
		}
		for i := range qr.Keys {
			rows = append(rows, fmt.Sprintf("%d,%d,%s@%d", qr.SIDs[i], qr.Keys[i], qr.Data[i], qr.PartIDs[i]))
		}
	}
	return rows, nil
}

// spartset is the model of a snapshot: part id -> memory part?
type spartset map[uint64]bool

func (p spartset) ids() []uint64 {
	var ids []uint64
	for id := range p {
		ids = append(ids, id)
	}
	sort.Slice(ids, func(i, j int) bool { return ids[i] < ids[j] })
	return ids
}

func (p spartset) sig() string {
	var sb strings.Builder
	for _, id := range p.ids() {
		k := "f"
		if p[id] {
			k = "m"
		}
		fmt.Fprintf(&sb, "%d%s ", id, k)
	}
	return strings.TrimSpace(sb.String())
}

func (p spartset) idsig() string {
	return strings.Trim(fmt.Sprint(p.ids()), "[]")
}

func (p spartset) apply(step string) spartset {
	n := spartset{}
	for k, v := range p {
		n[k] = v
	}
	switch step {
	case "mem4":
		n[4] = true
	case "flush3":
		n[3] = false
	case "merge12":
		delete(n, 1)
		delete(n, 2)
		n[smergedID] = false
	case "sync3":
		delete(n, 3)
	case "sync2":
		delete(n, 2)
	default:
		panic("unknown introducer step " + step)
	}
	return n
}

func viewSig(parts []sidx.V5SPart) string {
	p := spartset{}
	closed := 0
	for _, d := range parts {
		if d.Closed {
			closed++
			continue
		}
		p[d.ID] = d.Mem
	}
	s := p.sig()
	if closed > 0 {
		s += fmt.Sprintf(" +%d closed", closed)
	}
	return s
}

type sworld struct {
	x       *sidx.V5SIdx
	viol    map[string]bool
	pinned  map[string]int             // part directory -> pinned views containing it
	tracked map[string]sidx.V5STracked // "<id><m|f>" -> wrapper, every wrapper that ever was in a snapshot
	mp4     *sidx.MemPart
	fi      *sidx.FlusherIntroduction
	mi      *sidx.MergerIntroduction
	dir     string
	steps   []string
	epochs  []spartset // epochs[i] = snapshot after i introducer steps
	started int        // introducer steps begun
	done    int        // introducer steps completed
	txn     bool
	closed  bool
	// recovered: the initial file parts were loaded by sidx.init/loadSnapshot instead of being flushed in-process
	recovered bool
}

func (w *sworld) bad(s string) { sched.Own(func() { w.viol[s] = true }) }

var sFullQuery = sidx.QueryRequest{SeriesIDs: []common.SeriesID{1, 2}}

// epochIn returns the index of the epoch with the given signature inside the window [lo, hi], or -1.
func (w *sworld) epochIn(sig string, lo, hi int, byID bool) int {
	for i := lo; i <= hi && i < len(w.epochs); i++ {
		if (byID && w.epochs[i].idsig() == sig) || (!byID && w.epochs[i].sig() == sig) {
			return i
		}
	}
	return -1
}

// query: pin; hold points; at every hold the pinned snapshot is read through the real query path; unpin.
func (w *sworld) query(name string, holds int, streaming bool) {
	lo := w.done
	v := w.x.Pin()
	hi := w.started
	if v == nil {
		if !w.closed {
			w.bad(name + ": no snapshot although the index holds data and is not closed")
		}
		return
	}
	var parts []sidx.V5SPart
	sched.Observe(func() { parts = v.Parts() })
	sig := viewSig(parts)
	ep := w.epochIn(sig, lo, hi, false)
	if ep < 0 {
		w.bad(fmt.Sprintf("%s: pinned snapshot {%s} is not the part set of an epoch that was current during the pin", name, sig))
	}
	for _, d := range parts {
		if !d.Mem && d.Path != "" {
			w.pinned[d.Path]++
		}
	}
	for i := 0; i < holds; i++ {
		sched.Yield(name + ":hold")
		sched.Observe(func() {
			if v.Ref() < 1 {
				w.bad(fmt.Sprintf("%s: pinned snapshot has ref %d", name, v.Ref()))
			}
			now := v.Parts()
			if s := viewSig(now); s != sig {
				w.bad(fmt.Sprintf("%s: part set of the pinned snapshot changed while pinned ({%s} -> {%s})", name, sig, s))
			}
			for _, d := range now {
				if d.Closed {
					w.bad(name + ": a part of the pinned snapshot was closed / released while pinned")
				} else if d.Ref < 1 {
					w.bad(fmt.Sprintf("%s: a part of the pinned snapshot has ref %d", name, d.Ref))
				}
			}
			if m := v.MissingDirs(); len(m) > 0 {
				w.bad(name + ": directory of a part in the pinned snapshot is gone while pinned")
			}
			if ep < 0 {
				return
			}
			var got []string
			var err error
			func() {
				defer func() {
					if p := recover(); p != nil {
						err = fmt.Errorf("panic: %v", firstLine(fmt.Sprint(p)))
					}
				}()
				var resp []*sidx.QueryResponse
				if streaming {
					resp, err = v.Streaming(sFullQuery)
				} else {
					resp, err = v.QuerySync(sFullQuery)
				}
				if err == nil {
					got, err = sflatten(resp)
				}
			}()
			if err != nil {
				w.bad(fmt.Sprintf("%s: read of the pinned snapshot failed: %v", name, err))
				return
			}
			if want := sexpected(w.epochs[ep].ids()); !reflect.DeepEqual(got, want) {
				w.bad(fmt.Sprintf("%s: ordered result over the pinned snapshot {%s} differs from the entries of its epoch (rows got %d want %d)",
					name, sig, len(got), len(want)))
			}
		})
	}
	for _, d := range parts {
		if !d.Mem && d.Path != "" {
			w.pinned[d.Path]--
		}
	}
	v.Unpin()
}

// checkWhole judges the result of a whole real query call that pinned and unpinned by itself: the parts it read
// from (QueryResponse.PartIDs) must be exactly the parts of one epoch that was current during the call, and the rows
// exactly that epoch's entries.
func (w *sworld) checkWhole(name string, resp []*sidx.QueryResponse, err error, lo, hi int, ordered bool) {
	if err != nil {
		w.bad(fmt.Sprintf("%s: failed: %v", name, err))
		return
	}
	if resp == nil && w.closed {
		return
	}
	got, ferr := sflatten(resp)
	if ferr != nil {
		w.bad(fmt.Sprintf("%s: malformed response: %v", name, ferr))
		return
	}
	ps := spartset{}
	for _, qr := range resp {
		for _, id := range qr.PartIDs {
			ps[id] = false
		}
	}
	ep := w.epochIn(ps.idsig(), lo, hi, true)
	if ep < 0 {
		w.bad(fmt.Sprintf("%s: result was read from parts {%s}, which is not the part set of an epoch that was current during the call", name, ps.idsig()))
		return
	}
	want := sexpected(w.epochs[ep].ids())
	if !ordered {
		got = append([]string{}, got...)
		sort.Strings(got)
		want = append([]string{}, want...)
		sort.Strings(want)
	}
	if !reflect.DeepEqual(got, want) {
		w.bad(fmt.Sprintf("%s: result over parts {%s} differs from the entries of that epoch (rows got %d want %d)", name, ps.idsig(), len(got), len(want)))
	}
}

// realQuery is one whole sidx.QuerySync call; every hooked operation inside it is a scheduling point.
func (w *sworld) realQuery(name string) {
	lo := w.done
	resp, err := w.x.S.QuerySync(context.Background(), sFullQuery)
	w.checkWhole(name, resp, err, lo, w.started, true)
}

// realScan is one whole sidx.ScanQuery call that yields after every part (its progress callback).
func (w *sworld) realScan(name string) {
	lo := w.done
	resp, err := w.x.S.ScanQuery(context.Background(), sidx.ScanQueryRequest{
		OnProgress: func(_, _, _ int) { sched.Yield(name + ":progress") },
	})
	w.checkWhole(name, resp, err, lo, w.started, false)
}

func idSet(ids ...uint64) map[uint64]struct{} {
	m := map[uint64]struct{}{}
	for _, id := range ids {
		m[id] = struct{}{}
	}
	return m
}

// commit publishes one prepared transition the way the trace introducer loop does (banyand/trace/introducer.go).
func (w *sworld) commit(prepare func(cur *sidx.Snapshot) *sidx.Snapshot) {
	txn := snapshotpkg.NewTransaction()
	tr := snapshotpkg.NewTransition[*sidx.Snapshot](w.x.S, prepare)
	snapshotpkg.AddTransition(txn, tr)
	txn.Commit()
	tr.Release()
	txn.Release()
}

// introducer plays the single goroutine that serialises all snapshot transitions of the index.
func (w *sworld) introducer() {
	s := w.x.S
	for _, st := range w.steps {
		w.started++
		switch st {
		case "mem4":
			if w.txn {
				w.commit(s.PrepareMemPart(4, w.mp4))
			} else {
				s.IntroduceMemPart(4, w.mp4)
			}
		case "flush3":
			if w.txn {
				w.commit(s.PrepareFlushed(w.fi))
			} else {
				s.IntroduceFlushed(w.fi)
			}
			w.fi.Release()
			w.fi = nil
		case "merge12":
			if w.txn {
				w.commit(s.PrepareMerged(w.mi))
				w.mi.Release()
			} else {
				rel := s.IntroduceMerged(w.mi)
				w.mi.Release()
				rel()
			}
			w.mi = nil
		case "sync3", "sync2":
			ids := idSet(uint64(st[4] - '0'))
			if w.txn {
				w.commit(s.PrepareSynced(ids))
			} else {
				s.IntroduceSynced(ids)()
			}
		}
		w.done++
		sched.Observe(func() { w.track() })
	}
}

// track remembers the wrappers of the current snapshot (observation only: no pin, no reference counting).
func (w *sworld) track() {
	for _, t := range w.x.TrackCurrent() {
		d := t.State()
		if d.Closed {
			continue
		}
		if k := partKey(d.ID, d.Mem); w.tracked[k] == (sidx.V5STracked{}) {
			w.tracked[k] = t
		}
	}
}

func partKey(id uint64, mem bool) string {
	if mem {
		return fmt.Sprintf("%dm", id)
	}
	return fmt.Sprintf("%df", id)
}

// parseIntro: "intro:<direct|txn>:<step,step,...>".
func parseIntro(role string) (txn bool, steps []string) {
	f := strings.Split(role, ":")
	if len(f) != 3 || (f[1] != "direct" && f[1] != "txn") {
		panic("bad introducer role " + role)
	}
	return f[1] == "txn", strings.Split(f[2], ",")
}

// sidxSetup builds the instance; a panic of the real code while the initial state is produced sequentially is a verdict
// of its own (a broken tree must not look like a harness error).
func sidxSetup(sc scenario, seq *int) (h sched.Harness) {
	defer func() {
		if p := recover(); p != nil {
			sidx.V5SGoInline(false)
			key := "setup: producing the initial state sequentially panicked: " + firstLine(fmt.Sprint(p))
			h = sched.Harness{Threads: []func(){func() {}}, Check: func(*sched.Result) []string { return []string{key} }, Cleanup: func() {}}
		}
	}()
	return sidxSetup1(sc, seq)
}

func sidxSetup1(sc scenario, seq *int) sched.Harness {
	*seq++
	dir := filepath.Join(base, fmt.Sprintf("s%d", *seq))
	w := &sworld{dir: dir, viol: map[string]bool{}, pinned: map[string]int{}, tracked: map[string]sidx.V5STracked{}}
	sidx.V5SGoInline(true)
	for _, r := range sc.Roles {
		w.recovered = w.recovered || r == "init:recovered"
	}
	// initial state: file parts 1, 2 (flushed in-process, or copied from a template and recovered by the real
	// init/loadSnapshot) and memory part 3
	var x *sidx.V5SIdx
	if w.recovered {
		if err := copyTree(sidxTemplate(), filepath.Join(dir, "s")); err != nil {
			panic(err)
		}
		x = sidx.V5SOpen(filepath.Join(dir, "s"), []uint64{1, 2})
	} else {
		x = sidx.V5SOpen(filepath.Join(dir, "s"), nil)
		sidxWriteFlushed(x, 1, 2)
	}
	w.x = x
	x.FS.OnRM = func(path string) {
		if w.pinned[path] > 0 {
			w.bad("a part directory was removed while a query pinned a snapshot containing it")
		}
	}
	mp3, err := x.S.ConvertToMemPart(sreqs(3), 1, nil, nil)
	if err != nil {
		panic(err)
	}
	x.S.IntroduceMemPart(3, mp3)
	w.track()
	w.epochs = []spartset{{1: false, 2: false, 3: true}}
	var threads []func()
	for _, r := range sc.Roles {
		switch {
		case r == "init:recovered":
		case r == "query":
			threads = append(threads, func() { w.query("query", 1, false) })
		case r == "longquery":
			threads = append(threads, func() { w.query("longquery", 2, false) })
		case r == "squery":
			threads = append(threads, func() { w.query("squery", 1, true) })
		case r == "realquery":
			threads = append(threads, func() { w.realQuery("realquery") })
		case r == "realscan":
			threads = append(threads, func() { w.realScan("realscan") })
		case r == "close":
			threads = append(threads, func() { sched.Own(func() { w.closed = true }); _ = w.x.S.Close() })
		case strings.HasPrefix(r, "intro:"):
			w.txn, w.steps = parseIntro(r)
			// the file-producing halves (real Flush / Merge) run here: deterministic, not part of the race
			for _, st := range w.steps {
				w.epochs = append(w.epochs, w.epochs[len(w.epochs)-1].apply(st))
				switch st {
				case "mem4":
					if w.mp4, err = x.S.ConvertToMemPart(sreqs(4), 1, nil, nil); err != nil {
						panic(err)
					}
				case "flush3":
					if w.fi, err = x.S.Flush(idSet(3)); err != nil || w.fi == nil {
						panic(fmt.Sprint("flush: ", err))
					}
					w.tracked["3f"] = w.fi.TrackFlushed()[0]
				case "merge12":
					if w.mi, err = x.S.Merge(make(chan struct{}), idSet(1, 2), smergedID, nil); err != nil || w.mi == nil {
						panic(fmt.Sprint("merge: ", err))
					}
					w.tracked["5f"] = w.mi.TrackNew()
				}
			}
			threads = append(threads, w.introducer)
		default:
			panic("unknown role " + r)
		}
	}
	return sched.Harness{
		Threads: threads,
		Check: func(res *sched.Result) []string {
			if res.Abort == "" {
				w.final()
			}
			keys := make([]string, 0, len(w.viol))
			for k := range w.viol {
				keys = append(keys, k)
			}
			sort.Strings(keys)
			return keys
		},
		Cleanup: func() {
			func() {
				defer func() { _ = recover() }()
				if w.fi != nil {
					w.fi.ReleaseFlushedParts()
				}
				if w.mi != nil {
					w.mi.ReleaseNewPart()
				}
				_ = w.x.S.Close()
			}()
			sidx.V5SGoInline(false)
			_ = os.RemoveAll(dir)
		},
	}
}

// final: quiescence. Nobody pins anything; the index's own reference keeps exactly the current snapshot alive, the
// current snapshot's reference keeps exactly its parts alive, everything else has been released and removed once.
func (w *sworld) final() {
	for p, n := range w.pinned {
		if n != 0 {
			panic("harness: pin bookkeeping unbalanced for " + p)
		}
	}
	cur := w.epochs[w.done]
	leaked := map[uint64]bool{}
	if w.closed {
		if _, _, ok := w.x.Current(); ok {
			w.bad("final: the index still has a current snapshot after Close")
		}
	} else {
		parts, ref, ok := w.x.Current()
		if !ok {
			w.bad("final: no current snapshot")
			return
		}
		if s := viewSig(parts); s != cur.sig() {
			w.bad(fmt.Sprintf("final: current snapshot is {%s}, want {%s}", s, cur.sig()))
			return
		}
		if w.recovered && w.done == 0 && ref == 2 {
			w.bad(sKnownLoadSnapshot)
		} else if ref != 1 {
			w.bad(fmt.Sprintf("final: current snapshot ref %d at quiescence, want 1 (the index): a reader reference leaked or was dropped twice", ref))
		}
		for _, d := range parts {
			if w.recovered && !d.Mem && d.ID <= 2 {
				continue // judged below
			}
			if d.Ref != 1 {
				w.bad(fmt.Sprintf("final: part %s of the current snapshot has ref %d at quiescence, want 1 (the current snapshot)", partKey(d.ID, d.Mem), d.Ref))
			}
			if d.Removable {
				w.bad("final: a part of the current snapshot is flagged removable")
			}
		}
		resp, err := w.x.S.QuerySync(context.Background(), sFullQuery)
		got, ferr := sflatten(resp)
		if err != nil || ferr != nil {
			w.bad(fmt.Sprintf("final: query failed: %v %v", err, ferr))
		} else if !reflect.DeepEqual(got, sexpected(cur.ids())) {
			w.bad("final: ordered result over the current snapshot differs from the entries of the last epoch")
		}
	}
	// every wrapper that ever was in a snapshot: alive iff in the current one; file parts: directory iff current
	for k, t := range w.tracked {
		d := t.State()
		mem := strings.HasSuffix(k, "m")
		var id uint64
		_, _ = fmt.Sscanf(k, "%d", &id)
		isMem, inCur := cur[id]
		inCur = inCur && isMem == mem
		if w.recovered && !mem && id <= 2 {
			want := int32(0)
			if inCur && !w.closed {
				want = 1
			}
			switch {
			case d.Ref == want+2 && !d.Closed && w.x.FS.RM[w.x.PartDir(id)] == 0:
				w.bad(sKnownLoadSnapshot)
				leaked[id] = true
				continue
			case d.Ref != want:
				w.bad(fmt.Sprintf("final: recovered part %s has ref %d at quiescence, want %d", k, d.Ref, want))
				continue
			}
		}
		if !inCur || w.closed {
			if d.Ref != 0 {
				w.bad(fmt.Sprintf("final: released part %s has ref %d at quiescence, want 0: a part reference leaked or was dropped twice", k, d.Ref))
			} else if !d.Closed {
				w.bad(fmt.Sprintf("final: released part %s was never closed", k))
			}
		}
		if mem {
			continue
		}
		dir := w.x.PartDir(id)
		_, statErr := os.Stat(dir)
		if inCur {
			if statErr != nil {
				w.bad("final: a file part of the last epoch has no directory")
			}
			if w.x.FS.RM[dir] > 0 {
				w.bad("final: directory of a live part was removed")
			}
			continue
		}
		if statErr == nil {
			w.bad("final: directory of a replaced part still exists after its last reader finished")
		}
		if n := w.x.FS.RM[dir]; n != 1 {
			w.bad(fmt.Sprintf("final: replaced part directory removed %d times, want exactly once", n))
		}
	}
	ents, _ := os.ReadDir(w.x.Dir)
	for _, e := range ents {
		var id uint64
		_, err := fmt.Sscanf(e.Name(), "%x", &id)
		if isMem, ok := cur[id]; (err != nil || !ok || isMem) && !leaked[id] {
			w.bad("final: unexpected entry in the index directory: " + e.Name())
		}
	}
}

// sKnownLoadSnapshot keys the one defect this family finds on the unchanged tree (see NOTES-sidx.md).
const sKnownLoadSnapshot = "final: recovered part never released: sidx.loadSnapshot leaves 2 unowned references (wrapper + recovered snapshot) on every part loaded at open"

var sidxTmpl string

// sidxTemplate builds, once per process and with the real code, an index directory holding file parts 1 and 2.
func sidxTemplate() string {
	if sidxTmpl != "" {
		return sidxTmpl
	}
	dir := filepath.Join(base, "sidx-tmpl")
	x := sidx.V5SOpen(dir, nil)
	sidxWriteFlushed(x, 1, 2)
	_ = x.S.Close()
	sidxTmpl = dir
	return dir
}

// sidxWriteFlushed writes batch id as memory part id, flushes it and publishes the file part (real code, sequential).
func sidxWriteFlushed(x *sidx.V5SIdx, ids ...uint64) {
	for _, id := range ids {
		mp, err := x.S.ConvertToMemPart(sreqs(int64(id)), 1, nil, nil)
		if err != nil {
			panic(err)
		}
		x.S.IntroduceMemPart(id, mp)
		fi, err := x.S.Flush(idSet(id))
		if err != nil || fi == nil {
			panic(fmt.Sprint("flush: ", err))
		}
		x.S.IntroduceFlushed(fi)
		fi.Release()
	}
}

func init() {
	register(family{Name: "sidx", Setup: sidxSetup, Scenarios: []scenario{
		{Name: "SA", Roles: []string{"query", "intro:direct:mem4,flush3", "realquery"}},
		{Name: "SB", Roles: []string{"query", "intro:direct:merge12", "squery"}},
		{Name: "SC", Roles: []string{"longquery", "intro:txn:flush3,sync3", "realscan"}},
		{Name: "SD", Roles: []string{"query", "longquery", "close"}},
		{Name: "SE", Roles: []string{"query", "intro:direct:sync2", "realquery"}},
		{Name: "SR", Roles: []string{"init:recovered", "query", "intro:direct:merge12", "realquery"}},
		{Name: "TA", Roles: []string{"query", "intro:txn:merge12"}, ThoroughOnly: true},
		{Name: "TB", Roles: []string{"realscan", "intro:txn:merge12"}, ThoroughOnly: true},
		{Name: "TC", Roles: []string{"squery", "intro:direct:flush3,sync3"}, ThoroughOnly: true},
		{Name: "TD", Roles: []string{"longquery", "intro:txn:mem4,flush3"}, ThoroughOnly: true},
	}})
}
