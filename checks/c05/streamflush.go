// C05, family "streamflush" (round 2): the stream flusher's memory-part merge against the introducer and a query.
//
// A liaison write-queue shard keeps memory parts that carry the id of the segment their batch belongs to; once per
// cycle the flusher groups the memory parts of the snapshot it pinned by segment and merges every group of two or more
// (tsTable.mergeMemParts -> mergePartsThenSendIntroduction), handing each merged part to the introducer loop over the
// merge channel and waiting until it is applied. Here the real mergeMemParts is one scheduled thread, the introducer
// loop's merge arm (introduceMerged + manifest gc) a second one (see stream.V5SMemMerge for the channel bridge), a
// time-ordered or index-ordered query of the repository a third. The segment layout of the four memory parts is the
// alphabet: AABB (two merges in one cycle), AAAB (one merge, one part left alone), 0000 (standalone table: one group).
package main

import (
	"fmt"
	"os"
	"path/filepath"
	"runtime"
	"sort"
	"strings"

	"github.com/apache/skywalking-banyandb/banyand/stream"
	"github.com/apache/skywalking-banyandb/pkg/verif/sched"
)

var sfBatches = []int64{100, 200, 300, 400}

func sfSegment(c byte) int64 {
	if c == '0' {
		return 0
	}
	return 7000 + int64(c)
}

// sfMerges is the reference: how many publications a flusher cycle over this layout makes (groups, in part order, of
// at least two consecutive memory parts of one segment; a part of segment 0 never closes a group).
func sfMerges(layout string) int {
	n, run := 0, 0
	var cur int64
	for i := 0; i < len(layout); i++ {
		seg := sfSegment(layout[i])
		if cur != 0 && cur != seg {
			if run >= 2 {
				n++
			}
			run = 0
		}
		cur = seg
		run++
	}
	if run >= 2 {
		n++
	}
	return n
}

func streamFlushSetup(sc scenario, seq *int) sched.Harness {
	*seq++
	dir := filepath.Join(base, fmt.Sprintf("sf%d", *seq))
	w := &streamWorld{dir: dir, expected: map[uint64]srows{}, replaced: map[string]bool{}, viol: map[string]bool{}}
	t := stream.V5SOpen(filepath.Join(dir, "t"), false)
	w.t = t
	layout := ""
	for _, r := range sc.Roles {
		if strings.HasPrefix(r, "memflusher:") {
			layout = r[len("memflusher:"):]
		}
	}
	if len(layout) != len(sfBatches) {
		panic("streamflush: bad layout")
	}
	var cur srows
	w.expected[t.CurrentEpoch()] = nil
	for i, ts := range sfBatches {
		cur = streamUnion(cur, streamBatch(ts))
		w.expected[t.NextEpoch()] = cur
		t.IntroducePart(t.PrepareWriteSeg(streamBatch(ts), sfSegment(layout[i])))
		t.Record()
	}
	// a memory-part merge never changes the content
	for k := uint64(0); k < 4; k++ {
		w.expected[t.NextEpoch()+k] = cur
	}
	mm := t.NewMemMerge()
	// the pooled merger introduction travels from one merge to the next within the flusher goroutine; one P keeps the
	// pool's per-P slots out of the picture, so that every execution (and every replay) sees the same reuse
	prevProcs := runtime.GOMAXPROCS(1)
	var threads []func()
	nq := 0
	for _, r := range sc.Roles {
		if spec, ok := streamQueries[r]; ok {
			nq++
			name := fmt.Sprintf("%s#%d", r, nq)
			threads = append(threads, func() { w.query(name, spec) })
			continue
		}
		switch {
		case strings.HasPrefix(r, "memflusher:"):
			threads = append(threads, func() {
				// the channel bridge acts for this thread from its own goroutine (the explorer re-arms the assertion
				// for every execution)
				sched.CheckGoid = false
				defer func() { sched.CheckGoid = true }()
				mm.RunFlusher()
			})
		case r == "memintroducer":
			threads = append(threads, func() {
				mm.RunIntroducer(func() { sched.Observe(w.t.Record) })
			})
		default:
			panic("unknown role " + r)
		}
	}
	return sched.Harness{
		Threads: threads,
		Check: func(res *sched.Result) []string {
			if res.Abort == "" {
				if mm.Err != nil {
					w.bad("memflusher: mergeMemParts failed: " + streamStable(mm.Err.Error()))
				}
				if want := sfMerges(layout); mm.Applied != want {
					w.bad(fmt.Sprintf("memflusher: the cycle over segment layout %s published %d merges, want %d", layout, mm.Applied, want))
				}
				w.final()
			}
			keys := make([]string, 0, len(w.viol))
			for k := range w.viol {
				keys = append(keys, k)
			}
			sort.Strings(keys)
			return keys
		},
		Cleanup: func() {
			runtime.GOMAXPROCS(prevProcs)
			func() {
				defer func() { _ = recover() }()
				w.t.Close()
			}()
			_ = os.RemoveAll(dir)
		},
	}
}

// checkPublished: every snapshot that ever was current holds, in its parts, exactly the elements of the batches
// acknowledged at its epoch — part-level form of "never both a merged part and its inputs, nor neither" (the query
// paths may de-duplicate elements, the parts are what flush and sync ship).
func (w *streamWorld) checkPublished() {
	for _, p := range w.t.Published() {
		want, ok := w.expected[p.Epoch]
		if !ok {
			w.bad("final: a snapshot was published under an epoch no introduction announced")
			continue
		}
		if int(p.Elements) != len(want) {
			w.bad(fmt.Sprintf("final: the parts of a published snapshot hold %d elements, the batches acknowledged at its epoch %d (a merged part together with its inputs, or neither)",
				p.Elements, len(want)))
		}
	}
}

func init() {
	register(family{Name: "streamflush", RaceOK: false, Setup: streamFlushSetup, Scenarios: []scenario{
		{Name: "SM1", Roles: []string{"memflusher:AABB", "memintroducer", "tsq"}},
		{Name: "SM2", Roles: []string{"memflusher:AABB", "memintroducer", "idxq"}},
		{Name: "SM3", Roles: []string{"memflusher:AAAB", "memintroducer", "tsq"}},
		{Name: "SM4", Roles: []string{"memflusher:0000", "memintroducer", "idxq"}},
		{Name: "SM5", Roles: []string{"memflusher:ABAB", "memintroducer"}},
	}})
}
