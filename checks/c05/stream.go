// C05, family "stream": the stream engine's own query objects against the introducer and table close.
//
// banyand/stream snapshot.go, part.go, introducer.go, tstable.go run with sync and sync/atomic redirected to the
// scheduler shims. Unlike the measure family the harness does not pin the snapshot itself: the query threads run the
// repository's time-ordered result (tsResult.Pull -> getBlockScanner -> blockScanner.scan) and index-ordered result
// (idxResult.Pull -> scanParts, then the block-load phase), which pin and release the table snapshot on their own.
// The hold point sits inside that code: the memory protector the scan code consults after pinning (AvailableBytes
// while scanning, AcquireResource at the end of idxResult.scanParts = the boundary between the scan phase and the
// data-load phase) is the harness's and yields to the scheduler.
package main

import (
	"fmt"
	"os"
	"path/filepath"
	"reflect"
	"regexp"
	"sort"
	"strings"

	"github.com/apache/skywalking-banyandb/banyand/stream"
	"github.com/apache/skywalking-banyandb/pkg/verif/sched"
)

type srows = []stream.V5SRow

var streamSeries = []uint64{1, 2}

func streamBatch(ts int64) srows {
	var out srows
	for _, s := range streamSeries {
		out = append(out, stream.V5SRow{Series: s, TS: ts, ID: uint64(ts)*10 + s, Val: ts*100 + int64(s)})
	}
	return out
}

// streamUnion: rows ordered by (TS, Series), the order of a time-ordered result.
func streamUnion(bs ...srows) srows {
	var out srows
	for _, b := range bs {
		out = append(out, b...)
	}
	sort.Slice(out, func(i, j int) bool {
		if out[i].TS != out[j].TS {
			return out[i].TS < out[j].TS
		}
		return out[i].Series < out[j].Series
	})
	return out
}

// streamDocs: what the (stand-in) sorted element index yields: by series descending, then time ascending — an order
// different from both the storage order and the time order.
func streamDocs(bs ...srows) srows {
	out := streamUnion(bs...)
	sort.SliceStable(out, func(i, j int) bool { return out[i].Series > out[j].Series })
	return out
}

// streamQuerySpec is one query role.
type streamQuerySpec struct {
	docs   srows // index-ordered: the documents the index yields
	idx    bool
	lo, hi int64 // time-ordered: inclusive range
	long   bool  // hold at every opportunity instead of once
	// abandon: the client stops after the first Pull and releases the result while the scanner still holds its pin
	abandon bool
}

var streamQueries = map[string]streamQuerySpec{
	// time-ordered over everything: 3 (4 after the new batch) disjoint parts, one Pull per part
	"tsq":     {lo: 0, hi: 1 << 40},
	"longtsq": {lo: 0, hi: 1 << 40, long: true},
	// time-ordered over the range of exactly one part (p1; the merged part p5 after the merge)
	"tsq1": {lo: 100, hi: 100},
	"tsqa": {lo: 0, hi: 1 << 40, abandon: true},
	// index-ordered over every document, including those of the batch that may not be visible yet
	"idxq":     {idx: true, docs: streamDocs(streamBatch(100), streamBatch(200), streamBatch(300), streamBatch(400))},
	"longidxq": {idx: true, long: true, docs: streamDocs(streamBatch(100), streamBatch(200), streamBatch(300), streamBatch(400))},
	// index-ordered whose documents fall into exactly one part
	"idxq1": {idx: true, docs: streamDocs(streamBatch(100))},
}

const streamNeverContent = "the parts the query works on never were the table's content over its time range (merged part with/without its inputs, or a part of no published snapshot)"

type streamWorld struct {
	t        *stream.V5STable
	expected map[uint64]srows // epoch -> logical content
	replaced map[string]bool  // part directories that a merge replaced
	viol     map[string]bool
	intro    *stream.V5SIntro
	flush    *stream.V5SFlush
	merge    *stream.V5SMerge
	dir      string
	tsqs     []*stream.V5SQuery
	closed   bool
}

func (w *streamWorld) bad(s string) { sched.Own(func() { w.viol[s] = true }) }

// want is what a query of the given spec returns when evaluated on content.
func (spec streamQuerySpec) want(content srows) srows {
	var out srows
	if !spec.idx {
		for _, r := range content {
			if r.TS >= spec.lo && r.TS <= spec.hi {
				out = append(out, r)
			}
		}
		return out
	}
	have := map[uint64]stream.V5SRow{}
	for _, r := range content {
		have[r.ID] = r
	}
	for _, d := range spec.docs {
		if r, ok := have[d.ID]; ok {
			r.Series = 0 // the index-ordered result carries no series ids
			out = append(out, r)
		}
	}
	return out
}

func (w *streamWorld) query(name string, spec streamQuerySpec) {
	var q *stream.V5SQuery
	if spec.idx {
		q = w.t.NewIdxQuery(spec.docs, len(spec.docs))
	} else {
		q = w.t.NewTSQuery(streamSeries, spec.lo, spec.hi)
		w.tsqs = append(w.tsqs, q)
	}
	var views []uint64
	identified, firstOfPull, holds, nparts := false, true, 0, 0
	q.Hold = func(where string, _ int) {
		// the parts the query works on are complete: for the time-ordered path as soon as the scanner exists, for
		// the index-ordered path when scanParts has built its block cursors
		complete := !spec.idx || where == "AcquireResource"
		if complete && !identified {
			identified = true
			sched.Observe(func() { views, nparts = q.ViewEpochs(), len(q.Parts()) })
		}
		hold := false
		switch {
		case spec.idx && spec.long:
			hold = true // after pin + part selection, and again between scan and load
		case spec.idx:
			hold = where == "AcquireResource" // between the scan phase and the data-load phase
		case spec.long:
			hold = firstOfPull // once per disjoint part group
		default:
			hold = holds == 0 // once, right after the pin, before any block is read
		}
		firstOfPull = false
		if !hold {
			return
		}
		holds++
		sched.Yield(name + ":hold")
		sched.Observe(func() { w.checkHeld(name, q, complete) })
	}
	var got srows
	var qerr error
	for {
		firstOfPull = true
		rows, ok, err := q.Pull()
		if err != nil {
			qerr = err
			break
		}
		if !ok {
			break
		}
		got = append(got, rows...)
		if spec.abandon {
			break
		}
	}
	q.Release()
	sched.Observe(func() {
		if qerr != nil {
			w.bad(fmt.Sprintf("%s: query failed: %v", name, streamStable(qerr.Error())))
			return
		}
		if !identified || nparts == 0 {
			// the query selected no part at all: only a closed table has none over these time ranges
			switch {
			case len(got) != 0:
				w.bad(name + ": query returned rows although it selected no part")
			case !w.closed:
				w.bad(name + ": query found no snapshot although the table holds data and is not closed")
			}
			return
		}
		if len(views) == 0 {
			w.bad(name + ": " + streamNeverContent)
			return
		}
		wants := map[string]bool{}
		var want srows
		for _, ep := range views {
			content, ok := w.expected[ep]
			if !ok {
				w.bad(name + ": query pinned an epoch that no introduction published")
				return
			}
			want = spec.want(content)
			wants[fmt.Sprint(want)] = true
		}
		if len(wants) != 1 {
			panic("harness: candidate epochs of one part set disagree on the reference content")
		}
		if spec.abandon {
			// one Pull = the first group of time-disjoint parts: a non-empty prefix made of whole batches
			if len(got) == 0 || len(got)%len(streamSeries) != 0 || len(got) > len(want) || !reflect.DeepEqual(got, want[:len(got)]) {
				w.bad(fmt.Sprintf("%s: first Pull is not a whole-batch prefix of the content of the epoch it pinned (rows got %d of %d)", name, len(got), len(want)))
			}
			return
		}
		if !reflect.DeepEqual(got, want) && !(len(got) == 0 && len(want) == 0) {
			w.bad(fmt.Sprintf("%s: query result differs from the content of the epoch it pinned (rows got %d want %d)", name, len(got), len(want)))
		}
	})
}

// checkHeld: the query is between pin and release.
func (w *streamWorld) checkHeld(name string, q *stream.V5SQuery, complete bool) {
	for _, p := range q.Parts() {
		if p.Ref == -1000 {
			w.bad(name + ": query works on a part of no published snapshot")
			continue
		}
		if p.Ref < 1 {
			w.bad(fmt.Sprintf("%s: part in use by the query has reference count %d", name, p.Ref))
		}
		if p.Gone && p.Mem {
			w.bad(name + ": memory part in use by the query was released")
		} else if p.Gone {
			w.bad(name + ": directory of a part in use by the query is gone")
		}
	}
	for _, r := range q.SnapshotRefs() {
		if r < 1 {
			w.bad(fmt.Sprintf("%s: snapshot held by the query has ref %d", name, r))
		}
	}
	if complete && len(q.Parts()) > 0 && len(q.ViewEpochs()) == 0 {
		w.bad(name + ": " + streamNeverContent)
	}
}

// introducer plays the single goroutine that serialises all snapshot transitions. steps: "w" = new batch + flush
// publication + gc, "m" = merge publication + gc.
func (w *streamWorld) introducer(steps string) {
	var cur srows
	sched.Own(func() { cur = w.expected[w.t.NextEpoch()-1] })
	if strings.Contains(steps, "w") {
		// 1. a new batch becomes visible atomically
		cur = streamUnion(cur, streamBatch(400))
		sched.Own(func() { w.expected[w.t.NextEpoch()] = cur })
		w.t.IntroducePart(w.intro)
		sched.Observe(w.t.Record)
		// 2. flush: memory part p3 is replaced by its file part (files produced beforehand, see template)
		sched.Own(func() { w.expected[w.t.NextEpoch()] = cur })
		w.t.FlushB(w.flush)
		sched.Observe(w.t.Record)
		w.t.GC()
	}
	if strings.Contains(steps, "m") {
		// 3. merge: file parts p1,p2 are replaced by the merged part
		sched.Own(func() {
			for _, id := range w.merge.IDs {
				w.replaced[w.t.PartDir(id)] = true
			}
			w.expected[w.t.NextEpoch()] = cur
		})
		w.t.MergeB(w.merge)
		sched.Observe(w.t.Record)
		w.t.GC()
	}
}

func streamSetup(sc scenario, seq *int) sched.Harness {
	*seq++
	dir := filepath.Join(base, fmt.Sprintf("s%d", *seq))
	w := &streamWorld{dir: dir, expected: map[uint64]srows{}, replaced: map[string]bool{}, viol: map[string]bool{}}
	// initial state: two flushed file parts (copied from a template built once per worker by the same real code,
	// then recovered by the real initTSTable) and one memory part
	tm := streamTemplate()
	if err := copyTree(tm.table, filepath.Join(dir, "t")); err != nil {
		panic(err)
	}
	t := stream.V5SOpen(filepath.Join(dir, "t"), false)
	w.t = t
	w.expected[t.CurrentEpoch()] = streamUnion(streamBatch(100), streamBatch(200)) // recovered state, before the setup's own write
	t.Write(streamBatch(300))
	t.Record()
	w.expected[t.NextEpoch()-1] = streamUnion(streamBatch(100), streamBatch(200), streamBatch(300))
	w.intro = t.PrepareWrite(streamBatch(400))
	// results of flushing p3 and of merging p1+p2, produced once per worker by the real flush/merge code
	if err := copyTree(tm.extra, filepath.Join(dir, "t")); err != nil {
		panic(err)
	}
	w.flush = t.AdoptFlush(tm.flushIDs)
	w.merge = t.AdoptMerge(tm.mergeID, tm.mergeInputs)
	var threads []func()
	nq := 0
	for _, r := range sc.Roles {
		if spec, ok := streamQueries[r]; ok {
			nq++
			name := fmt.Sprintf("%s#%d", r, nq)
			threads = append(threads, func() { w.query(name, spec) })
			continue
		}
		switch r {
		case "introducer":
			threads = append(threads, func() { w.introducer("wm") })
		case "flusher":
			threads = append(threads, func() { w.introducer("w") })
		case "merger":
			threads = append(threads, func() { w.introducer("m") })
		case "close":
			threads = append(threads, func() { sched.Own(func() { w.closed = true }); w.t.Close() })
		default:
			panic("unknown role " + r)
		}
	}
	return sched.Harness{
		Threads: threads,
		Check: func(res *sched.Result) []string {
			if res.Abort == "" {
				w.final()
			}
			keys := make([]string, 0, len(w.viol))
			for k := range w.viol {
				keys = append(keys, k)
			}
			sort.Strings(keys)
			return keys
		},
		Cleanup: func() {
			if !w.closed {
				func() {
					defer func() { _ = recover() }()
					w.t.Close()
				}()
			}
			_ = os.RemoveAll(dir)
		},
	}
}

// final: quiescence. No query holds anything; the table's own reference keeps exactly the current snapshot alive.
func (w *streamWorld) final() {
	for _, q := range w.tsqs {
		if n := q.SegmentReleases(); n != 1 {
			w.bad(fmt.Sprintf("final: a time-ordered query released its segment %d times, want exactly once", n))
		}
	}
	for _, l := range w.t.Leaks() {
		w.bad("final: " + l)
	}
	w.checkPublished()
	if w.closed {
		return
	}
	v := w.t.Pin()
	if v == nil {
		w.bad("final: no current snapshot")
		return
	}
	parts := v.Parts()
	if v.Ref() != 2 {
		w.bad(fmt.Sprintf("final: current snapshot ref %d at quiescence, want 2 (table + this pin): a reader reference leaked or was dropped twice", v.Ref()))
	}
	live := map[string]bool{}
	for _, p := range parts {
		if p.Gone {
			w.bad("final: a part of the current snapshot has no directory")
		}
		if p.Ref != 1 {
			w.bad(fmt.Sprintf("final: part of the current snapshot has reference count %d at quiescence, want 1", p.Ref))
		}
		if p.Path != "" {
			live[p.Path] = true
		}
	}
	ep := v.Epoch()
	v.Unpin()
	// content of the current snapshot through both query paths, free of any race
	for _, r := range []string{"tsq", "idxq"} {
		spec := streamQueries[r]
		var q *stream.V5SQuery
		if spec.idx {
			q = w.t.NewIdxQuery(spec.docs, len(spec.docs))
		} else {
			q = w.t.NewTSQuery(streamSeries, spec.lo, spec.hi)
		}
		var got srows
		for {
			rows, ok, err := q.Pull()
			if err != nil {
				w.bad("final: query failed: " + streamStable(err.Error()))
				break
			}
			if !ok {
				break
			}
			got = append(got, rows...)
		}
		q.Release()
		if want := spec.want(w.expected[ep]); !reflect.DeepEqual(got, want) {
			w.bad(fmt.Sprintf("final: current snapshot content (%s) differs from the acknowledged batches (rows got %d want %d)", r, len(got), len(want)))
		}
	}
	for dir := range w.replaced {
		if live[dir] {
			continue
		}
		if _, err := os.Stat(dir); err == nil {
			w.bad("final: directory of a replaced part still exists after its last reader finished")
		}
		if n := w.t.FS.RM[dir]; n != 1 {
			w.bad(fmt.Sprintf("final: replaced part directory removed %d times, want exactly once", n))
		}
	}
	for dir, n := range w.t.FS.RM {
		if live[dir] && n > 0 {
			w.bad("final: directory of a live part was removed")
		}
	}
}

var streamPathRe = regexp.MustCompile(`/dev/shm/[^\s:"']+`)

// streamStable removes per-execution scratch paths from a message so that violation keys are stable.
func streamStable(s string) string { return streamPathRe.ReplaceAllString(firstLine(s), "<scratch>") }

type streamTmpl struct {
	table       string // table directory holding file parts p1, p2 and their manifest
	extra       string // part directories produced by flushing p3 and by merging p1+p2
	flushIDs    []uint64
	mergeInputs []uint64
	mergeID     uint64
}

var streamTm *streamTmpl

// streamTemplate builds, once per process and with the real code, the initial table and the file output of the flush
// and merge steps the introducer thread will publish (their production is deterministic and not part of the race).
func streamTemplate() *streamTmpl {
	if streamTm != nil {
		return streamTm
	}
	x := &streamTmpl{table: filepath.Join(base, "stmpl", "t"), extra: filepath.Join(base, "stmpl", "extra")}
	t := stream.V5SOpen(x.table, false)
	t.Write(streamBatch(100))
	t.FlushB(t.FlushA())
	t.GC()
	t.Write(streamBatch(200))
	t.FlushB(t.FlushA())
	t.GC()
	t.Close()
	work := filepath.Join(base, "stmpl", "work")
	if err := copyTree(x.table, work); err != nil {
		panic(err)
	}
	t = stream.V5SOpen(work, false)
	x.mergeInputs = t.FileParts()
	t.Write(streamBatch(300))
	_ = t.PrepareWrite(streamBatch(400))
	f := t.FlushA()
	x.flushIDs = f.IDs()
	m := t.MergeA(x.mergeInputs)
	x.mergeID = m.New
	for _, id := range append(append([]uint64{}, x.flushIDs...), x.mergeID) {
		if err := copyTree(t.PartDir(id), filepath.Join(x.extra, filepath.Base(t.PartDir(id)))); err != nil {
			panic(err)
		}
	}
	t.Close()
	_ = os.RemoveAll(work)
	streamTm = x
	return x
}

func init() {
	register(family{Name: "stream", RaceOK: true, Setup: streamSetup, Scenarios: []scenario{
		// a query over exactly one part / over all parts, against everything the introducer does (2 threads)
		{Name: "S1", Roles: []string{"idxq1", "introducer"}},
		{Name: "S2", Roles: []string{"tsq1", "introducer"}},
		{Name: "S5", Roles: []string{"idxq", "introducer"}},
		{Name: "S6", Roles: []string{"tsq", "introducer"}},
		// both one-part queries against the merge that replaces exactly that part
		{Name: "S4", Roles: []string{"idxq1", "merger", "tsq1"}},
		{Name: "SC", Roles: []string{"tsq", "idxq1", "close"}},
		// a client that abandons a time-ordered result after the first part group
		{Name: "S7", Roles: []string{"tsqa", "merger"}},
		// three threads: both query paths against one half of the introducer's work (all three halves at once cost
		// 1.27 M executions per scenario at bound 3 and are left to the two-thread scenarios above)
		{Name: "S3", Roles: []string{"idxq", "merger", "tsq"}, ThoroughOnly: true},
		{Name: "SF", Roles: []string{"idxq", "flusher", "tsq"}, ThoroughOnly: true},
		{Name: "SD", Roles: []string{"longtsq", "merger", "longidxq"}, ThoroughOnly: true},
	}})
}
