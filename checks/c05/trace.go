// C05, family "trace": an ordered trace query never receives an index entry whose spans are not visible; both views
// of a fenced query belong to one publication (trace tsTable + its attached secondary index; Engine S).
//
// The real trace snapshot/partWrapper/introducer/tsTable code, the generic multi-manager snapshot.Transaction and
// the secondary index's snapshot/partWrapper/introducer code run with sync and sync/atomic redirected to the
// scheduler shims, so both reference-counting protocols, both manager locks, the Transaction lock and the table-wide
// publication fence are scheduling points. Threads: ordered two-phase queries (unfenced default path and fenced
// vectorized path), the single introducer (new trace batch; flush publication; merge publication; manifest gc; an
// abandoned = rolled-back introduction), table close. Every schedule with at most `bound` preemptions is executed.
package main

import (
	"encoding/json"
	"fmt"
	"os"
	"path/filepath"
	"reflect"
	"regexp"
	"sort"
	"strings"
	"time"

	"github.com/apache/skywalking-banyandb/banyand/internal/sidx"
	"github.com/apache/skywalking-banyandb/banyand/trace"
	"github.com/apache/skywalking-banyandb/pkg/verif/sched"
	"github.com/apache/skywalking-banyandb/pkg/verif/vos"
)

var (
	trSegStart = time.Unix(1_700_000_000, 0).UTC()
	trSegEnd   = trSegStart.Add(24 * time.Hour)
)

// trBatch n = two traces: t<n>a with two spans and t<n>b with one; index keys 10n and 10n+1.
func trBatch(n int) []trace.C5TSpan {
	ts := trSegStart.UnixNano() + int64(n)*1_000_000
	a, b := fmt.Sprintf("t%da", n), fmt.Sprintf("t%db", n)
	return []trace.C5TSpan{
		{Trace: a, ID: a + "-1", TS: ts, Key: int64(10 * n)},
		{Trace: a, ID: a + "-2", TS: ts + 1, Key: int64(10 * n)},
		{Trace: b, ID: b + "-1", TS: ts + 2, Key: int64(10*n + 1)},
	}
}

type trPartDesc struct {
	ID  uint64
	Mem bool
}

// trState is the reference content of one publication (= epoch): core spans per trace, core part list, index
// entries per index part.
type trState struct {
	core  map[string][]string
	sidx  map[uint64][]string
	parts []trPartDesc
}

func (s *trState) clone() *trState {
	n := &trState{core: map[string][]string{}, sidx: map[uint64][]string{}, parts: append([]trPartDesc(nil), s.parts...)}
	for k, v := range s.core {
		n.core[k] = append([]string(nil), v...)
	}
	for k, v := range s.sidx {
		n.sidx[k] = append([]string(nil), v...)
	}
	return n
}

func (s *trState) add(id uint64, spans []trace.C5TSpan) {
	seen := map[string]bool{}
	for _, sp := range spans {
		s.core[sp.Trace] = append(s.core[sp.Trace], sp.ID)
		if !seen[sp.Trace] {
			seen[sp.Trace] = true
			s.sidx[id] = append(s.sidx[id], sp.Trace)
		}
	}
	for k := range s.core {
		sort.Strings(s.core[k])
	}
	s.parts = append(s.parts, trPartDesc{ID: id, Mem: true})
}

func (s *trState) flush(ids ...uint64) {
	for i := range s.parts {
		for _, id := range ids {
			if s.parts[i].ID == id {
				s.parts[i].Mem = false
			}
		}
	}
}

func (s *trState) merge(newID uint64, ids ...uint64) {
	var parts []trPartDesc
	var moved []string
	for _, p := range s.parts {
		in := false
		for _, id := range ids {
			if p.ID == id {
				in = true
			}
		}
		if in {
			moved = append(moved, s.sidx[p.ID]...)
			delete(s.sidx, p.ID)
			continue
		}
		parts = append(parts, p)
	}
	s.parts = append(parts, trPartDesc{ID: newID})
	s.sidx[newID] = moved
}

// sync: the parts were shipped to other nodes and leave this table together with their content.
func (s *trState) sync(ids ...uint64) {
	var parts []trPartDesc
	for _, p := range s.parts {
		in := false
		for _, id := range ids {
			if p.ID == id {
				in = true
			}
		}
		if !in {
			parts = append(parts, p)
			continue
		}
		for _, tr := range s.sidx[p.ID] {
			delete(s.core, tr)
		}
		delete(s.sidx, p.ID)
	}
	s.parts = parts
}

// trSidxKey is the canonical form of an index view: sorted "part:trace" pairs.
func trSidxKey(m map[uint64][]string) string {
	var l []string
	for p, ids := range m {
		for _, id := range ids {
			l = append(l, fmt.Sprintf("%d:%s", p, id))
		}
	}
	sort.Strings(l)
	return strings.Join(l, " ")
}

type trWorld struct {
	t        *trace.C5TTable
	viol     map[string]bool
	ref      map[uint64]*trState // epoch -> reference content
	sidxOK   map[string]uint64   // canonical index view -> first epoch with that view
	intro    *trace.C5TIntro
	abandon  *trace.C5TIntro
	flush    *trace.C5TFlush
	merge    *trace.C5TMerge
	dir      string
	sc       string
	steps    []string
	core     []trace.C5TPart // every core wrapper the harness has seen
	sidxw    []sidx.C5TPart  // every index wrapper the harness has seen
	traces   []string        // every trace id of the alphabet
	outcomes []string
	last     uint64 // epoch of the last planned publication
	closed   bool
	broken   bool // the sequential setup panicked
}

func (w *trWorld) bad(s string) { sched.Own(func() { w.viol[s] = true }) }

func trSpansOf(obs []trace.C5TObs) ([]string, bool) {
	var ids []string
	intact := true
	for _, o := range obs {
		ids = append(ids, o.ID)
		if o.Payload != "payload-"+o.ID || o.Tag != o.ID {
			intact = false
		}
	}
	sort.Strings(ids)
	return ids, intact
}

// checkView: the pinned core view at a hold point (inside sched.Observe).
func (w *trWorld) checkView(name string, v *trace.C5TView) *trState {
	if v.Ref() < 1 {
		w.bad(fmt.Sprintf("%s: pinned core snapshot has ref %d", name, v.Ref()))
		return nil
	}
	st, ok := w.ref[v.Epoch]
	if !ok {
		w.bad(name + ": pinned a core epoch that no introduction published")
		return nil
	}
	var parts []trPartDesc
	dead := false
	for _, p := range v.Parts {
		parts = append(parts, trPartDesc{ID: p.ID, Mem: p.Mem})
		if p.Ref() < 1 {
			w.bad(fmt.Sprintf("%s: a part of the pinned core snapshot has ref %d", name, p.Ref()))
			dead = true
		} else if !p.DirExists() {
			w.bad(name + ": directory of a part in the pinned core snapshot is gone while pinned")
			dead = true
		}
	}
	if dead {
		return nil
	}
	if !reflect.DeepEqual(parts, st.parts) {
		w.bad(name + ": the part list of the pinned core snapshot differs from the part list its epoch published")
	}
	var got map[string][]string
	func() {
		defer func() {
			if p := recover(); p != nil {
				w.bad(fmt.Sprintf("%s: read of the pinned core snapshot panicked: %v", name, firstLine(fmt.Sprint(p))))
			}
		}()
		got = v.ReadAll(w.traces)
	}()
	if got != nil && !reflect.DeepEqual(got, st.core) {
		w.bad(name + ": pinned core view content differs from the content at its epoch")
	}
	return st
}

func (w *trWorld) checkSidxPinned(name string, s sidx.C5TSnap) {
	if s.Ref() < 1 {
		w.bad(fmt.Sprintf("%s: pinned index snapshot has ref %d", name, s.Ref()))
		return
	}
	for _, p := range s.Parts {
		if p.Ref() < 1 {
			w.bad(fmt.Sprintf("%s: a part of the pinned index snapshot has ref %d", name, p.Ref()))
		} else if !p.DirExists() {
			w.bad(name + ": directory of a part in the pinned index snapshot is gone while pinned")
		}
	}
}

// checkResult: the oracle of one finished ordered query. order/byPart = what phase 1 delivered; st = reference of the
// core epoch acquired afterwards; got = what the read path returned.
func (w *trWorld) checkResult(name string, fenced bool, order []string, byPart map[uint64][]string, st *trState, epoch uint64,
	gotOrder []string, got map[string][]trace.C5TObs,
) {
	key := trSidxKey(byPart)
	es, known := w.sidxOK[key]
	if !known {
		w.bad(name + ": the index entries received are no published index view (partial batch, or a merged part together with / without its inputs)")
	}
	if st == nil {
		return
	}
	missing := 0
	for _, id := range order {
		want, visible := st.core[id]
		ids, intact := trSpansOf(got[id])
		switch {
		case !visible || len(ids) == 0:
			missing++
		case !reflect.DeepEqual(ids, want):
			w.bad(name + ": spans returned for an indexed trace differ from the spans of that trace at the pinned core epoch")
		case !intact:
			w.bad(name + ": span payload or tag corrupted")
		}
	}
	if missing > 0 {
		w.bad(name + ": received an index entry whose spans are not visible in the core view acquired afterwards")
	}
	var wantOrder []string
	for _, id := range order {
		if len(got[id]) > 0 {
			wantOrder = append(wantOrder, id)
		}
	}
	if !reflect.DeepEqual(gotOrder, wantOrder) {
		w.bad(name + ": traces are not returned in index order")
	}
	if fenced && known && key != trSidxKey(st.sidx) {
		w.bad(name + ": index view and core view of a fenced query belong to different publications")
	}
	sched.Own(func() { w.outcomes = append(w.outcomes, fmt.Sprintf("%s:s%d/c%d", name, es-w.epoch0(), epoch-w.epoch0())) })
}

func (w *trWorld) isClosed() (c bool) {
	sched.Own(func() { c = w.closed })
	return c
}

func (w *trWorld) epoch0() uint64 { return w.last - uint64(w.publications()) }

func (w *trWorld) publications() int {
	n := 0
	for _, s := range w.steps {
		if s == "add" || s == "flush" || s == "merge" || s == "sync" {
			n++
		}
	}
	return n
}

// query is one ordered two-phase query. kind: "U" unfenced default path, "H" unfenced with an extra hold point
// between the index snapshot pin and the index read, "F" fenced vectorized path.
func (w *trWorld) query(name, kind string) {
	q := w.t.NewQuery()
	var err error
	func() {
		defer func() {
			if p := recover(); p != nil {
				err = fmt.Errorf("panic: %v", firstLine(fmt.Sprint(p)))
			}
		}()
		switch kind {
		case "F":
			err = q.Fenced()
		default:
			var hold func(sidx.C5TSnap)
			if kind == "H" {
				hold = func(s sidx.C5TSnap) {
					sched.Yield(name + ":index-pinned")
					sched.Observe(func() { w.checkSidxPinned(name, s) })
				}
			}
			if err = q.Phase1(hold); err != nil {
				return
			}
			// the harness hold point between the phases: the index has been read, the core is not yet pinned
			sched.Yield(name + ":between-phases")
			switch kind {
			case "S":
				q.Phase2Stream(-1)
			case "X":
				q.Phase2Stream(0)
			default:
				err = q.Phase2()
			}
		}
	}()
	if err != nil {
		w.bad(fmt.Sprintf("%s: query failed before reading: %v", name, firstLine(err.Error())))
		q.Abort()
		return
	}
	order, byPart := q.BatchOrder(), q.BatchByPart()
	if kind != "F" {
		// raw index rows: a trace must not be delivered by two index parts (merged part and its input)
		rows := map[uint64][]string{}
		for _, r := range q.Rows {
			rows[r.Part] = append(rows[r.Part], r.Trace)
		}
		if trSidxKey(rows) != trSidxKey(byPart) {
			w.bad(name + ": an index entry is visible in two index parts (rows differ from their trace-id de-duplication)")
		}
	}
	view := q.View()
	if view == nil {
		if !w.isClosed() {
			w.bad(name + ": no core snapshot although the table holds data and is not closed")
		}
		q.Abort()
		return
	}
	var st *trState
	sched.Yield(name + ":hold")
	sched.Observe(func() { st = w.checkView(name, view) })
	var gotOrder []string
	var got map[string][]trace.C5TObs
	func() {
		defer func() {
			if p := recover(); p != nil {
				err = fmt.Errorf("panic: %v", firstLine(fmt.Sprint(p)))
			}
		}()
		if kind == "F" {
			gotOrder, got, err = q.PullVectorized()
		} else {
			if kind == "X" {
				// the client holds the failed result for a while before it releases it
				q.BeforeRelease = func() { sched.Yield(name + ":failed-unreleased") }
			}
			gotOrder, got, err = q.PullDefault()
		}
	}()
	if kind == "X" {
		// the injected fault (no block-scan quota) is the one legitimate way for this query to end: with exactly that
		// error and without a single trace; what it pinned is judged by the other threads' holds and at quiescence
		switch {
		case err == nil:
			w.bad(name + ": the block scan of the query failed, yet the query reported success (a silently partial view)")
		case !strings.Contains(err.Error(), "block scan quota exceeded"):
			w.bad(fmt.Sprintf("%s: query whose block scan ran out of quota failed with another error: %v", name, firstLine(err.Error())))
		case len(gotOrder) != 0:
			w.bad(name + ": query whose block scan failed returned traces")
		}
		return
	}
	if err != nil {
		w.bad(fmt.Sprintf("%s: reading the pinned view failed: %v", name, firstLine(err.Error())))
		return
	}
	if w.isClosed() && len(order) == 0 {
		return
	}
	w.checkResult(name, kind == "F", order, byPart, st, view.Epoch, gotOrder, got)
}

// introducer plays the single goroutine that serialises all snapshot transitions, in loop order.
func (w *trWorld) introducer() {
	for _, s := range w.steps {
		switch s {
		case "add":
			w.t.IntroducePart(w.intro)
		case "flush":
			w.t.FlushB(w.flush)
			w.t.GC()
		case "merge":
			w.t.MergeB(w.merge)
			w.t.GC()
		case "sync":
			w.t.SyncB([]uint64{1})
			w.t.GC()
		case "abandon":
			w.t.AbandonPart(w.abandon)
		}
	}
}

var trValidated = map[string]bool{}

// trValidateCut runs, on the quiescent initial table and outside the controlled execution, the ordered query through
// the unmodified goroutine pipeline of trace.Query's default arm and through the harness's cuts of the unfenced and
// the fenced path. All three must return the reference content in index order.
func (w *trWorld) validateCut(st *trState) {
	var wantOrder []string
	for _, p := range st.parts {
		wantOrder = append(wantOrder, st.sidx[p.ID]...)
	}
	check := func(what string, order []string, got map[string][]trace.C5TObs, err error) {
		ok := err == nil && reflect.DeepEqual(order, wantOrder)
		for _, id := range wantOrder {
			ids, intact := trSpansOf(got[id])
			ok = ok && intact && reflect.DeepEqual(ids, st.core[id])
		}
		if !ok {
			w.bad("setup: the ordered query (" + what + ") on the quiescent initial table does not return the reference content")
		}
	}
	order, got, err := w.t.QueryPipeline()
	check("unmodified pipeline of the default arm", order, got, err)
	for _, kind := range []string{"U", "F", "S"} {
		q := w.t.NewQuery()
		if kind == "F" {
			err = q.Fenced()
		} else if err = q.Phase1(nil); err == nil {
			if kind == "S" {
				q.Phase2Stream(-1)
			} else {
				err = q.Phase2()
			}
		}
		if err != nil {
			q.Abort()
			check("harness cut "+kind, nil, nil, err)
			continue
		}
		if kind == "F" {
			order, got, err = q.PullVectorized()
		} else {
			order, got, err = q.PullDefault()
		}
		check("harness cut "+kind, order, got, err)
	}
}

var trDigits = regexp.MustCompile(`0x[0-9a-f]+|[0-9]+`)

func trSetup(sc scenario, seq *int) sched.Harness {
	// run.Go / run.GoOrDie bodies (pkg/run/goroutine.go, rewrite mode fsgo) are plain goroutines while the harness
	// prepares or inspects an instance, and run inline on the calling scheduled thread during the controlled execution
	vos.VerifStop()
	*seq++
	dir := filepath.Join(base, fmt.Sprintf("tr%d", *seq))
	w := &trWorld{dir: dir, sc: sc.Name, viol: map[string]bool{}, ref: map[uint64]*trState{}, sidxOK: map[string]uint64{}}
	var threads []func()
	func() {
		defer func() {
			if p := recover(); p != nil {
				// the real code failed without any concurrency: a verdict, not a harness error
				w.broken = true
				threads = nil
				w.bad("setup: the real code panicked while the initial state / the flush and merge files were built sequentially: " +
					trDigits.ReplaceAllString(firstLine(fmt.Sprint(p)), "#"))
			}
		}()
		threads = w.build(sc)
	}()
	if !w.broken {
		vos.VerifStart(false)
	}
	return sched.Harness{
		Threads: threads,
		Check: func(res *sched.Result) []string {
			vos.VerifStop()
			if res.Abort == "" && !w.broken {
				w.final()
			}
			keys := make([]string, 0, len(w.viol))
			for k := range w.viol {
				keys = append(keys, k)
			}
			sort.Strings(keys)
			trStats(w, res)
			return keys
		},
		Cleanup: func() {
			vos.VerifStop()
			if !w.closed {
				func() {
					defer func() { _ = recover() }()
					w.t.Close()
				}()
			}
			_ = os.RemoveAll(dir)
		},
	}
}

// build constructs the initial state, the introducer's prepared steps, the reference model and the threads.
func (w *trWorld) build(sc scenario) []func() {
	dir := w.dir
	// initial state, built by the real code: file parts 1, 2 (+ their index file parts) and memory part 3
	t := trace.C5TOpen(filepath.Join(dir, "t"), trSegStart, trSegEnd)
	w.t = t
	st := &trState{core: map[string][]string{}, sidx: map[uint64][]string{}}
	for n := 1; n <= 3; n++ {
		in := t.PrepareWrite(trBatch(n))
		t.IntroducePart(in)
		st.add(in.ID, trBatch(n))
		if n < 3 {
			t.FlushB(t.FlushA())
			t.GC()
			st.flush(in.ID)
		}
	}
	for n := 1; n <= 6; n++ {
		for _, sp := range trBatch(n) {
			if len(w.traces) == 0 || w.traces[len(w.traces)-1] != sp.Trace {
				w.traces = append(w.traces, sp.Trace)
			}
		}
	}
	if !trValidated[sc.Name] {
		// once per worker and scenario (its violation, if any, is re-established by the engine's replays)
		w.validateCut(st)
		trValidated[sc.Name] = len(w.viol) == 0
	}
	e := t.NextEpoch() - 1
	w.ref[e] = st
	w.sidxOK[trSidxKey(st.sidx)] = e
	w.core = append(w.core, t.CurrentCore().Parts...)
	w.sidxw = append(w.sidxw, sidx.C5TCurrent(t.Sidx()).Parts...)
	// the introducer's plan; file production of flush / merge is not part of the race and happens here
	var threads []func()
	for _, r := range sc.Roles {
		if strings.HasPrefix(r, "I:") {
			w.steps = strings.Split(r[2:], ",")
		}
	}
	has := func(s string) bool {
		for _, x := range w.steps {
			if x == s {
				return true
			}
		}
		return false
	}
	if has("add") {
		w.intro = t.PrepareWrite(trBatch(4))
		w.core = append(w.core, w.intro.Core)
	}
	if has("flush") {
		w.flush = t.FlushA()
		w.core = append(w.core, w.flush.Core...)
		w.sidxw = append(w.sidxw, w.flush.Sidx...)
	}
	if has("merge") {
		w.merge = t.MergeA([]uint64{1, 2})
		w.core = append(w.core, w.merge.Core)
		w.sidxw = append(w.sidxw, w.merge.Sidx...)
	}
	if has("abandon") {
		w.abandon = t.PrepareWrite(trBatch(6))
		w.core = append(w.core, w.abandon.Core)
	}
	for _, s := range w.steps {
		switch s {
		case "add":
			st = st.clone()
			st.add(w.intro.ID, trBatch(4))
		case "flush":
			st = st.clone()
			st.flush(3)
		case "merge":
			st = st.clone()
			st.merge(w.merge.New, 1, 2)
		case "sync":
			st = st.clone()
			st.sync(1)
		default:
			continue
		}
		e++
		w.ref[e] = st
		if _, ok := w.sidxOK[trSidxKey(st.sidx)]; !ok {
			w.sidxOK[trSidxKey(st.sidx)] = e
		}
	}
	w.last = e
	for i, r := range sc.Roles {
		name := fmt.Sprintf("q%d", i)
		switch {
		case r == "qU":
			threads = append(threads, func() { w.query(name+"-unfenced", "U") })
		case r == "qS":
			threads = append(threads, func() { w.query(name+"-stream", "S") })
		case r == "qX":
			threads = append(threads, func() { w.query(name+"-scanfault", "X") })
		case r == "qH":
			threads = append(threads, func() { w.query(name+"-unfenced", "H") })
		case r == "qF":
			threads = append(threads, func() { w.query(name+"-fenced", "F") })
		case strings.HasPrefix(r, "I:"):
			threads = append(threads, w.introducer)
		case r == "close":
			threads = append(threads, func() { sched.Own(func() { w.closed = true }); w.t.Close() })
		default:
			panic("unknown role " + r)
		}
	}
	return threads
}

// final: quiescence. Every thread has finished; nothing is pinned.
func (w *trWorld) final() {
	rmAll := func() map[string]int { return w.t.FS.RemovedAll() }
	if w.closed {
		for _, p := range w.core {
			if p.Ref() != 0 {
				w.bad(fmt.Sprintf("final: core part wrapper has ref %d after close and the last query", p.Ref()))
			}
		}
		for _, p := range w.sidxw {
			if p.Ref() != 0 {
				w.bad(fmt.Sprintf("final: index part wrapper has ref %d after close and the last query", p.Ref()))
			}
		}
		if len(rmAll()) != 0 {
			w.bad("final: a part directory was removed although nothing was merged")
		}
		return
	}
	cur := w.t.CurrentCore()
	if cur == nil {
		w.bad("final: no current core snapshot")
		return
	}
	st := w.ref[w.last]
	if cur.Epoch != w.last {
		w.bad("final: the current core epoch is not the last epoch the introducer published")
		return
	}
	if cur.Ref() != 1 {
		w.bad(fmt.Sprintf("final: current core snapshot ref %d at quiescence, want 1 (the table's): a reference leaked or was dropped twice", cur.Ref()))
	}
	liveCore := map[string]bool{}
	var parts []trPartDesc
	sound := true
	for _, p := range cur.Parts {
		parts = append(parts, trPartDesc{ID: p.ID, Mem: p.Mem})
		if p.Ref() != 1 {
			w.bad(fmt.Sprintf("final: a part of the current core snapshot has ref %d at quiescence, want 1", p.Ref()))
			sound = sound && p.Ref() > 0
		}
		if !p.DirExists() {
			w.bad("final: a part of the current core snapshot has no directory")
			sound = false
		}
		if !p.Mem {
			liveCore[p.Path] = true
		}
	}
	if !reflect.DeepEqual(parts, st.parts) {
		w.bad("final: the part list of the current core snapshot differs from the reference")
	}
	if sound {
		if got := cur.ReadAll(w.traces); !reflect.DeepEqual(got, st.core) {
			w.bad("final: current core snapshot content differs from the acknowledged batches")
		}
	}
	for _, p := range w.core {
		live := false
		for _, c := range cur.Parts {
			if c.Same(p) {
				live = true
			}
		}
		if !live && p.Ref() != 0 {
			w.bad(fmt.Sprintf("final: a replaced / abandoned core part wrapper (mem=%v) has ref %d at quiescence, want 0", p.Mem, p.Ref()))
		}
		if live || p.Mem || p.Path == "" {
			continue
		}
		if liveCore[p.Path] {
			continue // same directory re-opened by a later wrapper (flush keeps the id)
		}
		if p.Ref() == 0 {
			if _, err := os.Stat(p.Path); err == nil {
				w.bad("final: directory of a replaced core part still exists after its last reader finished")
			}
			if n := w.t.FS.Removed(p.Path); n != 1 {
				w.bad(fmt.Sprintf("final: replaced core part directory removed %d times, want exactly once", n))
			}
		}
	}
	// secondary index
	scur := sidx.C5TCurrent(w.t.Sidx())
	if !scur.Valid() {
		w.bad("final: no current index snapshot")
		return
	}
	if scur.Ref() != 1 {
		w.bad(fmt.Sprintf("final: current index snapshot ref %d at quiescence, want 1 (the index's)", scur.Ref()))
	}
	liveSidx := map[string]bool{}
	var sparts []uint64
	for _, p := range scur.Parts {
		sparts = append(sparts, p.ID)
		if p.Ref() != 1 {
			w.bad(fmt.Sprintf("final: a part of the current index snapshot has ref %d at quiescence, want 1", p.Ref()))
		}
		if !p.DirExists() {
			w.bad("final: a part of the current index snapshot has no directory")
		}
		if !p.Mem {
			liveSidx[p.Path] = true
		}
	}
	var wantS []uint64
	for _, p := range st.parts {
		wantS = append(wantS, p.ID)
	}
	if !reflect.DeepEqual(sparts, wantS) {
		w.bad("final: the part list of the current index snapshot differs from the reference")
	}
	for _, p := range w.sidxw {
		live := false
		for _, c := range scur.Parts {
			if c.Same(p) {
				live = true
			}
		}
		if live {
			continue
		}
		if p.Ref() != 0 {
			w.bad(fmt.Sprintf("final: a replaced index part wrapper (mem=%v) has ref %d at quiescence, want 0", p.Mem, p.Ref()))
			continue
		}
		if p.Mem || p.Path == "" || liveSidx[p.Path] {
			continue
		}
		if n := w.t.FS.Removed(p.Path); n != 1 {
			w.bad(fmt.Sprintf("final: replaced index part directory removed %d times, want exactly once", n))
		} else if _, err := os.Stat(p.Path); err == nil {
			w.bad("final: directory of a replaced index part still exists after its last reader finished")
		}
	}
	for dir, n := range rmAll() {
		if (liveCore[dir] || liveSidx[dir]) && n > 0 {
			w.bad("final: directory of a live part was removed")
		}
	}
}

// trStats (only with VERIF_C05TRACE_STATS=<dir>): per-scenario counts of (index view, core view) pairs the queries
// observed, for the vacuity figures in NOTES.md. Not part of the verdict.
var (
	trStatDir = os.Getenv("VERIF_C05TRACE_STATS")
	trStat    = map[string]map[string]int{}
	trStatN   int
)

func trStats(w *trWorld, res *sched.Result) {
	if trStatDir == "" {
		return
	}
	m := trStat[w.sc]
	if m == nil {
		m = map[string]int{}
		trStat[w.sc] = m
	}
	sort.Strings(w.outcomes)
	k := strings.Join(w.outcomes, " ")
	if res.Abort != "" {
		k = "abort:" + res.Abort
	}
	_, seen := m[k]
	m[k]++
	m["#points"] += len(res.Points)
	m["#executions"]++
	trStatN++
	if !seen || trStatN%100 == 0 {
		b, _ := json.Marshal(trStat)
		_ = os.WriteFile(filepath.Join(trStatDir, fmt.Sprintf("%d.json", os.Getpid())), b, 0o644)
	}
}

func init() {
	register(family{Name: "trace", RaceOK: true, Setup: trSetup, Scenarios: []scenario{
		{Name: "trace-add", Roles: []string{"qU", "I:add", "qF"}},
		{Name: "trace-merge-U", Roles: []string{"qU", "I:merge"}},
		{Name: "trace-merge-F", Roles: []string{"qF", "I:merge"}},
		{Name: "trace-flush-F", Roles: []string{"qF", "I:flush"}},
		{Name: "trace-all-U", Roles: []string{"qU", "I:add,flush,merge"}},
		{Name: "trace-held", Roles: []string{"qH", "I:merge"}},
		// sync (liaison write queues) only against the fenced path: tables with a syncer are never queried by
		// trace.Query, and no publication order can protect an unfenced two-phase query from a part removal
		{Name: "trace-sync-F", Roles: []string{"qF", "I:sync"}},
		{Name: "trace-abandon", Roles: []string{"qU", "I:abandon,add"}},
		{Name: "trace-close", Roles: []string{"qU", "qF", "close"}},
		// round 2: the scan batch in the form the block-scan stage of the streaming pipeline produces (snapshots +
		// cursor channel), fault-free and with the block scan failing (no quota); the failed result is held, then
		// released, while a merge replaces the snapshot and another reader pins it
		{Name: "trace-stream-merge", Roles: []string{"qS", "I:merge"}},
		{Name: "trace-scanfault", Roles: []string{"qX", "I:merge", "qU"}},
		{Name: "trace-scanfault-close", Roles: []string{"qX", "close"}},
		{Name: "trace-all-F", Roles: []string{"qF", "I:add,flush,merge"}, ThoroughOnly: true},
	}})
}
