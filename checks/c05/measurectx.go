// C05, family "measurectx" (round 2): a measure query whose client cancels it while queryResult.Pull's parallel block
// loaders are at work, then releases the result. The pin a query holds covers its readers only if Pull does not
// return before every loader it started has finished ("files of replaced parts are deleted ... only after the last
// reader of any snapshot containing them has finished"): after Release the next merge / flush may close and delete
// the part files. Fault-point enumeration inside one scheduled thread: the cancellation takes place before Pull
// (k = 0) or right after the k-th of the n block loaders has taken its look at the context (k = 1..n); loaders that
// saw the context alive are parked by the harness context, so "Pull returned while a loader is still running" is a
// positive event, never inferred from elapsed time (see measure.ReadCancelled).
package main

import (
	"fmt"
	"os"
	"path/filepath"
	"sort"
	"strings"
	"time"

	"github.com/apache/skywalking-banyandb/banyand/measure"
	"github.com/apache/skywalking-banyandb/pkg/verif/sched"
)

// mcWait is how long the harness leaves a (correctly) waiting Pull alone before it lets the parked loaders go. It
// bounds nothing but the cost of a case: a Pull that returns early does so without waiting for anything.
const mcWait = 150 * time.Millisecond

func (w *world) cancelledQueries() {
	n := -1
	for k := 0; n < 0 || k <= n; k++ {
		v := w.t.Pin()
		if v == nil {
			w.bad("cancelq: no snapshot although the table holds data and is not closed")
			return
		}
		var o measure.V5CancelOutcome
		func() {
			defer func() {
				if p := recover(); p != nil {
					w.bad(fmt.Sprintf("cancelq: cancelled query panicked: %v", firstLine(fmt.Sprint(p))))
				}
			}()
			o = v.ReadCancelled(allSeries, 0, 1<<40, k, mcWait)
		}()
		n = o.Loaders
		sched.Own(func() { w.pins++ })
		if o.Unfinished > 0 {
			w.bad("cancelq: queryResult.Pull of a cancelled query returned while block loaders it started were still reading the pinned parts; the client's Release then drops the pin under them")
		}
		if !strings.Contains(o.Err, "interrupt") {
			w.bad("cancelq: a query cancelled before or while its blocks were loaded did not report the interruption")
		}
		sched.Yield("cancelq:released")
		v.Unpin()
	}
	if n != 6 {
		w.bad(fmt.Sprintf("cancelq: the full scan has %d block loaders, the harness expects 6 (3 parts x 2 series)", n))
	}
}

func measureCtxSetup(sc scenario, seq *int) sched.Harness {
	*seq++
	dir := filepath.Join(base, fmt.Sprintf("mc%d", *seq))
	w := &world{dir: dir, expected: map[uint64]rows{}, replaced: map[string]bool{}, viol: map[string]bool{}, epochs: map[uint64]int{}}
	tm := template()
	if err := copyTree(tm.table, filepath.Join(dir, "t")); err != nil {
		panic(err)
	}
	t := measure.V5Open(filepath.Join(dir, "t"))
	w.t = t
	t.Write(batch(300))
	w.expected[t.NextEpoch()-1] = union(batch(100), batch(200), batch(300))
	return sched.Harness{
		Threads: []func(){w.cancelledQueries},
		Check: func(res *sched.Result) []string {
			if res.Abort == "" {
				w.final()
			}
			keys := make([]string, 0, len(w.viol))
			for k := range w.viol {
				keys = append(keys, k)
			}
			sort.Strings(keys)
			return keys
		},
		Cleanup: func() {
			func() {
				defer func() { _ = recover() }()
				w.t.Close()
			}()
			_ = os.RemoveAll(dir)
		},
	}
}

func init() {
	register(family{Name: "measurectx", RaceOK: false, Setup: measureCtxSetup, Scenarios: []scenario{
		{Name: "MX", Roles: []string{"cancelq"}},
	}})
}
