// C08 criteria grammar: value alphabet, atoms, trees of depth <= 2, labels/shapes and the brute-force reference
// evaluator ("boring Go": the predicate over the stored tag values, two-valued logic, null satisfies nothing).
package main

import (
	"fmt"
	"math"
	"sort"
	"strings"

	modelv1 "github.com/apache/skywalking-banyandb/api/proto/banyandb/model/v1"
	"github.com/apache/skywalking-banyandb/pkg/verif/e2e"
)

const (
	opEQ    = modelv1.Condition_BINARY_OP_EQ
	opNE    = modelv1.Condition_BINARY_OP_NE
	opLT    = modelv1.Condition_BINARY_OP_LT
	opGT    = modelv1.Condition_BINARY_OP_GT
	opLE    = modelv1.Condition_BINARY_OP_LE
	opGE    = modelv1.Condition_BINARY_OP_GE
	opHAV   = modelv1.Condition_BINARY_OP_HAVING
	opNHAV  = modelv1.Condition_BINARY_OP_NOT_HAVING
	opIN    = modelv1.Condition_BINARY_OP_IN
	opNIN   = modelv1.Condition_BINARY_OP_NOT_IN
	opMATCH = modelv1.Condition_BINARY_OP_MATCH
	lAND    = modelv1.LogicalExpression_LOGICAL_OP_AND
	lOR     = modelv1.LogicalExpression_LOGICAL_OP_OR
)

var opName = map[modelv1.Condition_BinaryOp]string{
	opEQ: "EQ", opNE: "NE", opLT: "LT", opGT: "GT", opLE: "LE", opGE: "GE", opHAV: "HAVING", opNHAV: "NOT_HAVING",
	opIN: "IN", opNIN: "NOT_IN", opMATCH: "MATCH",
}

// atom is one condition tag op constant.
type atom struct {
	Tag   string
	Op    modelv1.Condition_BinaryOp
	Const *modelv1.TagValue
	// Class of the constant, part of the violation key: hit (present in the data) | miss | lo | hi (int64 extremes) |
	// null | empty
	Class string
}

func (a atom) crit() *modelv1.Criteria {
	return &modelv1.Criteria{Exp: &modelv1.Criteria_Condition{Condition: &modelv1.Condition{Name: a.Tag, Op: a.Op, Value: a.Const}}}
}

func (a atom) label() string { return fmt.Sprintf("%s.%s(%s)", a.Tag, opName[a.Op], render(a.Const)) }
func (a atom) shape() string { return fmt.Sprintf("%s.%s[%s]", a.Tag, opName[a.Op], a.Class) }

// tree is an atom (R == nil) or one connective over two atoms.
type tree struct {
	L  atom
	R  *atom
	Op modelv1.LogicalExpression_LogicalOp
}

func (t tree) crit() *modelv1.Criteria {
	if t.R == nil {
		return t.L.crit()
	}
	return &modelv1.Criteria{Exp: &modelv1.Criteria_Le{Le: &modelv1.LogicalExpression{Op: t.Op, Left: t.L.crit(), Right: t.R.crit()}}}
}

func lopName(o modelv1.LogicalExpression_LogicalOp) string {
	if o == lAND {
		return "AND"
	}
	return "OR"
}

func (t tree) label() string {
	if t.R == nil {
		return t.L.label()
	}
	return fmt.Sprintf("%s(%s,%s)", lopName(t.Op), t.L.label(), t.R.label())
}

func (t tree) shape() string {
	if t.R == nil {
		return t.L.shape()
	}
	return fmt.Sprintf("%s(%s,%s)", lopName(t.Op), t.L.shape(), t.R.shape())
}

func (t tree) tags() []string {
	out := []string{t.L.Tag}
	if t.R != nil && t.R.Tag != t.L.Tag {
		out = append(out, t.R.Tag)
	}
	sort.Strings(out)
	return out
}

// render prints a tag value canonically: null | s:"x" | i:5 | sa:["x","y"] | ia:[1,2].
func render(v *modelv1.TagValue) string {
	if v == nil {
		return "null"
	}
	switch x := v.Value.(type) {
	case *modelv1.TagValue_Null:
		return "null"
	case *modelv1.TagValue_Str:
		return fmt.Sprintf("s:%q", x.Str.GetValue())
	case *modelv1.TagValue_Int:
		return fmt.Sprintf("i:%d", x.Int.GetValue())
	case *modelv1.TagValue_StrArray:
		p := make([]string, 0, len(x.StrArray.GetValue()))
		for _, s := range x.StrArray.GetValue() {
			p = append(p, fmt.Sprintf("%q", s))
		}
		return "sa:[" + strings.Join(p, ",") + "]"
	case *modelv1.TagValue_IntArray:
		p := make([]string, 0, len(x.IntArray.GetValue()))
		for _, s := range x.IntArray.GetValue() {
			p = append(p, fmt.Sprintf("%d", s))
		}
		return "ia:[" + strings.Join(p, ",") + "]"
	case *modelv1.TagValue_BinaryData:
		return fmt.Sprintf("b:%x", x.BinaryData)
	case *modelv1.TagValue_Timestamp:
		return fmt.Sprintf("t:%d", x.Timestamp.AsTime().UnixNano())
	case nil:
		return "null"
	}
	return "?" + v.String()
}

func isNull(v *modelv1.TagValue) bool {
	if v == nil || v.Value == nil {
		return true
	}
	_, ok := v.Value.(*modelv1.TagValue_Null)
	return ok
}

// evalAtom is the reference semantics of one condition on one stored value. judged=false: the meaning of this
// operator/constant/stored-type combination is not unambiguous (MATCH, null constants, mismatched types, IN with a
// scalar, EQ with an array): such requests are compared across bindings only (oracle A).
//
//	EQ / NE          scalar constant of the tag's type; null stored value: EQ false, NE true (NE = not EQ)
//	LT LE GT GE      numeric order on ints, bytewise order on strings; null stored value: false
//	IN / NOT_IN      array constant; stored scalar is / is not one of the elements; null stored: IN false
//	HAVING           stored array contains ALL elements of the constant (documented: "keyA contains valueA and
//	                 valueB"); scalar constant = one element; null stored: false.  NOT_HAVING = not HAVING
func evalAtom(stored *modelv1.TagValue, a atom) (res, judged bool) {
	c := a.Const
	if a.Op == opMATCH || isNull(c) {
		return false, false
	}
	switch a.Op {
	case opEQ, opNE, opLT, opLE, opGT, opGE:
		var cmp int
		known := false
		switch cv := c.Value.(type) {
		case *modelv1.TagValue_Str:
			if isNull(stored) {
				known = true
				cmp = 2 // incomparable
			} else if sv, ok := stored.Value.(*modelv1.TagValue_Str); ok {
				known = true
				cmp = strings.Compare(sv.Str.GetValue(), cv.Str.GetValue())
			}
		case *modelv1.TagValue_Int:
			if isNull(stored) {
				known = true
				cmp = 2
			} else if sv, ok := stored.Value.(*modelv1.TagValue_Int); ok {
				known = true
				switch {
				case sv.Int.GetValue() < cv.Int.GetValue():
					cmp = -1
				case sv.Int.GetValue() > cv.Int.GetValue():
					cmp = 1
				}
			}
		}
		if !known {
			return false, false
		}
		if cmp == 2 {
			return a.Op == opNE, true
		}
		switch a.Op {
		case opEQ:
			return cmp == 0, true
		case opNE:
			return cmp != 0, true
		case opLT:
			return cmp < 0, true
		case opLE:
			return cmp <= 0, true
		case opGT:
			return cmp > 0, true
		default:
			return cmp >= 0, true
		}
	case opIN, opNIN:
		in, known := false, false
		switch cv := c.Value.(type) {
		case *modelv1.TagValue_StrArray:
			if isNull(stored) {
				known = true
			} else if sv, ok := stored.Value.(*modelv1.TagValue_Str); ok {
				known = true
				for _, e := range cv.StrArray.GetValue() {
					in = in || e == sv.Str.GetValue()
				}
			}
		case *modelv1.TagValue_IntArray:
			if isNull(stored) {
				known = true
			} else if sv, ok := stored.Value.(*modelv1.TagValue_Int); ok {
				known = true
				for _, e := range cv.IntArray.GetValue() {
					in = in || e == sv.Int.GetValue()
				}
			}
		}
		if !known {
			return false, false
		}
		if a.Op == opNIN {
			return !in, true
		}
		return in, true
	case opHAV, opNHAV:
		all, known := true, false
		var ss []string
		var is []int64
		strC, intC := false, false
		switch cv := c.Value.(type) {
		case *modelv1.TagValue_StrArray:
			ss, strC = cv.StrArray.GetValue(), true
		case *modelv1.TagValue_Str:
			ss, strC = []string{cv.Str.GetValue()}, true
		case *modelv1.TagValue_IntArray:
			is, intC = cv.IntArray.GetValue(), true
		case *modelv1.TagValue_Int:
			is, intC = []int64{cv.Int.GetValue()}, true
		}
		if isNull(stored) {
			known, all = strC || intC, false
		} else if sv, ok := stored.Value.(*modelv1.TagValue_StrArray); ok && strC {
			known = true
			for _, e := range ss {
				f := false
				for _, s := range sv.StrArray.GetValue() {
					f = f || s == e
				}
				all = all && f
			}
		} else if sv, ok := stored.Value.(*modelv1.TagValue_IntArray); ok && intC {
			known = true
			for _, e := range is {
				f := false
				for _, s := range sv.IntArray.GetValue() {
					f = f || s == e
				}
				all = all && f
			}
		}
		if !known {
			return false, false
		}
		if a.Op == opNHAV {
			return !all, true
		}
		return all, true
	}
	return false, false
}

// evalTree evaluates a tree on one stored row (tag name -> stored value).
func evalTree(row map[string]*modelv1.TagValue, t tree) (res, judged bool) {
	l, lj := evalAtom(row[t.L.Tag], t.L)
	if t.R == nil {
		return l, lj
	}
	r, rj := evalAtom(row[t.R.Tag], *t.R)
	if !lj || !rj {
		return false, false
	}
	if t.Op == lAND {
		return l && r, true
	}
	return l || r, true
}

// ---------------------------------------------------------------------------------------------------------------
// alphabets

// tagAlphabet describes the constants of one tag: present values, absent values, extremes.
type tagAlphabet struct {
	Tag     string
	Kind    string // str | int | strarr | intarr | entity
	Scalars []cst  // constants for EQ NE LT LE GT GE
	Sets    []cst  // constants for IN NOT_IN (scalar tags) / HAVING NOT_HAVING (array tags)
	Match   []cst
	Null    bool // also EQ/NE null (oracle A only)
}

type cst struct {
	V     *modelv1.TagValue
	Class string
}

func hit(v *modelv1.TagValue) cst  { return cst{v, "hit"} }
func miss(v *modelv1.TagValue) cst { return cst{v, "miss"} }

var scalarOps = []modelv1.Condition_BinaryOp{opEQ, opNE, opLT, opLE, opGT, opGE}

// atomsOf expands an alphabet into every atom tag x op x constant.
func atomsOf(al tagAlphabet) []atom {
	var out []atom
	switch al.Kind {
	case "str", "int":
		for _, c := range al.Scalars {
			for _, op := range scalarOps {
				out = append(out, atom{al.Tag, op, c.V, c.Class})
			}
		}
		for _, c := range al.Sets {
			out = append(out, atom{al.Tag, opIN, c.V, c.Class}, atom{al.Tag, opNIN, c.V, c.Class})
		}
	case "strarr", "intarr":
		for _, c := range al.Sets {
			out = append(out, atom{al.Tag, opHAV, c.V, c.Class}, atom{al.Tag, opNHAV, c.V, c.Class})
		}
	case "entity":
		for _, c := range al.Scalars {
			out = append(out, atom{al.Tag, opEQ, c.V, c.Class})
		}
		for _, c := range al.Sets {
			out = append(out, atom{al.Tag, opIN, c.V, c.Class})
		}
	}
	for _, c := range al.Match {
		out = append(out, atom{al.Tag, opMATCH, c.V, c.Class})
	}
	if al.Null {
		out = append(out, atom{al.Tag, opEQ, e2e.Null(), "null"}, atom{al.Tag, opNE, e2e.Null(), "null"})
	}
	return out
}

func strAlphabet(tag string, present, absent []string, withEmpty bool) tagAlphabet {
	al := tagAlphabet{Tag: tag, Kind: "str", Null: true}
	for _, s := range present {
		al.Scalars = append(al.Scalars, hit(e2e.Str(s)))
	}
	for _, s := range absent {
		al.Scalars = append(al.Scalars, miss(e2e.Str(s)))
	}
	if withEmpty {
		al.Scalars = append(al.Scalars, cst{e2e.Str(""), "empty"})
	}
	al.Sets = []cst{
		hit(e2e.StrArr(present[0])), hit(e2e.StrArr(present[0], present[len(present)-1])),
		miss(e2e.StrArr(absent[0])), hit(e2e.StrArr(absent[0], present[1%len(present)])), {e2e.StrArr(), "empty"},
	}
	al.Match = []cst{hit(e2e.Str(present[0])), miss(e2e.Str(absent[0]))}
	return al
}

func intAlphabet(tag string, present []int64, extremes bool) tagAlphabet {
	al := tagAlphabet{Tag: tag, Kind: "int", Null: true}
	have := map[int64]bool{}
	for _, p := range present {
		have[p] = true
	}
	seen := map[int64]bool{}
	for _, p := range present {
		for _, d := range []int64{-1, 0, 1} {
			v := p + d
			if seen[v] {
				continue
			}
			seen[v] = true
			if have[v] {
				al.Scalars = append(al.Scalars, hit(e2e.Int(v)))
			} else {
				al.Scalars = append(al.Scalars, miss(e2e.Int(v)))
			}
		}
	}
	if extremes {
		al.Scalars = append(al.Scalars, cst{e2e.Int(math.MinInt64), "lo"}, cst{e2e.Int(math.MaxInt64), "hi"})
	}
	mid := present[len(present)/2]
	al.Sets = []cst{
		hit(e2e.IntArr(mid)), hit(e2e.IntArr(mid, present[len(present)-1])), miss(e2e.IntArr(mid + 1000)),
		hit(e2e.IntArr(mid+1000, present[0])), {e2e.IntArr(), "empty"},
	}
	return al
}

func strArrAlphabet(tag string) tagAlphabet {
	return tagAlphabet{Tag: tag, Kind: "strarr", Sets: []cst{
		hit(e2e.StrArr("x")), hit(e2e.StrArr("x", "y")), hit(e2e.StrArr("y", "x")), miss(e2e.StrArr("w")),
		miss(e2e.StrArr("x", "w")), {e2e.StrArr(), "empty"}, {e2e.Str("x"), "hit-scalar"}, hit(e2e.StrArr("x", "y", "z")),
	}}
}

func intArrAlphabet(tag string) tagAlphabet {
	return tagAlphabet{Tag: tag, Kind: "intarr", Sets: []cst{
		hit(e2e.IntArr(2)), hit(e2e.IntArr(1, 2)), hit(e2e.IntArr(2, 1)), miss(e2e.IntArr(9)), miss(e2e.IntArr(2, 9)),
		{e2e.IntArr(), "empty"}, {e2e.Int(2), "hit-scalar"}, hit(e2e.IntArr(1, 2, 3)),
	}}
}

func entityAlphabet(tag string, present []string, absent string) tagAlphabet {
	return tagAlphabet{
		Tag: tag, Kind: "entity",
		Scalars: []cst{hit(e2e.Str(present[0])), miss(e2e.Str(absent))},
		Sets:    []cst{hit(e2e.StrArr(present[0], present[len(present)-1])), miss(e2e.StrArr(absent))},
	}
}

// pick returns the atoms whose label is listed (panics on a typo: the core sets are part of the stated bound).
func pick(all []atom, labels ...string) []atom {
	idx := map[string]atom{}
	for _, a := range all {
		idx[a.label()] = a
	}
	var out []atom
	for _, l := range labels {
		a, ok := idx[l]
		if !ok {
			panic("c08: no atom labelled " + l)
		}
		out = append(out, a)
	}
	return out
}

// depth2 = every ordered pair of core atoms under AND and OR.
func depth2(core []atom) []tree {
	var out []tree
	for _, op := range []modelv1.LogicalExpression_LogicalOp{lAND, lOR} {
		for i := range core {
			for j := range core {
				r := core[j]
				out = append(out, tree{L: core[i], R: &r, Op: op})
			}
		}
	}
	return out
}
