// C08 e2e, stream: 9 streams s_<A><B> with identical schema and rows; A = binding of the string-side tags {a, sa},
// B = binding of the int-side tags {b, ia}; binding in n(one) | i(nverted) | s(kipping).
package main

import (
	"fmt"
	"math"

	"google.golang.org/grpc/codes"

	modelv1 "github.com/apache/skywalking-banyandb/api/proto/banyandb/model/v1"
	streamv1 "github.com/apache/skywalking-banyandb/api/proto/banyandb/stream/v1"
	"github.com/apache/skywalking-banyandb/pkg/verif/e2e"
)

var streamTags = []string{"svc", "a", "b", "sa", "ia"}

var bindName = map[byte]string{'n': "none", 'i': "inv", 's': "skip"}

func streamConfigs() []config {
	var out []config
	for _, a := range []byte("nis") {
		for _, b := range []byte("nis") {
			out = append(out, config{
				Name: fmt.Sprintf("s_%c%c", a, b),
				Bind: map[string]string{"svc": "entity", "a": bindName[a], "sa": bindName[a], "b": bindName[b], "ia": bindName[b]},
			})
		}
	}
	return out
}

type srow struct {
	svc  string
	a    *modelv1.TagValue
	b    *modelv1.TagValue
	sa   *modelv1.TagValue
	ia   *modelv1.TagValue // nil = the tag is absent from the write request (family truncated)
	note string
}

// streamRows: 12 rows, instants i*1000 ms, 3 write batches of 4 (one flushed part each). Value collisions (m, 7, k),
// nulls, an empty string, empty arrays, arrays with duplicates, an absent trailing tag, a block [lo, null, hi] of
// series s1 in part 1.
func streamRows() []srow {
	n := e2e.Null
	return []srow{
		{"s1", e2e.Str("k"), e2e.Int(-5), e2e.StrArr("x", "y"), e2e.IntArr(1, 2), ""},
		{"s1", n(), n(), n(), nil, "nulls + absent ia"},
		{"s1", e2e.Str("m"), e2e.Int(7), e2e.StrArr("x"), e2e.IntArr(2), ""},
		{"s2", e2e.Str("m"), e2e.Int(7), e2e.StrArr(), e2e.IntArr(), "empty arrays"},

		{"s2", e2e.Str("t"), e2e.Int(0), e2e.StrArr("y", "z"), e2e.IntArr(2, 3), ""},
		{"s3", e2e.Str("k"), e2e.Int(100), e2e.StrArr("x", "y", "z"), e2e.IntArr(1, 2, 3), ""},
		{"s3", e2e.Str(""), e2e.Int(7), e2e.StrArr("x", "x"), e2e.IntArr(2, 2), "empty string, duplicates"},
		{"s1", e2e.Str("m"), n(), e2e.StrArr("z"), e2e.IntArr(3), ""},

		{"s1", e2e.Str("k"), e2e.Int(100), e2e.StrArr("y"), n(), ""},
		{"s2", e2e.Str("m"), e2e.Int(-5), e2e.StrArr("x", "y"), e2e.IntArr(1), ""},
		{"s3", n(), e2e.Int(8), n(), e2e.IntArr(2), ""},
		{"s2", e2e.Str("t"), e2e.Int(7), e2e.StrArr("x"), e2e.IntArr(1, 2), ""},
	}
}

var streamBatches = [][2]int64{{0, 3000}, {4000, 7000}, {8000, 11000}}

func loadStreams(s *e2e.Server, rep *e2eReport) {
	g := groupOf["stream"]
	s.CreateGroup(g, catalogOf["stream"], 1, 1, 3)
	fam := []e2e.Family{{Name: "d", Tags: []e2e.Tag{
		{Name: "svc", Type: e2e.TStr}, {Name: "a", Type: e2e.TStr}, {Name: "b", Type: e2e.TInt},
		{Name: "sa", Type: e2e.TStrA}, {Name: "ia", Type: e2e.TIntA},
	}}}
	typ := map[string]any{"inv": e2e.IInv, "skip": e2e.ISkip}
	for _, c := range streamConfigs() {
		var idx []e2e.Index
		for _, t := range []string{"a", "b", "sa", "ia"} {
			if b := c.Bind[t]; b != "none" {
				ix := e2e.Index{Name: c.Name + "_" + t, Tags: []string{t}}
				if typ[b] == e2e.IInv {
					ix.Type = e2e.IInv
				} else {
					ix.Type = e2e.ISkip
				}
				idx = append(idx, ix)
			}
		}
		s.CreateStream(g, c.Name, []string{"svc"}, fam, idx...)
	}
	rows := streamRows()
	for b := 0; b < 3; b++ {
		for _, c := range streamConfigs() {
			var els []*streamv1.ElementValue
			for i := b * 4; i < b*4+4; i++ {
				r := rows[i]
				tv := []*modelv1.TagValue{e2e.Str(r.svc), r.a, r.b, r.sa}
				if r.ia != nil {
					tv = append(tv, r.ia)
				}
				els = append(els, &streamv1.ElementValue{
					ElementId: fmt.Sprintf("e%02d", i), Timestamp: e2e.At(int64(i) * 1000),
					TagFamilies: []*modelv1.TagFamilyForWrite{e2e.TF(tv...)},
				})
			}
			s.WriteStream(g, c.Name, els)
			// flush after every write: a flush that finds several memory parts merges them, and a merge drops the
			// per-block filters of skipping-indexed tags (finding F3) — waiting here keeps the layout (one unmerged
			// part per stream and batch) and with it the set of rows the skipping bindings lose the same in every run
			s.WaitFlushed("stream", g)
		}
	}
	rep.Parts["stream_loaded"], _ = s.Parts(g)
	if rep.Parts["stream_loaded"] < 3 {
		rep.Caps = append(rep.Caps, fmt.Sprintf("stream: only %d parts after 3 flushed batches", rep.Parts["stream_loaded"]))
	}
}

func queryStream(s *e2e.Server, c config, crit *modelv1.Criteria, w window) ([]outRow, codes.Code, string) {
	resp, code, msg := s.QueryStream(&streamv1.QueryRequest{
		Groups: []string{groupOf["stream"]}, Name: c.Name, TimeRange: e2e.Range(w.From, w.To), Criteria: crit, Limit: bigLimit,
		Projection: &modelv1.TagProjection{TagFamilies: []*modelv1.TagProjection_TagFamily{{Name: "d", Tags: streamTags}}},
	})
	if code != codes.OK {
		return nil, code, msg
	}
	var out []outRow
	for _, el := range resp.GetElements() {
		r := outRow{Ts: el.GetTimestamp().AsTime().Sub(e2e.Base()).Milliseconds(), Tags: map[string]*modelv1.TagValue{}}
		for _, tf := range el.GetTagFamilies() {
			for _, t := range tf.GetTags() {
				r.Tags[t.GetKey()] = t.GetValue()
			}
		}
		out = append(out, r)
	}
	return out, codes.OK, ""
}

func streamAlphabets() []tagAlphabet {
	return []tagAlphabet{
		strAlphabet("a", []string{"k", "m", "t"}, []string{"a", "l", "z"}, true),
		intAlphabet("b", []int64{-5, 0, 7, 8, 100}, true),
		strArrAlphabet("sa"),
		intArrAlphabet("ia"),
		entityAlphabet("svc", []string{"s1", "s2", "s3"}, "s9"),
	}
}

func streamAtoms() []atom {
	var out []atom
	for _, al := range streamAlphabets() {
		out = append(out, atomsOf(al)...)
	}
	// requests every binding is expected to reject the same way (recorded, not judged)
	out = append(out,
		atom{"svc", opNE, e2e.Str("s1"), "hit"}, atom{"svc", opGT, e2e.Str("s1"), "hit"},
		atom{"sa", opIN, e2e.StrArr("x"), "hit"}, atom{"ia", opNIN, e2e.IntArr(2), "hit"},
	)
	return out
}

// streamCore: the atoms combined into depth-2 trees: every tag x operator once with a selective constant, plus the
// boundary/absent variants that the pruning structures care about.
func streamCore(thorough bool) []atom {
	all := streamAtoms()
	quick := []string{
		`a.EQ(s:"k")`, `a.NE(s:"m")`, `a.IN(sa:["k","t"])`, `b.EQ(i:7)`, `b.NE(i:7)`, `b.LT(i:0)`, `b.GE(i:100)`, `b.NOT_IN(ia:[7,100])`,
		`sa.HAVING(sa:["x","y"])`, `sa.NOT_HAVING(sa:["x"])`, `ia.HAVING(ia:[2])`, `ia.NOT_HAVING(ia:[1,2])`, `svc.EQ(s:"s1")`,
	}
	if !thorough {
		return pick(all, quick...)
	}
	return pick(all, append(quick,
		`a.EQ(s:"l")`, `a.LT(s:"m")`, `a.LE(s:"k")`, `a.GT(s:"k")`, `a.GE(s:"m")`, `a.NOT_IN(sa:["a","m"])`, `a.IN(sa:["a"])`,
		`b.EQ(i:6)`, `b.LE(i:7)`, `b.GT(i:7)`, `b.GT(i:100)`, `b.LT(i:-5)`, `b.IN(ia:[7,100])`, `b.IN(ia:[1007])`, `b.NE(i:-4)`,
		`sa.HAVING(sa:["x"])`, `sa.HAVING(sa:["w"])`, `sa.NOT_HAVING(sa:["x","w"])`, `sa.HAVING(sa:[])`,
		`ia.HAVING(ia:[1,2])`, `ia.HAVING(ia:[9])`, `ia.NOT_HAVING(ia:[2])`,
		`svc.IN(sa:["s1","s3"])`, `svc.EQ(s:"s9")`, `a.EQ(null)`, `b.NE(null)`, `a.MATCH(s:"k")`,
	)...)
}

func streamRequests(thorough bool) []request {
	full := window{0, horizonMs, ""}
	var out []request
	atoms := streamAtoms()
	for i := range atoms {
		out = append(out, request{T: &tree{L: atoms[i]}, W: full, Class: "depth1"})
	}
	for _, t := range depth2(streamCore(thorough)) {
		t := t
		out = append(out, request{T: &t, W: full, Class: "depth2"})
	}
	// time bounds of the parts x a few criteria
	wc := pick(atoms, `b.GE(i:7)`, `a.NE(s:"m")`, `sa.HAVING(sa:["x"])`, `svc.EQ(s:"s1")`, `b.LT(i:8)`, `a.EQ(s:"k")`)
	if !thorough {
		wc = wc[:3]
	}
	for _, w := range windowsFor(streamBatches) {
		out = append(out, request{W: w, Class: "window"})
		for i := range wc {
			out = append(out, request{T: &tree{L: wc[i]}, W: w, Class: "window"})
		}
	}
	return out
}

func streamEngine() engine {
	_ = math.MaxInt64
	return engine{Name: "stream", TagOrder: streamTags, Configs: streamConfigs(), Requests: streamRequests, Query: queryStream, RowUnit: "element"}
}
