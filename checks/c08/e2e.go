// C08 level 1: end-to-end metamorphic + brute-force check on ONE in-process standalone server that holds the same rows
// under every index-rule binding (9 streams, 3 measures, 3 traces). Runs inside a worker subprocess (mc/e2e).
package main

import (
	"encoding/json"
	"fmt"
	"os"
	"path/filepath"
	"regexp"
	"sort"
	"strings"
	"sync"
	"time"

	"google.golang.org/grpc/codes"
	"google.golang.org/protobuf/encoding/protojson"

	commonv1 "github.com/apache/skywalking-banyandb/api/proto/banyandb/common/v1"
	modelv1 "github.com/apache/skywalking-banyandb/api/proto/banyandb/model/v1"
	"github.com/apache/skywalking-banyandb/pkg/verif/e2e"
)

const (
	horizonMs  = 60_000 // every row lies in [0, horizonMs]
	bigLimit   = 200
	e2eJobEnv  = "C08_E2E_JOB"
	queryPar   = 8
	maxSamples = 3
)

// ---------------------------------------------------------------------------------------------------------------
// protocol parent <-> worker

type atomJSON struct {
	Tag   string `json:"tag"`
	Op    int32  `json:"op"`
	Const string `json:"const"` // protojson of model.v1.TagValue
	Class string `json:"class"`
}

type treeJSON struct {
	L  atomJSON  `json:"l"`
	R  *atomJSON `json:"r,omitempty"`
	Op int32     `json:"op,omitempty"`
}

// e2eCase is the replayable artefact of one end-to-end request.
type e2eCase struct {
	Level  string    `json:"level"` // "e2e"
	Engine string    `json:"engine"`
	Label  string    `json:"label"`
	Tree   *treeJSON `json:"tree,omitempty"` // nil = no criteria
	Win    [2]int64  `json:"win"`
	Detail any       `json:"detail,omitempty"`
}

// skipRule: after a request crashed the server, every (atom, configuration) with this operator on a tag under this
// binding is not sent again (counted as skipped_after_crash).
type skipRule struct {
	Tag  string `json:"tag,omitempty"` // "" = any tag (quick tier: one crash stands for the operator/binding class)
	Op   int32  `json:"op"`
	Bind string `json:"bind"`
}

type e2eJob struct {
	Tier     string     `json:"tier"`
	Engine   string     `json:"engine"`
	Out      string     `json:"out"`
	Progress string     `json:"progress"`
	Skip     []skipRule `json:"skip,omitempty"`
	First    []int      `json:"first,omitempty"` // request indexes to run first, one at a time (crash suspects)
	Replay   *e2eCase   `json:"replay,omitempty"`
}

type e2eViolation struct {
	Key      string  `json:"key"`
	Artefact e2eCase `json:"artefact"`
}

type e2eReport struct {
	Evaluations int                       `json:"evaluations"`
	Requests    int                       `json:"requests"`
	NonTrivial  int                       `json:"nontrivial"`
	Judged      int                       `json:"judged"`
	Outcomes    int                       `json:"outcomes"`
	PerEngine   map[string]map[string]int `json:"per_engine"`
	Rejections  map[string]int            `json:"rejections"`
	Parts       map[string]int64          `json:"parts"`
	Stored      map[string]int            `json:"stored_rows"`
	Violations  []e2eViolation            `json:"violations"`
	Samples     []any                     `json:"samples"`
	Caps        []string                  `json:"caps"`
	StoredRows  []string                  `json:"stored"`
	Times       map[string]float64        `json:"times"`
}

func toAtomJSON(a atom) atomJSON {
	b, _ := protojson.Marshal(a.Const)
	return atomJSON{a.Tag, int32(a.Op), string(b), a.Class}
}

func fromAtomJSON(j atomJSON) atom {
	v := &modelv1.TagValue{}
	if err := protojson.Unmarshal([]byte(j.Const), v); err != nil {
		e2e.Fatal("replay: bad constant %q: %v", j.Const, err)
	}
	return atom{j.Tag, modelv1.Condition_BinaryOp(j.Op), v, j.Class}
}

func toTreeJSON(t tree) *treeJSON {
	out := &treeJSON{L: toAtomJSON(t.L), Op: int32(t.Op)}
	if t.R != nil {
		r := toAtomJSON(*t.R)
		out.R = &r
	}
	return out
}

func fromTreeJSON(j *treeJSON) tree {
	t := tree{L: fromAtomJSON(j.L), Op: modelv1.LogicalExpression_LogicalOp(j.Op)}
	if j.R != nil {
		r := fromAtomJSON(*j.R)
		t.R = &r
	}
	return t
}

// ---------------------------------------------------------------------------------------------------------------
// generic engine adapter

type config struct {
	Name string
	Bind map[string]string // tag -> none | inv | skip | entity | tree | idxmode ...
}

func (c config) bindOf(tags []string) string {
	var p []string
	for _, t := range tags {
		b, ok := c.Bind[t]
		if !ok {
			b = "none"
		}
		p = append(p, t+"="+b)
	}
	return strings.Join(p, ",")
}

type outRow struct {
	Ts   int64
	Tags map[string]*modelv1.TagValue
}

func (r outRow) canon(tagOrder []string) string {
	var sb strings.Builder
	fmt.Fprintf(&sb, "ts=%d", r.Ts)
	for _, t := range tagOrder {
		fmt.Fprintf(&sb, " %s=%s", t, render(r.Tags[t]))
	}
	return sb.String()
}

type window struct {
	From, To int64
	Label    string // "" = full
}

type request struct {
	T     *tree
	W     window
	Class string // depth1 | depth2 | window | nocrit
	NoB   bool   // compare across bindings only (the engine gives this request no row-exact meaning)
}

func (r request) label() string {
	l := "nocrit"
	if r.T != nil {
		l = r.T.label()
	}
	if r.W.Label != "" {
		l += " win=" + r.W.Label
	}
	return l
}

func (r request) shape() string {
	l := "nocrit"
	if r.T != nil {
		l = r.T.shape()
	}
	if r.W.Label != "" {
		l += "/win=" + r.W.Label
	}
	return l
}

// valueClass classifies one stored tag value for violation keys.
func valueClass(v *modelv1.TagValue) string {
	switch {
	case isNull(v):
		return "null"
	case v.GetInt() != nil && v.GetInt().GetValue() < 0:
		return "neg"
	case v.GetStr() != nil && v.GetStr().GetValue() == "", v.GetStrArray() != nil && len(v.GetStrArray().GetValue()) == 0,
		v.GetIntArray() != nil && len(v.GetIntArray().GetValue()) == 0:
		return "empty"
	}
	return "val"
}

// shapeAt is the request shape with the binding of every atom's tag under configuration c inlined:
// AND(a.NE[hit]@inv,b.GE[hit]@skip)/win=...
func (r request) shapeAt(c config) string {
	at := func(a atom) string {
		b, ok := c.Bind[a.Tag]
		if !ok {
			b = "none"
		}
		return a.shape() + "@" + b
	}
	l := "nocrit@" + c.Name
	if r.T != nil {
		l = at(r.T.L)
		if r.T.R != nil {
			l = lopName(r.T.Op) + "(" + l + "," + at(*r.T.R) + ")"
		}
	}
	if r.W.Label != "" {
		l += "/win=" + r.W.Label
	}
	return l
}

// rowClasses describes a set of lost/surplus rows by the classes of the values the atoms' tags have in them:
// {null|val,neg|val} = one row with (L tag null, R tag val) and one with (neg, val).
func rowClasses(t *tree, rows []string, byCanon map[string]outRow) string {
	set := map[string]bool{}
	for _, c := range rows {
		r, ok := byCanon[c]
		if !ok {
			set["?"] = true
			continue
		}
		if t == nil {
			set["row"] = true
			continue
		}
		k := valueClass(r.Tags[t.L.Tag])
		if t.R != nil {
			k += "|" + valueClass(r.Tags[t.R.Tag])
		}
		set[k] = true
	}
	var p []string
	for k := range set {
		p = append(p, k)
	}
	sort.Strings(p)
	return "{" + strings.Join(p, ",") + "}"
}

func diffKey(t *tree, missing, extra []string, byCanon map[string]outRow) string {
	var p []string
	if len(missing) > 0 {
		p = append(p, "missing"+rowClasses(t, missing, byCanon))
	}
	if len(extra) > 0 {
		p = append(p, "extra"+rowClasses(t, extra, byCanon))
	}
	return strings.Join(p, "+")
}

type engine struct {
	Name     string
	TagOrder []string
	Configs  []config // Configs[0] is the reference (weakest binding)
	Requests func(thorough bool) []request
	// Query runs one request on one configuration: rows or rejection text.
	Query func(s *e2e.Server, c config, crit *modelv1.Criteria, w window) ([]outRow, codes.Code, string)
	// RowUnit says what a "row" is in results (for the notes): element | data point | span.
	RowUnit string
}

type outcome struct {
	Err  string
	Rows []string
}

func (o outcome) key() string {
	if o.Err != "" {
		return "ERR " + o.Err
	}
	return strings.Join(o.Rows, "\n")
}

// errClass keeps the stable part of a rejection message (no resource names, no request text).
func errClass(code codes.Code, msg string) string {
	m := msg
	for _, cut := range []string{": name:", " name:", "conf:", "[", "{"} {
		if i := strings.Index(m, cut); i > 0 {
			m = m[:i]
		}
	}
	m = cfgName.ReplaceAllString(m, "<cfg>")
	if len(m) > 110 {
		m = "..." + m[len(m)-110:]
	}
	return code.String() + ": " + strings.TrimSpace(m)
}

var cfgName = regexp.MustCompile(`\b[smt]_[a-z]{2,5}\b`)

type runner struct {
	s      *e2e.Server
	rep    *e2eReport
	mu     sync.Mutex
	seen   map[string]bool
	outSet map[string]bool
	skip   map[skipRule]bool
	prog   *os.File
}

const skippedErr = "SKIPPED-AFTER-CRASH"

func (rn *runner) progress(ev string, req, cfg int) {
	if rn.prog == nil {
		return
	}
	rn.mu.Lock()
	fmt.Fprintf(rn.prog, "%s %d %d\n", ev, req, cfg)
	rn.mu.Unlock()
}

func (rn *runner) skipped(t *tree, c config) bool {
	if t == nil || len(rn.skip) == 0 {
		return false
	}
	hit := func(a atom) bool {
		b := c.bindOf([]string{a.Tag})[len(a.Tag)+1:]
		return rn.skip[skipRule{"", int32(a.Op), b}] || rn.skip[skipRule{a.Tag, int32(a.Op), b}]
	}
	return hit(t.L) || t.R != nil && hit(*t.R)
}

func (rn *runner) violation(key string, art e2eCase) {
	rn.mu.Lock()
	defer rn.mu.Unlock()
	if rn.seen[key] {
		return
	}
	rn.seen[key] = true
	rn.rep.Violations = append(rn.rep.Violations, e2eViolation{key, art})
}

func diffRows(got, want []string) (missing, extra []string) {
	g, w := map[string]bool{}, map[string]bool{}
	for _, r := range got {
		g[r] = true
	}
	for _, r := range want {
		w[r] = true
	}
	for _, r := range want {
		if !g[r] {
			missing = append(missing, r)
		}
	}
	for _, r := range got {
		if !w[r] {
			extra = append(extra, r)
		}
	}
	return
}

func dupRows(rows []string) []string {
	var d []string
	for i := 1; i < len(rows); i++ {
		if rows[i] == rows[i-1] {
			d = append(d, rows[i])
		}
	}
	return d
}

// runEngine reads the stored rows of every configuration, then runs every request on every configuration and applies
// oracles A and B. Requests listed in first (crash suspects) and all depth-1 atoms run one at a time, so that a server
// crash has exactly one request in flight; the rest runs queryPar-wide.
func (rn *runner) runEngine(en engine, reqs []request, first []int) {
	full := window{0, horizonMs, ""}
	stored := map[string][]outRow{}
	for _, c := range en.Configs {
		rows, code, msg := en.Query(rn.s, c, nil, full)
		if code != codes.OK {
			e2e.Fatal("%s %s: criteria-less query failed: %v %s", en.Name, c.Name, code, msg)
		}
		stored[c.Name] = rows
		rn.rep.Stored[en.Name+"/"+c.Name] = len(rows)
	}
	ref := en.Configs[0]
	refCanon := canonAll(stored[ref.Name], en.TagOrder)
	for _, c := range en.Configs[1:] {
		got := canonAll(stored[c.Name], en.TagOrder)
		if strings.Join(got, "\n") != strings.Join(refCanon, "\n") {
			miss, extra := diffRows(got, refCanon)
			rn.violation(fmt.Sprintf("e2e/%s/A/nocrit/%s!=%s", en.Name, c.Name, ref.Name),
				e2eCase{Level: "e2e", Engine: en.Name, Label: "nocrit", Win: [2]int64{0, horizonMs}, Detail: map[string]any{"config": c.Name, "missing": miss, "extra": extra}})
		}
	}
	if len(refCanon) == 0 {
		e2e.Fatal("%s: no stored rows", en.Name)
	}
	rn.rep.StoredRows = refCanon
	pe := map[string]int{}
	rn.rep.PerEngine[en.Name] = pe
	done := map[int]bool{}
	for _, i := range first {
		if i >= 0 && i < len(reqs) && !done[i] {
			done[i] = true
			rn.runRequest(en, i, reqs[i], stored, pe)
		}
	}
	for i, rq := range reqs {
		if !done[i] && rq.Class == "depth1" {
			done[i] = true
			rn.runRequest(en, i, rq, stored, pe)
		}
	}
	ch := make(chan int)
	var wg sync.WaitGroup
	for w := 0; w < queryPar; w++ {
		wg.Add(1)
		go func() {
			defer wg.Done()
			for i := range ch {
				rn.runRequest(en, i, reqs[i], stored, pe)
			}
		}()
	}
	for i := range reqs {
		if !done[i] {
			ch <- i
		}
	}
	close(ch)
	wg.Wait()
}

func canonAll(rows []outRow, order []string) []string {
	out := make([]string, 0, len(rows))
	for _, r := range rows {
		out = append(out, r.canon(order))
	}
	sort.Strings(out)
	return out
}

func (rn *runner) runRequest(en engine, idx int, rq request, stored map[string][]outRow, pe map[string]int) {
	var crit *modelv1.Criteria
	var tags []string
	if rq.T != nil {
		crit = rq.T.crit()
		tags = rq.T.tags()
	}
	art := e2eCase{Level: "e2e", Engine: en.Name, Label: rq.label(), Win: [2]int64{rq.W.From, rq.W.To}}
	if rq.T != nil {
		art.Tree = toTreeJSON(*rq.T)
	}
	outs := make([]outcome, len(en.Configs))
	nSkipped := 0
	for i, c := range en.Configs {
		if rn.skipped(rq.T, c) {
			outs[i] = outcome{Err: skippedErr}
			nSkipped++
			continue
		}
		rn.progress("B", idx, i)
		rows, code, msg := en.Query(rn.s, c, crit, rq.W)
		rn.progress("E", idx, i)
		if code != codes.OK {
			outs[i] = outcome{Err: errClass(code, msg)}
			continue
		}
		outs[i] = outcome{Rows: canonAll(rows, en.TagOrder)}
	}
	ref := en.Configs[0]
	_ = tags
	// brute force over the stored rows of each configuration
	judgedAny, nontrivial := false, false
	byCanon := map[string]outRow{}
	for _, r := range stored[ref.Name] {
		byCanon[r.canon(en.TagOrder)] = r
	}
	for i, c := range en.Configs {
		var want []string
		judged := true
		inWin := 0
		for _, r := range stored[c.Name] {
			if r.Ts < rq.W.From || r.Ts > rq.W.To {
				continue
			}
			inWin++
			ok := true
			if rq.T != nil {
				ok, judged = evalTree(r.Tags, *rq.T)
				if !judged {
					break
				}
			}
			if ok {
				want = append(want, r.canon(en.TagOrder))
			}
		}
		sort.Strings(want)
		if i == 0 {
			if judged {
				nontrivial = len(want) > 0 && len(want) < inWin
			} else if outs[0].Err == "" {
				nontrivial = len(outs[0].Rows) > 0 && len(outs[0].Rows) < inWin
			}
		}
		if outs[i].Err != "" {
			continue
		}
		if d := dupRows(outs[i].Rows); len(d) > 0 {
			a := art
			a.Detail = map[string]any{"config": c.Name, "duplicates": d}
			rn.violation(fmt.Sprintf("e2e/%s/dup/%s", en.Name, rq.shapeAt(c)), a)
		}
		if !judged || rq.NoB {
			continue
		}
		judgedAny = true
		missing, extra := diffRows(outs[i].Rows, want)
		if len(missing)+len(extra) > 0 {
			a := art
			a.Detail = map[string]any{"oracle": "B", "config": c.Name, "missing": missing, "extra": extra, "want": want, "got": outs[i].Rows}
			rn.violation(fmt.Sprintf("e2e/%s/B/%s/%s", en.Name, rq.shapeAt(c), diffKey(rq.T, missing, extra, byCanon)), a)
		}
	}
	// metamorphic: every accepted answer equals the answer of the first configuration that accepted the request
	first := -1
	for i := range en.Configs {
		if outs[i].Err != "" {
			continue
		}
		if first < 0 {
			first = i
			continue
		}
		if outs[i].key() != outs[first].key() {
			missing, extra := diffRows(outs[i].Rows, outs[first].Rows)
			a := art
			a.Detail = map[string]any{"oracle": "A", "config": en.Configs[i].Name, "reference": en.Configs[first].Name, "missing_vs_reference": missing, "extra_vs_reference": extra}
			rn.violation(fmt.Sprintf("e2e/%s/A/%s/%s", en.Name, rq.shapeAt(en.Configs[i]), diffKey(rq.T, missing, extra, byCanon)), a)
		}
	}
	rn.mu.Lock()
	defer rn.mu.Unlock()
	rn.rep.Requests++
	rn.rep.Evaluations += len(en.Configs) - nSkipped
	pe["requests"]++
	pe["requests_"+rq.Class]++
	pe["evaluations"] += len(en.Configs) - nSkipped
	pe["skipped_after_crash"] += nSkipped
	if nontrivial {
		rn.rep.NonTrivial++
		pe["nontrivial"]++
	}
	if judgedAny {
		rn.rep.Judged++
		pe["judged"]++
	}
	for i, o := range outs {
		if o.Err == skippedErr {
			continue
		}
		if o.Err != "" {
			shape := "nocrit"
			if rq.T != nil {
				shape = rq.T.L.Tag + "." + opName[rq.T.L.Op]
				if rq.T.R != nil {
					shape = "depth2"
					tags = nil
				}
			}
			rn.rep.Rejections[fmt.Sprintf("%s %s [%s] => %s", en.Name, shape, en.Configs[i].bindOf(tags), o.Err)]++
			pe["rejected"]++
		} else {
			rn.outSet[en.Name+"\x00"+o.key()] = true
		}
	}
	if nontrivial && pe["samples"] < maxSamples && outs[0].Err == "" {
		pe["samples"]++
		rn.rep.Samples = append(rn.rep.Samples, map[string]any{"level": "e2e", "engine": en.Name, "request": rq.label(), "configs": len(en.Configs), "rows": outs[0].Rows})
	}
}

// ---------------------------------------------------------------------------------------------------------------
// worker: one engine on one server

// engineByName: "stream" | "measure" | "trace", optionally suffixed "-row" = the same engine on a server started with
// --<engine>-vectorized-enabled=false (the row execution path instead of the default vectorized one).
func engineByName(full string) (engine, func(*e2e.Server, *e2eReport)) {
	n := strings.TrimSuffix(full, "-row")
	en, load := engineByBase(n)
	en.Name = full
	return en, load
}

func engineByBase(n string) (engine, func(*e2e.Server, *e2eReport)) {
	switch n {
	case "stream":
		return streamEngine(), loadStreams
	case "measure":
		return measureEngine(), loadMeasures
	case "trace":
		return traceEngine(), loadTraces
	}
	e2e.Fatal("unknown engine %q", n)
	return engine{}, nil
}

func requestsOf(en engine, job e2eJob) []request {
	if job.Replay != nil {
		rq := request{W: window{job.Replay.Win[0], job.Replay.Win[1], ""}, Class: "depth1"}
		if job.Replay.Win != [2]int64{0, horizonMs} {
			rq.W.Label = fmt.Sprintf("%d..%d", rq.W.From, rq.W.To)
		}
		if job.Replay.Tree != nil {
			t := fromTreeJSON(job.Replay.Tree)
			rq.T = &t
		}
		return []request{rq}
	}
	return en.Requests(job.Tier == "thorough")
}

func e2eWorker(jobPath string) {
	t0 := time.Now()
	raw, err := os.ReadFile(jobPath)
	if err != nil {
		e2e.Fatal("read job: %v", err)
	}
	var job e2eJob
	if err := json.Unmarshal(raw, &job); err != nil {
		e2e.Fatal("job: %v", err)
	}
	flags := []string{
		"--stream-flush-timeout=100ms", "--measure-flush-timeout=100ms", "--trace-flush-timeout=100ms",
		"--element-index-flush-timeout=100ms",
		// no background merges: the 3 flushed batches stay 3+ parts for the whole run
		"--stream-min-merge-multiplier=1000", "--measure-min-merge-multiplier=1000",
	}
	if job.Out != "" {
		_ = os.Chdir(filepath.Dir(job.Out)) // the server drops ./crash/<dump> directories on recovered panics
	}
	if strings.HasSuffix(job.Engine, "-row") {
		flags = append(flags, "--"+strings.TrimSuffix(job.Engine, "-row")+"-vectorized-enabled=false")
	}
	if l := os.Getenv("C08_LOG"); l != "" {
		flags = append(flags, "--logging-level="+l)
	}
	s := e2e.Start(flags...)
	rep := &e2eReport{PerEngine: map[string]map[string]int{}, Rejections: map[string]int{}, Parts: map[string]int64{}, Stored: map[string]int{}, Times: map[string]float64{}}
	rn := &runner{s: s, rep: rep, seen: map[string]bool{}, outSet: map[string]bool{}, skip: map[skipRule]bool{}}
	for _, sk := range job.Skip {
		rn.skip[sk] = true
	}
	if job.Progress != "" {
		rn.prog, err = os.OpenFile(job.Progress, os.O_CREATE|os.O_TRUNC|os.O_WRONLY, 0o644)
		if err != nil {
			e2e.Fatal("progress file: %v", err)
		}
		// first line: where this server keeps its data, so that the parent can remove it if the server dies
		fmt.Fprintf(rn.prog, "D %s\n", s.Dir)
	}
	en, load := engineByName(job.Engine)
	rep.Times["start_s"] = time.Since(t0).Seconds()
	t1 := time.Now()
	load(s, rep)
	rep.Times["load_s"] = time.Since(t1).Seconds()
	t2 := time.Now()
	rn.runEngine(en, requestsOf(en, job), job.First)
	rep.Times["run_s"] = time.Since(t2).Seconds()
	base := strings.TrimSuffix(en.Name, "-row")
	p, _ := s.Parts(groupOf[base])
	rep.Parts[base+"_end"] = p
	if p < 3 {
		rep.Caps = append(rep.Caps, fmt.Sprintf("%s: fewer than 3 parts at the end of the run (%d loaded, %d at the end)", en.Name, rep.Parts[base+"_loaded"], p))
	}
	rep.Outcomes = len(rn.outSet)
	sort.Slice(rep.Violations, func(i, j int) bool { return rep.Violations[i].Key < rep.Violations[j].Key })
	b, _ := json.Marshal(rep)
	if err := os.WriteFile(job.Out, b, 0o644); err != nil {
		e2e.Fatal("write report: %v", err)
	}
	s.Remove()
	os.Exit(0)
}

var groupOf = map[string]string{"stream": "c08s", "measure": "c08m", "trace": "c08t_plain"}

var catalogOf = map[string]commonv1.Catalog{
	"stream": commonv1.Catalog_CATALOG_STREAM, "measure": commonv1.Catalog_CATALOG_MEASURE, "trace": commonv1.Catalog_CATALOG_TRACE,
}

// windowsFor returns the time windows whose ends sit on / next to the time bounds of the parts. batches = [min,max]
// instants (ms) of the rows of every write batch (one flushed part each).
func windowsFor(batches [][2]int64) []window {
	var out []window
	add := func(f, t int64) {
		if f < 0 {
			f = 0
		}
		out = append(out, window{f, t, fmt.Sprintf("%d..%d", f, t)})
	}
	for _, b := range batches {
		add(b[1], horizonMs)   // begin == max of a part: the part still counts
		add(b[1]+1, horizonMs) // begin just after
		add(0, b[0])           // end == min of a part (the engines treat the end as inclusive)
		add(0, b[0]-1)
		add(b[0], b[1]) // exactly one part
		add(b[0]+1, b[1]-1)
	}
	return out
}
