// C08 unit level: pkg/filter BloomFilter and DictionaryFilter, the stream/trace bloom codecs, and part selection by
// time bounds / trace id (snapshot.getParts of stream, measure, trace).
package main

import (
	"bytes"
	"fmt"
	"os"
	"strings"

	"github.com/apache/skywalking-banyandb/banyand/measure"
	"github.com/apache/skywalking-banyandb/banyand/stream"
	"github.com/apache/skywalking-banyandb/banyand/trace"
	"github.com/apache/skywalking-banyandb/pkg/convert"
	"github.com/apache/skywalking-banyandb/pkg/encoding"
	"github.com/apache/skywalking-banyandb/pkg/filter"
	pbv1 "github.com/apache/skywalking-banyandb/pkg/pb/v1"
)

// bloomAlphabet: 10 items of different shapes (empty, single bytes, prefixes of each other, the 8-byte int encodings the
// engines store, their decimal spellings, a long value).
func bloomAlphabet() [][]byte {
	return [][]byte{
		{}, []byte("a"), []byte("b"), []byte("ab"), convert.Int64ToBytes(0), convert.Int64ToBytes(1), convert.Int64ToBytes(-1),
		[]byte("0"), []byte("1"), bytes.Repeat([]byte("long-value/"), 12),
	}
}

func subsetOf(al [][]byte, mask int) [][]byte {
	var out [][]byte
	for i := range al {
		if mask&(1<<i) != 0 {
			out = append(out, al[i])
		}
	}
	return out
}

type membership interface{ MightContain([]byte) bool }

// unitBloom: every subset of the alphabet inserted -> every inserted item tests positive, in the fresh filter and after
// an encode/decode round trip through the stream and the trace codec; ContainsAll of the inserted set holds.
func unitBloom(u *unitSink, _ bool, only *unitCase) {
	al := bloomAlphabet()
	fp := 0
	for mask := 1; mask < 1<<len(al); mask++ {
		if only != nil && only.Data != nil && fmt.Sprint(only.Data) != fmt.Sprint(mask) {
			continue
		}
		items := subsetOf(al, mask)
		build := map[string]func() membership{
			"NewBloomFilter(n)": func() membership {
				bf := filter.NewBloomFilter(len(items))
				for _, it := range items {
					bf.Add(it)
				}
				if !bf.ContainsAll(items) {
					u.viol("unit/filter/bloom/ContainsAll/false-negative", unitCase{Level: "unit", Check: "bloom", Data: mask, Note: "ContainsAll(inserted items) = false"})
				}
				return bf
			},
			"stream-fresh":     func() membership { b, _ := stream.VC08BloomRoundTrip(items); return b },
			"stream-roundtrip": func() membership { _, a := stream.VC08BloomRoundTrip(items); return a },
			"trace-roundtrip":  func() membership { return trace.VC08BloomRoundTrip(items) },
		}
		for _, name := range []string{"NewBloomFilter(n)", "stream-fresh", "stream-roundtrip", "trace-roundtrip"} {
			f := build[name]()
			for i, it := range al {
				u.evals++
				in := mask&(1<<i) != 0
				got := f.MightContain(it)
				if in && !got {
					u.viol(fmt.Sprintf("unit/filter/bloom/%s/false-negative", name),
						unitCase{Level: "unit", Check: "bloom", Data: mask, Note: fmt.Sprintf("item %d (%q) of subset %010b was added but MightContain = false", i, it, mask)})
				}
				if !in && got {
					fp++
				}
			}
		}
		if mask != 1<<len(al)-1 {
			u.nontrivial++
		}
	}
	u.outcome(fmt.Sprintf("false positives: %d", fp))
	u.outcome("all inserted items positive")
	u.samples = append(u.samples, map[string]any{"level": "unit", "check": "bloom", "subsets": 1<<len(al) - 1, "items": len(al), "false_positives_on_absent_items": fp})
}

// unitDict: DictionaryFilter over every subset of the alphabet as scalar dictionary; array dictionaries over small arrays;
// dictionary sizes around the 256-entry limit of the dictionary encoding.
func unitDict(u *unitSink, _ bool, _ *unitCase) {
	al := bloomAlphabet()
	for mask := 1; mask < 1<<len(al); mask++ {
		items := subsetOf(al, mask)
		df := &filter.DictionaryFilter{}
		df.Set(items, pbv1.ValueTypeStr)
		for i, it := range al {
			u.evals++
			in := mask&(1<<i) != 0
			if in && !df.MightContain(it) {
				u.viol("unit/filter/dict/scalar/MightContain/false-negative", unitCase{Level: "unit", Check: "dict", Data: mask, Note: fmt.Sprintf("item %d of dictionary %010b not found", i, mask)})
			}
			if !in && df.MightContain(it) {
				u.outcome("scalar dictionary false positive")
			}
		}
		if !df.ContainsAll(items) {
			u.viol("unit/filter/dict/scalar/ContainsAll/false-negative", unitCase{Level: "unit", Check: "dict", Data: mask})
		}
		u.nontrivial++
	}
	u.outcome("scalar dictionaries exact")
	// sizes around the dictionary limit: every entry of an n-entry dictionary is found (through the real dictionary
	// encoder/decoder when n <= 256)
	for _, n := range []int{1, 2, 255, 256, 257, 300} {
		var vals [][]byte
		for i := 0; i < n; i++ {
			vals = append(vals, []byte(fmt.Sprintf("v%03d", i)))
		}
		dict := encoding.NewDictionary()
		ok := true
		for _, v := range vals {
			if !dict.Add(v) {
				ok = false
				break
			}
		}
		src := vals
		via := "direct"
		if ok {
			enc := dict.Encode(nil)
			dec, err := encoding.DecodeDictionaryValues(enc)
			if err != nil {
				u.viol("unit/filter/dict/size/decode-error", unitCase{Level: "unit", Check: "dict", Data: n, Note: err.Error()})
				continue
			}
			src, via = dec, "encoded"
		}
		if ok != (n <= 256) {
			u.outcome(fmt.Sprintf("dictionary accepts %d entries: %v", n, ok))
		}
		df := &filter.DictionaryFilter{}
		df.Set(src, pbv1.ValueTypeStr)
		for i, v := range vals {
			u.evals++
			if !df.MightContain(v) {
				u.viol(fmt.Sprintf("unit/filter/dict/size=%d/%s/false-negative", n, via), unitCase{Level: "unit", Check: "dict", Data: n, Note: fmt.Sprintf("entry %d of %d not found", i, n)})
				break
			}
		}
		u.nontrivial++
		u.outcome(fmt.Sprintf("n=%d via %s", n, via))
	}
	// array dictionaries: stored arrays over {x,y,z} (string arrays, var-array encoding) and {1,2,3} (int arrays)
	elems := []string{"x", "y", "z"}
	var arrays [][]string
	for m := 0; m < 8; m++ {
		var a []string
		for i, e := range elems {
			if m&(1<<i) != 0 {
				a = append(a, e)
			}
		}
		arrays = append(arrays, a)
	}
	for _, typ := range []pbv1.ValueType{pbv1.ValueTypeStrArr, pbv1.ValueTypeInt64Arr} {
		tn := "strarr"
		enc := func(e string) []byte { return []byte(e) }
		ser := func(a []string) []byte {
			var b []byte
			for _, e := range a {
				b = encoding.MarshalVarArray(b, []byte(e))
			}
			return b
		}
		if typ == pbv1.ValueTypeInt64Arr {
			tn = "intarr"
			enc = func(e string) []byte { return convert.Int64ToBytes(int64(e[0] - 'w')) }
			ser = func(a []string) []byte {
				var b []byte
				for _, e := range a {
					b = append(b, enc(e)...)
				}
				return b
			}
		}
		// every dictionary of 1..2 stored arrays x every query set of 1..2 elements (+ an absent element w)
		for i := range arrays {
			for j := i; j < len(arrays); j++ {
				stored := [][]string{arrays[i]}
				if j != i {
					stored = append(stored, arrays[j])
				}
				mk := func() *filter.DictionaryFilter {
					var vals [][]byte
					for _, a := range stored {
						vals = append(vals, ser(a))
					}
					df := &filter.DictionaryFilter{}
					df.Set(vals, typ)
					return df
				}
				for _, q := range [][]string{{"x"}, {"y"}, {"w"}, {"x", "y"}, {"y", "x"}, {"x", "w"}, {"x", "x"}} {
					u.evals++
					want := false
					for _, a := range stored {
						all := true
						for _, e := range q {
							all = all && strings.Contains(strings.Join(a, ""), e)
						}
						want = want || all
					}
					var items [][]byte
					for _, e := range q {
						items = append(items, enc(e))
					}
					df := mk()
					got1 := df.ContainsAll(items)
					got2 := df.ContainsAll(items) // the string-array scan works in place on the stored bytes
					if want && (!got1 || !got2) {
						u.viol(fmt.Sprintf("unit/filter/dict/%s/ContainsAll/false-negative", tn),
							unitCase{Level: "unit", Check: "dict", Data: fmt.Sprint(stored, q), Note: fmt.Sprintf("first call %v, second call %v", got1, got2)})
					}
					if want {
						u.nontrivial++
					}
					if len(q) == 1 {
						if want && !mk().MightContain(items[0]) {
							u.viol(fmt.Sprintf("unit/filter/dict/%s/MightContain/false-negative", tn),
								unitCase{Level: "unit", Check: "dict", Data: fmt.Sprint(stored, q), Note: "an element of a stored array is reported as not contained"})
						}
					}
				}
			}
		}
	}
}

// unitParts: snapshot.getParts of the three engines: every layout of 3 parts with bounds over {0..3} x every probe range
// over {-1..4}; trace also every trace-id content x every probed id list.
func unitParts(u *unitSink, thorough bool, _ *unitCase) {
	var ivs [][2]int64
	for a := int64(0); a <= 3; a++ {
		for b := a; b <= 3; b++ {
			ivs = append(ivs, [2]int64{a, b})
		}
	}
	var probes [][2]int64
	for a := int64(-1); a <= 4; a++ {
		for b := a; b <= 4; b++ {
			probes = append(probes, [2]int64{a, b})
		}
	}
	engines := map[string]func([][2]int64, int64, int64) []int{"stream": stream.VC08GetParts, "measure": measure.VC08GetParts}
	for _, en := range []string{"stream", "measure"} {
		for _, p1 := range ivs {
			for _, p2 := range ivs {
				for _, p3 := range ivs {
					layout := [][2]int64{p1, p2, p3}
					for _, q := range probes {
						u.evals++
						got := map[int]bool{}
						for _, i := range engines[en](layout, q[0], q[1]) {
							got[i] = true
						}
						n := 0
						for i, p := range layout {
							want := p[0] <= q[1] && q[0] <= p[1]
							if want {
								n++
							}
							if want && !got[i] {
								u.viol(fmt.Sprintf("unit/parts/%s/getParts/missing/%s", en, edgeClass(p, q)),
									unitCase{Level: "unit", Check: "parts", Type: en, Data: fmt.Sprint(layout, q), Note: fmt.Sprintf("part %d %v intersects the range %v but was not selected", i, p, q)})
							}
							if !want && got[i] {
								u.outcome(en + " over-selects")
							}
						}
						if n > 0 && n < 3 {
							u.nontrivial++
						}
					}
				}
			}
		}
		u.outcome(en + " exact on time bounds")
	}
	// trace: time bounds x trace-id filter
	dir := fmt.Sprintf("/dev/shm/c08-unit-%d", os.Getpid())
	defer os.RemoveAll(dir)
	ids := []string{"t1", "t2", "t3"}
	var contents [][]string
	for m := 0; m < 8; m++ {
		var c []string
		for i, id := range ids {
			if m&(1<<i) != 0 {
				c = append(c, id)
			}
		}
		contents = append(contents, c) // m == 0: nil = the part has no traceID.filter
	}
	var idProbes [][]string
	for m := 1; m < 16; m++ {
		var c []string
		for i, id := range []string{"t1", "t2", "t3", "t9"} {
			if m&(1<<i) != 0 {
				c = append(c, id)
			}
		}
		idProbes = append(idProbes, c)
	}
	tivs := [][2]int64{{0, 1}, {1, 1}, {2, 3}}
	if thorough {
		tivs = ivs
	}
	n := 0
	for _, c1 := range contents {
		for _, c2 := range contents {
			for _, iv := range tivs {
				layout := []trace.VC08TracePart{{Min: 0, Max: 1, TraceIDs: c1}, {Min: iv[0], Max: iv[1], TraceIDs: c2}}
				n++
				_ = os.RemoveAll(dir)
				for _, q := range [][2]int64{{-1, -1}, {0, 0}, {1, 1}, {1, 2}, {2, 2}, {4, 4}, {-1, 4}} {
					for _, idq := range append([][]string{nil}, idProbes...) {
						u.evals++
						got := map[int]bool{}
						for _, i := range trace.VC08GetParts(dir, layout, q[0], q[1], idq) {
							got[i] = true
						}
						for i, p := range layout {
							want := p.Min <= q[1] && q[0] <= p.Max
							if want && idq != nil && p.TraceIDs != nil {
								has := false
								for _, id := range idq {
									for _, pid := range p.TraceIDs {
										has = has || id == pid
									}
								}
								want = has
							}
							if want && !got[i] {
								why := "time"
								if idq != nil {
									why = "traceid"
								}
								u.viol(fmt.Sprintf("unit/parts/trace/getParts/missing/%s/%s", why, edgeClass([2]int64{p.Min, p.Max}, q)),
									unitCase{Level: "unit", Check: "parts", Type: "trace", Data: fmt.Sprint(layout, q, idq), Note: fmt.Sprintf("part %d must be selected", i)})
							}
							if want {
								u.nontrivial++
							}
						}
					}
				}
			}
		}
	}
	u.samples = append(u.samples, map[string]any{"level": "unit", "check": "parts", "time_layouts_per_engine": len(ivs) * len(ivs) * len(ivs), "probes": len(probes), "trace_layouts": n})
}

// edgeClass says how the part bounds p touch the probed range q: the interesting cases are the inclusive edges.
func edgeClass(p, q [2]int64) string {
	switch {
	case p[1] == q[0] && p[0] == q[1]:
		return "point"
	case p[1] == q[0]:
		return "part.max==range.begin"
	case p[0] == q[1]:
		return "part.min==range.end"
	}
	return "inside"
}
