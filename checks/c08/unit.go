// C08 level 2: exhaustive unit-level enumeration of the pruning structures (in-process, real functions).
package main

import (
	"fmt"
	"os"
	"sort"
)

type unitViolation struct {
	Key string
	Art unitCase
}

type unitResult struct {
	Evals, NonTrivial int
	Outcomes          int
	PerCheck          map[string]map[string]int
	Violations        []unitViolation
	Samples           []any
	NotExhaustive     []string
}

type unitCheck struct {
	Name string
	Run  func(u *unitSink, thorough bool, only *unitCase)
}

func unitChecks() []unitCheck {
	return []unitCheck{
		{"bloom", unitBloom},
		{"dict", unitDict},
		{"parts", unitParts},
		{"measure-blocks", unitMeasureBlocks},
		{"stream-blocks", unitStreamBlocks},
		{"sidx-blocks", unitSidxBlocks},
		{"keywindow", unitKeyWindow},
		{"sidx-primary", unitSidxPrimary},
		{"measure-straddle", unitMeasureStraddle},
		{"trace-fileparts", unitTraceFileParts},
		{"stream-rowplan", unitStreamRowPlan},
	}
}

func runUnit(thorough bool, only *unitCase) unitResult {
	res := unitResult{PerCheck: map[string]map[string]int{}}
	seen := map[string]bool{}
	for _, c := range unitChecks() {
		if only != nil && only.Check != c.Name {
			continue
		}
		if os.Getenv("C08_NO_ROUND2") != "" && (c.Name == "measure-straddle" || c.Name == "trace-fileparts" || c.Name == "stream-rowplan") {
			continue
		}
		u := &unitSink{outcomes: map[string]bool{}}
		nv := 0
		u.viol = func(key string, art unitCase) {
			nv++
			if seen[key] {
				return
			}
			seen[key] = true
			res.Violations = append(res.Violations, unitViolation{key, art})
		}
		c.Run(u, thorough, only)
		res.Evals += u.evals
		res.NonTrivial += u.nontrivial
		res.Outcomes += len(u.outcomes)
		res.PerCheck[c.Name] = map[string]int{"evaluations": u.evals, "nontrivial": u.nontrivial, "outcomes": len(u.outcomes), "violating_cases": nv}
		res.Samples = append(res.Samples, u.samples...)
		res.NotExhaustive = append(res.NotExhaustive, u.notExh...)
		fmt.Printf("unit %s: evaluations=%d nontrivial=%d outcomes=%d violating_cases=%d\n", c.Name, u.evals, u.nontrivial, len(u.outcomes), nv)
	}
	sort.Slice(res.Violations, func(i, j int) bool { return res.Violations[i].Key < res.Violations[j].Key })
	return res
}
