// C08 unit level: block selection of the measure partIter (searchPBM / findBlock) and the sidx tag filter
// (tag_filter_op.go) behind the trace criteria.
package main

import (
	"fmt"
	"sort"
	"strings"

	commonv1 "github.com/apache/skywalking-banyandb/api/proto/banyandb/common/v1"
	databasev1 "github.com/apache/skywalking-banyandb/api/proto/banyandb/database/v1"
	modelv1 "github.com/apache/skywalking-banyandb/api/proto/banyandb/model/v1"
	"github.com/apache/skywalking-banyandb/banyand/internal/sidx"
	"github.com/apache/skywalking-banyandb/banyand/measure"
	"github.com/apache/skywalking-banyandb/banyand/trace"
	"github.com/apache/skywalking-banyandb/pkg/index"
	ltrace "github.com/apache/skywalking-banyandb/pkg/query/logical/trace"
	"github.com/apache/skywalking-banyandb/pkg/verif/e2e"
)

// unitMeasureBlocks: every layout of 3 blocks (series over {1,2,3}, time intervals over {0..3}, ascending and disjoint
// inside a series) x every probe (every non-empty sorted subset of series {1,2,3,4} x every range over {-1..4}): the
// blocks yielded by the real partIter are exactly the blocks of a requested series whose interval meets the range.
// Plus one part of 4000 single-block series (several primary index blocks) probed at every index-block edge.
func unitMeasureBlocks(u *unitSink, thorough bool, _ *unitCase) {
	var ivs [][2]int64
	for a := int64(0); a <= 3; a++ {
		for b := a; b <= 3; b++ {
			ivs = append(ivs, [2]int64{a, b})
		}
	}
	var ranges [][2]int64
	for a := int64(-1); a <= 4; a++ {
		for b := a; b <= 4; b++ {
			ranges = append(ranges, [2]int64{a, b})
		}
	}
	var sidSets [][]uint64
	for m := 1; m < 16; m++ {
		var s []uint64
		for i := 0; i < 4; i++ {
			if m&(1<<i) != 0 {
				s = append(s, uint64(i+1))
			}
		}
		sidSets = append(sidSets, s)
	}
	layouts := 0
	check := func(blocks []measure.VC08Block, sets [][]uint64, rs [][2]int64, tag string) {
		vp, err := measure.VC08Build(blocks)
		if err != nil {
			u.viol("unit/measure/build", unitCase{Level: "unit", Check: "measure-blocks", Data: fmt.Sprint(blocks), Note: err.Error()})
			return
		}
		defer vp.Release()
		layouts++
		for _, ss := range sets {
			req := map[uint64]bool{}
			for _, s := range ss {
				req[s] = true
			}
			for _, q := range rs {
				u.evals++
				got, err := vp.Select(ss, q[0], q[1])
				if err != nil {
					u.viol(fmt.Sprintf("unit/measure/partIter/%s/error", tag), unitCase{Level: "unit", Check: "measure-blocks", Data: fmt.Sprint(blocks, ss, q), Note: err.Error()})
					continue
				}
				sel := map[[3]int64]bool{}
				for _, g := range got {
					sel[[3]int64{int64(g.Sid), g.MinTs, g.MaxTs}] = true
				}
				n := 0
				for _, b := range blocks {
					lo, hi := b.Ts[0], b.Ts[len(b.Ts)-1]
					want := req[b.Sid] && lo <= q[1] && q[0] <= hi
					k := [3]int64{int64(b.Sid), lo, hi}
					if want {
						n++
					}
					if want && !sel[k] {
						u.viol(fmt.Sprintf("unit/measure/partIter/%s/missing/%s", tag, edgeClass([2]int64{lo, hi}, q)),
							unitCase{Level: "unit", Check: "measure-blocks", Data: fmt.Sprint(blocks, ss, q), Note: fmt.Sprintf("block sid=%d [%d,%d] not yielded", b.Sid, lo, hi)})
					}
					if !want && sel[k] {
						u.viol(fmt.Sprintf("unit/measure/partIter/%s/extra", tag),
							unitCase{Level: "unit", Check: "measure-blocks", Data: fmt.Sprint(blocks, ss, q), Note: fmt.Sprintf("block sid=%d [%d,%d] yielded although not requested", b.Sid, lo, hi)})
					}
				}
				if n > 0 && n < len(blocks) {
					u.nontrivial++
				}
				u.outcome(fmt.Sprintf("%s yields %d", tag, len(got)))
			}
		}
	}
	mk := func(sid uint64, iv [2]int64) measure.VC08Block {
		ts := []int64{iv[0]}
		if iv[1] != iv[0] {
			ts = append(ts, iv[1])
		}
		return measure.VC08Block{Sid: sid, Ts: ts}
	}
	for s1 := uint64(1); s1 <= 3; s1++ {
		for s2 := s1; s2 <= 3; s2++ {
			for s3 := s2; s3 <= 3; s3++ {
				for _, i1 := range ivs {
					for _, i2 := range ivs {
						if s2 == s1 && i2[0] <= i1[1] {
							continue
						}
						for _, i3 := range ivs {
							if s3 == s2 && i3[0] <= i2[1] {
								continue
							}
							check([]measure.VC08Block{mk(s1, i1), mk(s2, i2), mk(s3, i3)}, sidSets, ranges, "3blocks")
						}
					}
				}
			}
		}
	}
	{
		// many series: several primary (index) blocks; probe the series at every index-block edge
		var blocks []measure.VC08Block
		const n = 4000
		for s := uint64(1); s <= n; s++ {
			blocks = append(blocks, mk(s*2, [2]int64{int64(s % 4), int64(s%4) + 1}))
		}
		vp, err := measure.VC08Build(blocks)
		if err == nil {
			firsts := vp.PrimaryFirstSids()
			vp.Release()
			u.outcome(fmt.Sprintf("index blocks: %d", len(firsts)))
			var sets [][]uint64
			for _, f := range firsts {
				for _, d := range []int64{-3, -2, -1, 0, 1, 2} {
					s := int64(f) + d
					if s >= 1 {
						sets = append(sets, []uint64{uint64(s)})
					}
				}
				sets = append(sets, []uint64{2, f}, []uint64{f, 2 * n}, []uint64{f - 2, f, f + 2})
			}
			sets = append(sets, []uint64{1}, []uint64{2}, []uint64{2 * n}, []uint64{2*n + 1}, []uint64{2, 2 * n})
			check(blocks, sets, [][2]int64{{-1, 9}, {0, 0}, {4, 4}, {2, 2}}, "manyblocks")
		}
	}
	u.samples = append(u.samples, map[string]any{"level": "unit", "check": "measure-blocks", "layouts": layouts, "series_sets": len(sidSets), "ranges": len(ranges)})
}

// ---------------------------------------------------------------------------------------------------------------
// sidx tag filter

func unitSidxSchema(t databasev1.TagType) (*databasev1.Trace, []*databasev1.IndexRule) {
	tr := &databasev1.Trace{
		Metadata: &commonv1.Metadata{Group: "g", Name: "t"}, TraceIdTagName: "trace_id", SpanIdTagName: "span_id", TimestampTagName: "ts",
		Tags: []*databasev1.TraceTagSpec{
			{Name: "trace_id", Type: e2e.TStr}, {Name: "span_id", Type: e2e.TStr}, {Name: "ts", Type: e2e.TTime},
			{Name: "t", Type: t}, {Name: "dur", Type: e2e.TInt},
		},
	}
	rules := []*databasev1.IndexRule{{Metadata: &commonv1.Metadata{Group: "g", Name: "r", Id: 9}, Tags: []string{"dur"}, Type: e2e.ITree}}
	return tr, rules
}

// unitSidxBlocks: every block content over the small alphabets (as in the stream unit) written into a real sidx part
// through the trace write path's tag conversion; every probe compiled by the real trace filter builder; the real
// partKeyIter must yield every block that holds a row satisfying the predicate. Also every key range over the block's
// key bounds.
func unitSidxBlocks(u *unitSink, thorough bool, only *unitCase) {
	maxLen := 2
	if thorough {
		maxLen = 3
	}
	for _, ut := range unitTypes() {
		if only != nil && only.Type != ut.Name {
			continue
		}
		tr, rules := unitSidxSchema(ut.Type)
		type probe struct {
			a      atom
			f      index.Filter
			reject string
		}
		var probes []probe
		for _, a := range ut.Atoms {
			if only != nil && toAtomJSON(a) != only.Atom {
				continue
			}
			f, _, _, err := ltrace.VC08Filter(a.crit(), tr, rules, "dur")
			p := probe{a: a, f: f}
			if err != nil {
				p.reject = err.Error()
			}
			probes = append(probes, p)
		}
		seqs := sequences(ut.Values, maxLen)
		for _, s := range seqs {
			var elems []sidx.VC08Elem
			for i, v := range s {
				e := sidx.VC08Elem{Sid: 1, Key: int64(10 * (i + 1))}
				e.Tags = []sidx.Tag{trace.VC08SidxTag("t", ut.Type, v)}
				elems = append(elems, e)
			}
			// a second series whose only element has a null tag: the block under test is not alone in the part
			elems = append(elems, sidx.VC08Elem{Sid: 2, Key: 5, Tags: []sidx.Tag{trace.VC08SidxTag("t", ut.Type, e2e.Null())}})
			vp, err := sidx.VC08Build(elems)
			if err != nil {
				u.viol(fmt.Sprintf("unit/sidx/build/%s", ut.Name), unitCase{Level: "unit", Check: "sidx-blocks", Type: ut.Name, Data: renderSeq(s), Note: err.Error()})
				continue
			}
			ids := vp.Blocks()
			for _, p := range probes {
				if p.reject != "" {
					u.outcome("reject")
					continue
				}
				must, judged := false, true
				for _, v := range s {
					ok, j := evalAtom(v, p.a)
					if !j {
						judged = false
						break
					}
					must = must || ok
				}
				if !judged {
					continue
				}
				u.evals++
				got, err := vp.Select([]uint64{1, 2}, -1<<40, 1<<40, p.f, true)
				if err != nil {
					if strings.HasPrefix(err.Error(), "panic") {
						u.viol(fmt.Sprintf("unit/sidx/tagfilter/%s/%s/panic", ut.Name, opName[p.a.Op]),
							unitCase{Level: "unit", Check: "sidx-blocks", Type: ut.Name, Atom: toAtomJSON(p.a), Data: renderSeq(s), Note: err.Error()})
					} else {
						u.outcome("error: " + opName[p.a.Op])
					}
					continue
				}
				yielded := false
				for _, g := range got {
					yielded = yielded || g.Sid == 1
				}
				if !yielded {
					u.nontrivial++
				}
				u.outcome(fmt.Sprintf("%s yielded=%v", ut.Name, yielded))
				if must && !yielded {
					bi := 0
					for i := range ids {
						if ids[i].Sid == 1 {
							bi = i
						}
					}
					u.viol(fmt.Sprintf("unit/sidx/tagfilter/%s/%s[%s]/%s/content=%s", ut.Name, opName[p.a.Op], p.a.Class, vp.FilterKind(bi, "t"), contentClass(s)),
						unitCase{Level: "unit", Check: "sidx-blocks", Type: ut.Name, Atom: toAtomJSON(p.a), Data: renderSeq(s),
							Note: fmt.Sprintf("block %s holds a row satisfying %s but the sidx block filter skipped it", renderSeq(s), p.a.label())})
				}
			}
			// key bounds: keys are 10,20,..: every range over {min-1,min,min+1,max-1,max,max+1}
			lo, hi := int64(10), int64(10*len(s))
			cand := []int64{lo - 1, lo, lo + 1, hi - 1, hi, hi + 1}
			sort.Slice(cand, func(i, j int) bool { return cand[i] < cand[j] })
			for _, a := range cand {
				for _, b := range cand {
					if a > b {
						continue
					}
					u.evals++
					got, err := vp.Select([]uint64{1}, a, b, nil, true)
					want := false
					for i := range s {
						k := int64(10 * (i + 1))
						want = want || (a <= k && k <= b)
					}
					if err != nil {
						u.viol("unit/sidx/keyrange/error", unitCase{Level: "unit", Check: "sidx-blocks", Type: ut.Name, Data: fmt.Sprint(renderSeq(s), a, b), Note: err.Error()})
					} else if want && len(got) == 0 {
						u.viol(fmt.Sprintf("unit/sidx/keyrange/missing/%s", edgeClass([2]int64{lo, hi}, [2]int64{a, b})),
							unitCase{Level: "unit", Check: "sidx-blocks", Type: ut.Name, Data: fmt.Sprint(renderSeq(s), a, b), Note: "block holds a key inside the range but was not yielded"})
					}
				}
			}
			vp.Release()
		}
		if len(u.samples) < 2 {
			u.samples = append(u.samples, map[string]any{"level": "unit", "check": "sidx-blocks", "type": ut.Name, "contents": len(seqs), "probes": len(probes)})
		}
	}
	_ = modelv1.Sort_SORT_ASC
}
