// C08 unit level, trace key window and sidx part/primary-block key bounds.
//
// keywindow: every criteria tree of depth <= 3 over bound atoms on the order-by key tag (+ one atom on another tag) is
// compiled by the real trace filter builder (buildFilter / buildFilterFromLogicalExpression / mergeMinMaxBounds); the
// [MinKey, MaxKey] window it hands to the sidx must contain the key of every row that satisfies the tree (brute force
// over a small key alphabet): the window prunes parts and blocks before any row is looked at.
//
// sidx-primary: real sidx parts with 1, 2 and 3 primary (index) blocks — enough one-element series to cross the real
// 64 KiB block-metadata limit — with the largest and the smallest key placed in the first / middle / last primary
// block: the part-level and primary-block-level key bounds equal the true extremes, and Snapshot.getParts + partKeyIter
// return every entry for every probe range over {below, at, above} every recorded bound.
package main

import (
	"fmt"
	"math"
	"sort"

	modelv1 "github.com/apache/skywalking-banyandb/api/proto/banyandb/model/v1"
	"github.com/apache/skywalking-banyandb/banyand/internal/sidx"
	"github.com/apache/skywalking-banyandb/banyand/trace"
	ltrace "github.com/apache/skywalking-banyandb/pkg/query/logical/trace"
	"github.com/apache/skywalking-banyandb/pkg/verif/e2e"
)

// ktree is a criteria tree of arbitrary depth over atoms.
type ktree struct {
	Leaf *atom
	Op   modelv1.LogicalExpression_LogicalOp
	L, R *ktree
}

func (t *ktree) crit() *modelv1.Criteria {
	if t.Leaf != nil {
		return t.Leaf.crit()
	}
	return &modelv1.Criteria{Exp: &modelv1.Criteria_Le{Le: &modelv1.LogicalExpression{Op: t.Op, Left: t.L.crit(), Right: t.R.crit()}}}
}

func (t *ktree) label() string {
	if t.Leaf != nil {
		return t.Leaf.label()
	}
	return lopName(t.Op) + "(" + t.L.label() + "," + t.R.label() + ")"
}

// shape: operators and connectives only (constants dropped) — the violation key.
func (t *ktree) shape() string {
	if t.Leaf != nil {
		return t.Leaf.Tag + "." + opName[t.Leaf.Op]
	}
	return lopName(t.Op) + "(" + t.L.shape() + "," + t.R.shape() + ")"
}

func (t *ktree) eval(row map[string]*modelv1.TagValue) bool {
	if t.Leaf != nil {
		ok, _ := evalAtom(row[t.Leaf.Tag], *t.Leaf)
		return ok
	}
	if t.Op == lAND {
		return t.L.eval(row) && t.R.eval(row)
	}
	return t.L.eval(row) || t.R.eval(row)
}

func unitKeyWindow(u *unitSink, thorough bool, _ *unitCase) {
	tr, rules := unitSidxSchema(e2e.TStr) // tags: t (string, ordinary sidx tag), dur (int, key of rule r)
	consts := []int64{1, 3}
	if thorough {
		consts = []int64{1, 2, 3}
	}
	var leaves []*ktree
	for _, op := range scalarOps {
		for _, c := range consts {
			a := atom{"dur", op, e2e.Int(c), "hit"}
			leaves = append(leaves, &ktree{Leaf: &a})
		}
	}
	for _, c := range []int64{math.MinInt64, math.MaxInt64} {
		for _, op := range []modelv1.Condition_BinaryOp{opGT, opLT, opGE, opLE} {
			a := atom{"dur", op, e2e.Int(c), "extreme"}
			leaves = append(leaves, &ktree{Leaf: &a})
		}
	}
	in := atom{"dur", opIN, e2e.IntArr(1, 3), "hit"}
	other := atom{"t", opEQ, e2e.Str("x"), "hit"}
	leaves = append(leaves, &ktree{Leaf: &in}, &ktree{Leaf: &other})
	ops := []modelv1.LogicalExpression_LogicalOp{lAND, lOR}
	var trees []*ktree
	trees = append(trees, leaves...)
	var pairs []*ktree
	for _, op := range ops {
		for _, l := range leaves {
			for _, r := range leaves {
				pairs = append(pairs, &ktree{Op: op, L: l, R: r})
			}
		}
	}
	trees = append(trees, pairs...)
	// depth 3: (pair op leaf) and (leaf op pair); the third leaf ranges over a reduced set in the quick tier
	third := leaves
	if !thorough {
		third = nil
		for _, l := range leaves {
			if l.Leaf.Class != "extreme" && (l.Leaf.Tag == "t" || l.Leaf.Const.GetInt().GetValue() == 3 || l.Leaf.Op == opIN) {
				third = append(third, l)
			}
		}
	}
	for _, op := range ops {
		for _, p := range pairs {
			if !thorough && (p.L.Leaf.Class == "extreme" || p.R.Leaf.Class == "extreme") {
				continue
			}
			for _, l := range third {
				trees = append(trees, &ktree{Op: op, L: p, R: l}, &ktree{Op: op, L: l, R: p})
			}
		}
	}
	// rows: key alphabet x the other tag
	var rows []map[string]*modelv1.TagValue
	for _, k := range []int64{math.MinInt64, -1, 0, 1, 2, 3, 4, 5, math.MaxInt64} {
		for _, s := range []*modelv1.TagValue{e2e.Str("x"), e2e.Str("y")} {
			rows = append(rows, map[string]*modelv1.TagValue{"dur": e2e.Int(k), "t": s})
		}
	}
	for _, t := range trees {
		u.evals++
		_, lo, hi, err := ltrace.VC08Filter(t.crit(), tr, rules, "dur")
		if err != nil {
			u.outcome("reject")
			continue
		}
		matched, pruned := 0, 0
		for _, row := range rows {
			k := row["dur"].GetInt().GetValue()
			inside := lo <= k && k <= hi
			if !inside {
				pruned++
			}
			if !t.eval(row) {
				continue
			}
			matched++
			if !inside {
				u.viol("unit/trace/keywindow/"+t.shape()+"/matching-key-outside-window",
					unitCase{Level: "unit", Check: "keywindow", Data: t.label(),
						Note: fmt.Sprintf("row {dur=%d t=%s} satisfies the criteria but the sidx key window is [%d, %d]", k, render(row["t"]), lo, hi)})
				break
			}
		}
		if pruned > 0 && matched > 0 {
			u.nontrivial++
		}
		switch {
		case lo == math.MinInt64 && hi == math.MaxInt64:
			u.outcome("unbounded")
		case lo > hi:
			u.outcome("empty window")
		case lo == math.MinInt64:
			u.outcome("upper bound only")
		case hi == math.MaxInt64:
			u.outcome("lower bound only")
		default:
			u.outcome("both bounds")
		}
	}
	u.samples = append(u.samples, map[string]any{"level": "unit", "check": "keywindow", "trees": len(trees), "leaves": len(leaves), "rows": len(rows), "example": trees[len(trees)-1].label()})
}

// ---------------------------------------------------------------------------------------------------------------

type primaryLayout struct {
	n        int // series (one element, one block each)
	primary  int // primary blocks this n produces
	firstSid []uint64
}

// findPrimaryLayouts grows the number of one-element series until the part has 1, 2 and 3 primary blocks.
func findPrimaryLayouts() (map[int]primaryLayout, error) {
	out := map[int]primaryLayout{}
	for n := 200; n <= 20000 && len(out) < 3; n += 200 {
		vp, err := sidx.VC08Build(primaryElems(n, nil))
		if err != nil {
			return nil, err
		}
		pbs := vp.PrimaryBlocks()
		vp.Release()
		if _, ok := out[len(pbs)]; !ok && len(pbs) >= 1 && len(pbs) <= 3 {
			pl := primaryLayout{n: n, primary: len(pbs)}
			for _, pb := range pbs {
				pl.firstSid = append(pl.firstSid, pb.FirstSid)
			}
			// prefer a layout whose last primary block is not tiny: take the first n that reaches the count, then
			// add half a block worth of series for 2 and 3 below
			out[len(pbs)] = pl
		}
	}
	if len(out) < 3 {
		return nil, fmt.Errorf("could not produce 1, 2 and 3 primary blocks (got %d layouts)", len(out))
	}
	return out, nil
}

// primaryElems: series 1..n, one element each, key = 10 + sid%7 unless overridden.
func primaryElems(n int, keyOf map[uint64]int64) []sidx.VC08Elem {
	elems := make([]sidx.VC08Elem, 0, n)
	for s := uint64(1); s <= uint64(n); s++ {
		k := int64(10 + s%7)
		if v, ok := keyOf[s]; ok {
			k = v
		}
		elems = append(elems, sidx.VC08Elem{Sid: s, Key: k, Tags: []sidx.Tag{trace.VC08SidxTag("t", e2e.TStr, e2e.Str("x"))}})
	}
	return elems
}

func unitSidxPrimary(u *unitSink, thorough bool, _ *unitCase) {
	layouts, err := findPrimaryLayouts()
	if err != nil {
		u.viol("unit/sidx/primary/build", unitCase{Level: "unit", Check: "sidx-primary", Note: err.Error()})
		return
	}
	for _, np := range []int{1, 2, 3} {
		pl := layouts[np]
		n := pl.n + 100 // a few more series so that the last primary block is not a single block
		// where do the primary blocks start for this n?
		vp0, err := sidx.VC08Build(primaryElems(n, nil))
		if err != nil {
			u.viol("unit/sidx/primary/build", unitCase{Level: "unit", Check: "sidx-primary", Data: n, Note: err.Error()})
			continue
		}
		pbs0 := vp0.PrimaryBlocks()
		vp0.Release()
		if len(pbs0) != np {
			u.outcome(fmt.Sprintf("layout for %d primary blocks gave %d", np, len(pbs0)))
			np = len(pbs0)
		}
		u.outcome(fmt.Sprintf("%d series -> %d primary blocks (limit %d bytes of block metadata)", n, len(pbs0), sidx.VC08MaxPrimaryBlockSize))
		// a series in the middle of every primary block
		mid := make([]uint64, len(pbs0))
		for i := range pbs0 {
			end := uint64(n) + 1
			if i+1 < len(pbs0) {
				end = pbs0[i+1].FirstSid
			}
			mid[i] = (pbs0[i].FirstSid + end) / 2
		}
		posName := func(i int) string {
			switch {
			case len(mid) == 1:
				return "only"
			case i == 0:
				return "first"
			case i == len(mid)-1:
				return "last"
			}
			return "middle"
		}
		for hiPos := range mid {
			for loPos := range mid {
				if mid[hiPos] == mid[loPos] && len(mid) > 1 {
					// largest and smallest key in the same primary block: neighbours
				}
				keyOf := map[uint64]int64{mid[hiPos]: 1000, mid[loPos] + 1: -1000}
				elems := primaryElems(n, keyOf)
				vp, err := sidx.VC08Build(elems)
				if err != nil {
					u.viol("unit/sidx/primary/build", unitCase{Level: "unit", Check: "sidx-primary", Data: n, Note: err.Error()})
					continue
				}
				tag := fmt.Sprintf("primary=%d/max-in-%s/min-in-%s", len(pbs0), posName(hiPos), posName(loPos))
				art := func(note string) unitCase {
					return unitCase{Level: "unit", Check: "sidx-primary", Data: map[string]any{"series": n, "max_key_series": mid[hiPos], "min_key_series": mid[loPos] + 1}, Note: note}
				}
				pbs := vp.PrimaryBlocks()
				// (a) part-level bounds
				u.evals++
				pmin, pmax := vp.PartKeys()
				if pmin != -1000 {
					u.viol("unit/sidx/primary/part-metadata/MinKey/"+tag, art(fmt.Sprintf("part metadata MinKey=%d, smallest key is -1000", pmin)))
				}
				if pmax != 1000 {
					u.viol("unit/sidx/primary/part-metadata/MaxKey/"+tag, art(fmt.Sprintf("part metadata MaxKey=%d, largest key is 1000", pmax)))
				}
				// (b) primary-block bounds
				cand := map[int64]bool{pmin: true, pmax: true, -1000: true, 1000: true}
				for i, pb := range pbs {
					end := uint64(n) + 1
					if i+1 < len(pbs) {
						end = pbs[i+1].FirstSid
					}
					lo, hi := int64(math.MaxInt64), int64(math.MinInt64)
					for _, e := range elems {
						if e.Sid >= pb.FirstSid && e.Sid < end {
							if e.Key < lo {
								lo = e.Key
							}
							if e.Key > hi {
								hi = e.Key
							}
						}
					}
					u.evals++
					if pb.MinKey != lo || pb.MaxKey != hi {
						u.viol("unit/sidx/primary/primary-block-bounds/"+tag, art(fmt.Sprintf("primary block %d records [%d,%d], its blocks span [%d,%d]", i, pb.MinKey, pb.MaxKey, lo, hi)))
					}
					for _, k := range []int64{pb.MinKey, pb.MaxKey, lo, hi} {
						cand[k] = true
					}
				}
				// (c) probes over {below, at, above} every bound
				var ks []int64
				seen := map[int64]bool{}
				for k := range cand {
					for _, d := range []int64{-1, 0, 1} {
						if !seen[k+d] {
							seen[k+d] = true
							ks = append(ks, k+d)
						}
					}
				}
				sort.Slice(ks, func(i, j int) bool { return ks[i] < ks[j] })
				sids := make([]uint64, n)
				for i := range sids {
					sids[i] = uint64(i + 1)
				}
				for _, a := range ks {
					for _, b := range ks {
						if a > b {
							continue
						}
						if !thorough && a != b && !(a == ks[0] || b == ks[len(ks)-1]) {
							continue // quick: points, prefixes and suffixes; thorough: every range
						}
						u.evals++
						want := map[uint64]bool{}
						for _, e := range elems {
							if a <= e.Key && e.Key <= b {
								want[e.Sid] = true
							}
						}
						if len(want) > 0 && len(want) < n {
							u.nontrivial++
						}
						if len(want) > 0 && !vp.GetParts(a, b) {
							u.viol("unit/sidx/primary/getParts/"+tag, art(fmt.Sprintf("range [%d,%d] holds %d entries but Snapshot.getParts prunes the part (recorded bounds [%d,%d])", a, b, len(want), pmin, pmax)))
						}
						got, err := vp.Select(sids, a, b, nil, true)
						if err != nil {
							u.viol("unit/sidx/primary/partKeyIter/error/"+tag, art(err.Error()))
							continue
						}
						have := map[uint64]bool{}
						for _, g := range got {
							have[g.Sid] = true
						}
						for s := range want {
							if !have[s] {
								u.viol("unit/sidx/primary/partKeyIter/missing/"+tag, art(fmt.Sprintf("range [%d,%d]: the entry of series %d was not yielded", a, b, s)))
								break
							}
						}
						u.outcome(fmt.Sprintf("primary=%d yields %v", len(pbs0), len(got) > 0))
					}
				}
				vp.Release()
			}
		}
	}
	u.samples = append(u.samples, map[string]any{"level": "unit", "check": "sidx-primary", "series_for_1_2_3_primary_blocks": []int{layouts[1].n + 100, layouts[2].n + 100, layouts[3].n + 100}, "primary_block_limit_bytes": sidx.VC08MaxPrimaryBlockSize})
}
