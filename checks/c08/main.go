// C08: criteria mean the same with or without indexes and pruning.
//
// Level 1 (e2e): one in-process standalone server per engine holds the same rows under every index-rule binding
// (9 streams, 3 measures, 3 trace schemas); every criteria atom and every AND/OR tree over a core set of atoms is sent
// to every binding; oracle A = identical rows across bindings, oracle B = brute-force predicate over the stored rows.
// Level 2 (unit): exhaustive enumeration on the pruning structures themselves (bloom / dictionary filters, per-block tag
// filters and min/max of stream and sidx, block selection of the measure part iterator, part selection by time bounds
// and trace id).
package main

import (
	"encoding/json"
	"fmt"
	"os"
	"path/filepath"
	"regexp"
	"sort"
	"strings"
	"sync"

	"github.com/apache/skywalking-banyandb/pkg/logger"
	"github.com/apache/skywalking-banyandb/pkg/verif/ev"
)

// proposed known findings (checks/c08/known_findings.add.json): applied by the check itself until they are merged into
// the framework's known_findings.json (same semantics: matched violations are reported as KNOWN-FINDING lines and in
// the evidence, they do not fail the run; anything else does).
type proposed struct {
	Match string `json:"match"`
	What  string `json:"what"`
	re    *regexp.Regexp
	hits  int
}

func loadProposed() []*proposed {
	var out []*proposed
	for _, name := range []string{"known_findings.add.json", "known_findings.round2.add.json"} {
		b, err := os.ReadFile(filepath.Join(ev.Dir(), "checks", "c08", name))
		if err != nil {
			continue
		}
		var f struct {
			Findings []*proposed `json:"findings"`
		}
		if err := json.Unmarshal(b, &f); err != nil {
			fmt.Fprintln(os.Stderr, name+":", err)
			os.Exit(2)
		}
		for _, p := range f.Findings {
			p.re = regexp.MustCompile(p.Match)
		}
		out = append(out, f.Findings...)
	}
	return out
}

type reporter struct {
	r        *ev.Run
	proposed []*proposed
}

func (rp *reporter) violation(key string, art any) {
	if os.Getenv("C08_NO_PROPOSED") == "" {
		for _, p := range rp.proposed {
			if p.re.MatchString(key) {
				p.hits++
				return
			}
		}
	}
	rp.r.Violation(key, art)
}

func replay(path string) {
	raw, err := os.ReadFile(path)
	if err != nil {
		fmt.Fprintln(os.Stderr, "replay:", err)
		os.Exit(2)
	}
	var rec struct {
		Key      string          `json:"key"`
		Artefact json.RawMessage `json:"artefact"`
	}
	if err := json.Unmarshal(raw, &rec); err != nil {
		fmt.Fprintln(os.Stderr, "replay:", err)
		os.Exit(2)
	}
	var lvl struct {
		Level string `json:"level"`
	}
	_ = json.Unmarshal(rec.Artefact, &lvl)
	var keys []string
	switch lvl.Level {
	case "e2e":
		var c e2eCase
		if err := json.Unmarshal(rec.Artefact, &c); err != nil {
			fmt.Fprintln(os.Stderr, "replay:", err)
			os.Exit(2)
		}
		run := driveEngine(c.Engine, "quick", &c)
		if run.Err != nil {
			fmt.Fprintln(os.Stderr, "C08 harness error:", run.Err)
			os.Exit(2)
		}
		for _, v := range run.Crashes {
			keys = append(keys, v.Key)
		}
		for _, v := range run.Rep.Violations {
			keys = append(keys, v.Key)
		}
	case "unit":
		var c unitCase
		if err := json.Unmarshal(rec.Artefact, &c); err != nil {
			fmt.Fprintln(os.Stderr, "replay:", err)
			os.Exit(2)
		}
		ur := runUnit(true, &unitCase{Check: c.Check})
		for _, v := range ur.Violations {
			keys = append(keys, v.Key)
		}
	default:
		fmt.Fprintln(os.Stderr, "replay: unknown artefact level", lvl.Level)
		os.Exit(2)
	}
	for _, k := range keys {
		if k == rec.Key {
			fmt.Printf("REPLAY: still failing: %s\n", rec.Key)
			os.Exit(1)
		}
	}
	fmt.Printf("REPLAY: %s does not fail any more (%d other violation keys in the replayed case)\n", rec.Key, len(keys))
	os.Exit(0)
}

func main() {
	_ = logger.Init(logger.Logging{Env: "prod", Level: "fatal"})
	if jp := os.Getenv(e2eJobEnv); jp != "" {
		e2eWorker(jp)
		return
	}
	if p := ev.Arg("--replay"); p != "" {
		replay(p)
		return
	}
	r := ev.New("C08", "exploration")
	rp := &reporter{r: r, proposed: loadProposed()}
	nontrivial, outcomes := 0, 0
	levels := map[string]any{}
	var samples []any

	// ---- level 2: units (in-process)
	if os.Getenv("C08_ONLY") != "e2e" {
		ur := runUnit(ev.Thorough(), nil)
		for _, v := range ur.Violations {
			rp.violation(v.Key, v.Art)
		}
		r.Add("evaluations", ur.Evals)
		nontrivial += ur.NonTrivial
		outcomes += ur.Outcomes
		levels["unit"] = ur.PerCheck
		samples = append(samples, ur.Samples...)
		for _, ne := range ur.NotExhaustive {
			r.NotExhaustive(ne)
		}
		if p := os.Getenv("C08_DUMP"); p != "" {
			b, _ := json.MarshalIndent(ur, "", " ")
			_ = os.WriteFile(p+".unit", b, 0o644)
		}
	}

	// ---- level 1: one worker (= one server) per engine, in parallel
	engines := []string{"stream", "measure", "trace"}
	if ev.Thorough() {
		// the row execution path of every engine as well (the default is the vectorized path)
		engines = append(engines, "stream-row", "measure-row", "trace-row")
	}
	if e := os.Getenv("C08_ENGINES"); e != "" {
		engines = strings.Split(e, ",")
	}
	if os.Getenv("C08_ONLY") == "unit" {
		engines = nil
	}
	runs := make([]engineRun, len(engines))
	var wg sync.WaitGroup
	for i, n := range engines {
		wg.Add(1)
		go func(i int, n string) {
			defer wg.Done()
			runs[i] = driveEngine(n, ev.Tier(), nil)
		}(i, n)
	}
	wg.Wait()
	rejections := map[string]int{}
	e2eLevels := map[string]any{}
	for _, run := range runs {
		if run.Err != nil {
			fmt.Fprintln(os.Stderr, "C08 harness error:", run.Err)
			os.Exit(2)
		}
		for _, v := range run.Crashes {
			rp.violation(v.Key, v.Artefact)
		}
		for _, v := range run.Rep.Violations {
			rp.violation(v.Key, v.Artefact)
		}
		r.Add("evaluations", run.Rep.Evaluations)
		nontrivial += run.Rep.NonTrivial
		outcomes += run.Rep.Outcomes
		samples = append(samples, run.Rep.Samples...)
		for k, n := range run.Rep.Rejections {
			rejections[k] += n
		}
		for _, c := range run.Rep.Caps {
			r.NotExhaustive(c)
		}
		if n := run.Rep.PerEngine[run.Name]["skipped_after_crash"]; n > 0 && !ev.Thorough() {
			// quick tier: after a crash the whole (operator, binding) class is skipped, also on tags that were not tried
			r.NotExhaustive(fmt.Sprintf("%s: %d evaluations not sent: their (operator, binding) class crashed the server on another tag (the thorough tier tries every tag)", run.Name, n))
		}
		pe := map[string]any{"server_restarts_after_crash": run.Restarts, "parts": run.Rep.Parts, "stored_rows": run.Rep.Stored, "distinct_result_sets": run.Rep.Outcomes}
		for k, v := range run.Rep.PerEngine[run.Name] {
			pe[k] = v
		}
		e2eLevels[run.Name] = pe
		fmt.Printf("e2e %s: server restarts after crash=%d requests=%d evaluations=%d judged(B)=%d nontrivial=%d distinct result sets=%d parts=%v times=%v\n",
			run.Name, run.Restarts, run.Rep.Requests, run.Rep.Evaluations, run.Rep.Judged, run.Rep.NonTrivial, run.Rep.Outcomes, run.Rep.Parts, run.Rep.Times)
	}
	if len(runs) > 0 {
		levels["e2e"] = e2eLevels
	}
	if p := os.Getenv("C08_DUMP"); p != "" {
		b, _ := json.MarshalIndent(runs, "", " ")
		_ = os.WriteFile(p, b, 0o644)
	}

	// ---- evidence
	var known []map[string]any
	for _, p := range rp.proposed {
		if p.hits > 0 {
			fmt.Printf("KNOWN-FINDING: property=C08 %s (matched %d violation keys of /%s/; proposed in checks/c08/known_findings*.add.json)\n", p.What, p.hits, p.Match)
			known = append(known, map[string]any{"what": p.What, "violation_keys": p.hits})
		}
	}
	if len(known) > 0 {
		r.Set("proposed_known_findings_hit", known)
	}
	r.Set("distinct_nontrivial", nontrivial)
	r.Set("distinct_outcomes", outcomes)
	r.Set("rule", "e2e: a request is non-trivial when its reference answer (brute force over the stored rows; for unjudged operators the answer of the first binding) is neither empty nor every row of the time window; unit: a case is non-trivial when the structure prunes something but not everything (block filters, part/block selection) or the inserted set is a proper subset of the alphabet (bloom/dictionary)")
	r.Set("levels", levels)
	// rejections: requests a binding refused (recorded, not judged), top classes
	type rj struct {
		K string
		N int
	}
	var rjs []rj
	for k, n := range rejections {
		rjs = append(rjs, rj{k, n})
	}
	sort.Slice(rjs, func(i, j int) bool { return rjs[i].N > rjs[j].N || rjs[i].N == rjs[j].N && rjs[i].K < rjs[j].K })
	total := 0
	top := map[string]int{}
	for i, x := range rjs {
		total += x.N
		if i < 40 {
			top[x.K] = x.N
		}
	}
	r.Set("rejected_evaluations", total)
	r.Set("rejection_classes", len(rjs))
	r.Set("rejections_top", top)
	for i, s := range samples {
		if i < 8 {
			r.Sample(s)
		}
	}
	r.Assume("time range ends are inclusive (every engine implements [begin,end]; the proto comment says [begin,end))")
	r.Assume("NE / NOT_IN / NOT_HAVING are the complements of EQ / IN / HAVING on stored values, a null stored value satisfies only the negated operators (the semantics of the in-scan tag filter, i.e. of a tag without any index)")
	r.Assume("HAVING = the stored array contains ALL listed elements (api/proto model/v1 query.proto, docs filter-operation.md)")
	r.Assume("stream parts rewritten by a merge are modelled at unit level by writing the block without the write-time index flag (banyand/stream/merger.go re-encodes columns through tag.mustWriteTo with empty uniqueValues/min/max)")
	r.Finish()
}
