// C08 parent side of the e2e level: one worker subprocess (= one server) per engine; a worker that dies is a finding
// (the request in flight crashed the server), after which the operator/binding class is skipped and the worker restarted.
package main

import (
	"bufio"
	"encoding/json"
	"fmt"
	"os"
	"path/filepath"
	"sort"
	"strings"

	"github.com/apache/skywalking-banyandb/pkg/verif/e2e"
)

const maxRestarts = 24

type engineRun struct {
	Name     string
	Rep      *e2eReport
	Crashes  []e2eViolation
	Restarts int
	Err      error
}

func tail(b []byte, n int) string {
	if len(b) > n {
		b = b[len(b)-n:]
	}
	return string(b)
}

// panicHead extracts "panic: ..." and the repository frames of the crashing goroutine from a worker's output.
func panicHead(out []byte) []string {
	var head []string
	sc := bufio.NewScanner(strings.NewReader(string(out)))
	sc.Buffer(make([]byte, 1<<20), 1<<26)
	in := false
	for sc.Scan() {
		l := sc.Text()
		if strings.HasPrefix(l, "panic:") || strings.HasPrefix(l, "fatal error:") {
			in = true
			head = append(head, l)
			continue
		}
		if !in {
			continue
		}
		if strings.HasPrefix(l, "github.com/apache/skywalking-banyandb/") {
			if i := strings.LastIndex(l, "("); i > 0 {
				l = l[:i]
			}
			head = append(head, strings.TrimPrefix(l, "github.com/apache/skywalking-banyandb/"))
		}
		if strings.HasPrefix(l, "created by") || len(head) >= 6 {
			break
		}
	}
	return head
}

// removeServerDir deletes the data directory a dead worker left behind (first line of its progress file).
func removeServerDir(progress string) {
	b, err := os.ReadFile(progress)
	if err != nil {
		return
	}
	first, _, _ := strings.Cut(string(b), "\n")
	if d, ok := strings.CutPrefix(first, "D /dev/shm/verif-e2e-"); ok {
		_ = os.RemoveAll("/dev/shm/verif-e2e-" + d)
	}
}

func inflight(progress string) [][2]int {
	f, err := os.Open(progress)
	if err != nil {
		return nil
	}
	defer f.Close()
	open := map[[2]int]bool{}
	sc := bufio.NewScanner(f)
	for sc.Scan() {
		var ev string
		var r, c int
		if n, _ := fmt.Sscanf(sc.Text(), "%s %d %d", &ev, &r, &c); n != 3 {
			continue
		}
		if ev == "B" {
			open[[2]int{r, c}] = true
		} else {
			delete(open, [2]int{r, c})
		}
	}
	var out [][2]int
	for k := range open {
		out = append(out, k)
	}
	sort.Slice(out, func(i, j int) bool { return out[i][0] < out[j][0] || out[i][0] == out[j][0] && out[i][1] < out[j][1] })
	return out
}

// driveEngine runs one engine to completion, restarting its worker after every server crash.
func driveEngine(name, tier string, replay *e2eCase) engineRun {
	res := engineRun{Name: name}
	dir := fmt.Sprintf("/dev/shm/c08-%d-%s", os.Getpid(), name)
	if err := os.MkdirAll(dir, 0o755); err != nil {
		res.Err = err
		return res
	}
	defer os.RemoveAll(dir)
	en, _ := engineByName(name)
	job := e2eJob{Tier: tier, Engine: name, Out: filepath.Join(dir, "report.json"), Progress: filepath.Join(dir, "progress"), Replay: replay}
	reqs := requestsOf(en, job)
	lastFirst := ""
	for attempt := 0; attempt <= maxRestarts; attempt++ {
		jp := filepath.Join(dir, "job.json")
		b, _ := json.Marshal(job)
		if err := os.WriteFile(jp, b, 0o644); err != nil {
			res.Err = err
			return res
		}
		_ = os.Remove(job.Out)
		_ = os.Remove(job.Progress)
		out, err := e2e.Spawn(e2eJobEnv + "=" + jp)
		if err == nil {
			raw, rerr := os.ReadFile(job.Out)
			if rerr != nil {
				res.Err = fmt.Errorf("%s worker wrote no report: %w\n%s", name, rerr, tail(out, 30000))
				return res
			}
			res.Rep = &e2eReport{}
			res.Err = json.Unmarshal(raw, res.Rep)
			return res
		}
		removeServerDir(job.Progress)
		fl := inflight(job.Progress)
		head := panicHead(out)
		if len(fl) == 0 || len(head) == 0 {
			res.Err = fmt.Errorf("%s worker failed outside a request: %w\n%s", name, err, tail(out, 30000))
			return res
		}
		res.Restarts++
		if len(fl) > 1 {
			// several requests were in flight: run them one at a time first in the next worker
			seen := map[int]bool{}
			job.First = nil
			for _, k := range fl {
				if !seen[k[0]] {
					seen[k[0]] = true
					job.First = append(job.First, k[0])
				}
			}
			key := fmt.Sprint(job.First)
			if key == lastFirst {
				res.Err = fmt.Errorf("%s worker: crash not reproducible with the suspects %v run one at a time\n%s", name, job.First, tail(out, 30000))
				return res
			}
			lastFirst = key
			continue
		}
		rq, cfg := reqs[fl[0][0]], en.Configs[fl[0][1]]
		if rq.T == nil {
			res.Err = fmt.Errorf("%s worker crashed on a criteria-less request: %w\n%s", name, err, tail(out, 30000))
			return res
		}
		atoms := []atom{rq.T.L}
		if rq.T.R != nil {
			atoms = append(atoms, *rq.T.R)
		}
		var shape []string
		for _, a := range atoms {
			bind := cfg.bindOf([]string{a.Tag})[len(a.Tag)+1:]
			sr := skipRule{Op: int32(a.Op), Bind: bind}
			if tier == "thorough" {
				sr.Tag = a.Tag // thorough: only atoms that were themselves seen to crash the server are skipped
			}
			job.Skip = append(job.Skip, sr)
			shape = append(shape, a.Tag+"."+opName[a.Op]+"@"+bind)
		}
		art := e2eCase{Level: "e2e", Engine: name, Label: rq.label(), Tree: toTreeJSON(*rq.T), Win: [2]int64{rq.W.From, rq.W.To},
			Detail: map[string]any{"oracle": "server must survive a query", "config": cfg.Name, "panic": head}}
		res.Crashes = append(res.Crashes, e2eViolation{
			Key:      fmt.Sprintf("e2e/%s/crash/%s", name, strings.Join(shape, "+")),
			Artefact: art,
		})
		job.First = nil
	}
	res.Err = fmt.Errorf("%s worker: more than %d restarts", name, maxRestarts)
	return res
}
