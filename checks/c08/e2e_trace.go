// C08 e2e, trace: the same 12 spans (11 traces; 3 flushed batches) under three schemas that differ only in the tree
// (sidx) index rule, i.e. in HOW a criteria tag is evaluated:
//
//	t_plain  rule r = [dur]      a, b are ordinary sidx tags (per-block tag filters of the secondary index)
//	t_ent    rule r = [a, dur]   a is the series prefix of the rule (entity lookup), b an ordinary sidx tag
//	t_key    rule r = [b]        b is the ordering key of the rule (key range), a an ordinary sidx tag
//
// Every criteria query is ordered by rule r (the trace engine demands an order for non-trace-id criteria); queries by
// trace id need no order. Row = span; the two spans of the only two-span trace carry the same a/b, so "a trace is
// returned as a whole" (C13's business) cannot blur the comparison.
package main

import (
	"fmt"

	"google.golang.org/grpc/codes"

	modelv1 "github.com/apache/skywalking-banyandb/api/proto/banyandb/model/v1"
	tracev1 "github.com/apache/skywalking-banyandb/api/proto/banyandb/trace/v1"
	"github.com/apache/skywalking-banyandb/pkg/verif/e2e"
)

var traceTags = []string{"trace_id", "svc", "a", "b", "dur"}

func traceConfigs() []config {
	return []config{
		{Name: "t_plain", Bind: map[string]string{"trace_id": "traceid", "a": "sidxtag", "b": "sidxtag"}},
		{Name: "t_ent", Bind: map[string]string{"trace_id": "traceid", "a": "entity", "b": "sidxtag"}},
		{Name: "t_key", Bind: map[string]string{"trace_id": "traceid", "a": "sidxtag", "b": "key"}},
	}
}

func traceGroup(c config) string { return "c08" + c.Name }

var traceRule = map[string][]string{"t_plain": {"dur"}, "t_ent": {"a", "dur"}, "t_key": {"b"}}

var traceBatches = [][2]int64{{0, 3000}, {4000, 7000}, {8000, 11000}}

type trow struct {
	tid string
	a   *modelv1.TagValue
	b   int64
}

// traceRows: span i at instant i*1000 ms, dur = 10*(i+1) (distinct). a has collisions, an empty string and nulls; b has
// collisions and negative values; spans 2 and 9 belong to the same trace (in different parts) and agree on a and b.
func traceRows() []trow {
	n := e2e.Null
	return []trow{
		{"tr00", e2e.Str("k"), -5}, {"tr01", n(), 7}, {"tr02", e2e.Str("m"), 7}, {"tr03", e2e.Str("m"), 0},
		{"tr04", e2e.Str("t"), 0}, {"tr05", e2e.Str("k"), 100}, {"tr06", e2e.Str(""), 7}, {"tr07", e2e.Str("m"), 8},
		{"tr08", e2e.Str("k"), 100}, {"tr02", e2e.Str("m"), 7}, {"tr10", n(), 8}, {"tr11", e2e.Str("t"), -5},
	}
}

func loadTraces(s *e2e.Server, rep *e2eReport) {
	// one group per schema: a trace table whose group holds several tree rules panics in its introducer loop
	// ("current snapshot is nil in PrepareFlushed") when a flush happens before every rule's sidx has received data;
	// outside C08, see NOTES.md
	for _, c := range traceConfigs() {
		s.CreateGroup(traceGroup(c), catalogOf["trace"], 1, 1, 3)
	}
	tags := []e2e.Tag{
		{Name: "trace_id", Type: e2e.TStr}, {Name: "span_id", Type: e2e.TStr}, {Name: "ts", Type: e2e.TTime},
		{Name: "svc", Type: e2e.TStr}, {Name: "a", Type: e2e.TStr}, {Name: "b", Type: e2e.TInt}, {Name: "dur", Type: e2e.TInt},
	}
	for _, c := range traceConfigs() {
		s.CreateTrace(traceGroup(c), c.Name, tags, "trace_id", "span_id", "ts", e2e.Index{Name: c.Name + "_r", Tags: traceRule[c.Name], Type: e2e.ITree})
	}
	rows := traceRows()
	for b := 0; b < 3; b++ {
		for _, c := range traceConfigs() {
			var spans []*tracev1.WriteRequest
			for i := b * 4; i < b*4+4; i++ {
				r := rows[i]
				spans = append(spans, &tracev1.WriteRequest{
					Tags: []*modelv1.TagValue{
						e2e.Str(r.tid), e2e.Str(fmt.Sprintf("sp%02d", i)), e2e.Time(e2e.At(int64(i) * 1000)),
						e2e.Str("svc"), r.a, e2e.Int(r.b), e2e.Int(int64(10 * (i + 1))),
					},
					Span: []byte(fmt.Sprintf("span-%02d", i)),
				})
			}
			s.WriteTrace(traceGroup(c), c.Name, spans)
		}
		for _, c := range traceConfigs() {
			s.WaitFlushed("trace", traceGroup(c))
		}
	}
	rep.Parts["trace_loaded"], _ = s.Parts(groupOf["trace"])
}

func queryTrace(s *e2e.Server, c config, crit *modelv1.Criteria, w window) ([]outRow, codes.Code, string) {
	req := &tracev1.QueryRequest{
		Groups: []string{traceGroup(c)}, Name: c.Name, TimeRange: e2e.Range(w.From, w.To), Criteria: crit, Limit: bigLimit,
		TagProjection: append([]string{"ts"}, traceTags...),
	}
	// criteria made of trace-id conditions only go down the trace-id path (part pruning by traceID.filter, no order);
	// everything else must be ordered by the tree rule
	if !onlyTraceID(crit) {
		req.OrderBy = &modelv1.QueryOrder{IndexRuleName: c.Name + "_r", Sort: modelv1.Sort_SORT_ASC}
	}
	resp, code, msg := s.QueryTrace(req)
	if code != codes.OK {
		return nil, code, msg
	}
	var out []outRow
	for _, tr := range resp.GetTraces() {
		for _, sp := range tr.GetSpans() {
			r := outRow{Ts: -1, Tags: map[string]*modelv1.TagValue{}}
			for _, t := range sp.GetTags() {
				if t.GetKey() == "ts" {
					if ts := t.GetValue().GetTimestamp(); ts != nil {
						r.Ts = ts.AsTime().Sub(e2e.Base()).Milliseconds()
					}
					continue
				}
				r.Tags[t.GetKey()] = t.GetValue()
			}
			out = append(out, r)
		}
	}
	return out, codes.OK, ""
}

func onlyTraceID(c *modelv1.Criteria) bool {
	if c == nil {
		return false
	}
	if cond := c.GetCondition(); cond != nil {
		return cond.GetName() == "trace_id"
	}
	if le := c.GetLe(); le != nil {
		return onlyTraceID(le.GetLeft()) && onlyTraceID(le.GetRight())
	}
	return false
}

func traceAtoms() []atom {
	var out []atom
	for _, al := range []tagAlphabet{
		strAlphabet("a", []string{"k", "m", "t"}, []string{"a", "l", "z"}, true),
		intAlphabet("b", []int64{-5, 0, 7, 8, 100}, true),
		entityAlphabet("trace_id", []string{"tr00", "tr02", "tr11"}, "tr99"),
	} {
		out = append(out, atomsOf(al)...)
	}
	return out
}

func traceCore(thorough bool) []atom {
	all := traceAtoms()
	quick := []string{
		`a.EQ(s:"k")`, `a.NE(s:"m")`, `a.IN(sa:["k","t"])`, `b.EQ(i:7)`, `b.LT(i:0)`, `b.GE(i:100)`, `b.NOT_IN(ia:[7,100])`,
		`trace_id.EQ(s:"tr00")`, `trace_id.IN(sa:["tr00","tr11"])`,
	}
	if !thorough {
		return pick(all, quick...)
	}
	return pick(all, append(quick,
		`a.EQ(s:"l")`, `a.LT(s:"m")`, `a.GE(s:"m")`, `a.NOT_IN(sa:["a","m"])`, `b.NE(i:7)`, `b.LE(i:7)`, `b.GT(i:7)`, `b.IN(ia:[7,100])`,
		`b.EQ(i:6)`, `trace_id.EQ(s:"tr99")`,
	)...)
}

func traceRequests(thorough bool) []request {
	full := window{0, horizonMs, ""}
	var out []request
	atoms := traceAtoms()
	for i := range atoms {
		out = append(out, request{T: &tree{L: atoms[i]}, W: full, Class: "depth1"})
	}
	for _, t := range depth2(traceCore(thorough)) {
		t := t
		out = append(out, request{T: &t, W: full, Class: "depth2"})
	}
	wc := pick(atoms, `b.GE(i:7)`, `a.NE(s:"m")`, `trace_id.IN(sa:["tr00","tr11"])`, `a.EQ(s:"k")`)
	if !thorough {
		wc = wc[:2]
	}
	for _, w := range windowsFor(traceBatches) {
		// the time range of an ordered trace query selects segments and parts only (no span is filtered by its
		// timestamp tag): windows are compared across the schemas, not against the brute force
		out = append(out, request{W: w, Class: "window", NoB: true})
		for i := range wc {
			out = append(out, request{T: &tree{L: wc[i]}, W: w, Class: "window", NoB: true})
		}
	}
	return out
}

func traceEngine() engine {
	return engine{Name: "trace", TagOrder: traceTags, Configs: traceConfigs(), Requests: traceRequests, Query: queryTrace, RowUnit: "span"}
}
