// C08 unit level, stream: per-block tag filters (.tff: bloom / dictionary), tag min/max and partIter.findBlock with the
// real compiled skipping filter. Every block content over a small alphabet x every probe; every two-block layout of a
// series. Oracle: a block that holds a row satisfying the predicate must be yielded (pruning may only over-approximate).
package main

import (
	"fmt"
	"strings"

	commonv1 "github.com/apache/skywalking-banyandb/api/proto/banyandb/common/v1"
	databasev1 "github.com/apache/skywalking-banyandb/api/proto/banyandb/database/v1"
	modelv1 "github.com/apache/skywalking-banyandb/api/proto/banyandb/model/v1"
	"github.com/apache/skywalking-banyandb/banyand/stream"
	"github.com/apache/skywalking-banyandb/pkg/index"
	lstream "github.com/apache/skywalking-banyandb/pkg/query/logical/stream"
	"github.com/apache/skywalking-banyandb/pkg/verif/e2e"
)

type unitType struct {
	Name   string
	Type   databasev1.TagType
	Values []*modelv1.TagValue // alphabet of stored values (incl. null)
	Atoms  []atom
}

func unitTypes() []unitType {
	n := e2e.Null()
	ints := tagAlphabet{Tag: stream.VC08Tag, Kind: "int"}
	for _, v := range []int64{-3, -2, -1, 0, 1, 2, 3, 4} {
		c := miss(e2e.Int(v))
		if v == -2 || v == 0 || v == 3 {
			c = hit(e2e.Int(v))
		}
		ints.Scalars = append(ints.Scalars, c)
	}
	ints.Sets = []cst{hit(e2e.IntArr(-2)), hit(e2e.IntArr(0, 3)), miss(e2e.IntArr(5)), hit(e2e.IntArr(5, -2)), {e2e.IntArr(), "empty"}}
	strs := tagAlphabet{Tag: stream.VC08Tag, Kind: "str"}
	for _, v := range []string{"", "a", "k", "l", "m", "z"} {
		c := miss(e2e.Str(v))
		if v == "k" || v == "m" {
			c = hit(e2e.Str(v))
		}
		if v == "" {
			c.Class = "empty"
		}
		strs.Scalars = append(strs.Scalars, c)
	}
	strs.Sets = []cst{hit(e2e.StrArr("k")), hit(e2e.StrArr("k", "m")), miss(e2e.StrArr("q")), hit(e2e.StrArr("q", "m")), {e2e.StrArr(), "empty"}}
	sa := tagAlphabet{Tag: stream.VC08Tag, Kind: "strarr", Sets: []cst{
		hit(e2e.StrArr("x")), hit(e2e.StrArr("x", "y")), hit(e2e.StrArr("y", "x")), miss(e2e.StrArr("w")), miss(e2e.StrArr("x", "w")),
		{e2e.StrArr(), "empty"}, {e2e.Str("x"), "hit-scalar"},
	}}
	ia := tagAlphabet{Tag: stream.VC08Tag, Kind: "intarr", Sets: []cst{
		hit(e2e.IntArr(1)), hit(e2e.IntArr(1, 2)), hit(e2e.IntArr(2, 1)), miss(e2e.IntArr(9)), miss(e2e.IntArr(1, 9)),
		{e2e.IntArr(), "empty"}, {e2e.Int(1), "hit-scalar"},
	}}
	return []unitType{
		{"int", e2e.TInt, []*modelv1.TagValue{n, e2e.Int(-2), e2e.Int(0), e2e.Int(3)}, atomsOf(ints)},
		{"str", e2e.TStr, []*modelv1.TagValue{n, e2e.Str(""), e2e.Str("k"), e2e.Str("m")}, atomsOf(strs)},
		{"strarr", e2e.TStrA, []*modelv1.TagValue{n, e2e.StrArr(), e2e.StrArr("x"), e2e.StrArr("x", "y")}, atomsOf(sa)},
		{"intarr", e2e.TIntA, []*modelv1.TagValue{n, e2e.IntArr(), e2e.IntArr(1), e2e.IntArr(1, 2)}, atomsOf(ia)},
	}
}

func unitStreamSchema(t databasev1.TagType) (*databasev1.Stream, []*databasev1.IndexRule) {
	sm := &databasev1.Stream{
		Metadata: &commonv1.Metadata{Group: "g", Name: "s"},
		Entity:   &databasev1.Entity{TagNames: []string{"svc"}},
		TagFamilies: []*databasev1.TagFamilySpec{{Name: stream.VC08Family, Tags: []*databasev1.TagSpec{
			{Name: "svc", Type: e2e.TStr}, {Name: stream.VC08Tag, Type: t},
		}}},
	}
	rules := []*databasev1.IndexRule{{Metadata: &commonv1.Metadata{Group: "g", Name: "r", Id: 7}, Tags: []string{stream.VC08Tag}, Type: e2e.ISkip}}
	return sm, rules
}

// sequences of length 1..maxLen over the alphabet
func sequences(al []*modelv1.TagValue, maxLen int) [][]*modelv1.TagValue {
	var out [][]*modelv1.TagValue
	cur := [][]*modelv1.TagValue{{}}
	for l := 1; l <= maxLen; l++ {
		var next [][]*modelv1.TagValue
		for _, p := range cur {
			for _, v := range al {
				s := append(append([]*modelv1.TagValue{}, p...), v)
				next = append(next, s)
			}
		}
		out = append(out, next...)
		cur = next
	}
	return out
}

func renderSeq(s []*modelv1.TagValue) string {
	p := make([]string, len(s))
	for i, v := range s {
		p[i] = render(v)
	}
	return "[" + strings.Join(p, " ") + "]"
}

// contentClass summarises a block content for the violation key: which kinds of values it holds.
func contentClass(s []*modelv1.TagValue) string {
	null, neg, empty, val := false, false, false, false
	for _, v := range s {
		switch {
		case isNull(v):
			null = true
		case v.GetInt() != nil && v.GetInt().GetValue() < 0:
			neg = true
		case v.GetStr() != nil && v.GetStr().GetValue() == "", v.GetStrArray() != nil && len(v.GetStrArray().GetValue()) == 0,
			v.GetIntArray() != nil && len(v.GetIntArray().GetValue()) == 0:
			empty = true
		default:
			val = true
		}
	}
	var p []string
	for _, x := range []struct {
		b bool
		n string
	}{{null, "null"}, {neg, "neg"}, {empty, "empty"}, {val, "val"}} {
		if x.b {
			p = append(p, x.n)
		}
	}
	return strings.Join(p, "+")
}

type unitCase struct {
	Level string   `json:"level"` // "unit"
	Check string   `json:"check"`
	Type  string   `json:"type,omitempty"`
	Atom  atomJSON `json:"atom,omitempty"`
	Data  any      `json:"data,omitempty"`
	Note  string   `json:"note,omitempty"`
}

type unitSink struct {
	evals, nontrivial int
	outcomes          map[string]bool
	viol              func(key string, art unitCase)
	samples           []any
	notExh            []string
}

func (u *unitSink) outcome(s string) { u.outcomes[s] = true }

// unitStreamBlocks: single-block parts (every content) and two-block series (every pair of short contents).
func unitStreamBlocks(u *unitSink, thorough bool, only *unitCase) {
	maxLen := 2
	if thorough {
		maxLen = 3
	}
	for _, ut := range unitTypes() {
		if only != nil && only.Type != ut.Name {
			continue
		}
		sm, rules := unitStreamSchema(ut.Type)
		type probe struct {
			a      atom
			f      index.Filter
			reject string
		}
		var probes []probe
		for _, a := range ut.Atoms {
			if only != nil && toAtomJSON(a) != only.Atom {
				continue
			}
			f, err := lstream.VC08LocalFilter(a.crit(), sm, rules, e2e.ISkip)
			p := probe{a: a, f: f}
			if err != nil {
				p.reject = err.Error()
			}
			probes = append(probes, p)
		}
		mode := "fresh"
		check := func(layout string, blocks []stream.VC08Block) {
			vp, err := stream.VC08Build(ut.Type, mode == "fresh", blocks)
			if err != nil {
				u.viol(fmt.Sprintf("unit/stream/build/%s", ut.Name), unitCase{Level: "unit", Check: "stream-blocks", Type: ut.Name, Data: layout, Note: err.Error()})
				return
			}
			defer vp.Release()
			ids := vp.Blocks()
			for _, p := range probes {
				if p.reject != "" {
					u.outcome("reject")
					continue
				}
				u.evals++
				got, err := vp.Select([]uint64{1, 2}, -1<<40, 1<<40, p.f)
				if err != nil {
					if !strings.HasPrefix(err.Error(), "panic") {
						// the filter refuses the request (e.g. a range over strings): a rejection, recorded, not judged
						u.outcome("error: " + opName[p.a.Op])
						continue
					}
					cls := "panic"
					u.outcome(cls)
					u.viol(fmt.Sprintf("unit/stream/blockfilter/%s/%s/%s/%s", mode, ut.Name, opName[p.a.Op], cls),
						unitCase{Level: "unit", Check: "stream-blocks", Type: ut.Name, Atom: toAtomJSON(p.a), Data: layout, Note: err.Error()})
					continue
				}
				sel := map[stream.VC08BlockID]bool{}
				for _, g := range got {
					sel[g] = true
				}
				pruned := 0
				for bi, b := range blocks {
					must, judged := false, true
					for _, v := range b.Vals {
						ok, j := evalAtom(v, p.a)
						if !j {
							judged = false
							break
						}
						must = must || ok
					}
					if !judged {
						continue
					}
					if !sel[ids[bi]] {
						pruned++
					}
					if must && !sel[ids[bi]] {
						// who lost it: the per-block filter itself, or the iterator around it?
						cause := "iterator"
						func() {
							defer func() {
								if r := recover(); r != nil {
									cause = "filter-panic"
								}
							}()
							vp.WithFilterOp(bi, func(op index.FilterOp) {
								if skip, err := p.f.ShouldSkip(op); err != nil {
									cause = "filter-error"
								} else if skip {
									cause = "filter"
								}
							})
						}()
						u.viol(fmt.Sprintf("unit/stream/blockfilter/%s/%s/%s[%s]/%s/content=%s/cause=%s", mode, ut.Name, opName[p.a.Op], p.a.Class, vp.FilterKind(bi), contentClass(b.Vals), cause),
							unitCase{Level: "unit", Check: "stream-blocks", Type: ut.Name, Atom: toAtomJSON(p.a), Data: layout,
								Note: fmt.Sprintf("block %d %s holds a row satisfying %s but was not yielded (%s)", bi+1, renderSeq(b.Vals), p.a.label(), cause)})
					}
				}
				if pruned > 0 && pruned < len(blocks) || len(blocks) == 1 && pruned == 1 {
					u.nontrivial++
				}
				u.outcome(fmt.Sprintf("%s %s pruned=%d/%d", mode, ut.Name, pruned, len(blocks)))
			}
		}
		seqs := sequences(ut.Values, maxLen)
		for _, s := range seqs {
			ts := make([]int64, len(s))
			for i := range ts {
				ts[i] = int64(i + 1)
			}
			check("single "+renderSeq(s), []stream.VC08Block{{Sid: 1, Ts: ts, Vals: s}})
		}
		// the same contents as a part rewritten by a merge (flush of several memory parts, background merge): the merger
		// re-encodes the columns without the write-time unique values and min/max (tag.mustWriteTo with an empty
		// uniqueValues/min/max), modelled by writing the block with indexed=false
		mode = "rewritten"
		for _, s := range seqs {
			ts := make([]int64, len(s))
			for i := range ts {
				ts[i] = int64(i + 1)
			}
			check("rewritten "+renderSeq(s), []stream.VC08Block{{Sid: 1, Ts: ts, Vals: s}})
		}
		mode = "fresh"
		// series 1 = two blocks, series 2 = one block: every triple of one-value contents; thorough: two-value contents
		// for the first block as well
		first := sequences(ut.Values, 1)
		if thorough {
			first = sequences(ut.Values, 2)
		}
		ones := sequences(ut.Values, 1)
		for _, a := range first {
			for _, b := range ones {
				for _, c := range ones {
					tsA := []int64{1, 2}[:len(a)]
					check(fmt.Sprintf("s1:%s,%s s2:%s", renderSeq(a), renderSeq(b), renderSeq(c)), []stream.VC08Block{
						{Sid: 1, Ts: tsA, Vals: a}, {Sid: 1, Ts: []int64{10}, Vals: b}, {Sid: 2, Ts: []int64{5}, Vals: c},
					})
				}
			}
		}
		if ut.Name == "str" && only == nil {
			// dictionary boundary: 255 / 256 / 257 distinct values in one block (<= 256: dictionary encoded, the
			// dictionary is the filter; more: plain + bloom); every stored value must keep its block
			for _, n := range []int{255, 256, 257} {
				var vals []*modelv1.TagValue
				var ts []int64
				for i := 0; i < n; i++ {
					vals = append(vals, e2e.Str(fmt.Sprintf("v%03d", i)))
					ts = append(ts, int64(i+1))
				}
				vp, err := stream.VC08Build(ut.Type, true, []stream.VC08Block{{Sid: 1, Ts: ts, Vals: vals}})
				if err != nil {
					u.viol("unit/stream/build/str", unitCase{Level: "unit", Check: "stream-blocks", Type: "str", Data: n, Note: err.Error()})
					continue
				}
				kind := vp.FilterKind(0)
				u.outcome(fmt.Sprintf("str block with %d distinct values: %s", n, kind))
				for i := 0; i < n; i++ {
					a := atom{stream.VC08Tag, opEQ, vals[i], "hit"}
					f, err := lstream.VC08LocalFilter(a.crit(), sm, rules, e2e.ISkip)
					if err != nil {
						continue
					}
					u.evals++
					got, err := vp.Select([]uint64{1}, -1<<40, 1<<40, f)
					if err != nil || len(got) != 1 {
						u.viol(fmt.Sprintf("unit/stream/blockfilter/fresh/str/EQ[hit]/%s/distinct=%d", kind, n),
							unitCase{Level: "unit", Check: "stream-blocks", Type: "str", Atom: toAtomJSON(a), Data: n, Note: fmt.Sprintf("value %d of %d distinct values lost its block (%v)", i, n, err)})
						break
					}
				}
				u.nontrivial++
				vp.Release()
			}
		}
		if len(u.samples) < 2 {
			u.samples = append(u.samples, map[string]any{"level": "unit", "check": "stream-blocks", "type": ut.Name, "contents": len(seqs), "probes": len(probes), "example": renderSeq(seqs[len(seqs)-1])})
		}
	}
}
