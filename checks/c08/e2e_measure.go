// C08 e2e, measure: the same 12 data points (12 series, one point each, 3 flushed batches) under
//
//	m_none  no index rule: criteria may only name the entity tag (everything else is rejected: "mandatory index rule")
//	m_inv   a, b covered by inverted rules (series index), not index mode
//
// No array tag: a STRING_ARRAY tag that lives in the series index of a measure (inverted rule, or any array tag of an
// index-mode measure) makes every query that projects it panic in mustDecodeTagValue ("unmarshalVarArray failed") — a
// read-back defect outside C08, see NOTES.md.
//
//	m_idx   index_mode measure (every tag lives in the series index; no fields)
//
// In a measure an indexed tag is stored ONLY in the per-series index document (banyand/measure/write_standalone.go
// handleTagFamily), i.e. it is a series attribute; the data keeps indexed tags constant per series (one point per series).
package main

import (
	"fmt"

	"google.golang.org/grpc/codes"

	measurev1 "github.com/apache/skywalking-banyandb/api/proto/banyandb/measure/v1"
	modelv1 "github.com/apache/skywalking-banyandb/api/proto/banyandb/model/v1"
	"github.com/apache/skywalking-banyandb/pkg/verif/e2e"
)

var measureTags = []string{"svc", "a", "b"}

func measureConfigs() []config {
	return []config{
		{Name: "m_none", Bind: map[string]string{"svc": "entity", "a": "none", "b": "none"}},
		{Name: "m_inv", Bind: map[string]string{"svc": "entity", "a": "inv", "b": "inv"}},
		{Name: "m_idx", Bind: map[string]string{"svc": "idxmode", "a": "idxmode", "b": "idxmode"}},
	}
}

var measureBatches = [][2]int64{{0, 3000}, {4000, 7000}, {8000, 11000}}

func loadMeasures(s *e2e.Server, rep *e2eReport) {
	g := groupOf["measure"]
	s.CreateGroup(g, catalogOf["measure"], 1, 1, 3)
	fam := []e2e.Family{{Name: "d", Tags: []e2e.Tag{
		{Name: "svc", Type: e2e.TStr}, {Name: "a", Type: e2e.TStr}, {Name: "b", Type: e2e.TInt},
	}}}
	rules := func(name string, tags ...string) []e2e.Index {
		var out []e2e.Index
		for _, t := range tags {
			out = append(out, e2e.Index{Name: name + "_" + t, Tags: []string{t}, Type: e2e.IInv})
		}
		return out
	}
	s.CreateMeasure(g, "m_none", []string{"svc"}, fam, []e2e.Field{{Name: "v", Type: e2e.FInt}}, false)
	s.CreateMeasure(g, "m_inv", []string{"svc"}, fam, []e2e.Field{{Name: "v", Type: e2e.FInt}}, false, rules("m_inv", "a", "b")...)
	s.CreateMeasure(g, "m_idx", []string{"svc"}, fam, nil, true, rules("m_idx", "a", "b")...)
	rows := streamRows()
	for b := 0; b < 3; b++ {
		for _, c := range measureConfigs() {
			var dps []*measurev1.DataPointValue
			for i := b * 4; i < b*4+4; i++ {
				r := rows[i]
				dp := &measurev1.DataPointValue{
					Timestamp:   e2e.At(int64(i) * 1000),
					TagFamilies: []*modelv1.TagFamilyForWrite{e2e.TF(e2e.Str(fmt.Sprintf("m%02d", i)), r.a, r.b)},
					Version:     1,
				}
				if c.Name != "m_idx" {
					dp.Fields = []*modelv1.FieldValue{e2e.FI(int64(i))}
				}
				dps = append(dps, dp)
			}
			s.WriteMeasure(g, c.Name, dps)
		}
		s.WaitFlushed("measure", g)
	}
	rep.Parts["measure_loaded"], _ = s.Parts(g)
}

func queryMeasure(s *e2e.Server, c config, crit *modelv1.Criteria, w window) ([]outRow, codes.Code, string) {
	resp, code, msg := s.QueryMeasure(&measurev1.QueryRequest{
		Groups: []string{groupOf["measure"]}, Name: c.Name, TimeRange: e2e.Range(w.From, w.To), Criteria: crit, Limit: bigLimit,
		TagProjection: &modelv1.TagProjection{TagFamilies: []*modelv1.TagProjection_TagFamily{{Name: "d", Tags: measureTags}}},
	})
	if code != codes.OK {
		return nil, code, msg
	}
	var out []outRow
	for _, dp := range resp.GetDataPoints() {
		r := outRow{Ts: dp.GetTimestamp().AsTime().Sub(e2e.Base()).Milliseconds(), Tags: map[string]*modelv1.TagValue{}}
		for _, tf := range dp.GetTagFamilies() {
			for _, t := range tf.GetTags() {
				r.Tags[t.GetKey()] = t.GetValue()
			}
		}
		out = append(out, r)
	}
	return out, codes.OK, ""
}

func measureAtoms() []atom {
	var out []atom
	for _, al := range []tagAlphabet{
		strAlphabet("a", []string{"k", "m", "t"}, []string{"a", "l", "z"}, true),
		intAlphabet("b", []int64{-5, 0, 7, 8, 100}, true),
		entityAlphabet("svc", []string{"m00", "m05", "m11"}, "m99"),
	} {
		out = append(out, atomsOf(al)...)
	}
	out = append(out, atom{"svc", opNE, e2e.Str("m00"), "hit"})
	return out
}

func measureCore(thorough bool) []atom {
	all := measureAtoms()
	quick := []string{
		`a.EQ(s:"k")`, `a.NE(s:"m")`, `a.IN(sa:["k","t"])`, `b.EQ(i:7)`, `b.LT(i:0)`, `b.GE(i:100)`, `b.NOT_IN(ia:[7,100])`,
		`svc.EQ(s:"m00")`, `svc.IN(sa:["m00","m11"])`,
	}
	if !thorough {
		return pick(all, quick...)
	}
	return pick(all, append(quick,
		`a.EQ(s:"l")`, `a.LT(s:"m")`, `a.GE(s:"m")`, `a.NOT_IN(sa:["a","m"])`, `b.NE(i:7)`, `b.LE(i:7)`, `b.GT(i:7)`, `b.IN(ia:[7,100])`,
		`b.EQ(i:6)`, `svc.EQ(s:"m99")`, `a.MATCH(s:"k")`,
	)...)
}

func measureRequests(thorough bool) []request {
	full := window{0, horizonMs, ""}
	var out []request
	atoms := measureAtoms()
	for i := range atoms {
		out = append(out, request{T: &tree{L: atoms[i]}, W: full, Class: "depth1"})
	}
	for _, t := range depth2(measureCore(thorough)) {
		t := t
		out = append(out, request{T: &t, W: full, Class: "depth2"})
	}
	wc := pick(atoms, `svc.IN(sa:["m00","m11"])`, `b.GE(i:7)`, `a.NE(s:"m")`, `a.EQ(s:"k")`)
	if !thorough {
		wc = wc[:2]
	}
	for _, w := range windowsFor(measureBatches) {
		out = append(out, request{W: w, Class: "window"})
		for i := range wc {
			out = append(out, request{T: &tree{L: wc[i]}, W: w, Class: "window"})
		}
	}
	return out
}

func measureEngine() engine {
	return engine{Name: "measure", TagOrder: measureTags, Configs: measureConfigs(), Requests: measureRequests, Query: queryMeasure, RowUnit: "data point"}
}
