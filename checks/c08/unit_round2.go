// C08 round 2 — three more exhaustive unit enumerations (see NOTES-round2.md):
//   - measure-straddle: measure parts with several primary (index) blocks whose SERIES HAVE SEVERAL BLOCKS, every phase of
//     the series/primary-block alignment, probed around every primary-block boundary (searchPBM / findBlock);
//   - trace-fileparts:  real trace FILE parts reopened with their optional traceID.filter side file present / absent /
//     zero-length, queried by trace id (snapshot.getParts + partIter, and the vectorized pipeline's part selection);
//   - stream-rowplan:   the real row execution plan of a stream query (Analyze -> limit(tagFilter(indexScan))) over every
//     layout of storage batches (which batch holds a matching row) x limit x offset.
package main

import (
	"context"
	"fmt"
	"os"
	"sort"
	"strings"
	"time"

	"google.golang.org/protobuf/types/known/timestamppb"

	"github.com/apache/skywalking-banyandb/api/common"
	commonv1 "github.com/apache/skywalking-banyandb/api/proto/banyandb/common/v1"
	databasev1 "github.com/apache/skywalking-banyandb/api/proto/banyandb/database/v1"
	modelv1 "github.com/apache/skywalking-banyandb/api/proto/banyandb/model/v1"
	streamv1 "github.com/apache/skywalking-banyandb/api/proto/banyandb/stream/v1"
	"github.com/apache/skywalking-banyandb/banyand/measure"
	"github.com/apache/skywalking-banyandb/banyand/trace"
	"github.com/apache/skywalking-banyandb/pkg/query/executor"
	"github.com/apache/skywalking-banyandb/pkg/query/logical"
	lstream "github.com/apache/skywalking-banyandb/pkg/query/logical/stream"
	"github.com/apache/skywalking-banyandb/pkg/query/model"
	vstream "github.com/apache/skywalking-banyandb/pkg/query/vectorized/stream"
	"github.com/apache/skywalking-banyandb/pkg/verif/e2e"
)

// ---------------------------------------------------------------------------------------------------------------
// measure: multi-block series x primary-block boundaries

// unitMeasureStraddle: parts of ~4000 blocks (several primary blocks; the real limit is 128 KiB of block metadata per
// primary block) in which every series has k blocks (k = 2, 3; disjoint ascending intervals [2j, 2j+1]), preceded by
// p = 0..5 single-block series so that every alignment of "series start" against "primary block start" occurs. Where a
// primary block boundary falls is read back from the part (PrimaryBlockSids); a boundary "straddles" when the last block
// of primary block i-1 and the first of primary block i belong to the same series. For every boundary: every series
// set built from the series around it x every time range over the block intervals: the real partIter yields exactly the
// blocks of the requested series that meet the range.
func unitMeasureStraddle(u *unitSink, thorough bool, _ *unitCase) {
	total := 4000
	straddles, clean := 0, 0
	for _, k := range []int{2, 3} {
		for p := 0; p <= 5; p++ {
			var blocks []measure.VC08Block
			sid := uint64(0)
			for i := 0; i < p; i++ {
				sid += 2
				blocks = append(blocks, measure.VC08Block{Sid: sid, Ts: []int64{0, 1}})
			}
			for len(blocks) < total {
				sid += 2
				for j := 0; j < k; j++ {
					blocks = append(blocks, measure.VC08Block{Sid: sid, Ts: []int64{int64(2 * j), int64(2*j + 1)}})
				}
			}
			lastSid := sid
			tag := fmt.Sprintf("k=%d", k)
			data := fmt.Sprintf("%d single-block series, then series of %d blocks [2j,2j+1] up to %d blocks; sids even", p, k, total)
			vp, err := measure.VC08Build(blocks)
			if err != nil {
				u.viol("unit/measure/straddle/build", unitCase{Level: "unit", Check: "measure-straddle", Data: data, Note: err.Error()})
				continue
			}
			prim, err := vp.PrimaryBlockSids()
			if err != nil {
				u.viol("unit/measure/straddle/read-primary", unitCase{Level: "unit", Check: "measure-straddle", Data: data, Note: err.Error()})
				vp.Release()
				continue
			}
			bySid := map[uint64][][2]int64{}
			for _, b := range blocks {
				bySid[b.Sid] = append(bySid[b.Sid], [2]int64{b.Ts[0], b.Ts[len(b.Ts)-1]})
			}
			var ranges [][2]int64
			ranges = append(ranges, [2]int64{-1, 99}, [2]int64{0, 0}, [2]int64{int64(2*k - 1), int64(2*k - 1)})
			for j := 0; j < k; j++ {
				ranges = append(ranges, [2]int64{int64(2 * j), int64(2*j + 1)})
				if j > 0 {
					ranges = append(ranges, [2]int64{int64(2*j - 1), int64(2 * j)}, [2]int64{int64(2 * j), 99})
				}
			}
			u.outcome(fmt.Sprintf("%s primary blocks: %d", tag, len(prim)))
			for i := 1; i < len(prim); i++ {
				f := prim[i][0]
				l := prim[i-1][len(prim[i-1])-1]
				straddle := f == l
				if straddle {
					straddles++
				} else {
					clean++
				}
				var sets [][]uint64
				for _, d := range []int64{-4, -3, -2, -1, 0, 1, 2} {
					if s := int64(f) + d; s >= 1 {
						sets = append(sets, []uint64{uint64(s)})
					}
				}
				sets = append(sets, []uint64{2, f}, []uint64{f, lastSid}, []uint64{f - 2, f}, []uint64{f, f + 2}, []uint64{f - 2, f, f + 2},
					[]uint64{f - 1, f}, []uint64{f - 4, f}, []uint64{2, f - 2, f, lastSid})
				for _, ss := range sets {
					ss = sortedUnique(ss)
					for _, q := range ranges {
						u.evals++
						got, err := vp.Select(ss, q[0], q[1])
						if err != nil {
							u.viol(fmt.Sprintf("unit/measure/partIter/straddle/%s/error", tag),
								unitCase{Level: "unit", Check: "measure-straddle", Data: fmt.Sprint(data, " sids=", ss, " range=", q), Note: err.Error()})
							continue
						}
						sel := map[[3]int64]int{}
						for _, g := range got {
							sel[[3]int64{int64(g.Sid), g.MinTs, g.MaxTs}]++
						}
						want := 0
						for _, s := range ss {
							for _, iv := range bySid[s] {
								if iv[0] <= q[1] && q[0] <= iv[1] {
									want++
									kk := [3]int64{int64(s), iv[0], iv[1]}
									if sel[kk] == 0 {
										u.viol(fmt.Sprintf("unit/measure/partIter/straddle/%s/missing/series-continues-from-previous-primary-block=%v", tag, straddle && s == f),
											unitCase{Level: "unit", Check: "measure-straddle", Data: fmt.Sprint(data, " sids=", ss, " range=", q),
												Note: fmt.Sprintf("primary block %d starts with series %d (previous one ends with series %d): block sid=%d [%d,%d] not yielded", i, f, l, s, iv[0], iv[1])})
									}
									delete(sel, kk)
								}
							}
						}
						if len(sel) > 0 {
							u.viol(fmt.Sprintf("unit/measure/partIter/straddle/%s/extra", tag),
								unitCase{Level: "unit", Check: "measure-straddle", Data: fmt.Sprint(data, " sids=", ss, " range=", q), Note: fmt.Sprintf("yielded although not requested: %v", sel)})
						}
						if want > 0 {
							u.nontrivial++
						}
						u.outcome(fmt.Sprintf("%s straddle=%v yields %d", tag, straddle, len(got)))
					}
				}
			}
			vp.Release()
		}
	}
	u.outcome(fmt.Sprintf("straddling boundaries present: %v", straddles > 0))
	if straddles == 0 || clean == 0 {
		u.notExh = append(u.notExh, fmt.Sprintf("measure-straddle: the 12 part layouts produced %d primary-block boundaries inside a series and %d between two series; both kinds are needed", straddles, clean))
	}
	u.samples = append(u.samples, map[string]any{"level": "unit", "check": "measure-straddle", "blocks_per_part": total, "blocks_per_series": []int{2, 3}, "phases": 6,
		"boundaries_straddled_by_a_series": straddles, "boundaries_between_series": clean})
	fmt.Printf("unit measure-straddle: primary-block boundaries straddled by a series=%d, between two series=%d\n", straddles, clean)
}

// ---------------------------------------------------------------------------------------------------------------
// trace: file parts with / without the traceID.filter side file

// unitTraceFileParts: two file parts (part 0: fixed content {a}, always with its filter; part 1: every non-empty subset
// of {a,b,c}, trace c with two spans) x side-file state of part 1 {present, absent, empty} x every id list over
// {a,b,c,z} (15 non-empty subsets + none) x 3 time ranges. Oracle: a part that stores a requested trace id inside the
// time range is selected by snapshot.getParts and the partIter finds every stored span of that trace; the vectorized
// pipeline's part selection keeps every part that stores a requested id (ids attributed by the ordered index to the
// part itself, to the other part, or to a part that left the snapshot).
func unitTraceFileParts(u *unitSink, thorough bool, _ *unitCase) {
	ids := []string{"a", "b", "c", "z"}
	var idLists [][]string
	for m := 0; m < 16; m++ {
		var l []string
		for i, id := range ids {
			if m&(1<<i) != 0 {
				l = append(l, id)
			}
		}
		idLists = append(idLists, l)
	}
	base, err := os.MkdirTemp("/dev/shm", "c08-fileparts-")
	if err != nil {
		base, err = os.MkdirTemp("", "c08-fileparts-")
		if err != nil {
			u.viol("unit/trace/fileparts/tmpdir", unitCase{Level: "unit", Check: "trace-fileparts", Note: err.Error()})
			return
		}
	}
	defer os.RemoveAll(base)
	n := 0
	for m := 1; m < 8; m++ {
		var spans1 []trace.VC08Span
		stored1 := map[string]uint64{}
		for i, id := range ids[:3] {
			if m&(1<<i) != 0 {
				spans1 = append(spans1, trace.VC08Span{TraceID: id, Ts: 10 + int64(i)})
				stored1[id]++
				if id == "c" {
					spans1 = append(spans1, trace.VC08Span{TraceID: id, Ts: 13})
					stored1[id]++
				}
			}
		}
		for _, side := range []string{"present", "absent", "empty"} {
			n++
			root := fmt.Sprintf("%s/%d", base, n)
			if err := os.MkdirAll(root, 0o755); err != nil {
				u.viol("unit/trace/fileparts/tmpdir", unitCase{Level: "unit", Check: "trace-fileparts", Note: err.Error()})
				return
			}
			specs := []trace.VC08FilePartSpec{
				{Spans: []trace.VC08Span{{TraceID: "a", Ts: 10}}, SideFile: "present"},
				{Spans: spans1, SideFile: side},
			}
			data := fmt.Sprintf("part0={a@10} filter present; part1=%v filter %s", spans1, side)
			fp, err := trace.VC08OpenFileParts(root, specs)
			if err != nil {
				u.viol(fmt.Sprintf("unit/trace/fileparts/open/filter=%s", side), unitCase{Level: "unit", Check: "trace-fileparts", Data: data, Note: err.Error()})
				continue
			}
			stored := []map[string]uint64{{"a": 1}, stored1}
			u.outcome(fmt.Sprintf("filter %s -> attached=%v", side, fp.HasFilter()[1]))
			for _, q := range idLists {
				for _, tr := range [][2]int64{{0, 100}, {10, 13}, {14, 100}} {
					u.evals++
					sel, found, err := fp.Query(q, tr[0], tr[1])
					if err != nil {
						u.viol(fmt.Sprintf("unit/trace/fileparts/getParts+partIter/filter=%s/error", side),
							unitCase{Level: "unit", Check: "trace-fileparts", Data: fmt.Sprint(data, " ids=", q, " range=", tr), Note: err.Error()})
						continue
					}
					selected := map[int]bool{}
					for _, s := range sel {
						selected[s] = true
					}
					inRange := tr[0] <= 13 && 10 <= tr[1]
					for pi := range stored {
						holds := false
						for _, id := range q {
							if stored[pi][id] > 0 && inRange {
								holds = true
								if !selected[pi] {
									u.viol(fmt.Sprintf("unit/trace/fileparts/getParts/filter=%s/part-with-requested-trace-pruned", sideOf(pi, side)),
										unitCase{Level: "unit", Check: "trace-fileparts", Data: fmt.Sprint(data, " ids=", q, " range=", tr),
											Note: fmt.Sprintf("part %d stores trace %q but snapshot.getParts dropped it", pi, id)})
								} else if got := found[fmt.Sprintf("%d/%s", pi, id)]; got != stored[pi][id] {
									u.viol(fmt.Sprintf("unit/trace/fileparts/partIter/filter=%s/spans-lost", sideOf(pi, side)),
										unitCase{Level: "unit", Check: "trace-fileparts", Data: fmt.Sprint(data, " ids=", q, " range=", tr),
											Note: fmt.Sprintf("part %d stores %d spans of trace %q, found %d", pi, stored[pi][id], id, got)})
								}
							}
						}
						if len(q) > 0 && !holds && !selected[pi] {
							u.nontrivial++
						}
					}
					u.outcome(fmt.Sprintf("filter=%s selected=%d", side, len(sel)))
				}
				if len(q) == 0 {
					continue
				}
				// vectorized pipeline: who the ordered index says owns the ids
				for _, owner := range []int{0, 1, -1} {
					u.evals++
					got, err := fp.SelectVectorized(map[int][]string{owner: q})
					if err != nil {
						cls := "error"
						if strings.HasPrefix(err.Error(), "panic") {
							cls = "panic"
						}
						u.viol(fmt.Sprintf("unit/trace/fileparts/selectVectorized/filter=%s/%s", side, cls),
							unitCase{Level: "unit", Check: "trace-fileparts", Data: fmt.Sprint(data, " ids=", q, " attributed-to-part=", owner), Note: err.Error()})
						continue
					}
					for pi := range stored {
						for _, id := range q {
							if stored[pi][id] == 0 {
								continue
							}
							ok := false
							for _, g := range got[pi] {
								ok = ok || g == id
							}
							if !ok {
								u.viol(fmt.Sprintf("unit/trace/fileparts/selectVectorized/filter=%s/stored-trace-not-asked-from-part", sideOf(pi, side)),
									unitCase{Level: "unit", Check: "trace-fileparts", Data: fmt.Sprint(data, " ids=", q, " attributed-to-part=", owner),
										Note: fmt.Sprintf("part %d stores trace %q but the selection does not read it from that part (got %v)", pi, id, got)})
							}
						}
					}
					u.outcome(fmt.Sprintf("vec filter=%s parts=%d", side, len(got)))
				}
			}
			fp.Close()
		}
	}
	u.samples = append(u.samples, map[string]any{"level": "unit", "check": "trace-fileparts", "part_contents": 7, "side_file_states": 3, "id_lists": len(idLists), "ranges": 3})
}

func sideOf(pi int, side string) string {
	if pi == 0 {
		return "present"
	}
	return side
}

// ---------------------------------------------------------------------------------------------------------------
// stream: the row execution plan over storage batches

type c08Batch []int // per row: 1 = satisfies the criteria, 0 = does not; an empty batch = a result without rows

type c08FakeResult struct {
	batches []c08Batch
	next    int
	id      uint64
	pulls   int
}

func (f *c08FakeResult) Pull(context.Context) *model.StreamResult {
	if f.next >= len(f.batches) {
		return nil
	}
	b := f.batches[f.next]
	f.next++
	f.pulls++
	r := &model.StreamResult{}
	vals := make([]*modelv1.TagValue, 0, len(b))
	svc := make([]*modelv1.TagValue, 0, len(b))
	for _, v := range b {
		f.id++
		r.Timestamps = append(r.Timestamps, int64(f.id)*int64(time.Millisecond))
		r.ElementIDs = append(r.ElementIDs, f.id)
		r.SIDs = append(r.SIDs, common.SeriesID(1))
		vals = append(vals, e2e.Int(int64(v)))
		svc = append(svc, e2e.Str("s"))
	}
	r.TagFamilies = []model.TagFamily{{Name: "d", Tags: []model.Tag{{Name: "svc", Values: svc}, {Name: "b", Values: vals}}}}
	return r
}
func (f *c08FakeResult) Release() {}

type c08FakeEC struct{ res *c08FakeResult }

func (e *c08FakeEC) Query(context.Context, model.StreamQueryOptions) (model.StreamQueryResult, error) {
	return e.res, nil
}

func (e *c08FakeEC) QueryVectorized(context.Context, model.StreamQueryOptions) (executor.StreamVecScanSource, error) {
	return nil, fmt.Errorf("c08: the row plan must not ask for a vectorized scan")
}
func (e *c08FakeEC) VectorizedConfig() vstream.VectorizedConfig { return vstream.VectorizedConfig{} }

// unitStreamRowPlan: the stream row plan built by the real Analyze for `b = 1` on a tag WITHOUT an index rule (the
// criteria is evaluated by the plan's tag filter), executed the way the query processor does (one Execute call), over a
// storage result that hands out its rows in every sequence of 1..4 (thorough 5) batches, each batch one of
// {no rows, [0], [1], [0,0], [0,1], [1,0], [1,1]} (1 = the row satisfies the criteria) x limit {1, 2, 100} x offset
// {0, 1}. Oracle: the answer holds only satisfying rows, no duplicates, and exactly min(limit, max(0, satisfying - offset))
// of them; with limit 100 it is exactly the set of satisfying rows.
func unitStreamRowPlan(u *unitSink, thorough bool, _ *unitCase) {
	sm := &databasev1.Stream{
		Metadata: &commonv1.Metadata{Group: "g", Name: "s"},
		Entity:   &databasev1.Entity{TagNames: []string{"svc"}},
		TagFamilies: []*databasev1.TagFamilySpec{{Name: "d", Tags: []*databasev1.TagSpec{
			{Name: "svc", Type: e2e.TStr}, {Name: "b", Type: e2e.TInt},
		}}},
	}
	s, err := lstream.BuildSchema(sm, nil)
	if err != nil {
		u.viol("unit/stream/rowplan/schema", unitCase{Level: "unit", Check: "stream-rowplan", Note: err.Error()})
		return
	}
	options := []c08Batch{{}, {0}, {1}, {0, 0}, {0, 1}, {1, 0}, {1, 1}}
	maxBatches := 4
	if thorough {
		maxBatches = 5
	}
	var layouts [][]c08Batch
	cur := [][]c08Batch{{}}
	for l := 1; l <= maxBatches; l++ {
		var next [][]c08Batch
		for _, p := range cur {
			for _, o := range options {
				next = append(next, append(append([]c08Batch{}, p...), o))
			}
		}
		layouts = append(layouts, next...)
		cur = next
	}
	a := atom{Tag: "b", Op: opEQ, Const: e2e.Int(1), Class: "hit"}
	for _, lay := range layouts {
		total, firstMatchBatch := 0, -1
		for bi, b := range lay {
			for _, v := range b {
				if v == 1 {
					total++
					if firstMatchBatch < 0 {
						firstMatchBatch = bi
					}
				}
			}
		}
		for _, lim := range []uint32{1, 2, 100} {
			for _, off := range []uint32{0, 1} {
				u.evals++
				req := &streamv1.QueryRequest{
					Groups: []string{"g"}, Name: "s", Limit: lim, Offset: off, Criteria: a.crit(),
					TimeRange:  &modelv1.TimeRange{Begin: timestamppb.New(time.Unix(0, 0)), End: timestamppb.New(time.Unix(1000, 0))},
					Projection: &modelv1.TagProjection{TagFamilies: []*modelv1.TagProjection_TagFamily{{Name: "d", Tags: []string{"svc", "b"}}}},
				}
				fr := &c08FakeResult{batches: lay}
				art := unitCase{Level: "unit", Check: "stream-rowplan", Atom: toAtomJSON(a), Data: fmt.Sprintf("batches=%v limit=%d offset=%d", lay, lim, off)}
				got, err := runRowPlan(req, sm.Metadata, s, &c08FakeEC{res: fr})
				if err != nil {
					art.Note = err.Error()
					u.viol("unit/stream/rowplan/error", art)
					continue
				}
				want := total - int(off)
				if want < 0 {
					want = 0
				}
				if want > int(lim) {
					want = int(lim)
				}
				seen := map[string]bool{}
				bad, dup := 0, 0
				for _, e := range got {
					if seen[e.ElementId] {
						dup++
					}
					seen[e.ElementId] = true
					v := int64(-1)
					for _, tf := range e.TagFamilies {
						for _, t := range tf.Tags {
							if t.Key == "b" {
								v = t.Value.GetInt().GetValue()
							}
						}
					}
					if v != 1 {
						bad++
					}
				}
				where := "first-batch-has-a-match"
				if firstMatchBatch > 0 {
					where = "earlier-batch-without-a-match"
				}
				switch {
				case bad > 0:
					art.Note = fmt.Sprintf("%d returned rows do not satisfy b = 1", bad)
					u.viol("unit/stream/rowplan/no-index/extra", art)
				case dup > 0:
					art.Note = fmt.Sprintf("%d duplicate rows", dup)
					u.viol("unit/stream/rowplan/no-index/duplicate", art)
				case len(got) < want:
					art.Note = fmt.Sprintf("%d rows satisfy b = 1, the answer must hold %d, holds %d (storage batches pulled: %d of %d)", total, want, len(got), fr.pulls, len(lay))
					u.viol(fmt.Sprintf("unit/stream/rowplan/no-index/missing/%s", where), art)
				case len(got) > want:
					art.Note = fmt.Sprintf("the answer must hold %d rows, holds %d", want, len(got))
					u.viol("unit/stream/rowplan/no-index/more-than-limit", art)
				}
				if firstMatchBatch > 0 {
					u.nontrivial++
				}
				u.outcome(fmt.Sprintf("rows=%d", len(got)))
			}
		}
	}
	u.samples = append(u.samples, map[string]any{"level": "unit", "check": "stream-rowplan", "batch_layouts": len(layouts), "batch_alphabet": len(options),
		"max_batches": maxBatches, "limits": []int{1, 2, 100}, "offsets": []int{0, 1}})
}

func runRowPlan(req *streamv1.QueryRequest, md *commonv1.Metadata, s logical.Schema, ec executor.StreamExecutionContext) (out []*streamv1.Element, err error) {
	defer func() {
		if r := recover(); r != nil {
			err = fmt.Errorf("panic: %v", r)
		}
	}()
	plan, err := lstream.Analyze(req, []*commonv1.Metadata{md}, []logical.Schema{s}, []executor.StreamExecutionContext{ec})
	if err != nil {
		return nil, err
	}
	se, ok := plan.(executor.StreamExecutable)
	if !ok {
		return nil, fmt.Errorf("plan %T is not executable", plan)
	}
	defer se.Close()
	return se.Execute(context.Background())
}

func sortedUnique(in []uint64) []uint64 {
	out := append([]uint64{}, in...)
	sort.Slice(out, func(i, j int) bool { return out[i] < out[j] })
	n := 0
	for i, v := range out {
		if i == 0 || v != out[n-1] {
			out[n] = v
			n++
		}
	}
	return out[:n]
}
