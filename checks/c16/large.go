package main

import (
	"encoding/json"
	"fmt"
	"os"
	"sort"
	"strings"

	commonv1 "github.com/apache/skywalking-banyandb/api/proto/banyandb/common/v1"
	"github.com/apache/skywalking-banyandb/banyand/metadata/schema"
	"github.com/apache/skywalking-banyandb/pkg/verif/ev"
)

// =====================================================================================================================
// Part L: lookup tables with more than 12 (group, shard) entries.
//
// Part O's topologies have at most 7 entries, below the size at which the selector's sort switches algorithm (slices.Sort
// uses insertion sort up to 12 elements) — seeded change C16-4 (a comparator that is never negative inside a group) is
// invisible there. Part L enumerates, on the same real selector + liaison registry, every learning order of four groups
// with 2..7 shards (14..20 entries in total), every combination of their two configurations, one further event (re-put of
// any group in either configuration, deletion of any group, OnInit listing ascending/descending, or nothing) and three
// positions of the node announcements, and demands what the property states: the table of every history equals the
// table the same code produces for the canonical history of the same final topology, every shard of a known group is
// assigned, and the copies of a shard are on distinct nodes.
// =====================================================================================================================

const (
	lGroups    = 4
	lMaxShards = 7
	lMaxRepl   = 3
)

var (
	lNames    = [lGroups]string{"ga", "gb", "gc", "gd"}
	lShards   = [lGroups][2]int{{5, 6}, {4, 4}, {3, 7}, {2, 3}}
	lReplicas = [lGroups][2]int{{1, 1}, {0, 2}, {2, 0}, {1, 0}}
	lProtos   [lGroups][2]*commonv1.Group
)

type lEvent struct {
	kind    byte // 'p' put, 'd' delete, '<' '>' OnInit, 'n' announce the three nodes
	g, vrnt int
}

func (e lEvent) String() string {
	switch e.kind {
	case 'p':
		return fmt.Sprintf("put:%s(%d,%d)", lNames[e.g], lShards[e.g][e.vrnt], lReplicas[e.g][e.vrnt])
	case 'd':
		return "del:" + lNames[e.g]
	case 'n':
		return "+n1+n2+n3"
	}
	return "init" + string(e.kind)
}

type lFail struct {
	Part    string   `json:"part"`
	Key     string   `json:"key"`
	Detail  string   `json:"detail"`
	History []string `json:"history"`
	Events  []lEvent `json:"-"`
	Raw     [][3]int `json:"events"` // kind, group, variant
}

type lStats struct {
	fails     map[string]*lFail
	histories int
	picks     int
	tables    map[string]struct{}
	topos     map[string]struct{}
}

type lTable [lGroups][lMaxShards][lMaxRepl]byte

func lInit() {
	for g := 0; g < lGroups; g++ {
		for v := 0; v < 2; v++ {
			lProtos[g][v] = &commonv1.Group{
				Metadata:     &commonv1.Metadata{Name: lNames[g], ModRevision: int64(100 + 10*g + v)},
				Catalog:      commonv1.Catalog_CATALOG_MEASURE,
				ResourceOpts: &commonv1.ResourceOpts{ShardNum: uint32(lShards[g][v]), Replicas: uint32(lReplicas[g][v])},
			}
		}
	}
}

// lRun executes one history on a fresh coordinator and returns its table and final topology (variant+1 per group, 0 =
// absent).
func lRun(evs []lEvent) (t lTable, topo [lGroups]int, picks int) {
	in := newInstance(&configs[0])
	for _, e := range evs {
		switch e.kind {
		case 'n':
			for i := 0; i < nNodes; i++ {
				in.nodeH.OnAddOrUpdate(schema.Metadata{TypeMeta: schema.TypeMeta{Kind: schema.KindNode, Name: nodeNames[i]}, Spec: nodeProtos[i]})
			}
		case 'p':
			topo[e.g] = e.vrnt + 1
			gp := lProtos[e.g][e.vrnt]
			in.groupH.OnAddOrUpdate(schema.Metadata{TypeMeta: schema.TypeMeta{Kind: schema.KindGroup, Name: gp.Metadata.Name, ModRevision: gp.Metadata.ModRevision}, Spec: gp})
		case 'd':
			topo[e.g] = 0
			in.groupH.OnDelete(schema.Metadata{TypeMeta: schema.TypeMeta{Kind: schema.KindGroup, Name: lNames[e.g]}, Spec: &commonv1.Group{Metadata: &commonv1.Metadata{Name: lNames[e.g]}, Catalog: commonv1.Catalog_CATALOG_MEASURE}})
		case '<', '>':
			in.repo.groups.list = in.repo.groups.list[:0]
			for i := 0; i < lGroups; i++ {
				g := i
				if e.kind == '>' {
					g = lGroups - 1 - i
				}
				if topo[g] != 0 {
					in.repo.groups.list = append(in.repo.groups.list, lProtos[g][topo[g]-1])
				}
			}
			if ok, _ := in.groupH.OnInit([]schema.Kind{schema.KindGroup}); !ok {
				harnessErr("OnInit([KindGroup]) refused")
			}
		}
	}
	for g := 0; g < lGroups; g++ {
		for s := 0; s < lMaxShards; s++ {
			for r := 0; r < lMaxRepl; r++ {
				if r > 0 && t[g][s][0] >= cellNoNodes {
					t[g][s][r] = t[g][s][0]
					continue
				}
				picks++
				n, err := in.sel.Pick(lNames[g], "", uint32(s), uint32(r))
				if err != nil {
					t[g][s][r] = classifyErr(err)
					continue
				}
				t[g][s][r] = cellAlien
				for i := 0; i < nNodes; i++ {
					if n == nodeNames[i] {
						t[g][s][r] = byte(i + 1)
					}
				}
			}
		}
	}
	return t, topo, picks
}

func lTableString(t lTable, topo [lGroups]int) string {
	var sb strings.Builder
	for g := 0; g < lGroups; g++ {
		if topo[g] == 0 {
			continue
		}
		fmt.Fprintf(&sb, "%s:", lNames[g])
		for s := 0; s < lShards[g][topo[g]-1]; s++ {
			sb.WriteString(" [")
			for r := 0; r <= lReplicas[g][topo[g]-1]; r++ {
				c := t[g][s][r]
				switch {
				case c >= 1 && c <= nNodes:
					sb.WriteString(nodeNames[c-1])
				case c == cellUnknown:
					sb.WriteString("UNKNOWN-SHARD")
				case c == cellNoNodes:
					sb.WriteString("NO-NODES")
				default:
					sb.WriteString("?")
				}
				if r < lReplicas[g][topo[g]-1] {
					sb.WriteString(",")
				}
			}
			sb.WriteString("]")
		}
		sb.WriteString("; ")
	}
	return sb.String()
}

func (st *lStats) fail(key, detail string, evs []lEvent) {
	if f, ok := st.fails[key]; ok && len(f.Events) <= len(evs) {
		return
	}
	f := &lFail{Part: "L", Key: key, Detail: detail, Events: append([]lEvent{}, evs...)}
	for _, e := range evs {
		f.History = append(f.History, e.String())
		f.Raw = append(f.Raw, [3]int{int(e.kind), e.g, e.vrnt})
	}
	st.fails[key] = f
}

// lJudge checks one history against the canonical table of its final topology and the property's clauses.
func lJudge(st *lStats, evs []lEvent, canon map[[lGroups]int]lTable) {
	t, topo, picks := lRun(evs)
	st.histories++
	st.picks += picks
	ct, ok := canon[topo]
	if !ok {
		var cevs []lEvent
		cevs = append(cevs, lEvent{kind: 'n'})
		for g := 0; g < lGroups; g++ {
			if topo[g] != 0 {
				cevs = append(cevs, lEvent{kind: 'p', g: g, vrnt: topo[g] - 1})
			}
		}
		ct, _, _ = lRun(cevs)
		canon[topo] = ct
	}
	st.topos[fmt.Sprint(topo)] = struct{}{}
	st.tables[lTableString(t, topo)] = struct{}{}
	if t != ct {
		st.fail("L/table-differs", "history: "+lTableString(t, topo)+" | canonical history of the same final topology: "+lTableString(ct, topo), evs)
	}
	for g := 0; g < lGroups; g++ {
		if topo[g] == 0 {
			continue
		}
		for s := 0; s < lShards[g][topo[g]-1]; s++ {
			seen := map[byte]bool{}
			for r := 0; r <= lReplicas[g][topo[g]-1]; r++ {
				c := t[g][s][r]
				if c < 1 || c > nNodes {
					st.fail("L/unassigned-shard", fmt.Sprintf("%s shard %d copy %d is not assigned to a node although 3 nodes are live: %s", lNames[g], s, r, lTableString(t, topo)), evs)
					continue
				}
				if seen[c] {
					st.fail("L/replicas-colocated", fmt.Sprintf("%s shard %d has two copies on %s: %s", lNames[g], s, nodeNames[c-1], lTableString(t, topo)), evs)
				}
				seen[c] = true
			}
		}
	}
}

func lPermutations(n int) [][]int {
	var out [][]int
	var rec func(cur []int, used int)
	rec = func(cur []int, used int) {
		if len(cur) == n {
			out = append(out, append([]int{}, cur...))
			return
		}
		for i := 0; i < n; i++ {
			if used&(1<<i) == 0 {
				rec(append(cur, i), used|1<<i)
			}
		}
	}
	rec(nil, 0)
	return out
}

func runPartL() (st *lStats) {
	st = &lStats{fails: map[string]*lFail{}, tables: map[string]struct{}{}, topos: map[string]struct{}{}}
	defer func() {
		if p := recover(); p != nil {
			st.fail("L/panic", fmt.Sprint(p), nil)
		}
	}()
	initProtos()
	lInit()
	canon := map[[lGroups]int]lTable{}
	var extras []lEvent
	extras = append(extras, lEvent{kind: 0}) // nothing
	for g := 0; g < lGroups; g++ {
		extras = append(extras, lEvent{kind: 'p', g: g, vrnt: 0}, lEvent{kind: 'p', g: g, vrnt: 1}, lEvent{kind: 'd', g: g})
	}
	extras = append(extras, lEvent{kind: '<'}, lEvent{kind: '>'})
	for _, perm := range lPermutations(lGroups) {
		for vmask := 0; vmask < 1<<lGroups; vmask++ {
			for _, x := range extras {
				for npos := 0; npos < 3; npos++ { // nodes announced first / after two groups / last
					var evs []lEvent
					for i, g := range perm {
						if (npos == 0 && i == 0) || (npos == 1 && i == 2) {
							evs = append(evs, lEvent{kind: 'n'})
						}
						evs = append(evs, lEvent{kind: 'p', g: g, vrnt: (vmask >> g) & 1})
					}
					if x.kind != 0 {
						evs = append(evs, x)
					}
					if npos == 2 {
						evs = append(evs, lEvent{kind: 'n'})
					}
					lJudge(st, evs, canon)
				}
			}
		}
	}
	return st
}

func reportPartL(r *ev.Run, st *lStats) {
	r.Set("L_histories(4 groups with 14..20 lookup entries: 24 learning orders x 16 configurations x 15 further events x 3 node positions)", st.histories)
	r.Set("L_picks", st.picks)
	r.Set("L_distinct_final_topologies", len(st.topos))
	r.Set("L_distinct_tables", len(st.tables))
	r.Add("states", len(st.tables))
	r.Add("transitions", st.histories)
	r.Add("traces_validated_against_impl", st.histories)
	keys := make([]string, 0, len(st.fails))
	for k := range st.fails {
		keys = append(keys, k)
	}
	sort.Strings(keys)
	for _, k := range keys {
		fmt.Println("part L:", k, "-", firstLineL(st.fails[k].Detail), "- history:", st.fails[k].History)
		r.Violation(k, st.fails[k])
	}
}

func firstLineL(s string) string {
	if i := strings.IndexByte(s, '\n'); i >= 0 {
		s = s[:i]
	}
	if len(s) > 300 {
		s = s[:300]
	}
	return s
}

// replayL re-executes the history of a part-L artefact.
func replayL(raw json.RawMessage) bool {
	var f lFail
	if err := json.Unmarshal(raw, &f); err != nil || f.Part != "L" {
		return false
	}
	initProtos()
	lInit()
	var evs []lEvent
	for _, e := range f.Raw {
		evs = append(evs, lEvent{kind: byte(e[0]), g: e[1], vrnt: e[2]})
	}
	st := &lStats{fails: map[string]*lFail{}, tables: map[string]struct{}{}, topos: map[string]struct{}{}}
	lJudge(st, evs, map[[lGroups]int]lTable{})
	fmt.Println("history:", f.History)
	for k, v := range st.fails {
		fmt.Println("violation:", k, "-", v.Detail)
	}
	if len(st.fails) > 0 {
		os.Exit(1)
	}
	fmt.Println("no violation")
	return true
}
